import DltypeModel.Generated.PydHook
/-!
# Line driver for the regenerated `Gen.unwrapTypeAlias` (run with `lake env lean --run UnwrapRun.lean`).
One typing object per line in prefix notation — `c N` (class), `a N <obj>` (alias with its value), `s <obj> K <obj>×K` (subscripted),
`i <obj> K <obj>×K` (value of an alias subscripted) — answered by `ret <obj>`, `retNone` or `raise`. Used by the correspondence
family `unwrap` of C17 (`harness/checks/unwrapcommon.py`), which decodes real `typing` objects into this notation.
-/
open Dltype.Gen

partial def parseObj : List String → Option (AObj × List String)
  | "c" :: n :: r => n.toNat?.map (fun k => (.cls k, r))
  | "a" :: n :: r => do
    let k ← n.toNat?
    let (v, r) ← parseObj r
    pure (.alias k v, r)
  | tag :: r =>
    if tag == "s" || tag == "i" then do
      let (o, r) ← parseObj r
      match r with
      | k :: r =>
        let k ← k.toNat?
        let rec go (k : Nat) (r : List String) (acc : List AObj) : Option (List AObj × List String) :=
          match k with
          | 0 => some (acc.reverse, r)
          | k + 1 => do
            let (x, r) ← parseObj r
            go k r (x :: acc)
        let (as, r) ← go k r []
        pure ((if tag == "s" then AObj.sub o as else AObj.inst o as), r)
      | [] => none
    else none
  | [] => none

partial def showObj : AObj → String
  | .cls n => s!"c {n}"
  | .alias n v => s!"a {n} {showObj v}"
  | .sub o as => s!"s {showObj o} {as.length}" ++ String.join (as.map (fun a => " " ++ showObj a))
  | .inst o as => s!"i {showObj o} {as.length}" ++ String.join (as.map (fun a => " " ++ showObj a))

def handle (line : String) : String :=
  match parseObj ((line.splitOn " ").filter (· ≠ "")) with
  | some (tp, []) =>
    (match unwrapTypeAlias tp with
     | none => "raise"
     | some none => "retNone"
     | some (some r) => "ret " ++ showObj r)
  | _ => "bad-op"

partial def loop (h : IO.FS.Stream) : IO Unit := do
  let line ← h.getLine
  if line.isEmpty then return ()
  IO.println (handle ((line.replace "\n" "")))
  loop h

def main : IO Unit := do loop (← IO.getStdin)
