import Proofs.Eval
import Proofs.Context
