import Proofs.Eval
import Proofs.Context
import Proofs.Complete
import Proofs.Tokenize
import Proofs.Parse
import Proofs.ParseTop
