import Spec.Grammar
