import Spec.Grammar
import Spec.Config
import Spec.Conforms
