import Spec.Grammar
import Spec.Config
