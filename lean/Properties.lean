import Properties.C05
import Properties.Tables
