import Properties.C01
import Properties.C02
import Properties.C05
import Properties.C16
import Properties.Tables
