import DltypeModel
import Spec
/-!
# The postfix machine computes the value of the tree (C05b)
-/
namespace Dltype.Proofs
open Dltype Dltype.Spec

def EvalResult.isVal : EvalResult → Bool
  | .val _ => true
  | _ => false

theorem runPostfix_int (n : Nat) (rest : List PItem) (stk : List Int) (σ : Scope) :
    runPostfix (.int n :: rest) stk σ = runPostfix rest (Int.ofNat n :: stk) σ := by
  simp [runPostfix]

theorem runPostfix_str_some (x : Name) (v : Int) (rest : List PItem) (stk : List Int) (σ : Scope)
    (h : σ.get? x = some v) :
    runPostfix (.str x :: rest) stk σ = runPostfix rest (v :: stk) σ := by
  simp [runPostfix, h]

theorem runPostfix_str_none (x : Name) (rest : List PItem) (stk : List Int) (σ : Scope)
    (h : σ.get? x = none) :
    runPostfix (.str x :: rest) stk σ = .keyError x := by
  simp [runPostfix, h]

theorem runPostfix_bin_val (o : BinOp) (rest : List PItem) (a b v : Int) (stk : List Int) (σ : Scope)
    (h : evalBin o a b = .val v) :
    runPostfix (.op (.bin o) :: rest) (b :: a :: stk) σ = runPostfix rest (v :: stk) σ := by
  simp [runPostfix, h]

theorem runPostfix_bin_err (o : BinOp) (rest : List PItem) (a b : Int) (stk : List Int) (σ : Scope)
    (h : EvalResult.isVal (evalBin o a b) = false) :
    EvalResult.isVal (runPostfix (.op (.bin o) :: rest) (b :: a :: stk) σ) = false := by
  cases he : evalBin o a b <;> simp_all [runPostfix, EvalResult.isVal]

theorem runPostfix_fn2_val (f : Fn) (hf : f ≠ .isqrt) (rest : List PItem) (a b v : Int) (stk : List Int)
    (σ : Scope) (h : evalFn2 f a b = .val v) :
    runPostfix (.op (.fn f) :: rest) (b :: a :: stk) σ = runPostfix rest (v :: stk) σ := by
  cases f with
  | isqrt => exact absurd rfl hf
  | min => simp [runPostfix, h]
  | max => simp [runPostfix, h]

theorem runPostfix_isqrt_val (rest : List PItem) (b v : Int) (stk : List Int) (σ : Scope)
    (h : evalIsqrt b = .val v) :
    runPostfix (.op (.fn .isqrt) :: rest) (b :: stk) σ = runPostfix rest (v :: stk) σ := by
  simp [runPostfix, h]

theorem runPostfix_isqrt_err (rest : List PItem) (b : Int) (stk : List Int) (σ : Scope)
    (h : EvalResult.isVal (evalIsqrt b) = false) :
    EvalResult.isVal (runPostfix (.op (.fn .isqrt) :: rest) (b :: stk) σ) = false := by
  cases he : evalIsqrt b <;> simp_all [runPostfix, EvalResult.isVal]

/-- the machine, started on the program of a tree whose value is defined, pushes exactly that value -/
theorem runPostfix_post (t : Tree) (σ : Scope) (v : Int) (h : t.eval σ.get? = some v)
    (rest : List PItem) (stk : List Int) :
    runPostfix (t.post ++ rest) stk σ = runPostfix rest (v :: stk) σ := by
  induction t generalizing v rest stk with
  | lit ds =>
    simp only [Tree.eval] at h
    cases h
    simp [Tree.post, runPostfix_int]
  | var x =>
    simp only [Tree.eval] at h
    simp [Tree.post, runPostfix_str_some x v rest stk σ h]
  | grp a ih => exact ih v h rest stk
  | isqrt a ih =>
    simp only [Tree.eval] at h
    cases ha : a.eval σ.get? with
    | none => simp [ha] at h
    | some x =>
      simp only [ha] at h
      split at h
      · cases h
      · cases h
        rename_i hx
        simp only [Tree.post, List.append_assoc]
        rw [ih x ha]
        exact runPostfix_isqrt_val rest x _ stk σ (by simp [evalIsqrt, hx])
  | fn2 f a b iha ihb =>
    simp only [Tree.eval] at h
    cases ha : a.eval σ.get? with
    | none => simp [ha] at h
    | some x =>
      cases hb : b.eval σ.get? with
      | none => simp [ha, hb] at h
      | some y =>
        simp only [ha, hb] at h
        simp only [Tree.post, List.append_assoc]
        rw [iha x ha, ihb y hb]
        cases f with
        | isqrt => cases h
        | min => cases h; exact runPostfix_fn2_val .min (by decide) rest x y _ stk σ (by simp [evalFn2])
        | max => cases h; exact runPostfix_fn2_val .max (by decide) rest x y _ stk σ (by simp [evalFn2])
  | bin o l r ihl ihr =>
    simp only [Tree.eval] at h
    cases hl : l.eval σ.get? with
    | none => simp [hl] at h
    | some a =>
      cases hr : r.eval σ.get? with
      | none => simp [hl, hr] at h
      | some b =>
        simp only [hl, hr] at h
        simp only [Tree.post, List.append_assoc]
        rw [ihl a hl, ihr b hr]
        simp only [List.singleton_append]
        apply runPostfix_bin_val
        cases o with
        | add => cases h; simp [evalBin]
        | sub => cases h; simp [evalBin]
        | mul => cases h; simp [evalBin]
        | div =>
          by_cases hb0 : b = 0
          · simp [hb0] at h
          · simp [hb0] at h; cases h; simp [evalBin, hb0]
        | exp =>
          by_cases hb0 : b < 0
          · simp [hb0] at h
          · simp [hb0] at h; cases h; simp [evalBin, hb0]

/-- … and when the value of the tree is undefined (unbound name, division by zero, square root of a
    negative, negative exponent) the machine does not produce a value -/
theorem runPostfix_post_none (t : Tree) (σ : Scope) (h : t.eval σ.get? = none) (hok : t.FnOK = true)
    (rest : List PItem) (stk : List Int) :
    EvalResult.isVal (runPostfix (t.post ++ rest) stk σ) = false := by
  induction t generalizing rest stk with
  | lit ds => simp [Tree.eval] at h
  | var x =>
    simp only [Tree.eval] at h
    simp [Tree.post, runPostfix_str_none x rest stk σ h, EvalResult.isVal]
  | grp a ih => exact ih h (by simpa [Tree.FnOK] using hok) rest stk
  | isqrt a ih =>
    simp only [Tree.eval] at h
    simp only [Tree.post, List.append_assoc]
    have hoka : a.FnOK = true := by simpa [Tree.FnOK] using hok
    cases ha : a.eval σ.get? with
    | none => exact ih ha hoka _ stk
    | some x =>
      simp only [ha] at h
      split at h
      · rename_i hx
        rw [runPostfix_post a σ x ha]
        exact runPostfix_isqrt_err rest x stk σ (by simp [evalIsqrt, hx, EvalResult.isVal])
      · cases h
  | fn2 f a b iha ihb =>
    simp only [Tree.eval] at h
    simp only [Tree.post, List.append_assoc]
    simp only [Tree.FnOK, Bool.and_eq_true] at hok
    obtain ⟨⟨hf, hoka⟩, hokb⟩ := hok
    cases ha : a.eval σ.get? with
    | none => exact iha ha hoka _ stk
    | some x =>
      rw [runPostfix_post a σ x ha]
      cases hb : b.eval σ.get? with
      | none => exact ihb hb hokb _ _
      | some y =>
        simp only [ha, hb] at h
        cases f with
        | isqrt => simp at hf
        | min => cases h
        | max => cases h
  | bin o l r ihl ihr =>
    simp only [Tree.eval] at h
    simp only [Tree.post, List.append_assoc]
    simp only [Tree.FnOK, Bool.and_eq_true] at hok
    cases hl : l.eval σ.get? with
    | none => exact ihl hl hok.1 _ stk
    | some a =>
      rw [runPostfix_post l σ a hl]
      cases hr : r.eval σ.get? with
      | none => exact ihr hr hok.2 _ _
      | some b =>
        simp only [hl, hr] at h
        rw [runPostfix_post r σ b hr]
        simp only [List.singleton_append]
        apply runPostfix_bin_err
        cases o with
        | add => cases h
        | sub => cases h
        | mul => cases h
        | div =>
          by_cases hb0 : b = 0
          · simp [evalBin, hb0, EvalResult.isVal]
          · simp [hb0] at h
        | exp =>
          by_cases hb0 : b < 0
          · simp [evalBin, hb0, EvalResult.isVal]
          · simp [hb0] at h

/-- C05b: on the program of a tree of the grammar the machine returns a value exactly when the tree has
    one, and then it is that value -/
theorem runPostfix_val_iff (t : Tree) (hok : t.FnOK = true) (σ : Scope) (v : Int) :
    runPostfix t.post [] σ = .val v ↔ t.eval σ.get? = some v := by
  constructor
  · intro h
    cases he : t.eval σ.get? with
    | none =>
      have := runPostfix_post_none t σ he hok [] []
      simp [h, EvalResult.isVal] at this
    | some w =>
      have := runPostfix_post t σ w he [] []
      simp only [List.append_nil] at this
      rw [this] at h
      simp [runPostfix] at h
      rw [h]
  · intro h
    have := runPostfix_post t σ v h [] []
    simp only [List.append_nil] at this
    rw [this]
    simp [runPostfix]

theorem WF_FnOK (t : Tree) (h : t.WF = true) : t.FnOK = true := by
  induction t with
  | lit ds => rfl
  | var x => rfl
  | bin o l r ihl ihr =>
    simp only [Tree.WF, Bool.and_eq_true] at h
    simp [Tree.FnOK, ihl h.1.1.1, ihr h.1.1.2]
  | fn2 f a b iha ihb =>
    simp only [Tree.WF, Bool.and_eq_true] at h
    simp only [Tree.FnOK, Bool.and_eq_true]
    exact ⟨⟨h.1.1, iha h.1.2⟩, ihb h.2⟩
  | isqrt a ih => simpa [Tree.FnOK] using ih (by simpa [Tree.WF] using h)
  | grp a ih => simpa [Tree.FnOK] using ih (by simpa [Tree.WF] using h)

end Dltype.Proofs
