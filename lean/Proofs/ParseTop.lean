import Proofs.Parse
import Proofs.Eval
/-!
# C05a: every string of the documented grammar is accepted and compiled to the post-order of its tree
-/
namespace Dltype.Proofs
open Dltype Dltype.Spec

theorem loop_whole (t : Tree) (hwf : t.WF = true) :
    loop ((toks t).length + 1) (toks t) [] [] = .ok t.post := by
  have h := loop_tree t hwf ((toks t).length + 1) [] [] [] (by omega) (by simp)
  simp only [List.append_nil, List.nil_append] at h
  rw [h]
  have hs := steps_le t
  obtain ⟨m, hm⟩ : ∃ m, (toks t).length + 1 - steps t = m + 1 := ⟨(toks t).length - steps t, by omega⟩
  rw [hm, loop_nil, body_spine]

/-- the names in the program of a tree are its variables -/
theorem post_str_mem_vars (t : Tree) (x : Name) : PItem.str x ∈ t.post ↔ x ∈ t.vars := by
  induction t with
  | lit ds => simp [Tree.post, Tree.vars]
  | var y => simp [Tree.post, Tree.vars]
  | bin o l r ihl ihr => simp [Tree.post, Tree.vars, ihl, ihr]
  | fn2 f a b iha ihb => simp [Tree.post, Tree.vars, iha, ihb]
  | isqrt a ih => simp [Tree.post, Tree.vars, ih]
  | grp a ih => simp [Tree.post, Tree.vars, ih]

theorem vars_ident (t : Tree) (hwf : t.WF = true) : ∀ x ∈ t.vars, isIdent x = true := by
  induction t with
  | lit ds => simp [Tree.vars]
  | var y => simp only [Tree.WF, Bool.and_eq_true] at hwf; simp [Tree.vars, hwf.1]
  | bin o l r ihl ihr =>
    simp only [Tree.WF, Bool.and_eq_true] at hwf
    intro x hx; simp only [Tree.vars, List.mem_append] at hx
    rcases hx with hx | hx
    · exact ihl hwf.1.1.1 x hx
    · exact ihr hwf.1.1.2 x hx
  | fn2 f a b iha ihb =>
    simp only [Tree.WF, Bool.and_eq_true] at hwf
    intro x hx; simp only [Tree.vars, List.mem_append] at hx
    rcases hx with hx | hx
    · exact iha hwf.1.2 x hx
    · exact ihb hwf.2 x hx
  | isqrt a ih => simp only [Tree.WF] at hwf; simpa [Tree.vars] using ih hwf
  | grp a ih => simp only [Tree.WF] at hwf; simpa [Tree.vars] using ih hwf

theorem isIdent_all (s : Name) (h : isIdent s = true) : ∀ c ∈ s, isIdentChar c = true := by
  cases s with
  | nil => simp [isIdent] at h
  | cons c cs =>
    simp only [isIdent, Bool.and_eq_true, List.all_eq_true] at h
    intro d hd
    rcases List.mem_cons.mp hd with rfl | hd
    · simp [isIdentChar, h.1]
    · exact h.2 d hd

/-- the string of a tree that is not a bare variable is not an identifier -/
theorem str_not_ident (t : Tree) (hwf : t.WF = true) (hv : ∀ x, t ≠ .var x) : isIdent t.str = false := by
  cases h : isIdent t.str with
  | false => rfl
  | true =>
    exfalso
    have hall := isIdent_all _ h
    cases t with
    | var x => exact hv x rfl
    | lit ds =>
      simp only [Tree.WF, Bool.and_eq_true, Bool.not_eq_true'] at hwf
      cases ds with
      | nil => simp at hwf
      | cons c cs =>
        simp only [Tree.str, isIdent, Bool.and_eq_true] at h
        have hd : isDigit c = true := by simpa using List.all_eq_true.mp hwf.2 c (by simp)
        have ha := h.1
        simp only [isAlpha, isDigit, Bool.or_eq_true, Bool.and_eq_true, decide_eq_true_eq] at ha hd
        rcases ha with ha | ha
        · have : ('a' : Char) ≤ '9' := Char.le_trans ha.1 hd.2
          revert this; decide
        · have : ('A' : Char) ≤ '9' := Char.le_trans ha.1 hd.2
          revert this; decide
    | bin o l r =>
      have := hall (binChar o) (by simp [Tree.str])
      cases o <;> revert this <;> decide
    | fn2 f a b =>
      have := hall '(' (by simp [Tree.str])
      revert this; decide
    | isqrt a =>
      have := hall '(' (by simp [Tree.str])
      revert this; decide
    | grp a =>
      have := hall '(' (by simp [Tree.str])
      revert this; decide

theorem fnName_no_eq (f : Fn) : ∀ c ∈ fnName f, c ≠ '=' := by
  cases f <;> decide

theorem str_ne_nil (t : Tree) (hwf : t.WF = true) : t.str ≠ [] := by
  cases t with
  | lit ds =>
    simp only [Tree.WF, Bool.and_eq_true, Bool.not_eq_true'] at hwf
    intro h; simp [Tree.str] at h; subst h; simp at hwf
  | var x =>
    simp only [Tree.WF, Bool.and_eq_true] at hwf
    intro h; simp [Tree.str] at h; subst h; simp [isIdent] at hwf
  | bin o l r => simp [Tree.str]
  | fn2 f a b => cases f <;> simp [Tree.str, fnName, kwMin, kwMax, kwIsqrt]
  | isqrt a => simp [Tree.str, kwIsqrt]
  | grp a => simp [Tree.str]

/-- no `=` occurs in the string of a tree -/
theorem str_no_eq (t : Tree) (hwf : t.WF = true) : ∀ c ∈ t.str, c ≠ '=' := by
  induction t with
  | lit ds =>
    simp only [Tree.WF, Bool.and_eq_true] at hwf
    intro c hc heq; subst heq
    have := List.all_eq_true.mp hwf.2 '=' hc
    revert this; decide
  | var x =>
    simp only [Tree.WF, Bool.and_eq_true] at hwf
    intro c hc heq; subst heq
    have := isIdent_all x hwf.1 '=' hc
    revert this; decide
  | bin o l r ihl ihr =>
    simp only [Tree.WF, Bool.and_eq_true] at hwf
    intro c hc
    simp only [Tree.str, List.mem_append, List.mem_singleton] at hc
    rcases hc with (hc | hc) | hc
    · exact ihl hwf.1.1.1 c hc
    · subst hc; cases o <;> decide
    · exact ihr hwf.1.1.2 c hc
  | fn2 f a b iha ihb =>
    simp only [Tree.WF, Bool.and_eq_true] at hwf
    intro c hc
    simp only [Tree.str, List.mem_append, List.mem_singleton] at hc
    rcases hc with ((((hc | hc) | hc) | hc) | hc) | hc
    · exact fnName_no_eq f c hc
    · subst hc; decide
    · exact iha hwf.1.2 c hc
    · subst hc; decide
    · exact ihb hwf.2 c hc
    · subst hc; decide
  | isqrt a ih =>
    simp only [Tree.WF] at hwf
    intro c hc
    simp only [Tree.str, List.mem_append, List.mem_singleton] at hc
    rcases hc with ((hc | hc) | hc) | hc
    · exact fnName_no_eq .isqrt c hc
    · subst hc; decide
    · exact ih hwf c hc
    · subst hc; decide
  | grp a ih =>
    simp only [Tree.WF] at hwf
    intro c hc
    simp only [Tree.str, List.mem_append, List.mem_singleton] at hc
    rcases hc with (hc | hc) | hc
    · subst hc; decide
    · exact ih hwf c hc
    · subst hc; decide

theorem tokenize_tree (t : Tree) (hwf : t.WF = true) : tokenize t.str = .ok (toks t) := by
  unfold tokenize
  rw [tokenizeRaw_tree t hwf]
  simp [tokensValid_tree t (WF_FnOK t hwf)]

/-- at top level the tokens of a tree always reach the shunting-yard loop -/
theorem pfiTop_tree (ident : Name) (t : Tree) (hwf : t.WF = true) :
    pfiTop ident (toks t) = mkDim ident t.post := by
  have hl := loop_whole t hwf
  cases t with
  | var x =>
    simp only [Tree.WF, Bool.and_eq_true] at hwf
    have hne : x ≠ kwEllipsis := by intro h; subst h; revert hwf; decide
    simp only [toks, pfiTop, hne, if_false]
    simp only [toks] at hl
    rw [hl]; rfl
  | lit ds =>
    simp only [toks, pfiTop]
    simp only [toks] at hl
    rw [hl]; rfl
  | bin o l r =>
    have hl1 := toks_ne_nil l
    have hr1 := toks_ne_nil r
    have hgen : pfiTop ident (toks (.bin o l r)) =
        (loop ((toks (.bin o l r)).length + 1) (toks (.bin o l r)) [] []).bind (mkDim ident) := by
      simp only [toks]
      match hl' : toks l, hr' : toks r with
      | [], _ => exact absurd hl' hl1
      | _, [] => exact absurd hr' hr1
      | x :: xs, y :: ys =>
        cases xs with
        | nil => cases x <;> simp [pfiTop]
        | cons x2 xs2 => cases x <;> simp [pfiTop]
    rw [hgen, hl]; rfl
  | fn2 f a b =>
    have hgen : pfiTop ident (toks (.fn2 f a b)) =
        (loop ((toks (.fn2 f a b)).length + 1) (toks (.fn2 f a b)) [] []).bind (mkDim ident) := by
      simp [toks, pfiTop]
    rw [hgen, hl]; rfl
  | isqrt a =>
    have hgen : pfiTop ident (toks (.isqrt a)) =
        (loop ((toks (.isqrt a)).length + 1) (toks (.isqrt a)) [] []).bind (mkDim ident) := by
      simp [toks, pfiTop]
    rw [hgen, hl]; rfl
  | grp a =>
    have ha := toks_ne_nil a
    have hgen : pfiTop ident (toks (.grp a)) =
        (loop ((toks (.grp a)).length + 1) (toks (.grp a)) [] []).bind (mkDim ident) := by
      simp only [toks]
      match ha' : toks a with
      | [] => exact absurd ha' ha
      | x :: xs => simp [pfiTop]
    rw [hgen, hl]; rfl

theorem contains_false_of_not_mem (l : List PItem) (p : PItem) (h : p ∉ l) : l.contains p = false := by
  simpa using h

/-- `DLTypeDimensionExpression(identifier, program)` does not raise when the identifier does not occur
    in the program, or the program is just that identifier -/
theorem mkDim_ok (ident : Name) (post : List PItem) (h : PItem.str ident ∉ post ∨ post = [.str ident]) :
    mkDim ident post = .ok { identifier := ident, post := post } := by
  unfold mkDim
  rcases h with h | h
  · have hc := contains_false_of_not_mem _ _ h
    simp only [DimExpr.selfRef, hc, Bool.and_false, Bool.false_eq_true, if_false]
  · subst h
    simp [DimExpr.selfRef, DimExpr.isExpression, DimExpr.isIdentifier, DimExpr.isLiteral, PItem.isInt]

theorem splitEq_no_eq (s : List Char) (h : ∀ c ∈ s, c ≠ '=') : splitEq s = (s, s) := by
  have : s.contains '=' = false := by
    simp only [List.contains_eq_mem, decide_eq_false_iff_not]
    intro hm; exact h '=' hm rfl
  unfold splitEq
  simp only [this, Bool.false_eq_true, if_false]

/-- **C05a**: every string of the documented grammar (written from a well-formed tree: precedence
    `^` above `* /` above `+ -`, left-to-right association within one level, functions and parentheses
    binding tightest) is accepted, and compiled to exactly the post-order program of that tree; the
    dimension's identifier is the string itself. -/
theorem parseDim_tree (t : Tree) (hwf : t.WF = true) :
    parseDim t.str = .ok { identifier := t.str, post := t.post } := by
  unfold parseDim
  have hne := str_ne_nil t hwf
  have hemp : t.str.isEmpty = false := by cases h : t.str with | nil => exact absurd h hne | cons a as => rfl
  simp only [hemp, Bool.false_eq_true, if_false, splitEq_no_eq t.str (str_no_eq t hwf), tokenize_tree t hwf,
    pfiTop_tree _ t hwf]
  apply mkDim_ok
  by_cases hv : ∃ x, t = .var x
  · obtain ⟨x, rfl⟩ := hv
    right; rfl
  · left
    intro hmem
    have hx := (post_str_mem_vars t t.str).mp hmem
    have hid := vars_ident t hwf _ hx
    rw [str_not_ident t hwf (fun x hx => hv ⟨x, hx⟩)] at hid
    cases hid

theorem takeWhile_ident (x : Name) (rest : List Char) (hx : ∀ c ∈ x, c ≠ '=') :
    (x ++ '=' :: rest).takeWhile (· ≠ '=') = x ∧ ((x ++ '=' :: rest).dropWhile (· ≠ '=')).drop 1 = rest := by
  induction x with
  | nil => simp
  | cons c cs ih =>
    have hc : decide (c ≠ '=') = true := by simpa using hx c (by simp)
    have := ih (fun d hd => hx d (by simp [hd]))
    constructor
    · simp only [List.cons_append, List.takeWhile_cons, hc, if_true, this.1]
    · simp only [List.cons_append, List.dropWhile_cons, hc, if_true]
      exact this.2

/-- **C05a with a name**: `name=expression` is accepted with the given name as identifier when the name is a
    legal identifier that does not occur in the expression -/
theorem parseDim_named (x : Name) (t : Tree) (hx : isIdent x = true) (hwf : t.WF = true) (hnot : x ∉ t.vars) :
    parseDim (x ++ '=' :: t.str) = .ok { identifier := x, post := t.post } := by
  unfold parseDim
  have hxe : ∀ c ∈ x, c ≠ '=' := by
    intro c hc heq; subst heq
    have := isIdent_all x hx '=' hc
    revert this; decide
  have hemp : (x ++ '=' :: t.str).isEmpty = false := by cases x <;> rfl
  have hcont : (x ++ '=' :: t.str).contains '=' = true := by simp
  obtain ⟨h1, h2⟩ := takeWhile_ident x t.str hxe
  simp only [hemp, Bool.false_eq_true, if_false, splitEq, hcont, if_true, h1, h2, tokenize_tree t hwf,
    pfiTop_tree _ t hwf]
  apply mkDim_ok
  left
  intro hmem
  exact hnot ((post_str_mem_vars t x).mp hmem)

end Dltype.Proofs
