import DltypeModel
import Spec.Conforms
/-!
# Soundness of the context: an accepted context conforms to its final bindings (C01)
-/
namespace Dltype.Proofs
open Dltype Dltype.Spec

/-! ## association-list scope -/

theorem get_set_same (σ : Scope) (k : Name) (v : Int) : (σ.set k v).get? k = some v := by
  induction σ with
  | nil => simp [Scope.set, Scope.get?]
  | cons p ps ih =>
    obtain ⟨k', v'⟩ := p
    by_cases h : k' = k
    · simp [Scope.set, Scope.get?, h]
    · simp [Scope.set, Scope.get?, h, ih]

theorem get_set_other (σ : Scope) (k k2 : Name) (v : Int) (h : k2 ≠ k) :
    (σ.set k v).get? k2 = σ.get? k2 := by
  induction σ with
  | nil => simp [Scope.set, Scope.get?, Ne.symm h]
  | cons p ps ih =>
    obtain ⟨k', v'⟩ := p
    by_cases h1 : k' = k
    · subst h1
      simp [Scope.set, Scope.get?, Ne.symm h]
    · by_cases h2 : k' = k2
      · subst h2
        simp [Scope.set, Scope.get?, h1]
      · simp [Scope.set, Scope.get?, h1, h2, ih]

theorem has_false_iff (σ : Scope) (k : Name) : σ.has k = false ↔ σ.get? k = none := by
  simp [Scope.has]

theorem scopeLe_refl (σ : Scope) : ScopeLe σ σ := fun _ _ h => h

theorem scopeLe_trans {a b c : Scope} (h1 : ScopeLe a b) (h2 : ScopeLe b c) : ScopeLe a c :=
  fun k v h => h2 k v (h1 k v h)

/-- binding a name that is not bound yet extends the scope -/
theorem scopeLe_set (σ : Scope) (k : Name) (v : Int) (h : σ.get? k = none) : ScopeLe σ (σ.set k v) := by
  intro k2 v2 h2
  by_cases hk : k2 = k
  · subst hk; rw [h] at h2; cases h2
  · rw [get_set_other σ k k2 v hk]; exact h2

/-! ## the machine is monotone in the scope -/

theorem runPostfix_mono (p : List PItem) (stk : List Int) (σ σ' : Scope) (v : Int) (hle : ScopeLe σ σ')
    (h : runPostfix p stk σ = .val v) : runPostfix p stk σ' = .val v := by
  induction p generalizing stk with
  | nil =>
    match stk, h with
    | [w], h => simpa [runPostfix] using h
    | [], h => simp [runPostfix] at h
    | _ :: _ :: _, h => simp [runPostfix] at h
  | cons it rest ih =>
    cases it with
    | int n => simp only [runPostfix] at h ⊢; exact ih _ h
    | str x =>
      simp only [runPostfix] at h ⊢
      cases hx : σ.get? x with
      | none => simp [hx] at h
      | some w =>
        simp only [hx] at h
        simp only [hle x w hx]
        exact ih _ h
    | op o =>
      cases o with
      | fn f =>
        cases f with
        | isqrt =>
          match stk, h with
          | [], h => simp [runPostfix] at h
          | b :: stk', h =>
            simp only [runPostfix] at h ⊢
            cases he : evalIsqrt b with
            | val w => simp only [he] at h ⊢; exact ih _ h
            | keyError k => simp [he] at h
            | pyExc e => simp [he] at h
            | unmodelled => simp [he] at h
        | min =>
          match stk, h with
          | [], h => simp [runPostfix] at h
          | [_], h => simp [runPostfix] at h
          | b :: a :: stk', h =>
            simp only [runPostfix] at h ⊢
            cases he : evalFn2 .min a b with
            | val w => simp only [he] at h ⊢; exact ih _ h
            | keyError k => simp [he] at h
            | pyExc e => simp [he] at h
            | unmodelled => simp [he] at h
        | max =>
          match stk, h with
          | [], h => simp [runPostfix] at h
          | [_], h => simp [runPostfix] at h
          | b :: a :: stk', h =>
            simp only [runPostfix] at h ⊢
            cases he : evalFn2 .max a b with
            | val w => simp only [he] at h ⊢; exact ih _ h
            | keyError k => simp [he] at h
            | pyExc e => simp [he] at h
            | unmodelled => simp [he] at h
      | bin bo =>
        match stk, h with
        | [], h => simp [runPostfix] at h
        | [_], h => simp [runPostfix] at h
        | b :: a :: stk', h =>
          simp only [runPostfix] at h ⊢
          cases he : evalBin bo a b with
          | val w => simp only [he] at h ⊢; exact ih _ h
          | keyError k => simp [he] at h
          | pyExc e => simp [he] at h
          | unmodelled => simp [he] at h

theorem dimConforms_mono (σ σ' : Scope) (d : DimExpr) (a : Nat) (hle : ScopeLe σ σ')
    (h : DimConforms σ d a) : DimConforms σ' d a := by
  rcases h with h | ⟨hb, h⟩
  · exact Or.inl h
  · refine Or.inr ⟨hle _ _ hb, ?_⟩
    rcases h with h | h | h
    · exact Or.inl h
    · exact Or.inr (Or.inl h)
    · exact Or.inr (Or.inr (runPostfix_mono _ _ σ σ' _ hle h))

theorem dimsConform_mono (σ σ' : Scope) (ds : List DimExpr) (as : List Nat) (hle : ScopeLe σ σ')
    (h : DimsConform σ ds as) : DimsConform σ' ds as := by
  induction ds generalizing as with
  | nil => cases as <;> simpa [DimsConform] using h
  | cons d ds ih =>
    cases as with
    | nil => simp [DimsConform] at h
    | cons a as =>
      simp only [DimsConform] at h ⊢
      exact ⟨dimConforms_mono σ σ' d a hle h.1, ih as h.2⟩

/-! ## one dimension -/

/-- a successful step only adds bindings, and afterwards the axis has the size the dimension demands -/
theorem dimStep_ok (tn : Name) (i : Nat) (d : DimExpr) (a : Nat) (σ σ' : Scope)
    (h : dimStep tn i d a σ = .ok σ') : ScopeLe σ σ' ∧ DimConforms σ' d a := by
  unfold dimStep at h
  by_cases hanon : d.isAnonymous = true
  · simp only [hanon, if_true] at h
    cases h
    exact ⟨scopeLe_refl _, Or.inl hanon⟩
  · simp only [hanon, Bool.false_eq_true, if_false] at h
    by_cases hlit : (d.isLiteral && !σ.has d.identifier) = true
    · simp only [hlit, if_true] at h
      cases h
      simp only [Bool.and_eq_true, Bool.not_eq_true'] at hlit
      have hnone := (has_false_iff σ d.identifier).mp hlit.2
      exact ⟨scopeLe_set σ _ _ hnone, Or.inr ⟨get_set_same _ _ _, Or.inr (Or.inl hlit.1)⟩⟩
    · simp only [hlit, Bool.false_eq_true, if_false] at h
      by_cases hid : (d.isIdentifier && !σ.has d.identifier) = true
      · simp only [hid, if_true] at h
        cases h
        simp only [Bool.and_eq_true, Bool.not_eq_true'] at hid
        have hnone := (has_false_iff σ d.identifier).mp hid.2
        exact ⟨scopeLe_set σ _ _ hnone, Or.inr ⟨get_set_same _ _ _, Or.inl hid.1⟩⟩
      · simp only [hid, Bool.false_eq_true, if_false] at h
        cases hev : d.evaluate σ with
        | keyError k => simp [hev] at h
        | pyExc e => simp [hev] at h
        | unmodelled => simp [hev] at h
        | val v =>
          simp only [hev] at h
          split at h
          · cases h
          · rename_i hva
            have hva' : v = Int.ofNat a := Decidable.not_not.mp hva
            subst hva'
            -- what the evaluation established
            have hpost : d.isIdentifier = true ∨ runPostfix d.post [] σ = .val (Int.ofNat a) := by
              unfold DimExpr.evaluate at hev
              simp only [hanon, Bool.false_eq_true, if_false] at hev
              by_cases hc : (d.isIdentifier && σ.has d.identifier) = true
              · simp only [Bool.and_eq_true] at hc; exact Or.inl hc.1
              · simp only [hc, Bool.false_eq_true, if_false] at hev; exact Or.inr hev
            split at h
            · rename_i hg
              cases h
              have hle := scopeLe_set σ d.identifier (Int.ofNat a) hg
              refine ⟨hle, Or.inr ⟨get_set_same _ _ _, ?_⟩⟩
              rcases hpost with hp | hp
              · exact Or.inl hp
              · exact Or.inr (Or.inr (runPostfix_mono _ _ _ _ _ hle hp))
            · rename_i b hg
              split at h
              · cases h
              · rename_i hba
                have hba' : b = Int.ofNat a := Decidable.not_not.mp hba
                cases h
                refine ⟨scopeLe_refl _, Or.inr ⟨by rw [hg, hba'], ?_⟩⟩
                rcases hpost with hp | hp
                · exact Or.inl hp
                · exact Or.inr (Or.inr hp)

/-! ## all dimensions of one tensor -/

theorem assertDims_ok (tn : Name) (i : Nat) (ds : List DimExpr) (as : List Nat) (σ σ' : Scope)
    (hlen : ds.length = as.length) (h : assertDims tn i ds as σ = .ok σ') :
    ScopeLe σ σ' ∧ DimsConform σ' ds as := by
  induction ds generalizing as i σ with
  | nil =>
    cases as with
    | nil => simp only [assertDims] at h; cases h; exact ⟨scopeLe_refl _, trivial⟩
    | cons a as => simp at hlen
  | cons d ds ih =>
    cases as with
    | nil => simp at hlen
    | cons a as =>
      simp only [assertDims] at h
      cases hs : dimStep tn i d a σ with
      | ok σ1 =>
        simp only [hs] at h
        obtain ⟨hle1, hc1⟩ := dimStep_ok tn i d a σ σ1 hs
        obtain ⟨hle2, hc2⟩ := ih (i + 1) as σ1 (by simpa using hlen) h
        exact ⟨scopeLe_trans hle1 hle2, dimConforms_mono _ _ _ _ hle2 hc1, hc2⟩
      | reject r => simp [hs] at h
      | pyExc e => simp [hs] at h
      | unmodelled => simp [hs] at h

/-! ## the expanded dimension list has the rank of the tensor -/

theorem multiDims_length (g : Name) (anon : Bool) (i : Nat) (l : List Nat) :
    (multiDims g anon i l).length = l.length := by
  induction l generalizing i with
  | nil => rfl
  | cons a as ih => simp [multiDims, ih]

theorem expandDims_length (acc : Acc) (ann : Ann) (t : Tensor) (n : Name)
    (hmi : ∀ mi, ann.multiIdx = some mi → mi < ann.dims.length)
    (hc : check acc ann t n = .ok ()) : (expandDims ann t.shape).length = t.shape.length := by
  unfold check at hc
  cases hr : rankCheck ann t.shape n with
  | error r => simp [hr] at hc
  | ok u =>
    unfold rankCheck at hr
    unfold expandDims
    cases hm : ann.multiIdx with
    | none =>
      simp only [hm] at hr ⊢
      by_cases hl : t.shape.length = ann.dims.length
      · exact hl.symm
      · simp [hl] at hr
    | some mi =>
      simp only [hm] at hr ⊢
      have hlt := hmi mi hm
      by_cases hl : t.shape.length < ann.dims.length - 1
      · simp [hl] at hr
      · simp only [List.length_append, List.length_take, List.length_drop, multiDims_length]
        omega

/-! ## one tensor, then the queue -/

theorem groupLenStep_ok (e : Entry) (σ σ' : Scope) (h : groupLenStep e σ = .ok σ') :
    ScopeLe σ σ' ∧ ∀ g, e.ann.multiName = some g →
      σ'.get? (lenKey g) = some (Int.ofNat e.tensor.shape.length - Int.ofNat (e.ann.dims.length - 1)) := by
  unfold groupLenStep at h
  cases hm : e.ann.multiName with
  | none =>
    simp only [hm] at h
    cases h
    exact ⟨scopeLe_refl _, fun g hg => by cases hg⟩
  | some g =>
    simp only [hm] at h
    cases hg : σ.get? (lenKey g) with
    | none =>
      simp only [hg] at h
      cases h
      refine ⟨scopeLe_set _ _ _ hg, fun g' hg' => ?_⟩
      cases hg'
      exact get_set_same _ _ _
    | some b =>
      simp only [hg] at h
      split at h
      · cases h
      · rename_i hb
        cases h
        refine ⟨scopeLe_refl _, fun g' hg' => ?_⟩
        cases hg'
        rw [hg]
        simp only [ne_eq, Decidable.not_not] at hb
        rw [hb]

/-- well-formedness of an annotation as far as the context needs it (true of every annotation the
    shape parser produces, `Proofs/Shape.lean`) -/
def MarkerInRange (ann : Ann) : Prop := ∀ mi, ann.multiIdx = some mi → mi < ann.dims.length

theorem entryConforms_mono (acc : Acc) (σ σ' : Scope) (e : Entry) (hle : ScopeLe σ σ')
    (h : EntryConforms acc σ e) : EntryConforms acc σ' e :=
  ⟨h.check, dimsConform_mono _ _ _ _ hle h.dims, fun g hg => hle _ _ (h.group g hg)⟩

theorem tensorStep_ok (acc : Acc) (st st' : CState) (e : Entry) (hwf : MarkerInRange e.ann)
    (h : tensorStep acc st e = .ok st') : ScopeLe st.σ st'.σ ∧ EntryConforms acc st'.σ e := by
  unfold tensorStep at h
  cases hc : check acc e.ann e.tensor e.displayName with
  | error r => simp [hc] at h
  | ok u =>
    simp only [hc] at h
    split at h
    · cases h
    · cases ha : assertDims e.displayName 0 (expandDims e.ann e.tensor.shape) e.tensor.shape st.σ with
      | ok σ1 =>
        simp only [ha] at h
        cases hg : groupLenStep e σ1 with
        | ok σ2 =>
          simp only [hg] at h
          cases h
          have hlen := expandDims_length acc e.ann e.tensor e.displayName hwf hc
          obtain ⟨hle1, hd⟩ := assertDims_ok _ 0 _ _ st.σ σ1 hlen ha
          obtain ⟨hle2, hgrp⟩ := groupLenStep_ok e σ1 σ2 hg
          exact ⟨scopeLe_trans hle1 hle2, ⟨hc, dimsConform_mono _ _ _ _ hle2 hd, hgrp⟩⟩
        | reject r => simp [hg] at h
        | pyExc x => simp [hg] at h
        | unmodelled => simp [hg] at h
      | reject r => simp [ha] at h
      | pyExc x => simp [ha] at h
      | unmodelled => simp [ha] at h

/-- C01 (model): if the queue is drained without an error, the bindings only grew and every tensor of
    the queue conforms to the FINAL bindings — one common assignment. -/
theorem runEntries_sound (acc : Acc) (st st' : CState) (es : List Entry)
    (hwf : ∀ e ∈ es, MarkerInRange e.ann) (h : runEntries acc st es = .ok st') :
    ScopeLe st.σ st'.σ ∧ ∀ e ∈ es, EntryConforms acc st'.σ e := by
  induction es generalizing st with
  | nil => simp only [runEntries] at h; cases h; exact ⟨scopeLe_refl _, fun _ he => by cases he⟩
  | cons e es ih =>
    simp only [runEntries] at h
    cases hs : tensorStep acc st e with
    | ok st1 =>
      simp only [hs] at h
      obtain ⟨hle1, hc1⟩ := tensorStep_ok acc st st1 e (hwf e (by simp)) hs
      obtain ⟨hle2, hrest⟩ := ih st1 (fun x hx => hwf x (by simp [hx])) h
      refine ⟨scopeLe_trans hle1 hle2, fun x hx => ?_⟩
      rcases List.mem_cons.mp hx with rfl | hx'
      · exact entryConforms_mono acc _ _ _ hle2 hc1
      · exact hrest x hx'
    | reject r => simp [hs] at h
    | pyExc x => simp [hs] at h
    | unmodelled => simp [hs] at h

end Dltype.Proofs
