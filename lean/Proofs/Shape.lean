import Proofs.Context
import Properties.C03
/-!
# Every annotation the shape parser produces is well-formed (marker in range, literal axes recorded consistently)
-/
namespace Dltype.Proofs
open Dltype Dltype.Spec

theorem markerIdxs_range (ds : List DimExpr) (k : Nat) : ∀ i ∈ markerIdxs ds k, k ≤ i ∧ i < k + ds.length := by
  induction ds generalizing k with
  | nil => simp [markerIdxs]
  | cons d ds ih =>
    intro i hi
    simp only [markerIdxs] at hi
    split at hi
    · rcases List.mem_cons.mp hi with rfl | hi
      · simp
      · have := ih (k + 1) i hi; simp only [List.length_cons]; omega
    · have := ih (k + 1) i hi; simp only [List.length_cons]; omega

theorem literalDimsOf_mem (ds : List DimExpr) (k : Nat) (mi : Option Nat) :
    ∀ p ∈ literalDimsOf ds k mi, k ≤ p.1 ∧ p.1 < k + ds.length ∧ mi ≠ some p.1 := by
  induction ds generalizing k with
  | nil => simp [literalDimsOf]
  | cons d ds ih =>
    intro p hp
    simp only [literalDimsOf] at hp
    split at hp
    · rename_i hc
      simp only [Bool.and_eq_true, decide_eq_true_eq] at hc
      split at hp
      · rcases List.mem_cons.mp hp with rfl | hp
        · exact ⟨Nat.le_refl _, by simp, hc.2⟩
        · obtain ⟨h1, h2, h3⟩ := ih (k + 1) p hp
          exact ⟨by omega, by simp only [List.length_cons]; omega, h3⟩
      · obtain ⟨h1, h2, h3⟩ := ih (k + 1) p hp
        exact ⟨by omega, by simp only [List.length_cons]; omega, h3⟩
    · obtain ⟨h1, h2, h3⟩ := ih (k + 1) p hp
      exact ⟨by omega, by simp only [List.length_cons]; omega, h3⟩

theorem getLast?_mem {α} (l : List α) (a : α) (h : l.getLast? = some a) : a ∈ l := by
  induction l with
  | nil => simp at h
  | cons x xs ih =>
    cases xs with
    | nil => simp at h; simp [h]
    | cons y ys =>
      simp only [List.getLast?_cons_cons] at h
      exact List.mem_cons_of_mem _ (ih h)

/-- every annotation built from a shape string has its marker inside the declared axes and records
    literal axes only for declared, non-marker positions -/
theorem parseShape_wf (shape : Option (List Char)) (cls : Nat) (opt : Bool) (ann : Ann)
    (h : parseShape shape cls opt = .ok ann) : MarkerInRange ann ∧ C03.WFAnn ann := by
  unfold parseShape at h
  cases shape with
  | none =>
    simp only at h
    cases h
    exact ⟨fun mi hmi => by simp at hmi, ⟨fun p hp => by simp at hp, fun p hp => by simp at hp, fun mi hmi => by simp at hmi⟩⟩
  | some s =>
    simp only at h
    split at h
    · cases h
    · cases hd : parseDims (splitWs s []) with
      | error e => simp [hd] at h
      | ok dims =>
        simp only [hd] at h
        split at h
        · cases h
        · cases hl : literalDimsRaise dims 0 (markerIdxs dims 0).getLast? with
          | some e => simp [hl] at h
          | none =>
            simp only [hl] at h
            cases h
            have hmi : ∀ mi, (markerIdxs dims 0).getLast? = some mi → mi < dims.length := by
              intro mi hmi
              have := markerIdxs_range dims 0 mi (getLast?_mem _ _ hmi)
              omega
            refine ⟨hmi, ⟨?_, ?_, hmi⟩⟩
            · intro p hp
              have := (literalDimsOf_mem dims 0 _ p hp).2.1
              simpa using this
            · intro p hp
              exact (literalDimsOf_mem dims 0 _ p hp).2.2

end Dltype.Proofs
