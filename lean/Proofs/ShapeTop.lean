import Proofs.ParseTop
import Proofs.Shape
/-!
# C05a at the level users write: a whole shape string.

For every non-empty list of well-formed expression trees, the shape string that writes them separated by single
spaces is accepted by `parseShape` (the model of `TensorTypeBase.__init__`), the annotation has exactly those
dimensions in order, each compiled to the post-order of its tree, no multi-axis marker, and its literal axes are
exactly the literal positions.
-/
namespace Dltype.Proofs
open Dltype Dltype.Spec

theorem fnName_no_space (f : Fn) : ∀ c ∈ fnName f, c ≠ ' ' := by
  cases f <;> decide

/-- no space occurs in the string of a tree -/
theorem str_no_space (t : Tree) (hwf : t.WF = true) : ∀ c ∈ t.str, c ≠ ' ' := by
  induction t with
  | lit ds =>
    simp only [Tree.WF, Bool.and_eq_true] at hwf
    intro c hc heq; subst heq
    have := List.all_eq_true.mp hwf.2 ' ' hc
    revert this; decide
  | var x =>
    simp only [Tree.WF, Bool.and_eq_true] at hwf
    intro c hc heq; subst heq
    have := isIdent_all x hwf.1 ' ' hc
    revert this; decide
  | bin o l r ihl ihr =>
    simp only [Tree.WF, Bool.and_eq_true] at hwf
    intro c hc
    simp only [Tree.str, List.mem_append, List.mem_singleton] at hc
    rcases hc with (hc | hc) | hc
    · exact ihl hwf.1.1.1 c hc
    · subst hc; cases o <;> decide
    · exact ihr hwf.1.1.2 c hc
  | fn2 f a b iha ihb =>
    simp only [Tree.WF, Bool.and_eq_true] at hwf
    intro c hc
    simp only [Tree.str, List.mem_append, List.mem_singleton] at hc
    rcases hc with ((((hc | hc) | hc) | hc) | hc) | hc
    · exact fnName_no_space f c hc
    · subst hc; decide
    · exact iha hwf.1.2 c hc
    · subst hc; decide
    · exact ihb hwf.2 c hc
    · subst hc; decide
  | isqrt a ih =>
    simp only [Tree.WF] at hwf
    intro c hc
    simp only [Tree.str, List.mem_append, List.mem_singleton] at hc
    rcases hc with ((hc | hc) | hc) | hc
    · exact fnName_no_space .isqrt c hc
    · subst hc; decide
    · exact ih hwf c hc
    · subst hc; decide
  | grp a ih =>
    simp only [Tree.WF] at hwf
    intro c hc
    simp only [Tree.str, List.mem_append, List.mem_singleton] at hc
    rcases hc with (hc | hc) | hc
    · subst hc; decide
    · exact ih hwf c hc
    · subst hc; decide

/-- words separated by single spaces -/
def joinWords : List (List Char) → List Char
  | [] => []
  | [w] => w
  | w :: w' :: ws => w ++ ' ' :: joinWords (w' :: ws)

theorem splitWs_word (w : List Char) (hw : ∀ c ∈ w, c ≠ ' ') (rest cur : List Char) :
    splitWs (w ++ rest) cur = splitWs rest (cur ++ w) := by
  induction w generalizing cur with
  | nil => simp
  | cons c cs ih =>
    have hc : c ≠ ' ' := hw c (by simp)
    simp only [List.cons_append, splitWs, hc, if_false]
    rw [ih (fun d hd => hw d (by simp [hd]))]
    simp

theorem splitWs_join (ws : List (List Char)) (hne : ∀ w ∈ ws, w ≠ []) (hns : ∀ w ∈ ws, ∀ c ∈ w, c ≠ ' ') :
    splitWs (joinWords ws) [] = ws := by
  induction ws with
  | nil => simp [joinWords, splitWs]
  | cons w rest ih =>
    have hw := hns w (by simp)
    have hwne := hne w (by simp)
    cases rest with
    | nil =>
      have := splitWs_word w hw [] []
      simp only [List.append_nil, List.nil_append] at this
      simp only [joinWords, this, splitWs]
      cases w with
      | nil => exact absurd rfl hwne
      | cons a as => simp
    | cons w' ws =>
      have ih' := ih (fun x hx => hne x (by simp [hx])) (fun x hx => hns x (by simp [hx]))
      simp only [joinWords]
      rw [splitWs_word w hw _ [], List.nil_append]
      simp only [splitWs, if_true]
      cases w with
      | nil => exact absurd rfl hwne
      | cons a as => simp only [List.isEmpty_cons, Bool.false_eq_true, if_false]; rw [ih']

/-- the compiled dimension of a tree -/
def dimOf (t : Tree) : DimExpr := { identifier := t.str, post := t.post }

theorem parseDims_trees (ts : List Tree) (hwf : ∀ t ∈ ts, t.WF = true) :
    parseDims (ts.map Tree.str) = .ok (ts.map dimOf) := by
  induction ts with
  | nil => rfl
  | cons t rest ih =>
    simp only [List.map_cons, parseDims, parseDim_tree t (hwf t (by simp)), ih (fun x hx => hwf x (by simp [hx]))]
    rfl

theorem markerIdxs_trees (ts : List Tree) (k : Nat) : markerIdxs (ts.map dimOf) k = [] := by
  induction ts generalizing k with
  | nil => rfl
  | cons t rest ih => simp [markerIdxs, DimExpr.isMarker, dimOf, ih]

/-- a program consisting of integers only, coming from a tree, is one integer -/
theorem post_all_int (t : Tree) (h : t.post.all PItem.isInt = true) : ∃ n, t.post = [.int n] := by
  induction t with
  | lit ds => exact ⟨_, rfl⟩
  | var x => simp [Tree.post, PItem.isInt] at h
  | bin o l r _ _ => simp [Tree.post, PItem.isInt] at h
  | fn2 f a b _ _ => simp [Tree.post, PItem.isInt] at h
  | isqrt a _ => simp [Tree.post, PItem.isInt] at h
  | grp a ih => exact ih h

theorem literalDimsRaise_trees (ts : List Tree) (k : Nat) : literalDimsRaise (ts.map dimOf) k none = none := by
  induction ts generalizing k with
  | nil => rfl
  | cons t rest ih =>
    simp only [List.map_cons, literalDimsRaise]
    by_cases hl : (dimOf t).isLiteral = true
    · have hall : t.post.all PItem.isInt = true := by
        simpa [DimExpr.isLiteral, dimOf] using hl
      obtain ⟨n, hn⟩ := post_all_int t hall
      have hev : (dimOf t).evaluate [] = .val (Int.ofNat n) := by
        simp [DimExpr.evaluate, dimOf, hn, Scope.has, Scope.get?, runPostfix]
      simp [hl, hev, ih]
    · simp [hl, ih]

/-- **C05a for whole shape strings** -/
theorem parseShape_trees (ts : List Tree) (hne : ts ≠ []) (hwf : ∀ t ∈ ts, t.WF = true) (cls : Nat) (opt : Bool) :
    parseShape (some (joinWords (ts.map Tree.str))) cls opt =
      .ok { dims := ts.map dimOf, multiIdx := none, multiName := none, anonMulti := false,
            literalDims := literalDimsOf (ts.map dimOf) 0 none, cls := cls, optional := opt } := by
  have hsplit : splitWs (joinWords (ts.map Tree.str)) [] = ts.map Tree.str := by
    apply splitWs_join
    · intro w hw
      obtain ⟨t, ht, rfl⟩ := List.mem_map.mp hw
      exact str_ne_nil t (hwf t ht)
    · intro w hw
      obtain ⟨t, ht, rfl⟩ := List.mem_map.mp hw
      exact str_no_space t (hwf t ht)
  have hemp : (ts.map Tree.str).isEmpty = false := by
    cases ts with
    | nil => exact absurd rfl hne
    | cons a as => rfl
  have hanon : (ts.map dimOf).any (·.isAnonymous) = false := by
    simp [dimOf]
  simp only [parseShape, hsplit, hemp, Bool.false_eq_true, if_false, parseDims_trees ts hwf, markerIdxs_trees,
    List.length_nil, Nat.not_lt_zero, List.getLast?_nil, literalDimsRaise_trees, hanon]

end Dltype.Proofs
