import Proofs.ParseTop
/-!
# Soundness of the independent recogniser: whatever `Spec.recogniseExpr` accepts is the string of a
well-formed tree — so (with C05a) the model parser accepts every string the recogniser accepts, with the
post-order of the recogniser's tree as its program.
-/
namespace Dltype.Proofs
open Dltype Dltype.Spec

def ltChars : LTok → List Char
  | .num ds => ds
  | .id x => x
  | .sym c => [c]

def ltokStr (ts : List LTok) : List Char := (ts.map ltChars).flatten

/-- the lexer only splits the string: concatenating the tokens gives the string back -/
theorem lexGo_concat (fuel : Nat) (s : List Char) (ts : List LTok) (h : lexGo fuel s = some ts) :
    ltokStr ts = s := by
  induction fuel generalizing s ts with
  | zero => simp [lexGo] at h
  | succ fuel ih =>
    cases s with
    | nil => simp only [lexGo] at h; cases h; rfl
    | cons c cs =>
      simp only [lexGo] at h
      split at h
      · simp only [Option.map_eq_some_iff] at h
        obtain ⟨r, hr, rfl⟩ := h
        have := ih _ _ hr
        simp only [ltokStr, List.map_cons, List.flatten_cons, ltChars] at this ⊢
        rw [this]
        simp [List.takeWhile_append_dropWhile]
      · split at h
        · simp only [Option.map_eq_some_iff] at h
          obtain ⟨r, hr, rfl⟩ := h
          have := ih _ _ hr
          simp only [ltokStr, List.map_cons, List.flatten_cons, ltChars] at this ⊢
          rw [this]
          simp [List.takeWhile_append_dropWhile]
        · split at h
          · simp only [Option.map_eq_some_iff] at h
            obtain ⟨r, hr, rfl⟩ := h
            have := ih _ _ hr
            simp only [ltokStr, List.map_cons, List.flatten_cons, ltChars] at this ⊢
            rw [this]; rfl
          · cases h

/-- tokens the lexer produces are well-formed: numerals are non-empty digit strings, identifiers legal -/
def ltOk : LTok → Bool
  | .num ds => !ds.isEmpty && ds.all isDigit
  | .id x => isIdent x
  | .sym _ => true

theorem lexGo_ok (fuel : Nat) (s : List Char) (ts : List LTok) (h : lexGo fuel s = some ts) :
    ∀ t ∈ ts, ltOk t = true := by
  induction fuel generalizing s ts with
  | zero => simp [lexGo] at h
  | succ fuel ih =>
    cases s with
    | nil => simp only [lexGo] at h; cases h; simp
    | cons c cs =>
      simp only [lexGo] at h
      split at h
      · rename_i hd
        simp only [Option.map_eq_some_iff] at h
        obtain ⟨r, hr, rfl⟩ := h
        intro t ht
        rcases List.mem_cons.mp ht with rfl | ht
        · simp only [ltOk, List.isEmpty_cons, Bool.not_false, Bool.true_and, List.all_cons, hd]
          exact List.all_takeWhile
        · exact ih _ _ hr t ht
      · split at h
        · rename_i hnd ha
          simp only [Option.map_eq_some_iff] at h
          obtain ⟨r, hr, rfl⟩ := h
          intro t ht
          rcases List.mem_cons.mp ht with rfl | ht
          · simp only [ltOk, isIdent, ha, Bool.true_and]
            exact List.all_takeWhile
          · exact ih _ _ hr t ht
        · split at h
          · simp only [Option.map_eq_some_iff] at h
            obtain ⟨r, hr, rfl⟩ := h
            intro t ht
            rcases List.mem_cons.mp ht with rfl | ht
            · rfl
            · exact ih _ _ hr t ht
          · cases h

/-- the lexer tokens of a tree's string -/
def ltoks : Tree → List LTok
  | .lit ds => [.num ds]
  | .var x => [.id x]
  | .bin o l r => ltoks l ++ [.sym (binChar o)] ++ ltoks r
  | .fn2 f a b => [.id (fnName f), .sym '('] ++ ltoks a ++ [.sym ','] ++ ltoks b ++ [.sym ')']
  | .isqrt a => [.id kwIsqrt, .sym '('] ++ ltoks a ++ [.sym ')']
  | .grp a => [.sym '('] ++ ltoks a ++ [.sym ')']

theorem ltokStr_append (a b : List LTok) : ltokStr (a ++ b) = ltokStr a ++ ltokStr b := by
  simp [ltokStr]

theorem ltokStr_ltoks (t : Tree) : ltokStr (ltoks t) = t.str := by
  induction t with
  | lit ds => simp [ltoks, ltokStr, ltChars, Tree.str]
  | var x => simp [ltoks, ltokStr, ltChars, Tree.str]
  | bin o l r ihl ihr =>
    simp only [ltoks, ltokStr_append, ihl, ihr, Tree.str]
    simp [ltokStr, ltChars]
  | fn2 f a b iha ihb =>
    simp only [ltoks, ltokStr_append, iha, ihb, Tree.str]
    simp [ltokStr, ltChars]
  | isqrt a ih =>
    simp only [ltoks, ltokStr_append, ih, Tree.str]
    simp [ltokStr, ltChars]
  | grp a ih =>
    simp only [ltoks, ltokStr_append, ih, Tree.str]
    simp [ltokStr, ltChars]

end Dltype.Proofs

namespace Dltype.Proofs
open Dltype Dltype.Spec

def AllOk (ts : List LTok) : Prop := ∀ t ∈ ts, ltOk t = true

theorem allOk_tail {t : LTok} {ts : List LTok} (h : AllOk (t :: ts)) : AllOk ts :=
  fun x hx => h x (List.mem_cons_of_mem _ hx)

theorem allOk_of_append {a b : List LTok} (h : AllOk (a ++ b)) : AllOk b :=
  fun x hx => h x (List.mem_append_right _ hx)

theorem levelOps_lookup (lvl : Nat) (h1 : 1 ≤ lvl) (h3 : lvl ≤ 3) (c : Char) (o : BinOp)
    (h : (levelOps lvl).lookup c = some o) : c = binChar o ∧ o.prec = lvl := by
  have : lvl = 1 ∨ lvl = 2 ∨ lvl = 3 := by omega
  rcases this with rfl | rfl | rfl
  · by_cases c1 : c = '+'
    · subst c1; simp [levelOps, List.lookup] at h; subst h; exact ⟨rfl, rfl⟩
    · by_cases c2 : c = '-'
      · subst c2; simp [levelOps, List.lookup] at h; subst h; exact ⟨rfl, rfl⟩
      · have b1 : (c == '+') = false := by simpa using c1
        have b2 : (c == '-') = false := by simpa using c2
        simp [levelOps, List.lookup, b1, b2] at h
  · by_cases c1 : c = '*'
    · subst c1; simp [levelOps, List.lookup] at h; subst h; exact ⟨rfl, rfl⟩
    · by_cases c2 : c = '/'
      · subst c2; simp [levelOps, List.lookup] at h; subst h; exact ⟨rfl, rfl⟩
      · have b1 : (c == '*') = false := by simpa using c1
        have b2 : (c == '/') = false := by simpa using c2
        simp [levelOps, List.lookup, b1, b2] at h
  · by_cases c1 : c = '^'
    · subst c1; simp [levelOps, List.lookup] at h; subst h; exact ⟨rfl, rfl⟩
    · have b1 : (c == '^') = false := by simpa using c1
      simp [levelOps, List.lookup, b1] at h

theorem expectSym_some (c : Char) (l r : List LTok) (h : expectSym c l = some r) : l = .sym c :: r := by
  cases l with
  | nil => simp [expectSym] at h
  | cons x xs =>
    cases x with
    | sym d =>
      simp only [expectSym] at h
      split at h
      · rename_i hd; subst hd; cases h; rfl
      · cases h
    | num ds => simp [expectSym] at h
    | id y => simp [expectSym] at h

/-- soundness of the three mutually recursive parsing functions -/
theorem parse_sound (fuel : Nat) :
    (∀ lvl ts t rest, 1 ≤ lvl → lvl ≤ 3 → parseLevel fuel lvl ts = some (t, rest) → AllOk ts →
        ts = ltoks t ++ rest ∧ t.WF = true ∧ lvl ≤ t.prec) ∧
    (∀ lvl acc ts t rest, 1 ≤ lvl → lvl ≤ 3 → parseChain fuel lvl acc ts = some (t, rest) → AllOk ts →
        acc.WF = true → lvl ≤ acc.prec →
        ∃ mid, ltoks t = ltoks acc ++ mid ∧ ts = mid ++ rest ∧ t.WF = true ∧ lvl ≤ t.prec) ∧
    (∀ ts t rest, parseAtom fuel ts = some (t, rest) → AllOk ts →
        ts = ltoks t ++ rest ∧ t.WF = true ∧ t.prec = 100) := by
  induction fuel with
  | zero => refine ⟨?_, ?_, ?_⟩ <;> intros <;> simp_all [parseLevel, parseChain, parseAtom]
  | succ fuel ih =>
    obtain ⟨ihL, ihC, ihA⟩ := ih
    -- "next level": level lvl+1, or an atom at the top level; its result binds strictly tighter than lvl
    have next : ∀ lvl ts t rest, 1 ≤ lvl → lvl ≤ 3 →
        (if lvl ≥ 3 then parseAtom fuel ts else parseLevel fuel (lvl + 1) ts) = some (t, rest) → AllOk ts →
        ts = ltoks t ++ rest ∧ t.WF = true ∧ lvl < t.prec := by
      intro lvl ts t rest h1 h3 h hok
      by_cases hl : lvl ≥ 3
      · simp only [hl, if_true] at h
        obtain ⟨a, b, c⟩ := ihA ts t rest h hok
        exact ⟨a, b, by omega⟩
      · simp only [hl, if_false] at h
        obtain ⟨a, b, c⟩ := ihL (lvl + 1) ts t rest (by omega) (by omega) h hok
        exact ⟨a, b, by omega⟩
    refine ⟨?_, ?_, ?_⟩
    · -- parseLevel
      intro lvl ts t rest h1 h3 h hok
      simp only [parseLevel] at h
      cases hf : (if lvl ≥ 3 then parseAtom fuel ts else parseLevel fuel (lvl + 1) ts) with
      | none => simp [hf] at h
      | some p =>
        obtain ⟨t0, rest0⟩ := p
        simp only [hf] at h
        obtain ⟨e0, wf0, p0⟩ := next lvl ts t0 rest0 h1 h3 hf hok
        obtain ⟨mid, e1, e2, wf1, p1⟩ := ihC lvl t0 rest0 t rest h1 h3 h
          (by rw [e0] at hok; exact allOk_of_append hok) wf0 (by omega)
        refine ⟨?_, wf1, p1⟩
        rw [e0, e2, e1, List.append_assoc]
    · -- parseChain
      intro lvl acc ts t rest h1 h3 h hok wfa pa
      simp only [parseChain] at h
      cases ts with
      | nil => simp only at h; cases h; exact ⟨[], by simp, by simp, wfa, pa⟩
      | cons x rest1 =>
        cases x with
        | num ds => simp only at h; cases h; exact ⟨[], by simp, by simp, wfa, pa⟩
        | id y => simp only at h; cases h; exact ⟨[], by simp, by simp, wfa, pa⟩
        | sym c =>
          simp only at h
          cases hlk : (levelOps lvl).lookup c with
          | none => simp only [hlk] at h; cases h; exact ⟨[], by simp, by simp, wfa, pa⟩
          | some o =>
            simp only [hlk] at h
            obtain ⟨hc, hp⟩ := levelOps_lookup lvl h1 h3 c o hlk
            cases hn : (if lvl ≥ 3 then parseAtom fuel rest1 else parseLevel fuel (lvl + 1) rest1) with
            | none => simp [hn] at h
            | some p =>
              obtain ⟨r, rest2⟩ := p
              simp only [hn] at h
              obtain ⟨e0, wfr, pr⟩ := next lvl rest1 r rest2 h1 h3 hn (allOk_tail hok)
              have wfb : (Tree.bin o acc r).WF = true := by
                simp only [Tree.WF, wfa, wfr, Bool.true_and, Bool.and_eq_true, decide_eq_true_eq]
                exact ⟨by omega, by omega⟩
              obtain ⟨mid, e1, e2, wf1, p1⟩ := ihC lvl (.bin o acc r) rest2 t rest h1 h3 h
                (by rw [e0] at hok; exact allOk_of_append (allOk_tail hok)) wfb (by simp [Tree.prec]; omega)
              refine ⟨[.sym c] ++ ltoks r ++ mid, ?_, ?_, wf1, p1⟩
              · rw [e1]; simp [ltoks, hc]
              · rw [e0, e2]; simp
    · -- parseAtom
      intro ts t rest h hok
      simp only [parseAtom] at h
      cases ts with
      | nil => simp at h
      | cons x rest1 =>
        cases x with
        | num ds =>
          simp only at h
          cases h
          have := hok (.num ds) (by simp)
          exact ⟨by simp [ltoks], by simpa [Tree.WF, ltOk] using this, rfl⟩
        | sym c =>
          simp only at h
          split at h
          · rename_i hc
            subst hc
            simp only [Option.bind_eq_some_iff, Option.map_eq_some_iff] at h
            obtain ⟨⟨a, rest2⟩, hl, rest3, he, hres⟩ := h
            cases hres
            have e2 := expectSym_some _ _ _ he
            obtain ⟨e0, wfa, _⟩ := ihL 1 rest1 a rest2 (by omega) (by omega) hl (allOk_tail hok)
            simp only at e2
            exact ⟨by rw [e0, e2]; simp [ltoks], by simpa [Tree.WF] using wfa, rfl⟩
          · cases h
        | id x =>
          have hx : isIdent x = true := by simpa [ltOk] using hok (.id x) (by simp)
          simp only at h
          split at h
          · -- isqrt
            rename_i hk
            simp only [Option.bind_eq_some_iff, Option.map_eq_some_iff] at h
            obtain ⟨r1, he1, ⟨a, rest2⟩, hl, rest3, he2, hres⟩ := h
            cases hres
            have e1 := expectSym_some _ _ _ he1
            have e2 := expectSym_some _ _ _ he2
            simp only at e2
            have hok1 : AllOk r1 := by rw [e1] at hok; exact allOk_tail (allOk_tail hok)
            obtain ⟨e0, wfa, _⟩ := ihL 1 r1 a rest2 (by omega) (by omega) hl hok1
            exact ⟨by rw [e1, e0, e2, hk]; simp [ltoks], by simpa [Tree.WF] using wfa, rfl⟩
          · split at h
            · -- min / max
              rename_i hnk hmm
              simp only [Option.bind_eq_some_iff, Option.map_eq_some_iff] at h
              obtain ⟨r1, he1, ⟨a, rest2⟩, hl, r2, he2, ⟨b, rest3⟩, hl2, rest4, he3, hres⟩ := h
              cases hres
              have e1 := expectSym_some _ _ _ he1
              have e2 := expectSym_some _ _ _ he2
              have e3 := expectSym_some _ _ _ he3
              simp only at e2 e3
              have hok1 : AllOk r1 := by rw [e1] at hok; exact allOk_tail (allOk_tail hok)
              obtain ⟨e0, wfa, _⟩ := ihL 1 r1 a rest2 (by omega) (by omega) hl hok1
              have hok2 : AllOk r2 := by rw [e0, e2] at hok1; exact allOk_tail (allOk_of_append hok1)
              obtain ⟨e00, wfb, _⟩ := ihL 1 r2 b rest3 (by omega) (by omega) hl2 hok2
              have hname : fnName (if x = kwMin then Fn.min else Fn.max) = x := by
                simp only [Bool.or_eq_true, decide_eq_true_eq] at hmm
                by_cases hm : x = kwMin
                · simp [hm, fnName]
                · rcases hmm with hm2 | hm2
                  · exact absurd hm2 hm
                  · rw [if_neg hm]; simp [fnName, hm2]
              refine ⟨?_, ?_, rfl⟩
              · rw [e1, e0, e2, e00, e3]; simp [ltoks, hname]
              · have : ((if x = kwMin then Fn.min else Fn.max) = Fn.min ∨ (if x = kwMin then Fn.min else Fn.max) = Fn.max) := by
                  by_cases hm : x = kwMin <;> simp [hm]
                simp only [Tree.WF, wfa, wfb, Bool.and_true, Bool.or_eq_true, decide_eq_true_eq]
                exact this
            · -- a variable
              rename_i hnk hnm
              cases h
              refine ⟨by simp [ltoks], ?_, rfl⟩
              simp only [Tree.WF, hx, Bool.true_and, Bool.not_eq_true', reserved, Bool.or_eq_false_iff, decide_eq_false_iff_not]
              simp only [Bool.or_eq_true, decide_eq_true_eq, not_or] at hnm
              exact ⟨⟨hnm.1, hnm.2⟩, hnk⟩

/-- **soundness of the recogniser** (the oracle of C05/C06): a string it accepts is the string of the
    well-formed tree it returns -/
theorem recogniseExpr_sound (s : List Char) (t : Tree) (h : recogniseExpr s = some t) :
    t.str = s ∧ t.WF = true := by
  unfold recogniseExpr at h
  cases hl : lex s with
  | none => simp [hl] at h
  | some ts =>
    simp only [hl] at h
    cases hp : parseLevel (4 * ts.length + 8) 1 ts with
    | none => simp [hp] at h
    | some p =>
      obtain ⟨t', rest⟩ := p
      simp only [hp] at h
      cases rest with
      | cons x xs => simp at h
      | nil =>
        simp only at h
        cases h
        have hok : AllOk ts := lexGo_ok _ _ _ hl
        obtain ⟨e, wf, _⟩ := (parse_sound _).1 1 ts t [] (by omega) (by omega) hp hok
        refine ⟨?_, wf⟩
        have hc := lexGo_concat _ _ _ hl
        rw [← hc, e, List.append_nil, ltokStr_ltoks]

/-- the model parser accepts everything the independent recogniser accepts, and compiles it to the
    post-order of the recogniser's tree -/
theorem recognised_is_parsed (s : List Char) (t : Tree) (h : recogniseExpr s = some t) :
    parseDim s = .ok { identifier := s, post := t.post } := by
  obtain ⟨hs, hwf⟩ := recogniseExpr_sound s t h
  rw [← hs]
  exact parseDim_tree t hwf

end Dltype.Proofs
