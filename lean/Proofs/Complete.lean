import Proofs.Context
/-!
# Completeness of the context: a conforming, ordered context is accepted (C02a)
-/
namespace Dltype.Proofs
open Dltype Dltype.Spec

/-- on a program all of whose names are bound in the smaller scope, the machine gives the same result
    in both scopes -/
theorem runPostfix_agree (p : List PItem) (stk : List Int) (σc σ : Scope) (hle : ScopeLe σc σ)
    (hb : ∀ x ∈ namesOf p, σc.has x = true) : runPostfix p stk σc = runPostfix p stk σ := by
  induction p generalizing stk with
  | nil => cases stk with
    | nil => simp [runPostfix]
    | cons a as => cases as <;> simp [runPostfix]
  | cons it rest ih =>
    cases it with
    | int n => simp only [runPostfix]; exact ih _ (fun x hx => hb x (by simpa [namesOf] using hx))
    | str x =>
      have hx : σc.has x = true := hb x (by simp [namesOf])
      simp only [Scope.has, Option.isSome_iff_exists] at hx
      obtain ⟨v, hv⟩ := hx
      simp only [runPostfix, hv, hle x v hv]
      exact ih _ (fun y hy => hb y (by simp [namesOf, hy]))
    | op o =>
      have hrest : ∀ x ∈ namesOf rest, σc.has x = true := fun x hx => hb x (by simpa [namesOf] using hx)
      cases o with
      | fn f =>
        cases f with
        | isqrt =>
          cases stk with
          | nil => simp [runPostfix]
          | cons b stk' =>
            simp only [runPostfix]
            cases evalIsqrt b <;> simp [ih _ hrest]
        | min =>
          match stk with
          | [] => simp [runPostfix]
          | [_] => simp [runPostfix]
          | b :: a :: stk' =>
            simp only [runPostfix]
            cases evalFn2 .min a b <;> simp [ih _ hrest]
        | max =>
          match stk with
          | [] => simp [runPostfix]
          | [_] => simp [runPostfix]
          | b :: a :: stk' =>
            simp only [runPostfix]
            cases evalFn2 .max a b <;> simp [ih _ hrest]
      | bin bo =>
        match stk with
        | [] => simp [runPostfix]
        | [_] => simp [runPostfix]
        | b :: a :: stk' =>
          simp only [runPostfix]
          cases evalBin bo a b <;> simp [ih _ hrest]

theorem has_set_same (σ : Scope) (k : Name) (v : Int) : (σ.set k v).has k = true := by
  simp [Scope.has, get_set_same]

theorem has_set_of_has (σ : Scope) (k k2 : Name) (v : Int) (h : σ.has k2 = true) : (σ.set k v).has k2 = true := by
  by_cases hk : k2 = k
  · subst hk; exact has_set_same _ _ _
  · simpa [Scope.has, get_set_other σ k k2 v hk] using h

/-- binding a name to the value the assignment gives it keeps the bindings below the assignment -/
theorem scopeLe_set_le (σc σ : Scope) (k : Name) (v : Int) (hle : ScopeLe σc σ) (hv : σ.get? k = some v) :
    ScopeLe (σc.set k v) σ := by
  intro k2 v2 h2
  by_cases hk : k2 = k
  · subst hk; rw [get_set_same] at h2; cases h2; exact hv
  · rw [get_set_other σc k k2 v hk] at h2; exact hle _ _ h2

/-- one dimension of a conforming tensor is accepted; the bindings stay below the assignment and the
    dimension's identifier is bound afterwards -/
theorem dimStep_complete (tn : Name) (i : Nat) (d : DimExpr) (a : Nat) (σc σ : Scope) (B : List Name)
    (hle : ScopeLe σc σ) (hB : ∀ x ∈ B, σc.has x = true) (hs : DimStrong σ d a)
    (hr : d.isAnonymous = true ∨ d.isIdentifier = true ∨ ∀ x ∈ namesOf d.post, x ∈ B) :
    ∃ σ', dimStep tn i d a σc = .ok σ' ∧ ScopeLe σ' σ ∧ ScopeLe σc σ' ∧
      (∀ x ∈ (if d.isAnonymous then B else d.identifier :: B), σ'.has x = true) := by
  unfold dimStep
  by_cases hanon : d.isAnonymous = true
  · exact ⟨σc, by simp [hanon], hle, scopeLe_refl _, by simpa [hanon] using hB⟩
  · have hanonf : d.isAnonymous = false := by simpa using hanon
    rcases hs with hs | ⟨hid, hval⟩
    · exact absurd hs hanon
    · simp only [hanon, Bool.false_eq_true, if_false]
      have hBset : ∀ σ', ScopeLe σc σ' → σ'.has d.identifier = true →
          ∀ x ∈ d.identifier :: B, σ'.has x = true := by
        intro σ' hle' hh x hx
        simp only [List.mem_cons] at hx
        rcases hx with rfl | hx
        · exact hh
        · have := hB x hx
          simp only [Scope.has, Option.isSome_iff_exists] at this ⊢
          obtain ⟨v, hv⟩ := this
          exact ⟨v, hle' _ _ hv⟩
      by_cases hlit : (d.isLiteral && !σc.has d.identifier) = true
      · simp only [hlit, if_true]
        simp only [Bool.and_eq_true, Bool.not_eq_true'] at hlit
        have hnone := (has_false_iff σc d.identifier).mp hlit.2
        exact ⟨_, rfl, scopeLe_set_le σc σ _ _ hle hid, scopeLe_set σc _ _ hnone,
          hBset _ (scopeLe_set σc _ _ hnone) (has_set_same _ _ _)⟩
      · simp only [hlit, Bool.false_eq_true, if_false]
        by_cases hidn : (d.isIdentifier && !σc.has d.identifier) = true
        · simp only [hidn, if_true]
          simp only [Bool.and_eq_true, Bool.not_eq_true'] at hidn
          have hnone := (has_false_iff σc d.identifier).mp hidn.2
          exact ⟨_, rfl, scopeLe_set_le σc σ _ _ hle hid, scopeLe_set σc _ _ hnone,
            hBset _ (scopeLe_set σc _ _ hnone) (has_set_same _ _ _)⟩
        · simp only [hidn, Bool.false_eq_true, if_false]
          -- the evaluation under the current bindings gives the size of the axis
          have hev : d.evaluate σc = .val (Int.ofNat a) := by
            unfold DimExpr.evaluate
            simp only [hanon, Bool.false_eq_true, if_false]
            by_cases hc : (d.isIdentifier && σc.has d.identifier) = true
            · simp only [hc, if_true]
              simp only [Bool.and_eq_true] at hc
              have hh := hc.2
              simp only [Scope.has, Option.isSome_iff_exists] at hh
              obtain ⟨v, hv⟩ := hh
              have := hle _ _ hv
              rw [hid] at this
              cases this
              simp [hv]
            · simp only [hc, Bool.false_eq_true, if_false]
              -- not the cached path: the dimension is not a plain identifier, or it is an unbound one (excluded above)
              have hnotid : d.isIdentifier = false := by
                cases hi : d.isIdentifier with
                | false => rfl
                | true =>
                  exfalso
                  cases hh : σc.has d.identifier with
                  | true => simp [hi, hh] at hc
                  | false => simp [hi, hh] at hidn
              rcases hval with hval | hval
              · rw [hnotid] at hval; cases hval
              · rcases hr with hr | hr | hr
                · exact absurd hr hanon
                · rw [hnotid] at hr; cases hr
                · rw [runPostfix_agree d.post [] σc σ hle (fun x hx => hB x (hr x hx))]
                  exact hval
          simp only [hev]
          simp only [ne_eq, not_true_eq_false, if_false]
          cases hg : σc.get? d.identifier with
          | none =>
            exact ⟨_, rfl, scopeLe_set_le σc σ _ _ hle hid, scopeLe_set σc _ _ hg,
              hBset _ (scopeLe_set σc _ _ hg) (has_set_same _ _ _)⟩
          | some b =>
            have := hle _ _ hg
            rw [hid] at this
            cases this
            simp only [ne_eq, not_true_eq_false, if_false]
            exact ⟨σc, rfl, hle, scopeLe_refl _, hBset _ (scopeLe_refl _) (by simp [Scope.has, hg])⟩

theorem assertDims_complete (tn : Name) (i : Nat) (ds : List DimExpr) (as : List Nat) (σc σ : Scope)
    (B : List Name) (hle : ScopeLe σc σ) (hB : ∀ x ∈ B, σc.has x = true) (hs : DimsStrong σ ds as)
    (hr : RefsOrderedDims B ds) :
    ∃ σ', assertDims tn i ds as σc = .ok σ' ∧ ScopeLe σ' σ ∧ ScopeLe σc σ' ∧
      ∀ x ∈ boundAfter B ds, σ'.has x = true := by
  induction ds generalizing as i σc B with
  | nil =>
    cases as with
    | nil => exact ⟨σc, by simp [assertDims], hle, scopeLe_refl _, by simpa [boundAfter] using hB⟩
    | cons a as => simp [DimsStrong] at hs
  | cons d ds ih =>
    cases as with
    | nil => simp [DimsStrong] at hs
    | cons a as =>
      simp only [DimsStrong] at hs
      simp only [RefsOrderedDims] at hr
      obtain ⟨σ1, h1, hle1, hmono1, hB1⟩ := dimStep_complete tn i d a σc σ B hle hB hs.1 hr.1
      obtain ⟨σ2, h2, hle2, hmono2, hB2⟩ := ih (i + 1) as σ1 _ hle1 hB1 hs.2 hr.2
      refine ⟨σ2, by simp [assertDims, h1, h2], hle2, scopeLe_trans hmono1 hmono2, ?_⟩
      simpa [boundAfter] using hB2

theorem tensorStep_complete (acc : Acc) (st : CState) (e : Entry) (σ : Scope) (B : List Name)
    (hle : ScopeLe st.σ σ) (hB : ∀ x ∈ B, st.σ.has x = true) (hs : EntryStrong acc σ e)
    (hfresh : e.displayName ∉ st.registered)
    (hr : RefsOrderedDims B (expandDims e.ann e.tensor.shape)) :
    ∃ st', tensorStep acc st e = .ok st' ∧ ScopeLe st'.σ σ ∧ ScopeLe st.σ st'.σ ∧
      st'.registered = st.registered ++ [e.displayName] ∧
      ∀ x ∈ (match e.ann.multiName with | some g => [lenKey g] | none => []) ++
          boundAfter B (expandDims e.ann e.tensor.shape), st'.σ.has x = true := by
  obtain ⟨σ1, h1, hle1, hmono1, hB1⟩ :=
    assertDims_complete e.displayName 0 _ _ st.σ σ B hle hB hs.dims hr
  have hreg : st.registered.contains e.displayName = false := by
    simpa using hfresh
  unfold tensorStep
  simp only [hs.check, hreg, Bool.false_eq_true, if_false, h1]
  unfold groupLenStep
  cases hm : e.ann.multiName with
  | none =>
    exact ⟨_, rfl, hle1, hmono1, rfl, by simpa using hB1⟩
  | some g =>
    have hg := hs.group g hm
    simp only
    cases hget : σ1.get? (lenKey g) with
    | none =>
      simp only
      refine ⟨_, rfl, scopeLe_set_le σ1 σ _ _ hle1 hg, scopeLe_trans hmono1 (scopeLe_set σ1 _ _ hget), rfl, ?_⟩
      intro x hx
      simp only [List.singleton_append, List.mem_cons] at hx
      rcases hx with rfl | hx
      · exact has_set_same _ _ _
      · exact has_set_of_has _ _ _ _ (hB1 x hx)
    | some b =>
      have := hle1 _ _ hget
      rw [hg] at this
      cases this
      simp only [ne_eq, not_true_eq_false, if_false]
      refine ⟨_, rfl, hle1, hmono1, rfl, ?_⟩
      intro x hx
      simp only [List.singleton_append, List.mem_cons] at hx
      rcases hx with rfl | hx
      · simp [Scope.has, hget]
      · exact hB1 x hx

/-- C02a (model): if every tensor of the queue conforms (fully) to ONE assignment `σ` that extends the
    current bindings, display names are fresh, and every name used inside an expression is bound by an
    earlier dimension or the provider, then the queue is drained without any error, and the final
    bindings are still below `σ`. -/
theorem runEntries_complete (acc : Acc) (st : CState) (es : List Entry) (σ : Scope) (B : List Name)
    (hle : ScopeLe st.σ σ) (hB : ∀ x ∈ B, st.σ.has x = true)
    (hs : ∀ e ∈ es, EntryStrong acc σ e) (hfresh : NamesFresh st.registered es)
    (hr : RefsOrdered B es) :
    ∃ st', runEntries acc st es = .ok st' ∧ ScopeLe st'.σ σ := by
  induction es generalizing st B with
  | nil => exact ⟨st, rfl, hle⟩
  | cons e es ih =>
    simp only [NamesFresh] at hfresh
    simp only [RefsOrdered] at hr
    obtain ⟨st1, h1, hle1, _, hreg1, hB1⟩ :=
      tensorStep_complete acc st e σ B hle hB (hs e (by simp)) hfresh.1 hr.1
    obtain ⟨st2, h2, hle2⟩ := ih st1 _ hle1 hB1 (fun x hx => hs x (by simp [hx]))
      (by rw [hreg1]; exact hfresh.2) hr.2
    exact ⟨st2, by simp [runEntries, h1, h2], hle2⟩

end Dltype.Proofs
