import Proofs.Context
/-!
# Reports are true of the tensor they name (C08a)
-/
namespace Dltype.Proofs
open Dltype Dltype.Spec

/-- a KeyError of the machine names a name that is not bound -/
theorem runPostfix_keyError (p : List PItem) (stk : List Int) (σ : Scope) (k : Name)
    (h : runPostfix p stk σ = .keyError k) : σ.get? k = none ∧ PItem.str k ∈ p := by
  induction p generalizing stk with
  | nil =>
    match stk, h with
    | [w], h => simp [runPostfix] at h
    | [], h => simp [runPostfix] at h
    | _ :: _ :: _, h => simp [runPostfix] at h
  | cons it rest ih =>
    cases it with
    | int n =>
      simp only [runPostfix] at h
      have := ih _ h
      exact ⟨this.1, List.mem_cons_of_mem _ this.2⟩
    | str x =>
      simp only [runPostfix] at h
      cases hx : σ.get? x with
      | none => simp only [hx] at h; cases h; exact ⟨hx, by simp⟩
      | some w =>
        simp only [hx] at h
        have := ih _ h
        exact ⟨this.1, List.mem_cons_of_mem _ this.2⟩
    | op o =>
      cases o with
      | fn f =>
        cases f with
        | isqrt =>
          match stk, h with
          | [], h => simp [runPostfix] at h
          | b :: stk', h =>
            simp only [runPostfix] at h
            cases he : evalIsqrt b with
            | val w => simp only [he] at h; have := ih _ h; exact ⟨this.1, List.mem_cons_of_mem _ this.2⟩
            | keyError k' => simp [evalIsqrt] at he; split at he <;> cases he
            | pyExc e => simp [he] at h
            | unmodelled => simp [he] at h
        | min =>
          match stk, h with
          | [], h => simp [runPostfix] at h
          | [_], h => simp [runPostfix] at h
          | b :: a :: stk', h =>
            simp only [runPostfix, evalFn2] at h
            have := ih _ h; exact ⟨this.1, List.mem_cons_of_mem _ this.2⟩
        | max =>
          match stk, h with
          | [], h => simp [runPostfix] at h
          | [_], h => simp [runPostfix] at h
          | b :: a :: stk', h =>
            simp only [runPostfix, evalFn2] at h
            have := ih _ h; exact ⟨this.1, List.mem_cons_of_mem _ this.2⟩
      | bin bo =>
        match stk, h with
        | [], h => simp [runPostfix] at h
        | [_], h => simp [runPostfix] at h
        | b :: a :: stk', h =>
          simp only [runPostfix] at h
          cases he : evalBin bo a b with
          | val w => simp only [he] at h; have := ih _ h; exact ⟨this.1, List.mem_cons_of_mem _ this.2⟩
          | keyError k' => cases bo <;> simp [evalBin] at he <;> (try split at he) <;> cases he
          | pyExc e => simp [he] at h
          | unmodelled => simp [he] at h

theorem evaluate_keyError (d : DimExpr) (σ : Scope) (k : Name) (h : d.evaluate σ = .keyError k) :
    σ.get? k = none := by
  unfold DimExpr.evaluate at h
  split at h
  · cases h
  · split at h
    · rename_i hc
      simp only [Bool.and_eq_true] at hc
      have hh := hc.2
      simp only [Scope.has, Option.isSome_iff_exists] at hh
      obtain ⟨v, hv⟩ := hh
      simp [hv] at h
    · exact (runPostfix_keyError _ _ _ _ h).1

/-- what a rejection of one dimension says is true: a shape report carries this axis' index and actual size,
    an expected value that differs from it and that is the value of the dimension's expression under the
    bindings so far (or the earlier binding of its name); an invalid-reference report names an unbound name -/
theorem dimStep_reject (tn : Name) (i : Nat) (d : DimExpr) (a : Nat) (σ : Scope) (r : Report)
    (h : dimStep tn i d a σ = .reject r) :
    (∃ v : Int, r = .shape tn i v (Int.ofNat a) ∧ v ≠ Int.ofNat a ∧
        (d.evaluate σ = .val v ∨ (d.evaluate σ = .val (Int.ofNat a) ∧ σ.get? d.identifier = some v))) ∨
    (∃ k, r = .invalidRef tn k σ.keys ∧ σ.get? k = none) := by
  unfold dimStep at h
  split at h
  · cases h
  · split at h
    · cases h
    · split at h
      · cases h
      · cases hev : d.evaluate σ with
        | keyError k =>
          simp only [hev] at h
          injection h with h
          exact Or.inr ⟨k, h.symm, evaluate_keyError d σ k hev⟩
        | pyExc e => simp [hev] at h
        | unmodelled => simp [hev] at h
        | val v =>
          simp only [hev] at h
          split at h
          · rename_i hva
            injection h with h
            exact Or.inl ⟨v, h.symm, hva, Or.inl rfl⟩
          · rename_i hva
            have hva' : v = Int.ofNat a := Decidable.not_not.mp hva
            split at h
            · cases h
            · rename_i b hg
              split at h
              · rename_i hba
                injection h with h
                exact Or.inl ⟨b, h.symm, hba, Or.inr ⟨by rw [hva'], hg⟩⟩
              · cases h

/-- first-error lemma for the axes of one tensor: the rejected axis is the first one that fails, all
    axes before it were accepted, and the report's index is that axis' index in the actual tensor -/
theorem assertDims_reject (tn : Name) (i : Nat) (ds : List DimExpr) (as : List Nat) (σ : Scope) (r : Report)
    (h : assertDims tn i ds as σ = .reject r) :
    ∃ j dj aj σj, ds[j]? = some dj ∧ as[j]? = some aj ∧
      assertDims tn i (ds.take j) (as.take j) σ = .ok σj ∧ dimStep tn (i + j) dj aj σj = .reject r := by
  induction ds generalizing as i σ with
  | nil => simp [assertDims] at h
  | cons d ds ih =>
    cases as with
    | nil => simp [assertDims] at h
    | cons a as =>
      simp only [assertDims] at h
      cases hs : dimStep tn i d a σ with
      | ok σ1 =>
        simp only [hs] at h
        obtain ⟨j, dj, aj, σj, h1, h2, h3, h4⟩ := ih (i + 1) as σ1 h
        refine ⟨j + 1, dj, aj, σj, by simpa using h1, by simpa using h2, ?_, ?_⟩
        · simp [assertDims, hs, h3]
        · have : i + (j + 1) = i + 1 + j := by omega
          rw [this]; exact h4
      | reject r' =>
        simp only [hs] at h
        injection h with h
        subst h
        exact ⟨0, d, a, σ, rfl, rfl, by simp [assertDims], by simpa using hs⟩
      | pyExc e => simp [hs] at h
      | unmodelled => simp [hs] at h

/-- first-error lemma for the queue: the rejecting tensor is the first one that fails; the tensors before it
    were accepted, and the rejection is computed under exactly the bindings they established -/
theorem runEntries_reject (acc : Acc) (st : CState) (es : List Entry) (r : Report)
    (h : runEntries acc st es = .reject r) :
    ∃ pre e post st1, es = pre ++ e :: post ∧ runEntries acc st pre = .ok st1 ∧ tensorStep acc st1 e = .reject r := by
  induction es generalizing st with
  | nil => simp [runEntries] at h
  | cons e es ih =>
    simp only [runEntries] at h
    cases hs : tensorStep acc st e with
    | ok st1 =>
      simp only [hs] at h
      obtain ⟨pre, e', post, st2, h1, h2, h3⟩ := ih st1 h
      exact ⟨e :: pre, e', post, st2, by simp [h1], by simp [runEntries, hs, h2], h3⟩
    | reject r' =>
      simp only [hs] at h
      injection h with h
      subst h
      exact ⟨[], e, es, st, rfl, rfl, hs⟩
    | pyExc x => simp [hs] at h
    | unmodelled => simp [hs] at h

/-- what kind of report one tensor can produce, and what each kind says -/
theorem tensorStep_reject (acc : Acc) (st : CState) (e : Entry) (r : Report)
    (h : tensorStep acc st e = .reject r) :
    check acc e.ann e.tensor e.displayName = .error r ∨
    (r = .duplicate e.displayName ∧ e.displayName ∈ st.registered) ∨
    (assertDims e.displayName 0 (expandDims e.ann e.tensor.shape) e.tensor.shape st.σ = .reject r) ∨
    (∃ g b, e.ann.multiName = some g ∧
       r = .ndims e.displayName (Int.ofNat (e.ann.dims.length - 1) + b) e.tensor.shape.length ∧
       b ≠ Int.ofNat e.tensor.shape.length - Int.ofNat (e.ann.dims.length - 1)) := by
  unfold tensorStep at h
  cases hc : check acc e.ann e.tensor e.displayName with
  | error r' => simp only [hc] at h; injection h with h; subst h; exact Or.inl rfl
  | ok u =>
    simp only [hc] at h
    split at h
    · rename_i hreg
      injection h with h
      exact Or.inr (Or.inl ⟨h.symm, by simpa using hreg⟩)
    · cases ha : assertDims e.displayName 0 (expandDims e.ann e.tensor.shape) e.tensor.shape st.σ with
      | reject r' => simp only [ha] at h; injection h with h; subst h; exact Or.inr (Or.inr (Or.inl rfl))
      | pyExc x => simp [ha] at h
      | unmodelled => simp [ha] at h
      | ok σ1 =>
        simp only [ha] at h
        cases hg : groupLenStep e σ1 with
        | ok σ2 => simp [hg] at h
        | pyExc x => simp [hg] at h
        | unmodelled => simp [hg] at h
        | reject r' =>
          simp only [hg] at h
          injection h with h
          subst h
          unfold groupLenStep at hg
          cases hm : e.ann.multiName with
          | none => simp [hm] at hg
          | some g =>
            simp only [hm] at hg
            cases hget : σ1.get? (lenKey g) with
            | none => simp [hget] at hg
            | some b =>
              simp only [hget] at hg
              split at hg
              · rename_i hb
                injection hg with hg
                exact Or.inr (Or.inr (Or.inr ⟨g, b, rfl, hg.symm, hb⟩))
              · cases hg

end Dltype.Proofs
