import Proofs.Tokenize
/-!
# The shunting-yard loop compiles the tokens of a tree into the tree's post-order (C05a, steps 2–4)
-/
namespace Dltype.Proofs
open Dltype Dltype.Spec

/-! ## step 2: the operand/operator count pre-check passes -/

theorem sumMap_append (f : Tok → Nat) (a b : List Tok) : sumMap f (a ++ b) = sumMap f a + sumMap f b := by
  induction a with
  | nil => simp [sumMap]
  | cons x xs ih => simp [sumMap, ih]; omega

theorem count_tree (t : Tree) (hok : t.FnOK = true) :
    sumMap Tok.actArgs (toks t) = sumMap Tok.expArgs (toks t) + 1 := by
  induction t with
  | lit ds => simp [toks, sumMap, Tok.actArgs, Tok.expArgs]
  | var x => simp [toks, sumMap, Tok.actArgs, Tok.expArgs]
  | bin o l r ihl ihr =>
    simp only [Tree.FnOK, Bool.and_eq_true] at hok
    simp only [toks, sumMap_append, sumMap, Tok.actArgs, Tok.expArgs, ihl hok.1, ihr hok.2]
    omega
  | fn2 f a b iha ihb =>
    simp only [Tree.FnOK, Bool.and_eq_true, Bool.or_eq_true, decide_eq_true_eq] at hok
    obtain ⟨⟨hf, ha⟩, hb⟩ := hok
    rcases hf with rfl | rfl <;>
      simp only [toks, sumMap_append, sumMap, Tok.actArgs, Tok.expArgs, iha ha, ihb hb, List.cons_append,
        List.nil_append] <;> omega
  | isqrt a ih =>
    simp only [Tree.FnOK] at hok
    simp only [toks, sumMap_append, sumMap, Tok.actArgs, Tok.expArgs, ih hok, List.cons_append, List.nil_append]
    omega
  | grp a ih =>
    simp only [Tree.FnOK] at hok
    simp only [toks, sumMap_append, sumMap, Tok.actArgs, Tok.expArgs, ih hok, List.cons_append, List.nil_append]
    omega

theorem toks_no_eq (t : Tree) : (toks t).contains .eq = false := by
  induction t with
  | lit ds => simp [toks]
  | var x => simp [toks]
  | bin o l r ihl ihr => simp_all [toks]
  | fn2 f a b iha ihb => simp_all [toks]
  | isqrt a ih => simp_all [toks]
  | grp a ih => simp_all [toks]

theorem toks_ne_nil (t : Tree) : toks t ≠ [] := by
  cases t <;> simp [toks]

theorem tokensValid_tree (t : Tree) (hok : t.FnOK = true) : tokensValid (toks t) = true := by
  have hc := count_tree t hok
  have he := toks_no_eq t
  cases t with
  | lit ds => rfl
  | var x => rfl
  | bin o l r =>
    -- general branch: the list has at least three tokens and does not start like one of the special cases
    have hgen : tokensValid (toks (.bin o l r)) =
        (!(toks (.bin o l r)).contains .eq && (1 + sumMap Tok.expArgs (toks (.bin o l r)) == sumMap Tok.actArgs (toks (.bin o l r)))) := by
      have hl := toks_ne_nil l
      have hr := toks_ne_nil r
      simp only [toks]
      match hl' : toks l, hr' : toks r with
      | [], _ => exact absurd hl' hl
      | _, [] => exact absurd hr' hr
      | a :: as, b :: bs =>
        cases as with
        | nil => simp [tokensValid]
        | cons a2 as2 => simp [tokensValid]
    rw [hgen, he, hc]
    simp; omega
  | fn2 f a b =>
    have hgen : tokensValid (toks (.fn2 f a b)) =
        (!(toks (.fn2 f a b)).contains .eq && (1 + sumMap Tok.expArgs (toks (.fn2 f a b)) == sumMap Tok.actArgs (toks (.fn2 f a b)))) := by
      simp [toks, tokensValid]
    rw [hgen, he, hc]
    simp; omega
  | isqrt a =>
    have hgen : tokensValid (toks (.isqrt a)) =
        (!(toks (.isqrt a)).contains .eq && (1 + sumMap Tok.expArgs (toks (.isqrt a)) == sumMap Tok.actArgs (toks (.isqrt a)))) := by
      simp [toks, tokensValid]
    rw [hgen, he, hc]
    simp; omega
  | grp a =>
    have hgen : tokensValid (toks (.grp a)) =
        (!(toks (.grp a)).contains .eq && (1 + sumMap Tok.expArgs (toks (.grp a)) == sumMap Tok.actArgs (toks (.grp a)))) := by
      have ha := toks_ne_nil a
      simp only [toks]
      match ha' : toks a with
      | [] => exact absurd ha' ha
      | x :: xs => simp [tokensValid]
    rw [hgen, he, hc]
    simp; omega

end Dltype.Proofs

namespace Dltype.Proofs
open Dltype Dltype.Spec

/-! ## step 3: `_get_group_indices` on the tokens of a tree -/

theorem toks_length_pos (t : Tree) : 0 < (toks t).length := by
  cases t <;> simp [toks] <;> omega

/-- inside a group (depth ≥ 1) the scan passes over the tokens of a whole tree without recording anything -/
theorem groupGo_tree (a : Tree) (more : List Tok) (idx : Nat) (depth : Int) (lp : Option Nat) (cs : List Nat)
    (hd : 1 ≤ depth) :
    groupGo (toks a ++ more) idx depth lp cs = groupGo more (idx + (toks a).length) depth lp cs := by
  induction a generalizing more idx depth lp cs with
  | lit ds => simp [toks, groupGo]
  | var x => simp [toks, groupGo]
  | bin o l r ihl ihr =>
    simp only [toks, List.append_assoc, List.length_append, List.length_cons, List.length_nil]
    rw [ihl _ _ _ _ _ hd]
    simp only [List.singleton_append, groupGo]
    rw [ihr _ _ _ _ _ hd]
    congr 1; omega
  | fn2 f a b iha ihb =>
    have h1 : depth + 1 ≠ 1 := by omega
    have h2 : 1 ≤ depth + 1 := by omega
    simp only [toks, List.append_assoc, List.cons_append, List.nil_append, groupGo, h1, if_false,
      List.length_append, List.length_cons, List.length_nil]
    rw [iha _ _ _ _ _ h2]
    simp only [groupGo, h1, if_false]
    rw [ihb _ _ _ _ _ h2]
    simp only [groupGo, h1, if_false]
    have : depth + 1 - 1 = depth := by omega
    rw [this]
    congr 1; omega
  | isqrt a ih =>
    have h1 : depth + 1 ≠ 1 := by omega
    have h2 : 1 ≤ depth + 1 := by omega
    simp only [toks, List.append_assoc, List.cons_append, List.nil_append, groupGo, h1, if_false,
      List.length_append, List.length_cons, List.length_nil]
    rw [ih _ _ _ _ _ h2]
    simp only [groupGo, h1, if_false]
    have : depth + 1 - 1 = depth := by omega
    rw [this]
    congr 1; omega
  | grp a ih =>
    have h1 : depth + 1 ≠ 1 := by omega
    have h2 : 1 ≤ depth + 1 := by omega
    simp only [toks, List.append_assoc, List.cons_append, List.nil_append, groupGo, h1, if_false,
      List.length_append, List.length_cons, List.length_nil]
    rw [ih _ _ _ _ _ h2]
    simp only [groupGo, h1, if_false]
    have : depth + 1 - 1 = depth := by omega
    rw [this]
    congr 1; omega

theorem groupIndices_fn2 (f : Fn) (a b : Tree) (rest : List Tok) :
    groupIndices (.fn f :: .lp :: (toks a ++ (.comma :: (toks b ++ (.rp :: rest))))) =
      some (1, [2 + (toks a).length], 3 + (toks a).length + (toks b).length) := by
  unfold groupIndices
  simp only [groupGo]
  have e1 : ((0 : Int) + 1 = 1) := by omega
  simp only [e1, if_true]
  rw [groupGo_tree a _ _ 1 _ _ (by omega)]
  simp only [groupGo, if_true]
  rw [groupGo_tree b _ _ 1 _ _ (by omega)]
  simp only [groupGo, if_true]
  have h1 : ¬ (1 > 0 + 1 + 1 + (toks a).length + 1 + (toks b).length) := by omega
  simp
  omega

theorem groupIndices_isqrt (a : Tree) (rest : List Tok) :
    groupIndices (.fn .isqrt :: .lp :: (toks a ++ (.rp :: rest))) = some (1, [], 2 + (toks a).length) := by
  unfold groupIndices
  simp only [groupGo]
  have e1 : ((0 : Int) + 1 = 1) := by omega
  simp only [e1, if_true]
  rw [groupGo_tree a _ _ 1 _ _ (by omega)]
  simp only [groupGo, if_true]
  simp

theorem groupIndices_grp (a : Tree) (rest : List Tok) :
    groupIndices (.lp :: (toks a ++ (.rp :: rest))) = some (0, [], 1 + (toks a).length) := by
  unfold groupIndices
  simp only [groupGo]
  have e1 : ((0 : Int) + 1 = 1) := by omega
  simp only [e1, if_true]
  rw [groupGo_tree a _ _ 1 _ _ (by omega)]
  simp only [groupGo, if_true]
  simp

end Dltype.Proofs

namespace Dltype.Proofs
open Dltype Dltype.Spec

/-! ## step 4: the loop -/

/-- operators left on the stack after the tree has been consumed (top first) -/
def spine : Tree → List Op
  | .bin o _ r => spine r ++ [.bin o]
  | .fn2 f _ _ => [.fn f]
  | .isqrt _ => [.fn .isqrt]
  | _ => []

/-- what has been emitted once the tree has been consumed -/
def body : Tree → List PItem
  | .lit ds => [.int (digitsToNat ds)]
  | .var x => [.str x]
  | .grp a => a.post
  | .fn2 _ a b => a.post ++ b.post
  | .isqrt a => a.post
  | .bin _ l r => l.post ++ body r

/-- loop iterations the tree takes at its own parenthesis level -/
def steps : Tree → Nat
  | .bin _ l r => steps l + 1 + steps r
  | _ => 1

theorem body_spine (t : Tree) : body t ++ (spine t).map PItem.op = t.post := by
  induction t with
  | lit ds => simp [body, spine, Tree.post]
  | var x => simp [body, spine, Tree.post]
  | grp a _ => simp [body, spine, Tree.post]
  | fn2 f a b _ _ => simp [body, spine, Tree.post]
  | isqrt a _ => simp [body, spine, Tree.post]
  | bin o l r _ ihr => simp [body, spine, Tree.post, ← ihr]

theorem steps_le (t : Tree) : steps t ≤ (toks t).length := by
  induction t with
  | bin o l r ihl ihr => simp [steps, toks]; omega
  | lit ds => simp [steps, toks]
  | var x => simp [steps, toks]
  | grp a _ => simp [steps, toks]
  | fn2 f a b _ _ => simp [steps, toks]
  | isqrt a _ => simp [steps, toks]

theorem steps_pos (t : Tree) : 1 ≤ steps t := by
  cases t <;> simp [steps] <;> omega

theorem flush_all (p : Nat) (xs st : List Op) (out : List PItem)
    (hx : ∀ x ∈ xs, p ≤ x.prec) (hs : ∀ s ∈ st, s.prec < p) :
    flush p (xs ++ st) out = (st, out ++ xs.map PItem.op) := by
  induction xs generalizing out with
  | nil =>
    cases st with
    | nil => simp [flush]
    | cons s st =>
      have := hs s (by simp)
      simp [flush]; omega
  | cons x xs ih =>
    have hx' := hx x (by simp)
    simp [flush, hx']
    rw [ih]
    · simp
    · intro y hy; exact hx y (by simp [hy])

theorem flush_none (p : Nat) (st : List Op) (out : List PItem) (hs : ∀ s ∈ st, s.prec < p) :
    flush p st out = (st, out) := by
  have := flush_all p [] st out (by simp) hs
  simpa using this

theorem binop_prec_le3 (o : BinOp) : 1 ≤ o.prec ∧ o.prec ≤ 3 := by cases o <;> simp [BinOp.prec]
theorem fn_prec_ge4 (f : Fn) : 4 ≤ f.prec := by cases f <;> simp [Fn.prec]

/-- every operator left on the stack by a tree binds at least as tightly as the tree's root (functions ≥ 4) -/
theorem spine_prec (t : Tree) (h : t.WF = true) :
    ∀ x ∈ spine t, t.prec ≤ x.prec ∨ (t.prec = 100 ∧ 4 ≤ x.prec) := by
  induction t with
  | lit ds => simp [spine]
  | var x => simp [spine]
  | grp a _ => simp [spine]
  | fn2 f a b _ _ =>
    intro x hx; simp [spine] at hx; subst hx; right; exact ⟨rfl, by simpa [Op.prec] using fn_prec_ge4 f⟩
  | isqrt a _ =>
    intro x hx; simp [spine] at hx; subst hx; right; exact ⟨rfl, by simp [Op.prec, Fn.prec]⟩
  | bin o l r _ ihr =>
    intro x hx
    simp only [Tree.WF, Bool.and_eq_true, decide_eq_true_eq] at h
    obtain ⟨⟨⟨_, hr⟩, _⟩, hlt⟩ := h
    simp only [spine, List.mem_append, List.mem_singleton] at hx
    have ho := binop_prec_le3 o
    rcases hx with hx | hx
    · rcases ihr hr x hx with h1 | ⟨_, h2⟩
      · left; simp only [Tree.prec]; omega
      · left; simp only [Tree.prec]; omega
    · subst hx; left; simp [Tree.prec, Op.prec]

theorem loop_nil (k : Nat) (st : List Op) (out : List PItem) :
    loop (k + 1) [] st out = .ok (out ++ st.map PItem.op) := by
  simp [loop]

theorem argSlices_two (ts : List Tok) (l c r : Nat) :
    argSlices ts l [c, r] = [(ts.drop (l + 1)).take (c - (l + 1)), (ts.drop (c + 1)).take (r - (c + 1))] := by
  simp [argSlices]

theorem argSlices_one (ts : List Tok) (l r : Nat) :
    argSlices ts l [r] = [(ts.drop (l + 1)).take (r - (l + 1))] := by
  simp [argSlices]

theorem innerWith_tree (rec : List Tok → Except ParseErr (List PItem)) (a : Tree) (hwf : a.WF = true) :
    innerWith rec (toks a) = rec (toks a) := by
  cases a with
  | lit ds => simp [toks, innerWith]
  | var x =>
    simp only [Tree.WF, Bool.and_eq_true] at hwf
    have : x ≠ kwEllipsis := by
      intro h; subst h; revert hwf; decide
    simp [toks, innerWith, this]
  | bin o l r =>
    have hl := toks_ne_nil l
    have hr := toks_ne_nil r
    simp only [toks]
    match hl' : toks l, hr' : toks r with
    | [], _ => exact absurd hl' hl
    | _, [] => exact absurd hr' hr
    | x :: xs, y :: ys =>
      cases xs with
      | nil => cases x <;> simp [innerWith]
      | cons x2 xs2 => cases x <;> simp [innerWith]
  | fn2 f a b => simp [toks, innerWith]
  | isqrt a => simp [toks, innerWith]
  | grp a =>
    have ha := toks_ne_nil a
    simp only [toks]
    match ha' : toks a with
    | [] => exact absurd ha' ha
    | x :: xs => simp [innerWith]

/-- C05a step 4: the loop, started on the tokens of a well-formed tree with only lower-precedence infix
    operators below on the stack, consumes exactly the tree, leaves the tree's right spine on the stack and
    has emitted the tree's body.  (`fuel` only has to cover the tokens of the tree.) -/
theorem loop_tree (t : Tree) (hwf : t.WF = true) :
    ∀ (fuel : Nat) (rest : List Tok) (st : List Op) (out : List PItem),
      (toks t).length + 1 ≤ fuel →
      (∀ s ∈ st, s.prec < t.prec ∧ s.prec < 4) →
      loop fuel (toks t ++ rest) st out = loop (fuel - steps t) rest (spine t ++ st) (out ++ body t) := by
  induction t with
  | lit ds =>
    intro fuel rest st out hf _
    obtain ⟨k, rfl⟩ : ∃ k, fuel = k + 1 := ⟨fuel - 1, by simp [toks] at hf; omega⟩
    simp [toks, loop, steps, spine, body]
  | var x =>
    intro fuel rest st out hf _
    obtain ⟨k, rfl⟩ : ∃ k, fuel = k + 1 := ⟨fuel - 1, by simp [toks] at hf; omega⟩
    simp only [Tree.WF, Bool.and_eq_true] at hwf
    simp [toks, loop, steps, spine, body, hwf.1]
  | bin o l r ihl ihr =>
    intro fuel rest st out hf hst
    simp only [Tree.WF, Bool.and_eq_true, decide_eq_true_eq] at hwf
    obtain ⟨⟨⟨hl, hr⟩, hle⟩, hlt⟩ := hwf
    have hlen : (toks (.bin o l r)).length = (toks l).length + 1 + (toks r).length := by simp [toks]; omega
    have hsl := steps_le l
    have hsr := steps_le r
    have ho := binop_prec_le3 o
    have e : toks (.bin o l r) ++ rest = toks l ++ (.bin o :: (toks r ++ rest)) := by simp [toks]
    rw [e, ihl hl fuel _ st out (by omega) (fun s hs => by have := hst s hs; simp only [Tree.prec] at this; omega)]
    obtain ⟨k, hk⟩ : ∃ k, fuel - steps l = k + 1 := ⟨fuel - steps l - 1, by omega⟩
    rw [hk]
    simp only [loop]
    have hfl : flush o.prec (spine l ++ st) (out ++ body l) = (st, out ++ body l ++ (spine l).map PItem.op) := by
      apply flush_all
      · intro x hx
        rcases spine_prec l hl x hx with h1 | ⟨_, h2⟩
        · omega
        · omega
      · intro s hs; have := (hst s hs).1; simpa [Tree.prec] using this
    rw [hfl]
    simp only []
    rw [ihr hr k rest (.bin o :: st) _ (by omega) (by
      intro s hs
      rcases List.mem_cons.mp hs with rfl | hs
      · simp only [Op.prec]; omega
      · have := hst s hs; simp only [Tree.prec] at this; omega)]
    have hb : out ++ body l ++ (spine l).map PItem.op = out ++ l.post := by
      rw [List.append_assoc, body_spine]
    rw [hb]
    have hk2 : k - steps r = fuel - steps (.bin o l r) := by simp only [steps]; omega
    rw [hk2]
    simp [spine, body, List.append_assoc]
  | grp a ih =>
    intro fuel rest st out hf hst
    simp only [Tree.WF] at hwf
    have hlen : (toks (.grp a)).length = (toks a).length + 2 := by simp [toks]
    obtain ⟨k, rfl⟩ : ∃ k, fuel = k + 1 := ⟨fuel - 1, by omega⟩
    have hsa := steps_le a
    have e : toks (.grp a) ++ rest = .lp :: (toks a ++ (.rp :: rest)) := by simp [toks]
    rw [e]
    simp only [loop]
    have hfl : flush (pendPrec none) st out = (st, out) :=
      flush_none _ st out (fun s hs => by have := (hst s hs).2; simp [pendPrec, lparenPrec]; omega)
    rw [hfl, groupIndices_grp]
    simp only [arityOk, List.length_nil, beq_self_eq_true, Bool.not_true, Bool.false_eq_true, if_false,
      List.nil_append, argSlices_one]
    have hslice : (List.drop (0 + 1) (Tok.lp :: (toks a ++ (Tok.rp :: rest)))).take (1 + (toks a).length - (0 + 1)) = toks a := by
      simp only [Nat.zero_add, List.drop_succ_cons, List.drop_zero]
      have : 1 + (toks a).length - 1 = (toks a).length := by omega
      rw [this]
      exact List.take_left' rfl
    rw [hslice]
    simp only [mapArgs, innerWith_tree _ a hwf]
    have hin := ih hwf k [] [] [] (by omega) (by simp)
    simp only [List.append_nil, List.nil_append] at hin
    rw [hin]
    obtain ⟨m, hm⟩ : ∃ m, k - steps a = m + 1 := ⟨k - steps a - 1, by omega⟩
    rw [hm, loop_nil]
    simp only [body_spine]
    have hdrop : List.drop (1 + (toks a).length + 1) (Tok.lp :: (toks a ++ (Tok.rp :: rest))) = rest := by
      have : 1 + (toks a).length + 1 = (Tok.lp :: (toks a ++ [Tok.rp])).length := by simp; omega
      rw [this]
      have e2 : Tok.lp :: (toks a ++ (Tok.rp :: rest)) = (Tok.lp :: (toks a ++ [Tok.rp])) ++ rest := by simp
      rw [e2]
      exact List.drop_left
    rw [hdrop]
    simp [pushPend, steps, spine, body]
  | isqrt a ih =>
    intro fuel rest st out hf hst
    simp only [Tree.WF] at hwf
    have hlen : (toks (.isqrt a)).length = (toks a).length + 3 := by simp [toks]
    obtain ⟨k, rfl⟩ : ∃ k, fuel = k + 1 := ⟨fuel - 1, by omega⟩
    have hsa := steps_le a
    have e : toks (.isqrt a) ++ rest = .fn .isqrt :: .lp :: (toks a ++ (.rp :: rest)) := by simp [toks]
    rw [e]
    simp only [loop]
    have hfl : flush (pendPrec (some .isqrt)) st out = (st, out) :=
      flush_none _ st out (fun s hs => by have := (hst s hs).2; simp [pendPrec, Fn.prec]; omega)
    rw [hfl, groupIndices_isqrt]
    simp only [arityOk, List.length_nil, beq_self_eq_true, Bool.not_true, Bool.false_eq_true, if_false,
      List.nil_append, argSlices_one]
    have hslice : (List.drop (1 + 1) (Tok.fn .isqrt :: Tok.lp :: (toks a ++ (Tok.rp :: rest)))).take (2 + (toks a).length - (1 + 1)) = toks a := by
      simp only [List.drop_succ_cons, List.drop_zero]
      have : 2 + (toks a).length - (1 + 1) = (toks a).length := by omega
      rw [this]
      exact List.take_left' rfl
    rw [hslice]
    simp only [mapArgs, innerWith_tree _ a hwf]
    have hin := ih hwf k [] [] [] (by omega) (by simp)
    simp only [List.append_nil, List.nil_append] at hin
    rw [hin]
    obtain ⟨m, hm⟩ : ∃ m, k - steps a = m + 1 := ⟨k - steps a - 1, by omega⟩
    rw [hm, loop_nil]
    simp only [body_spine]
    have hdrop : List.drop (2 + (toks a).length + 1) (Tok.fn .isqrt :: Tok.lp :: (toks a ++ (Tok.rp :: rest))) = rest := by
      have : 2 + (toks a).length + 1 = (Tok.fn .isqrt :: Tok.lp :: (toks a ++ [Tok.rp])).length := by simp; omega
      rw [this]
      have e2 : Tok.fn .isqrt :: Tok.lp :: (toks a ++ (Tok.rp :: rest)) = (Tok.fn .isqrt :: Tok.lp :: (toks a ++ [Tok.rp])) ++ rest := by simp
      rw [e2]
      exact List.drop_left
    rw [hdrop]
    simp [pushPend, steps, spine, body]
  | fn2 f a b iha ihb =>
    intro fuel rest st out hf hst
    simp only [Tree.WF, Bool.and_eq_true, Bool.or_eq_true, decide_eq_true_eq] at hwf
    obtain ⟨⟨hfm, hwa⟩, hwb⟩ := hwf
    have hlen : (toks (.fn2 f a b)).length = (toks a).length + (toks b).length + 4 := by simp [toks]; omega
    obtain ⟨k, rfl⟩ : ∃ k, fuel = k + 1 := ⟨fuel - 1, by omega⟩
    have hsa := steps_le a
    have hsb := steps_le b
    have e : toks (.fn2 f a b) ++ rest = .fn f :: .lp :: (toks a ++ (.comma :: (toks b ++ (.rp :: rest)))) := by
      simp [toks]
    rw [e]
    simp only [loop]
    have hfl : flush (pendPrec (some f)) st out = (st, out) :=
      flush_none _ st out (fun s hs => by have := (hst s hs).2; have := fn_prec_ge4 f; simp [pendPrec]; omega)
    rw [hfl, groupIndices_fn2]
    have har : arityOk (some f) [2 + (toks a).length].length = true := by
      rcases hfm with rfl | rfl <;> simp [arityOk]
    simp only [har, Bool.not_true, Bool.false_eq_true, if_false, List.singleton_append, argSlices_two]
    have hs1 : (List.drop (1 + 1) (Tok.fn f :: Tok.lp :: (toks a ++ (Tok.comma :: (toks b ++ (Tok.rp :: rest)))))).take
        (2 + (toks a).length - (1 + 1)) = toks a := by
      simp only [List.drop_succ_cons, List.drop_zero]
      have : 2 + (toks a).length - (1 + 1) = (toks a).length := by omega
      rw [this]
      exact List.take_left' rfl
    have hs2 : (List.drop (2 + (toks a).length + 1) (Tok.fn f :: Tok.lp :: (toks a ++ (Tok.comma :: (toks b ++ (Tok.rp :: rest)))))).take
        (3 + (toks a).length + (toks b).length - (2 + (toks a).length + 1)) = toks b := by
      have h1 : 2 + (toks a).length + 1 = (Tok.fn f :: Tok.lp :: (toks a ++ [Tok.comma])).length := by simp; omega
      have e2 : Tok.fn f :: Tok.lp :: (toks a ++ (Tok.comma :: (toks b ++ (Tok.rp :: rest)))) =
          (Tok.fn f :: Tok.lp :: (toks a ++ [Tok.comma])) ++ (toks b ++ (Tok.rp :: rest)) := by simp
      rw [h1, e2, List.drop_left]
      have : 3 + (toks a).length + (toks b).length - (Tok.fn f :: Tok.lp :: (toks a ++ [Tok.comma])).length = (toks b).length := by
        simp; omega
      rw [this]
      exact List.take_left' rfl
    rw [hs1, hs2]
    simp only [mapArgs, innerWith_tree _ a hwa, innerWith_tree _ b hwb]
    have hina := iha hwa k [] [] [] (by omega) (by simp)
    have hinb := ihb hwb k [] [] [] (by omega) (by simp)
    simp only [List.append_nil, List.nil_append] at hina hinb
    rw [hina, hinb]
    obtain ⟨m, hm⟩ : ∃ m, k - steps a = m + 1 := ⟨k - steps a - 1, by omega⟩
    obtain ⟨m2, hm2⟩ : ∃ m2, k - steps b = m2 + 1 := ⟨k - steps b - 1, by omega⟩
    rw [hm, hm2, loop_nil, loop_nil]
    simp only [body_spine, List.nil_append, List.append_nil]
    have hdrop : List.drop (3 + (toks a).length + (toks b).length + 1)
        (Tok.fn f :: Tok.lp :: (toks a ++ (Tok.comma :: (toks b ++ (Tok.rp :: rest))))) = rest := by
      have h1 : 3 + (toks a).length + (toks b).length + 1 =
          (Tok.fn f :: Tok.lp :: (toks a ++ (Tok.comma :: (toks b ++ [Tok.rp])))).length := by simp; omega
      have e2 : Tok.fn f :: Tok.lp :: (toks a ++ (Tok.comma :: (toks b ++ (Tok.rp :: rest)))) =
          (Tok.fn f :: Tok.lp :: (toks a ++ (Tok.comma :: (toks b ++ [Tok.rp])))) ++ rest := by simp
      rw [h1, e2]
      exact List.drop_left
    rw [hdrop]
    simp [pushPend, steps, spine, body, List.append_assoc]

end Dltype.Proofs
