import DltypeModel
import Spec
/-!
# The tokenizer reads the string of a grammar tree back as the tree's tokens (C05a, step 1)
-/
namespace Dltype.Proofs
open Dltype Dltype.Spec

/-- the token list of a tree -/
def toks : Tree → List Tok
  | .lit ds => [.int (digitsToNat ds)]
  | .var x => [.str x]
  | .bin o l r => toks l ++ [.bin o] ++ toks r
  | .fn2 f a b => [.fn f, .lp] ++ toks a ++ [.comma] ++ toks b ++ [.rp]
  | .isqrt a => [.fn .isqrt, .lp] ++ toks a ++ [.rp]
  | .grp a => [.lp] ++ toks a ++ [.rp]

/-- a character that is part of a word (digit, letter, underscore): neither a space nor a one-character token -/
def wordChar (c : Char) : Bool := isIdentChar c

theorem wordChar_not_special (c : Char) (h : wordChar c = true) : c ≠ ' ' ∧ charTok c = none := by
  simp only [wordChar, isIdentChar, isAlpha, isDigit, Bool.or_eq_true, Bool.and_eq_true, decide_eq_true_eq] at h
  have hn : c.toNat = c.toNat := rfl
  refine ⟨?_, ?_⟩
  · intro hc; subst hc; revert h; decide
  · unfold charTok
    have hne : ∀ d : Char, (¬ (('a' ≤ d ∧ d ≤ 'z') ∨ ('A' ≤ d ∧ d ≤ 'Z') ∨ ('0' ≤ d ∧ d ≤ '9') ∨ d = '_')) → c ≠ d := by
      intro d hd hcd; subst hcd
      apply hd
      rcases h with (h | h) | h
      · rcases h with h | h
        · exact Or.inl h
        · exact Or.inr (Or.inl h)
      · exact Or.inr (Or.inr (Or.inl h))
      · exact Or.inr (Or.inr (Or.inr h))
    have h1 := hne '+' (by decide)
    have h2 := hne '-' (by decide)
    have h3 := hne '*' (by decide)
    have h4 := hne '^' (by decide)
    have h5 := hne '/' (by decide)
    have h6 := hne '=' (by decide)
    have h7 := hne '(' (by decide)
    have h8 := hne ')' (by decide)
    have h9 := hne ',' (by decide)
    simp [h1, h2, h3, h4, h5, h6, h7, h8, h9]

/-- a word is swallowed into the current span -/
theorem tokenizeAux_word (w : List Char) (hw : ∀ c ∈ w, wordChar c = true) (rest span : List Char) :
    tokenizeAux (w ++ rest) span = tokenizeAux rest (span ++ w) := by
  induction w generalizing span with
  | nil => simp
  | cons c cs ih =>
    have hc := wordChar_not_special c (hw c (by simp))
    simp only [List.cons_append, tokenizeAux, hc.1, if_false, hc.2]
    rw [ih (fun d hd => hw d (by simp [hd]))]
    simp

/-- the rest of the input begins with a one-character token (or is empty) -/
def Ends (rest : List Char) : Prop := rest = [] ∨ ∃ c cs tk, rest = c :: cs ∧ c ≠ ' ' ∧ charTok c = some tk

theorem flushSpan_nil : flushSpan [] = [] := rfl

/-- a pending span is flushed in front of whatever the rest produces -/
theorem tokenizeAux_span (rest span : List Char) (h : Ends rest) :
    tokenizeAux rest span = (tokenizeAux rest []).map (fun r => flushSpan span ++ r) := by
  rcases h with rfl | ⟨c, cs, tk, rfl, hsp, htk⟩
  · simp [tokenizeAux, Except.map, flushSpan_nil]
  · simp only [tokenizeAux, hsp, if_false, htk]
    cases tokenizeAux cs [] with
    | error e => simp [Except.map]
    | ok r => simp [Except.map, flushSpan_nil]

theorem tokenizeAux_special (c : Char) (tk : Tok) (cs : List Char) (hsp : c ≠ ' ') (htk : charTok c = some tk) :
    tokenizeAux (c :: cs) [] = (tokenizeAux cs []).map (fun r => tk :: r) := by
  simp only [tokenizeAux, hsp, if_false, htk]
  cases tokenizeAux cs [] <;> simp [Except.map, flushSpan_nil]

theorem ends_special (c : Char) (tk : Tok) (cs : List Char) (hsp : c ≠ ' ') (htk : charTok c = some tk) :
    Ends (c :: cs) := Or.inr ⟨c, cs, tk, rfl, hsp, htk⟩

/-- a word followed by a token boundary becomes one span token -/
theorem tokenizeAux_atom (w : List Char) (hne : w ≠ []) (hw : ∀ c ∈ w, wordChar c = true) (rest : List Char)
    (h : Ends rest) :
    tokenizeAux (w ++ rest) [] = (tokenizeAux rest []).map (fun r => spanTok w :: r) := by
  rw [tokenizeAux_word w hw rest [], tokenizeAux_span rest _ h]
  have : flushSpan w = [spanTok w] := by
    cases w with
    | nil => exact absurd rfl hne
    | cons a as => simp [flushSpan]
  simp [this]

theorem isDigit_wordChar (c : Char) (h : isDigit c = true) : wordChar c = true := by
  simp [wordChar, isIdentChar, h]

theorem isIdent_wordChars (x : Name) (h : isIdent x = true) : x ≠ [] ∧ ∀ c ∈ x, wordChar c = true := by
  cases x with
  | nil => simp [isIdent] at h
  | cons c cs =>
    simp only [isIdent, Bool.and_eq_true, List.all_eq_true] at h
    refine ⟨by simp, fun d hd => ?_⟩
    rcases List.mem_cons.mp hd with rfl | hd
    · simp [wordChar, isIdentChar, h.1]
    · exact h.2 d hd

theorem spanTok_digits (ds : List Char) (hne : ds.isEmpty = false) (hd : ds.all isDigit = true) :
    spanTok ds = .int (digitsToNat ds) := by
  have h1 : ds ≠ kwMin := by
    intro h; subst h; revert hd; decide
  have h2 : ds ≠ kwMax := by
    intro h; subst h; revert hd; decide
  have h3 : ds ≠ kwIsqrt := by
    intro h; subst h; revert hd; decide
  simp [spanTok, h1, h2, h3, hne, hd]

theorem spanTok_ident (x : Name) (hi : isIdent x = true) (hr : reserved x = false) : spanTok x = .str x := by
  simp only [reserved, Bool.or_eq_false_iff, decide_eq_false_iff_not] at hr
  obtain ⟨⟨h1, h2⟩, h3⟩ := hr
  have hnd : (!x.isEmpty && x.all isDigit) = false := by
    cases x with
    | nil => rfl
    | cons c cs =>
      simp only [isIdent, Bool.and_eq_true] at hi
      have ha := hi.1
      have : isDigit c = false := by
        simp only [isAlpha, isDigit, Bool.or_eq_true, Bool.and_eq_true, decide_eq_true_eq] at ha ⊢
        cases hd : (decide ('0' ≤ c) && decide (c ≤ '9')) with
        | false => rfl
        | true =>
          exfalso
          simp only [Bool.and_eq_true, decide_eq_true_eq] at hd
          rcases ha with ha | ha
          · have : ('a' : Char) ≤ '9' := Char.le_trans ha.1 hd.2
            revert this; decide
          · have : ('A' : Char) ≤ '9' := Char.le_trans ha.1 hd.2
            revert this; decide
      simp [this]
  simp [spanTok, h1, h2, h3, hnd]

theorem spanTok_fn (f : Fn) : spanTok (fnName f) = .fn f := by
  cases f <;> simp [spanTok, fnName, kwMin, kwMax, kwIsqrt]

theorem fnName_word (f : Fn) : fnName f ≠ [] ∧ ∀ c ∈ fnName f, wordChar c = true := by
  cases f <;> refine ⟨by simp [fnName, kwMin, kwMax, kwIsqrt], ?_⟩ <;> decide

theorem charTok_bin (o : BinOp) : binChar o ≠ ' ' ∧ charTok (binChar o) = some (.bin o) := by
  cases o <;> simp [binChar, charTok]

/-- C05a step 1: the tokenizer turns the string of a well-formed tree, followed by a token boundary,
    into the tree's tokens followed by the tokens of the rest -/
theorem tokenizeAux_tree (t : Tree) (hwf : t.WF = true) (rest : List Char) (h : Ends rest) :
    tokenizeAux (t.str ++ rest) [] = (tokenizeAux rest []).map (fun r => toks t ++ r) := by
  induction t generalizing rest with
  | lit ds =>
    simp only [Tree.WF, Bool.and_eq_true, Bool.not_eq_true'] at hwf
    have hne : ds ≠ [] := by intro h0; subst h0; simp at hwf
    have hw : ∀ c ∈ ds, wordChar c = true := fun c hc => isDigit_wordChar c (List.all_eq_true.mp hwf.2 c hc)
    rw [Tree.str, tokenizeAux_atom ds hne hw rest h, spanTok_digits ds hwf.1 hwf.2]
    simp [toks]
  | var x =>
    simp only [Tree.WF, Bool.and_eq_true, Bool.not_eq_true'] at hwf
    obtain ⟨hne, hw⟩ := isIdent_wordChars x hwf.1
    rw [Tree.str, tokenizeAux_atom x hne hw rest h, spanTok_ident x hwf.1 hwf.2]
    simp [toks]
  | bin o l r ihl ihr =>
    simp only [Tree.WF, Bool.and_eq_true] at hwf
    obtain ⟨hsp, htk⟩ := charTok_bin o
    have e : (Tree.bin o l r).str ++ rest = l.str ++ (binChar o :: (r.str ++ rest)) := by simp [Tree.str]
    rw [e, ihl hwf.1.1.1 _ (ends_special _ _ _ hsp htk), tokenizeAux_special _ _ _ hsp htk, ihr hwf.1.1.2 rest h]
    cases tokenizeAux rest [] <;> simp [Except.map, toks]
  | fn2 f a b iha ihb =>
    simp only [Tree.WF, Bool.and_eq_true] at hwf
    obtain ⟨hne, hw⟩ := fnName_word f
    have e : (Tree.fn2 f a b).str ++ rest = fnName f ++ ('(' :: (a.str ++ (',' :: (b.str ++ (')' :: rest))))) := by
      simp [Tree.str]
    rw [e, tokenizeAux_atom (fnName f) hne hw _ (ends_special '(' .lp _ (by decide) (by rfl)),
      tokenizeAux_special '(' .lp _ (by decide) (by rfl),
      iha hwf.1.2 _ (ends_special ',' .comma _ (by decide) (by rfl)),
      tokenizeAux_special ',' .comma _ (by decide) (by rfl),
      ihb hwf.2 _ (ends_special ')' .rp _ (by decide) (by rfl)),
      tokenizeAux_special ')' .rp _ (by decide) (by rfl), spanTok_fn]
    cases tokenizeAux rest [] <;> simp [Except.map, toks]
  | isqrt a ih =>
    simp only [Tree.WF] at hwf
    obtain ⟨hne, hw⟩ := fnName_word .isqrt
    have e : (Tree.isqrt a).str ++ rest = fnName .isqrt ++ ('(' :: (a.str ++ (')' :: rest))) := by
      simp [Tree.str, fnName]
    rw [e, tokenizeAux_atom (fnName .isqrt) hne hw _ (ends_special '(' .lp _ (by decide) (by rfl)),
      tokenizeAux_special '(' .lp _ (by decide) (by rfl),
      ih hwf _ (ends_special ')' .rp _ (by decide) (by rfl)),
      tokenizeAux_special ')' .rp _ (by decide) (by rfl), spanTok_fn]
    cases tokenizeAux rest [] <;> simp [Except.map, toks]
  | grp a ih =>
    simp only [Tree.WF] at hwf
    have e : (Tree.grp a).str ++ rest = '(' :: (a.str ++ (')' :: rest)) := by simp [Tree.str]
    rw [e, tokenizeAux_special '(' .lp _ (by decide) (by rfl),
      ih hwf _ (ends_special ')' .rp _ (by decide) (by rfl)),
      tokenizeAux_special ')' .rp _ (by decide) (by rfl)]
    cases tokenizeAux rest [] <;> simp [Except.map, toks]

theorem tokenizeRaw_tree (t : Tree) (hwf : t.WF = true) : tokenizeRaw t.str = .ok (toks t) := by
  have := tokenizeAux_tree t hwf [] (Or.inl rfl)
  simpa [tokenizeRaw, tokenizeAux, flushSpan_nil, Except.map] using this

end Dltype.Proofs
