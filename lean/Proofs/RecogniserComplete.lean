import Proofs.Recogniser
/-!
# Completeness of the independent recogniser: the string of every well-formed tree is accepted, with
exactly that tree.  Together with soundness (`Proofs/Recogniser.lean`) the recogniser *decides* the
documented grammar, and the grammar is unambiguous: a string is the string of at most one well-formed tree,
so "the arithmetic value of a dimension string" is well defined.
-/
namespace Dltype.Proofs
open Dltype Dltype.Spec

/-! ## the lexer -/

def symChars : List Char := ['+', '-', '*', '/', '^', '(', ')', ',']

def ltOk2 : LTok → Bool
  | .num ds => !ds.isEmpty && ds.all isDigit
  | .id x => isIdent x
  | .sym c => symChars.contains c

def isSymTok : LTok → Bool
  | .sym _ => true
  | _ => false

/-- no two adjacent word tokens (they would be lexed as one) -/
def sepOk : List LTok → Bool
  | [] => true
  | [_] => true
  | a :: b :: rest => (isSymTok a || isSymTok b) && sepOk (b :: rest)

theorem tw_app (p : Char → Bool) (a b : List Char) (ha : ∀ x ∈ a, p x = true)
    (hb : ∀ x, b.head? = some x → p x = false) :
    (a ++ b).takeWhile p = a ∧ (a ++ b).dropWhile p = b := by
  induction a with
  | nil =>
    cases b with
    | nil => simp
    | cons x xs => simp [hb x rfl]
  | cons y ys ih =>
    have hy := ha y (by simp)
    obtain ⟨i1, i2⟩ := ih (fun x hx => ha x (by simp [hx]))
    simp [hy, i1, i2]

theorem symChar_not_word (c : Char) (h : symChars.contains c = true) :
    isDigit c = false ∧ isAlpha c = false ∧ isIdentChar c = false := by
  simp only [symChars, List.contains_eq_mem, List.mem_cons, List.not_mem_nil, or_false, decide_eq_true_eq] at h
  rcases h with rfl | rfl | rfl | rfl | rfl | rfl | rfl | rfl <;> decide

theorem alpha_not_digit (c : Char) (ha : isAlpha c = true) : isDigit c = false := by
  simp only [isAlpha, isDigit, Bool.or_eq_true, Bool.and_eq_true, decide_eq_true_eq] at ha ⊢
  cases hd : (decide ('0' ≤ c) && decide (c ≤ '9')) with
  | false => rfl
  | true =>
    exfalso
    simp only [Bool.and_eq_true, decide_eq_true_eq] at hd
    rcases ha with ha | ha
    · have : ('a' : Char) ≤ '9' := Char.le_trans ha.1 hd.2
      revert this; decide
    · have : ('A' : Char) ≤ '9' := Char.le_trans ha.1 hd.2
      revert this; decide

/-- after a word token, the rest of the string starts with a symbol (or is empty) -/
theorem head_stops (b : LTok) (rest : List LTok) (hb : isSymTok b = true) (hok : ltOk2 b = true) :
    ∀ x, (ltokStr (b :: rest)).head? = some x → isDigit x = false ∧ isIdentChar x = false := by
  cases b with
  | num ds => simp [isSymTok] at hb
  | id y => simp [isSymTok] at hb
  | sym c =>
    intro x hx
    simp only [ltokStr, List.map_cons, ltChars, List.flatten_cons, List.cons_append, List.nil_append,
      List.head?_cons, Option.some.injEq] at hx
    subst hx
    have := symChar_not_word c (by simpa [ltOk2] using hok)
    exact ⟨this.1, this.2.2⟩

theorem ltokStr_cons (t : LTok) (ts : List LTok) : ltokStr (t :: ts) = ltChars t ++ ltokStr ts := by
  simp [ltokStr]

/-- **the lexer is complete**: a separated list of well-formed tokens is what its concatenation lexes to -/
theorem lexGo_complete (ts : List LTok) (hok : ∀ t ∈ ts, ltOk2 t = true) (hsep : sepOk ts = true)
    (fuel : Nat) (hf : ts.length < fuel) : lexGo fuel (ltokStr ts) = some ts := by
  induction ts generalizing fuel with
  | nil =>
    cases fuel with
    | zero => omega
    | succ f => simp [ltokStr, lexGo]
  | cons t rest ih =>
    cases fuel with
    | zero => omega
    | succ f =>
      have hokr : ∀ t ∈ rest, ltOk2 t = true := fun x hx => hok x (by simp [hx])
      have hsepr : sepOk rest = true := by
        cases rest with
        | nil => rfl
        | cons b r => simp only [sepOk, Bool.and_eq_true] at hsep; exact hsep.2
      have ihr := ih hokr hsepr f (by simp at hf; omega)
      -- what follows a word token
      have hstop : isSymTok t = false → ∀ x, (ltokStr rest).head? = some x → isDigit x = false ∧ isIdentChar x = false := by
        intro hns
        cases rest with
        | nil => intro x hx; simp [ltokStr] at hx
        | cons b r =>
          simp only [sepOk, Bool.and_eq_true, Bool.or_eq_true, hns, Bool.false_eq_true, false_or] at hsep
          exact head_stops b r hsep.1 (hok b (by simp))
      have hokt := hok t (by simp)
      rw [ltokStr_cons]
      cases t with
      | num ds =>
        cases ds with
        | nil => simp [ltOk2] at hokt
        | cons d ds' =>
          simp only [ltOk2, List.isEmpty_cons, Bool.not_false, Bool.true_and, List.all_cons, Bool.and_eq_true,
            List.all_eq_true] at hokt
          obtain ⟨tw, dw⟩ := tw_app isDigit ds' (ltokStr rest) hokt.2 (fun x hx => (hstop rfl x hx).1)
          simp only [ltChars, List.cons_append, lexGo, hokt.1, if_true, tw, dw, ihr, Option.map_some]
      | id y =>
        cases y with
        | nil => simp [ltOk2, isIdent] at hokt
        | cons c cs =>
          simp only [ltOk2, isIdent, Bool.and_eq_true, List.all_eq_true] at hokt
          have hnd := alpha_not_digit c hokt.1
          obtain ⟨tw, dw⟩ := tw_app isIdentChar cs (ltokStr rest) hokt.2 (fun x hx => (hstop rfl x hx).2)
          simp only [ltChars, List.cons_append, lexGo, hnd, Bool.false_eq_true, if_false, hokt.1, if_true, tw, dw, ihr,
            Option.map_some]
      | sym c =>
        have hc : symChars.contains c = true := by simpa [ltOk2] using hokt
        obtain ⟨h1, h2, _⟩ := symChar_not_word c hc
        have hmem : c ∈ ['+', '-', '*', '/', '^', '(', ')', ','] := by
          simpa [symChars] using hc
        simp only [ltChars, List.cons_append, List.nil_append, lexGo, h1, h2, Bool.false_eq_true, if_false, hmem,
          if_true, ihr, Option.map_some]

/-! ## the token list of a well-formed tree is well-formed and separated -/

theorem sepOk_sym_cons (c : Char) (x : List LTok) : sepOk (.sym c :: x) = sepOk x := by
  cases x with
  | nil => rfl
  | cons y r => simp [sepOk, isSymTok]

theorem sepOk_word_sym (t : LTok) (c : Char) (x : List LTok) : sepOk (t :: .sym c :: x) = sepOk x := by
  simp [sepOk, isSymTok, sepOk_sym_cons]

theorem sepOk_app_sym (a : List LTok) (c : Char) (b : List LTok) :
    sepOk (a ++ .sym c :: b) = (sepOk a && sepOk b) := by
  induction a with
  | nil => simp [sepOk_sym_cons, sepOk]
  | cons y r ih =>
    cases r with
    | nil => simp [sepOk_word_sym, sepOk]
    | cons z r' =>
      simp only [List.cons_append, sepOk] at ih ⊢
      rw [ih]
      simp [Bool.and_assoc]

theorem binChar_sym (o : BinOp) : symChars.contains (binChar o) = true := by
  cases o <;> decide

theorem ltoks_ok (t : Tree) (hwf : t.WF = true) : (∀ x ∈ ltoks t, ltOk2 x = true) ∧ sepOk (ltoks t) = true := by
  induction t with
  | lit ds => simpa [ltoks, ltOk2, sepOk, Tree.WF] using hwf
  | var x =>
    simp only [Tree.WF, Bool.and_eq_true] at hwf
    simp [ltoks, ltOk2, sepOk, hwf.1]
  | bin o l r ihl ihr =>
    simp only [Tree.WF, Bool.and_eq_true] at hwf
    obtain ⟨⟨⟨wl, wr⟩, _⟩, _⟩ := hwf
    obtain ⟨ol, sl⟩ := ihl wl
    obtain ⟨or_, sr⟩ := ihr wr
    refine ⟨?_, ?_⟩
    · intro x hx
      simp only [ltoks, List.mem_append, List.mem_cons, List.not_mem_nil, or_false] at hx
      rcases hx with (hx | rfl) | hx
      · exact ol x hx
      · simpa [ltOk2] using binChar_sym o
      · exact or_ x hx
    · simp only [ltoks, List.append_assoc, List.cons_append, List.nil_append, sepOk_app_sym, sl, sr, Bool.and_self]
  | fn2 f a b iha ihb =>
    simp only [Tree.WF, Bool.and_eq_true] at hwf
    obtain ⟨⟨hf, wa⟩, wb⟩ := hwf
    obtain ⟨oa, sa⟩ := iha wa
    obtain ⟨ob, sb⟩ := ihb wb
    refine ⟨?_, ?_⟩
    · intro x hx
      simp only [ltoks, List.mem_append, List.mem_cons, List.not_mem_nil, or_false] at hx
      rcases hx with (((( rfl | rfl) | hx) | rfl) | hx) | rfl
      · cases f <;> simp [ltOk2, fnName] <;> decide
      · decide
      · exact oa x hx
      · decide
      · exact ob x hx
      · decide
    · simp only [ltoks, List.append_assoc, List.cons_append, List.nil_append, sepOk_word_sym, sepOk_app_sym, sa, sb,
        sepOk, Bool.and_self]
  | isqrt a ih =>
    simp only [Tree.WF] at hwf
    obtain ⟨oa, sa⟩ := ih hwf
    refine ⟨?_, ?_⟩
    · intro x hx
      simp only [ltoks, List.mem_append, List.mem_cons, List.not_mem_nil, or_false] at hx
      rcases hx with ((rfl | rfl) | hx) | rfl
      · decide
      · decide
      · exact oa x hx
      · decide
    · simp only [ltoks, List.cons_append, List.nil_append, sepOk_word_sym, sepOk_app_sym, sa,
        sepOk, Bool.and_self]
  | grp a ih =>
    simp only [Tree.WF] at hwf
    obtain ⟨oa, sa⟩ := ih hwf
    refine ⟨?_, ?_⟩
    · intro x hx
      simp only [ltoks, List.mem_append, List.mem_cons, List.not_mem_nil, or_false] at hx
      rcases hx with (rfl | hx) | rfl
      · decide
      · exact oa x hx
      · decide
    · simp only [ltoks, List.cons_append, List.nil_append, sepOk_sym_cons, sepOk_app_sym, sa,
        sepOk, Bool.and_self]

theorem ltok_len (ts : List LTok) (hok : ∀ t ∈ ts, ltOk2 t = true) : ts.length ≤ (ltokStr ts).length := by
  induction ts with
  | nil => simp
  | cons t r ih =>
    have := ih (fun x hx => hok x (by simp [hx]))
    have h1 : 1 ≤ (ltChars t).length := by
      have := hok t (by simp)
      cases t with
      | num ds => cases ds <;> simp_all [ltOk2, ltChars]
      | id y => cases y <;> simp_all [ltOk2, ltChars, isIdent]
      | sym c => simp [ltChars]
    rw [ltokStr_cons]
    simp only [List.length_cons, List.length_append]
    omega

/-- the lexer reads the string of a well-formed tree back into the tree's tokens -/
theorem lex_tree (t : Tree) (hwf : t.WF = true) : lex t.str = some (ltoks t) := by
  obtain ⟨hok, hsep⟩ := ltoks_ok t hwf
  unfold lex
  rw [← ltokStr_ltoks t]
  exact lexGo_complete _ hok hsep _ (by have := ltok_len _ hok; omega)


/-! ## the parser: more fuel never changes an answer -/

theorem bind_mono1 {α β : Type} {a a' : Option α} (h : ∀ x, a = some x → a' = some x) (k : α → Option β) (r : β)
    (hr : a.bind k = some r) : a'.bind k = some r := by
  cases a with
  | none => simp at hr
  | some x => rw [h x rfl]; exact hr

theorem bind_mono2 {α β : Type} (a : Option α) {k k' : α → Option β} (h : ∀ x r, k x = some r → k' x = some r) (r : β)
    (hr : a.bind k = some r) : a.bind k' = some r := by
  cases a with
  | none => simp at hr
  | some x => exact h x r hr

theorem parse_mono (fuel : Nat) :
    (∀ lvl ts r, parseLevel fuel lvl ts = some r → parseLevel (fuel + 1) lvl ts = some r) ∧
    (∀ lvl acc ts r, parseChain fuel lvl acc ts = some r → parseChain (fuel + 1) lvl acc ts = some r) ∧
    (∀ ts r, parseAtom fuel ts = some r → parseAtom (fuel + 1) ts = some r) := by
  induction fuel with
  | zero => refine ⟨?_, ?_, ?_⟩ <;> intros <;> simp_all [parseLevel, parseChain, parseAtom]
  | succ f ih =>
    obtain ⟨ihL, ihC, ihA⟩ := ih
    have next : ∀ lvl ts p,
        (if lvl ≥ 3 then parseAtom f ts else parseLevel f (lvl + 1) ts) = some p →
        (if lvl ≥ 3 then parseAtom (f + 1) ts else parseLevel (f + 1) (lvl + 1) ts) = some p := by
      intro lvl ts p h
      by_cases hl : lvl ≥ 3
      · simp only [hl, if_true] at h ⊢; exact ihA _ _ h
      · simp only [hl, if_false] at h ⊢; exact ihL _ _ _ h
    refine ⟨?_, ?_, ?_⟩
    · intro lvl ts r h
      rw [parseLevel.eq_2] at h ⊢
      cases hf : (if lvl ≥ 3 then parseAtom f ts else parseLevel f (lvl + 1) ts) with
      | none => simp [hf] at h
      | some p =>
        obtain ⟨t0, rest0⟩ := p
        simp only [hf] at h
        simp only [next lvl ts _ hf]
        exact ihC _ _ _ _ h
    · intro lvl acc ts r h
      cases ts with
      | nil => rw [parseChain.eq_3 _ _ _ _ (by intro d r hh; cases hh)] at h ⊢; exact h
      | cons x rest1 =>
        cases x with
        | num ds => rw [parseChain.eq_3 _ _ _ _ (by intro d r hh; cases hh)] at h ⊢; exact h
        | id y => rw [parseChain.eq_3 _ _ _ _ (by intro d r hh; cases hh)] at h ⊢; exact h
        | sym c =>
          rw [parseChain.eq_2] at h ⊢
          cases hlk : (levelOps lvl).lookup c with
          | none => simp only [hlk] at h ⊢; exact h
          | some o =>
            simp only [hlk] at h ⊢
            cases hn : (if lvl ≥ 3 then parseAtom f rest1 else parseLevel f (lvl + 1) rest1) with
            | none => simp [hn] at h
            | some p =>
              obtain ⟨r0, rest2⟩ := p
              simp only [hn] at h
              simp only [next lvl rest1 _ hn]
              exact ihC _ _ _ _ h
    · intro ts r h
      cases ts with
      | nil => rw [parseAtom.eq_5] at h; cases h
      | cons x rest1 =>
        cases x with
        | num ds => rw [parseAtom.eq_2] at h ⊢; exact h
        | sym c =>
          rw [parseAtom.eq_3] at h ⊢
          split at h
          · rename_i hc
            simp only [hc, if_true]
            exact bind_mono1 (fun x hx => ihL _ _ _ hx) _ _ h
          · cases h
        | id y =>
          rw [parseAtom.eq_4] at h ⊢
          split at h
          · rename_i hk
            simp only [hk, if_true]
            refine bind_mono2 _ (fun r1 r' h' => ?_) _ h
            exact bind_mono1 (fun x hx => ihL _ _ _ hx) _ _ h'
          · rename_i hk
            simp only [hk, if_false]
            split at h
            · rename_i hmm
              simp only [hmm, if_true]
              refine bind_mono2 _ (fun r1 r' h' => ?_) _ h
              refine bind_mono1 (fun x hx => ihL _ _ _ hx) _ _ ?_
              refine bind_mono2 _ (fun pa r'' h'' => ?_) _ h'
              refine bind_mono2 _ (fun r2 r3 h3 => ?_) _ h''
              exact bind_mono1 (fun x hx => ihL _ _ _ hx) _ _ h3
            · rename_i hmm
              simp only [hmm]
              exact h

theorem parseLevel_mono {f g : Nat} (hfg : f ≤ g) {lvl ts r} (h : parseLevel f lvl ts = some r) :
    parseLevel g lvl ts = some r := by
  induction hfg with
  | refl => exact h
  | step _ ih => exact (parse_mono _).1 _ _ _ ih

theorem parseChain_mono {f g : Nat} (hfg : f ≤ g) {lvl acc ts r} (h : parseChain f lvl acc ts = some r) :
    parseChain g lvl acc ts = some r := by
  induction hfg with
  | refl => exact h
  | step _ ih => exact (parse_mono _).2.1 _ _ _ _ ih

theorem parseAtom_mono {f g : Nat} (hfg : f ≤ g) {ts r} (h : parseAtom f ts = some r) :
    parseAtom g ts = some r := by
  induction hfg with
  | refl => exact h
  | step _ ih => exact (parse_mono _).2.2 _ _ ih


/-! ## the parser is complete -/

def opLevel (c : Char) : Nat :=
  if c = '+' ∨ c = '-' then 1 else if c = '*' ∨ c = '/' then 2 else if c = '^' then 3 else 0

/-- the rest of the input does not begin with an operator of level `lvl` or higher -/
def stopsFrom (lvl : Nat) : List LTok → Prop
  | .sym c :: _ => opLevel c < lvl
  | _ => True

theorem stops_mono {a b : Nat} (hab : a ≤ b) {rest : List LTok} (h : stopsFrom a rest) : stopsFrom b rest := by
  cases rest with
  | nil => trivial
  | cons x r =>
    cases x with
    | sym c => simp only [stopsFrom] at h ⊢; omega
    | num ds => trivial
    | id y => trivial

theorem stops_lt {a : Nat} {rest : List LTok} (h : stopsFrom a rest) :
    ∀ c r, rest = .sym c :: r → opLevel c < a := by
  intro c r e; subst e; exact h

theorem lookup_none (l : Nat) (h1 : 1 ≤ l) (h3 : l ≤ 3) (c : Char) (h : opLevel c ≠ l) :
    (levelOps l).lookup c = none := by
  have : l = 1 ∨ l = 2 ∨ l = 3 := by omega
  rcases this with rfl | rfl | rfl
  · by_cases c1 : c = '+'
    · subst c1; exact absurd rfl h
    · by_cases c2 : c = '-'
      · subst c2; exact absurd rfl h
      · have b1 : (c == '+') = false := by simpa using c1
        have b2 : (c == '-') = false := by simpa using c2
        simp [levelOps, List.lookup, b1, b2]
  · by_cases c1 : c = '*'
    · subst c1; exact absurd rfl h
    · by_cases c2 : c = '/'
      · subst c2; exact absurd rfl h
      · have b1 : (c == '*') = false := by simpa using c1
        have b2 : (c == '/') = false := by simpa using c2
        simp [levelOps, List.lookup, b1, b2]
  · by_cases c1 : c = '^'
    · subst c1; exact absurd rfl h
    · have b1 : (c == '^') = false := by simpa using c1
      simp [levelOps, List.lookup, b1]

theorem lookup_bin (o : BinOp) : (levelOps o.prec).lookup (binChar o) = some o := by
  cases o <;> rfl

theorem opLevel_bin (o : BinOp) : opLevel (binChar o) = o.prec := by
  cases o <;> rfl

theorem chain_stop (f lvl : Nat) (acc : Tree) (rest : List LTok) (h1 : 1 ≤ lvl) (h3 : lvl ≤ 3)
    (hs : ∀ c r, rest = .sym c :: r → opLevel c ≠ lvl) : parseChain (f + 1) lvl acc rest = some (acc, rest) := by
  cases rest with
  | nil => exact parseChain.eq_3 _ _ _ _ (by intro d r hh; cases hh)
  | cons x r =>
    cases x with
    | num ds => exact parseChain.eq_3 _ _ _ _ (by intro d r hh; cases hh)
    | id y => exact parseChain.eq_3 _ _ _ _ (by intro d r hh; cases hh)
    | sym c => rw [parseChain.eq_2, lookup_none lvl h1 h3 c (hs c r rfl)]

theorem expectSym_self (c : Char) (rest : List LTok) : expectSym c (.sym c :: rest) = some rest := by
  simp [expectSym]

/-- number of lexer tokens of a tree -/
def tl (t : Tree) : Nat := (ltoks t).length

theorem prec_cases (t : Tree) : t.prec = 1 ∨ t.prec = 2 ∨ t.prec = 3 ∨ t.prec = 100 := by
  cases t with
  | bin o l r => cases o <;> simp [Tree.prec, BinOp.prec]
  | lit ds => simp [Tree.prec]
  | var x => simp [Tree.prec]
  | fn2 f a b => simp [Tree.prec]
  | isqrt a => simp [Tree.prec]
  | grp a => simp [Tree.prec]

/-- the atom claim: enough fuel parses the tokens of an atomic tree back into it -/
def AtomC (t : Tree) : Prop :=
  t.prec = 100 → ∀ rest f, 4 * tl t ≤ f → parseAtom f (ltoks t ++ rest) = some (t, rest)

/-- the level claim at one level: having read the tokens of `t`, the parser is in the chain state with `t` -/
def LevelAt (t : Tree) (lvl : Nat) : Prop :=
  lvl ≤ t.prec → ∀ rest, stopsFrom (lvl + 1) rest → ∀ f res, parseChain f lvl t rest = some res →
    parseLevel (f + (4 * tl t + 2 * (3 - lvl) + 1)) lvl (ltoks t ++ rest) = some res

def LevelC (t : Tree) : Prop := ∀ lvl, 1 ≤ lvl → lvl ≤ 3 → LevelAt t lvl

theorem level_nonspine (t : Tree) (rest : List LTok) (lvl f : Nat) (res : Tree × List LTok)
    (hfirst : (if lvl ≥ 3 then parseAtom (f + 4 * tl t + 2 * (3 - lvl)) (ltoks t ++ rest)
      else parseLevel (f + 4 * tl t + 2 * (3 - lvl)) (lvl + 1) (ltoks t ++ rest)) = some (t, rest))
    (hc : parseChain f lvl t rest = some res) :
    parseLevel (f + (4 * tl t + 2 * (3 - lvl) + 1)) lvl (ltoks t ++ rest) = some res := by
  have e : f + (4 * tl t + 2 * (3 - lvl) + 1) = (f + 4 * tl t + 2 * (3 - lvl)) + 1 := by omega
  rw [e, parseLevel.eq_2]
  simp only [hfirst]
  exact parseChain_mono (by omega) hc

/-- one step of the downward induction over levels -/
theorem level_step (t : Tree) (lvl : Nat) (h1 : 1 ≤ lvl) (h3 : lvl ≤ 3) (hA : AtomC t)
    (hspine : t.prec = lvl → LevelAt t lvl) (hnext : lvl < 3 → LevelAt t (lvl + 1)) : LevelAt t lvl := by
  intro hle rest hs f res hc
  by_cases hp : t.prec = lvl
  · exact hspine hp hle rest hs f res hc
  · apply level_nonspine _ _ _ _ _ _ hc
    by_cases hl : lvl ≥ 3
    · simp only [hl, if_true]
      have : t.prec = 100 := by rcases prec_cases t with h | h | h | h <;> omega
      exact hA this rest _ (by omega)
    · simp only [hl, if_false]
      have hc1 : parseChain (0 + 1) (lvl + 1) t rest = some (t, rest) :=
        chain_stop 0 (lvl + 1) t rest (by omega) (by omega)
          (fun c r e => by have := stops_lt hs c r e; omega)
      have := hnext (by omega) (by omega) rest (stops_mono (by omega) hs) _ _ hc1
      exact parseLevel_mono (by omega) this

theorem levelC_of (t : Tree) (hA : AtomC t) (hspine : ∀ lvl, 1 ≤ lvl → lvl ≤ 3 → t.prec = lvl → LevelAt t lvl) :
    LevelC t := by
  have m3 : LevelAt t 3 := level_step t 3 (by omega) (by omega) hA (hspine 3 (by omega) (by omega)) (by omega)
  have m2 : LevelAt t 2 := level_step t 2 (by omega) (by omega) hA (hspine 2 (by omega) (by omega)) (fun _ => m3)
  have m1 : LevelAt t 1 := level_step t 1 (by omega) (by omega) hA (hspine 1 (by omega) (by omega)) (fun _ => m2)
  intro lvl h1 h3
  have : lvl = 1 ∨ lvl = 2 ∨ lvl = 3 := by omega
  rcases this with rfl | rfl | rfl
  · exact m1
  · exact m2
  · exact m3

theorem parseChain_zero (lvl : Nat) (acc : Tree) (ts : List LTok) : parseChain 0 lvl acc ts = none := by
  simp [parseChain]

/-- the spine case: `l o r` at its own level -/
theorem level_spine (o : BinOp) (l r : Tree) (hl : o.prec ≤ l.prec) (hr : o.prec < r.prec)
    (ihl : LevelC l) (ihrA : AtomC r) (ihrM : LevelC r) :
    ∀ lvl, 1 ≤ lvl → lvl ≤ 3 → (Tree.bin o l r).prec = lvl → LevelAt (.bin o l r) lvl := by
  intro lvl h1 h3 hp _ rest hs f res hc
  have hop : o.prec = lvl := by simpa [Tree.prec] using hp
  have hf : 1 ≤ f := by
    cases f with
    | zero => rw [parseChain_zero] at hc; cases hc
    | succ n => omega
  have htl : tl (.bin o l r) = tl l + 1 + tl r := by simp [tl, ltoks]; omega
  have hts : ltoks (.bin o l r) ++ rest = ltoks l ++ (.sym (binChar o) :: (ltoks r ++ rest)) := by simp [ltoks]
  have hnext : (if lvl ≥ 3 then parseAtom (f + 4 * tl r + 3) (ltoks r ++ rest)
      else parseLevel (f + 4 * tl r + 3) (lvl + 1) (ltoks r ++ rest)) = some (r, rest) := by
    by_cases h : lvl ≥ 3
    · simp only [h, if_true]
      have : r.prec = 100 := by rcases prec_cases r with h' | h' | h' | h' <;> omega
      exact ihrA this rest _ (by omega)
    · simp only [h, if_false]
      have hc1 : parseChain (0 + 1) (lvl + 1) r rest = some (r, rest) :=
        chain_stop 0 (lvl + 1) r rest (by omega) (by omega)
          (fun c r' e => by have := stops_lt hs c r' e; omega)
      have := ihrM (lvl + 1) (by omega) (by omega) (by omega) rest (stops_mono (by omega) hs) _ _ hc1
      exact parseLevel_mono (by omega) this
  have hchain : parseChain ((f + 4 * tl r + 3) + 1) lvl l (.sym (binChar o) :: (ltoks r ++ rest)) = some res := by
    have hlk := lookup_bin o
    rw [hop] at hlk
    rw [parseChain.eq_2]
    simp only [hlk, hnext]
    exact parseChain_mono (by omega) hc
  have hstop : stopsFrom (lvl + 1) (.sym (binChar o) :: (ltoks r ++ rest)) := by
    simp only [stopsFrom, opLevel_bin, hop]; omega
  have := ihl lvl h1 h3 (by omega) _ hstop _ _ hchain
  rw [hts]
  have e : f + (4 * tl (.bin o l r) + 2 * (3 - lvl) + 1) = (f + 4 * tl r + 3) + 1 + (4 * tl l + 2 * (3 - lvl) + 1) := by
    rw [htl]; omega
  rw [e]
  exact this

theorem prec_pos (t : Tree) : 1 ≤ t.prec := by
  rcases prec_cases t with h | h | h | h <;> omega

/-- parsing a complete sub-expression that is followed by a closing symbol -/
theorem level1_closed (a : Tree) (iha : LevelC a) (c : Char) (hc : opLevel c = 0) (rest : List LTok) (f : Nat)
    (hf : 4 * tl a + 6 ≤ f) : parseLevel f 1 (ltoks a ++ (.sym c :: rest)) = some (a, .sym c :: rest) := by
  have hc1 : parseChain (0 + 1) 1 a (.sym c :: rest) = some (a, .sym c :: rest) :=
    chain_stop 0 1 a _ (by omega) (by omega) (fun c' r e => by cases e; omega)
  have := iha 1 (by omega) (by omega) (prec_pos a) (.sym c :: rest) (by simp only [stopsFrom]; omega) _ _ hc1
  exact parseLevel_mono (by omega) this

theorem parse_complete (t : Tree) (hwf : t.WF = true) : AtomC t ∧ LevelC t := by
  induction t with
  | lit ds =>
    have hA : AtomC (.lit ds) := by
      intro _ rest f hf
      cases f with
      | zero => simp [tl, ltoks] at hf
      | succ n => simp only [ltoks, List.cons_append, List.nil_append]; rw [parseAtom.eq_2]
    exact ⟨hA, levelC_of _ hA (fun lvl h1 h3 hp => by simp [Tree.prec] at hp; omega)⟩
  | var x =>
    have hA : AtomC (.var x) := by
      intro _ rest f hf
      simp only [Tree.WF, Bool.and_eq_true, Bool.not_eq_true', reserved, Bool.or_eq_false_iff,
        decide_eq_false_iff_not] at hwf
      obtain ⟨_, ⟨hmin, hmax⟩, hsq⟩ := hwf
      cases f with
      | zero => simp [tl, ltoks] at hf
      | succ n =>
        simp only [ltoks, List.cons_append, List.nil_append]
        rw [parseAtom.eq_4]
        simp [hsq, hmin, hmax]
    exact ⟨hA, levelC_of _ hA (fun lvl h1 h3 hp => by simp [Tree.prec] at hp; omega)⟩
  | bin o l r ihl ihr =>
    simp only [Tree.WF, Bool.and_eq_true, decide_eq_true_eq] at hwf
    obtain ⟨⟨⟨wl, wr⟩, pl⟩, pr⟩ := hwf
    have hA : AtomC (.bin o l r) := by
      intro hp; cases o <;> simp [Tree.prec, BinOp.prec] at hp
    exact ⟨hA, levelC_of _ hA (level_spine o l r pl pr (ihl wl).2 (ihr wr).1 (ihr wr).2)⟩
  | fn2 fn a b iha ihb =>
    simp only [Tree.WF, Bool.and_eq_true, Bool.or_eq_true, decide_eq_true_eq] at hwf
    obtain ⟨⟨hfn, wa⟩, wb⟩ := hwf
    have hA : AtomC (.fn2 fn a b) := by
      intro _ rest f hf
      have htl : tl (.fn2 fn a b) = tl a + tl b + 4 := by simp [tl, ltoks]; omega
      cases f with
      | zero => omega
      | succ n =>
        have ha := level1_closed a (iha wa).2 ',' rfl (ltoks b ++ (.sym ')' :: rest)) n (by omega)
        have hb := level1_closed b (ihb wb).2 ')' rfl rest n (by omega)
        have hts : ltoks (.fn2 fn a b) ++ rest =
            .id (fnName fn) :: .sym '(' :: (ltoks a ++ (.sym ',' :: (ltoks b ++ (.sym ')' :: rest)))) := by
          simp [ltoks]
        rw [hts, parseAtom.eq_4]
        rcases hfn with rfl | rfl
        · have h1 : kwMin ≠ kwIsqrt := by decide
          have h2 : fnName .min = kwMin := rfl
          simp [h1, h2, expectSym_self, ha, hb]
        · have h1 : kwMax ≠ kwIsqrt := by decide
          have h2 : fnName .max = kwMax := rfl
          have h3 : kwMax ≠ kwMin := by decide
          simp [h1, h2, h3, expectSym_self, ha, hb]
    exact ⟨hA, levelC_of _ hA (fun lvl h1 h3 hp => by simp [Tree.prec] at hp; omega)⟩
  | isqrt a ih =>
    simp only [Tree.WF] at hwf
    have hA : AtomC (.isqrt a) := by
      intro _ rest f hf
      have htl : tl (.isqrt a) = tl a + 3 := by simp [tl, ltoks]
      cases f with
      | zero => omega
      | succ n =>
        have ha := level1_closed a (ih hwf).2 ')' rfl rest n (by omega)
        have hts : ltoks (.isqrt a) ++ rest = .id kwIsqrt :: .sym '(' :: (ltoks a ++ (.sym ')' :: rest)) := by
          simp [ltoks]
        rw [hts, parseAtom.eq_4]
        simp [expectSym_self, ha]
    exact ⟨hA, levelC_of _ hA (fun lvl h1 h3 hp => by simp [Tree.prec] at hp; omega)⟩
  | grp a ih =>
    simp only [Tree.WF] at hwf
    have hA : AtomC (.grp a) := by
      intro _ rest f hf
      have htl : tl (.grp a) = tl a + 2 := by simp [tl, ltoks]
      cases f with
      | zero => omega
      | succ n =>
        have ha := level1_closed a (ih hwf).2 ')' rfl rest n (by omega)
        have hts : ltoks (.grp a) ++ rest = .sym '(' :: (ltoks a ++ (.sym ')' :: rest)) := by
          simp [ltoks]
        rw [hts, parseAtom.eq_3]
        simp [expectSym_self, ha]
    exact ⟨hA, levelC_of _ hA (fun lvl h1 h3 hp => by simp [Tree.prec] at hp; omega)⟩

/-- **completeness of the recogniser**: the string of every well-formed tree is accepted, with that tree -/
theorem recogniseExpr_complete (t : Tree) (hwf : t.WF = true) : recogniseExpr t.str = some t := by
  unfold recogniseExpr
  rw [lex_tree t hwf]
  have hc1 : parseChain (0 + 1) 1 t [] = some (t, []) :=
    chain_stop 0 1 t [] (by omega) (by omega) (fun c r e => by cases e)
  have := (parse_complete t hwf).2 1 (by omega) (by omega) (prec_pos t) [] trivial _ _ hc1
  rw [List.append_nil] at this
  have h2 := parseLevel_mono (g := 4 * (ltoks t).length + 8) (by simp only [tl]; omega) this
  simp only [h2]

/-- the recogniser decides the documented grammar -/
theorem recogniseExpr_iff (s : List Char) (t : Tree) : recogniseExpr s = some t ↔ (t.str = s ∧ t.WF = true) := by
  constructor
  · exact recogniseExpr_sound s t
  · rintro ⟨rfl, hwf⟩; exact recogniseExpr_complete t hwf

/-- **the grammar is unambiguous**: a string is the string of at most one well-formed tree -/
theorem grammar_unambiguous (t₁ t₂ : Tree) (h₁ : t₁.WF = true) (h₂ : t₂.WF = true) (h : t₁.str = t₂.str) :
    t₁ = t₂ := by
  have a := recogniseExpr_complete t₁ h₁
  have b := recogniseExpr_complete t₂ h₂
  rw [h] at a
  rw [a] at b
  exact Option.some.inj b

end Dltype.Proofs
