import DltypeModel
/-!
# The recursion bound of the parser model is never exhausted; the parser raises nothing but SyntaxError
-/
namespace Dltype.Proofs
open Dltype

theorem mapArgs_no_fuel (f : List Tok → Except ParseErr (List PItem)) (slices : List (List Tok))
    (h : ∀ s ∈ slices, f s ≠ .error .fuel) : mapArgs f slices ≠ .error .fuel := by
  induction slices with
  | nil => simp [mapArgs]
  | cons s more ih =>
    simp only [mapArgs]
    cases hs : f s with
    | error e =>
      simp only
      intro he; injection he with he; subst he
      exact h s (by simp) hs
    | ok code =>
      simp only
      cases hm : mapArgs f more with
      | error e =>
        simp only
        intro he; injection he with he; subst he
        exact ih (fun x hx => h x (by simp [hx])) hm
      | ok r => simp

theorem innerWith_no_fuel (rec : List Tok → Except ParseErr (List PItem)) (slice : List Tok)
    (h : rec slice ≠ .error .fuel) : innerWith rec slice ≠ .error .fuel := by
  unfold innerWith
  split
  · simp
  · split <;> simp_all
  · split <;> simp
  · exact h

theorem argSlices_len (ts : List Tok) (lhs : Nat) (stops : List Nat) :
    ∀ s ∈ argSlices ts lhs stops, s.length + 1 ≤ ts.length ∨ s = [] := by
  induction stops generalizing lhs with
  | nil => simp [argSlices]
  | cons a more ih =>
    intro s hs
    simp only [argSlices, List.mem_cons] at hs
    rcases hs with rfl | hs
    · by_cases hl : lhs + 1 ≤ ts.length
      · left
        have : ((ts.drop (lhs + 1)).take (a - (lhs + 1))).length ≤ ts.length - (lhs + 1) := by
          simp [List.length_take, List.length_drop]; omega
        omega
      · right
        have : ts.drop (lhs + 1) = [] := List.drop_eq_nil_of_le (by omega)
        simp [this]
    · exact ih a s hs

/-- with fuel exceeding the number of tokens the loop never reports exhaustion -/
theorem loop_no_fuel : ∀ (fuel : Nat) (ts : List Tok) (st : List Op) (out : List PItem),
    ts.length < fuel → loop fuel ts st out ≠ .error .fuel := by
  intro fuel
  induction fuel with
  | zero => intro ts st out h; omega
  | succ fuel ih =>
    intro ts st out hlen
    cases ts with
    | nil => simp [loop]
    | cons t rest =>
      have hrest : rest.length < fuel := by simp at hlen; omega
      have hgroup : ∀ pend : Option Fn,
          (let (st', out') := flush (pendPrec pend) st out
           match groupIndices (t :: rest) with
           | none => (Except.error ParseErr.syntax : Except ParseErr (List PItem))
           | some (l, cs, r) =>
             if !arityOk pend cs.length then .error .syntax else
             match mapArgs (innerWith (fun s => loop fuel s [] [])) (argSlices (t :: rest) l (cs ++ [r])) with
             | .error e => .error e
             | .ok code => loop fuel ((t :: rest).drop (r + 1)) (pushPend pend st') (out' ++ code)) ≠ .error .fuel := by
        intro pend
        simp only
        cases groupIndices (t :: rest) with
        | none => simp
        | some p =>
          obtain ⟨l, cs, r⟩ := p
          simp only
          split
          · simp
          · have hm : mapArgs (innerWith (fun s => loop fuel s [] [])) (argSlices (t :: rest) l (cs ++ [r])) ≠ .error .fuel := by
              apply mapArgs_no_fuel
              intro s hs
              apply innerWith_no_fuel
              rcases argSlices_len (t :: rest) l (cs ++ [r]) s hs with h | h
              · exact ih s [] [] (by simp at h; omega)
              · subst h; exact ih [] [] [] (by simp; omega)
            cases hmm : mapArgs (innerWith (fun s => loop fuel s [] [])) (argSlices (t :: rest) l (cs ++ [r])) with
            | error e =>
              simp only
              intro he; injection he with he; subst he; exact hm hmm
            | ok code =>
              simp only
              apply ih
              simp [List.length_drop]; omega
      cases t with
      | int n => simp only [loop]; exact ih _ _ _ hrest
      | bin o => simp only [loop]; exact ih _ _ _ hrest
      | str s =>
        simp only [loop]
        split
        · exact ih _ _ _ hrest
        · simp
      | fn f => simp only [loop]; exact hgroup (some f)
      | lp => simp only [loop]; exact hgroup none
      | rp => simp [loop]
      | comma => simp [loop]
      | eq => simp [loop]

end Dltype.Proofs
