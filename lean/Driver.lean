import DltypeModel
import Spec
/-!
# Line-protocol driver: one operation per line on stdin, one result line per operation on stdout.
Fields are tab-separated.  See DESIGN.md Appendix B and `harness/impl.py` (which prints the same
syntax from the real objects).
-/
open Dltype

def showName (n : Name) : String := String.ofList n

def showItem : PItem → String
  | .int n => toString n
  | .str s => "'" ++ showName s ++ "'"
  | .op o => o.sym

def showPost (p : List PItem) : String := "[" ++ ",".intercalate (p.map showItem) ++ "]"

def showBool (b : Bool) : String := if b then "1" else "0"

def showDim (d : DimExpr) : String :=
  "id=" ++ showName d.identifier ++ " post=" ++ showPost d.post ++ " flags=" ++
    showBool d.isLiteral ++ showBool d.isIdentifier ++ showBool d.isExpression ++
    showBool d.isAnonymous ++ showBool d.isNamedMultiaxis ++ showBool d.isMultiaxisLiteral

def showParseErr : ParseErr → String
  | .syntax => "err SyntaxError"
  | .fuel => "err FUEL"

def opParse (s : String) : String :=
  match parseDim s.toList with
  | .ok d => "ok " ++ showDim d
  | .error e => showParseErr e

/-- `k:v;k:v` -/
def parseScope (s : String) : Scope :=
  if s.isEmpty then [] else
  (s.splitOn ";").filterMap fun kv =>
    match kv.splitOn ":" with
    | [k, v] =>
      -- (`3n` = the integer 3 as a numpy integer rather than a Python int: the same size)
      let v := if v.endsWith "n" then (v.dropEnd 1).toString else v
      match v.toInt? with
      | some i => some (k.toList, i)
      | none => none
    | _ => none

def showScope (σ : Scope) : String :=
  ";".intercalate (σ.map fun (k, v) => showName k ++ ":" ++ toString v)

def showEval : EvalResult → String
  | .val v => "val " ++ toString v
  | .keyError k => "key " ++ showName k
  | .pyExc e => "pyexc " ++ e.show
  | .unmodelled => "unmodelled"

def opEval (s scope : String) : String :=
  match parseDim s.toList with
  | .error e => showParseErr e
  | .ok d => showEval (d.evaluate (parseScope scope))

/-- `EVALSEQ`: one parsed expression object evaluated under several scopes in turn (the object keeps no state between evaluations) -/
def opEvalSeq (s scopes : String) : String :=
  match parseDim s.toList with
  | .error e => showParseErr e
  | .ok d => " ## ".intercalate ((scopes.splitOn "|").map fun sc => showEval (d.evaluate (parseScope sc)))

def optShape (s : String) : Option (List Char) := if s == "<None>" then none else some s.toList

def showOptNat : Option Nat → String
  | none => "-"
  | some n => toString n

def showOptName : Option Name → String
  | none => "-"
  | some n => showName n

def showAnn (a : Ann) : String :=
  "n=" ++ toString a.dims.length ++ " mi=" ++ showOptNat a.multiIdx ++ " mname=" ++ showOptName a.multiName
    ++ " anon=" ++ showBool a.anonMulti ++ " lits="
    ++ ",".intercalate (a.literalDims.map fun (i, v) => toString i ++ ":" ++ toString v)
    ++ " dims=" ++ "|".intercalate (a.dims.map showDim)

def showShapeErr : ShapeErr → String
  | .parse e => showParseErr e
  | .py e => "pyexc " ++ e.show

def opShape (s : String) : String :=
  match parseShape (optShape s) with
  | .ok a => "ok " ++ showAnn a
  | .error e => showShapeErr e

def showReport : Report → String
  | .ndims t e a => "reject ndims tensor=" ++ showName t ++ " expected=" ++ toString e ++ " actual=" ++ toString a
  | .dtype t => "reject dtype tensor=" ++ showName t
  | .shape t i e a => "reject shape tensor=" ++ showName t ++ " dim=" ++ toString i ++ " expected=" ++ toString e ++ " actual=" ++ toString a
  | .invalidRef t m v => "reject invalidref tensor=" ++ showName t ++ " missing=" ++ showName m ++ " valid=" ++ ",".intercalate (v.map showName)
  | .duplicate t => "reject duplicate tensor=" ++ showName t
  | .unsupported => "reject unsupported"
  | .scopeProvider => "reject scopeprovider"

/-- `d1.d2.d3` (empty = rank 0) -/
def parseDimsList (s : String) : List Nat :=
  if s.isEmpty then [] else (s.splitOn ".").filterMap String.toNat?

/-- `N` | `X` | `T,<dtcode>,<dims>` | `U[v/v/…]` is not needed at this level -/
def findIdx {α} (p : α → Bool) : List α → Nat → Option Nat
  | [], _ => none
  | a :: rest, i => if p a then some i else findIdx p rest (i + 1)

/-- `lib:name` -> dtype (index into the generated dtype list); unknown names map past the end (rejected by every class) -/
def parseDT (s : String) : DT :=
  match s.splitOn ":" with
  | [lib, name] =>
    let l := lib.toNat?.getD 0
    match findIdx (fun (d : Nat × String × Nat) => d.1 == l && d.2.1 == name) Gen.dtypes 0 with
    | some i => { lib := l, code := i }
    | none => { lib := l, code := 100000 }
  | _ => { lib := 0, code := 100000 }

/-- class name → row of the generated table; a trailing `!` (annotation constructed with `optional=True`) does not change the class:
    the constructor flag is overridden by the hint (`from_hint`) wherever a hint is resolved -/
def parseCls (s0 : String) : Nat :=
  let s := if s0.endsWith "!" then (s0.dropEnd 1).toString else s0
  (findIdx (· == s) Gen.classNames 0).getD 100000

def parseValue (s : String) : Value :=
  if s == "N" then .none else
  match s.splitOn "," with
  | ["T", dt, dims] => .tensor { dt := parseDT dt, shape := parseDimsList dims }
  | _ => .other

inductive AnnSpec | absent | bad (e : String) | good (a : Ann)

/-- `-` | `cls,opt,shape` -/
def parseAnnSpec (s : String) : AnnSpec :=
  if s == "-" then .absent else
  match s.splitOn "," with
  | cls :: opt :: rest =>
    let shape := ",".intercalate rest
    match parseShape (optShape shape) (parseCls cls) (opt == "1") with
    | .ok a => .good a
    | .error e => .bad (showShapeErr e)
  | _ => .bad "bad-op"

def splitSemi (s : String) : List String := if s.isEmpty then [] else s.splitOn ";"

def showCState (st : CState) : String :=
  "accept " ++ showScope st.σ ++ " reg=" ++ ",".intercalate (st.registered.map showName)

/-- run `A|name|anns|vals` and `V` commands on one context -/
def runCtxCmds (cmds : List String) (st : CState) (queue : List Entry) : String :=
  match cmds with
  | [] => showCState st
  | c :: rest =>
    match c.splitOn "|" with
    | ["V"] =>
      match runEntries genAcc st queue with
      | .ok st' => runCtxCmds rest st' []
      | .reject r => showReport r
      | .pyExc e => "pyexc " ++ e.show
      | .unmodelled => "unmodelled"
    | ["A", name, anns, vals] =>
      let specs := (splitSemi anns).map parseAnnSpec
      match specs.findSome? (fun s => match s with | .bad e => some e | _ => none) with
      | some e => e
      | none =>
        let as : List (Option Ann) := specs.map (fun s => match s with | .good a => some a | _ => none)
        match ctxAdd name.toList ((splitSemi vals).map parseValue) (some as) with
        | .ok es => runCtxCmds rest st (queue ++ es)
        | .reject r => showReport r
        | .pyExc e => "pyexc " ++ e.show
        | .unmodelled => "unmodelled"
    | _ => "bad-op"

def opCtx (scope : String) (cmds : List String) : String :=
  runCtxCmds cmds { σ := parseScope scope } []

def opCheck (spec dt dims : String) : String :=
  match parseAnnSpec spec with
  | .absent => "bad-op"
  | .bad e => e
  | .good a =>
    match check genAcc a { dt := parseDT dt, shape := parseDimsList dims } "anonymous".toList with
    | .ok () => "ok"
    | .error r => showReport r

/-! ## use of an accepted annotation in a call (C06: nothing parse-related may surface later) -/

def postNames (p : List PItem) : List Name :=
  p.filterMap fun i => match i with | .str x => some x | _ => none

def kindOfReport : Report → String
  | .ndims .. => "ndims" | .dtype .. => "dtype" | .shape .. => "shape" | .invalidRef .. => "invalidref"
  | .duplicate .. => "duplicate" | .unsupported => "unsupported" | .scopeProvider => "scopeprovider"

def opUse (shape : String) : String :=
  match parseShape (optShape shape) 0 false with
  | .error e => showShapeErr e
  | .ok a =>
    let names := (a.dims.map (fun d => postNames d.post)).flatten.eraseDups
    let σ : Scope := names.map (fun n => (n, (2 : Int)))
    let rank := a.dims.length - (if a.multiIdx.isSome then 1 else 0)
    let t : Tensor := { dt := parseDT "0:float32", shape := List.replicate rank 2 }
    match runEntries genAcc { σ := σ } [{ argIndex := 0, name := ['x'], tensor := t, ann := a }] with
    | .ok _ => "accept"
    | .reject r => "reject " ++ kindOfReport r
    | .pyExc e => "pyexc " ++ e.show
    | .unmodelled => "unmodelled"

/-! ## entry points -/

/-- `N` | `X` | `T,dt,dims` | `U:v;v;…` -/
def parseValueU (s : String) : Value :=
  -- (`U:` an exact tuple, `L:` a list, `S:` an instance of a tuple subclass: the same sequence of values to the checker)
  if s.startsWith "U:" || s.startsWith "L:" || s.startsWith "S:" then
    let body := (s.drop 2).toString
    .tup ((splitSemi body).map parseValue)
  else parseValue s

/-- one annotation spec as a hint: `-` plain; `cls,opt,shape` Annotated (wrapped in a Union with None when opt) -/
def specToHint (s : String) : Except String Hint :=
  if s == "-u" || s == "-o" || s == "-n" || s == "-v" || s == "-s" then .ok .plain else   -- … NewType, TypeVar, LiteralString        -- `int | str`, `int | None`: PEP 604 unions of plain types
  if s == "-a" then .ok (.annotated false none) else   -- `Annotated[int, 'count']`: metadata that is no dltype annotation
  match parseAnnSpec s with
  | .absent => .ok .plain
  | .bad e => .error e
  | .good a =>
    let h : Hint := .annotated true (some { a with optional := false })
    -- second field: 0 plain, 1 `T | None`, 2 `T | int`, 3 `T | int | None`, 4 `Optional[T]`, 5 `None | T`,
    --               6 `Annotated[int, ann]` (unsupported base type), 7 `T | None | None`-style nesting Optional[Optional[T]]
    match (s.splitOn ",")[1]? with
    | some "1" => .ok (.union [h, .none])
    | some "2" => .ok (.union [h, .plain])
    | some "3" => .ok (.union [h, .plain, .none])
    | some "4" => .ok (.union [h, .none])
    | some "5" => .ok (.union [.none, h])
    | some "6" => .ok (.annotated false (some { a with optional := false }))
    | some "7" => .ok (.union [h, .none])
    | some "8" => .ok (.union [.plain, h])           -- `Union[int, T]`
    | some "9" => .ok (.union [.none, .plain, h])    -- `Union[None, float, T]`
    | some "A" => .ok h                               -- `Annotated[base, ann, 'unit: px']`: further metadata changes nothing
    | _ => .ok h

def hintOf (mode specs : String) : Except String Hint := do
  if mode == "S" then specToHint specs
  else
    let hs ← (splitSemi specs).mapM specToHint
    if mode == "TO" then pure (.union [.tuple hs, .none])   -- `Optional[tuple[...]]`
    else pure (.tuple hs)

structure CallSpec where
  params : List (Name × Hint × Value) := []
  ret : Option Hint := none
  body : BodyResult := .returns .none
  err : Option String := none

def parseCallItems (items : List String) : CallSpec :=
  items.foldl (fun (cs : CallSpec) (it : String) =>
    match it.splitOn "|" with
    | ["P", name, mode, specs, val] =>
      match hintOf mode specs with
      | .ok h => { cs with params := cs.params ++ [(name.toList, h, parseValueU val)] }
      | .error e => { cs with err := cs.err <|> some e }
    | ["D", _, _] => cs
    | ["AL"] => cs     -- identical annotation specs share ONE annotation object (a type alias): annotations are values in the model
    | ["VA", _, _] => cs
    | ["VK", _, _] => cs
    | ["PE", name, mode, specs, val] =>
      match hintOf mode specs with
      | .ok h => { cs with params := cs.params ++ [(name.toList, h, parseValueU val)] }
      | .error e => { cs with err := cs.err <|> some e }
    | ["PD", name, mode, specs, val] =>
      match hintOf mode specs with
      | .ok h => { cs with params := cs.params ++ [(name.toList, h, parseValueU val)] }
      | .error e => { cs with err := cs.err <|> some e }
    | ["R", mode, specs, val] =>
      let body := if val == "!" then BodyResult.raises else .returns (parseValueU val)
      if mode == "-" then { cs with body := body } else
      match hintOf mode specs with
      | .ok h => { cs with ret := some h, body := body }
      | .error e => { cs with err := cs.err <|> some e }
    | _ => { cs with err := cs.err <|> some "bad-op" }) {}

def showEnd : CallEnd → String
  | .returned _ => "ok"
  | .rejected r => showReport r
  | .pyExc e => "pyexc " ++ e.show
  | .bodyRaised => "bodyraised"
  | .unmodelled => "unmodelled"

def showOutcomeC : Outcome CState → String
  | .ok _ => "ok"
  | .reject r => showReport r
  | .pyExc e => "pyexc " ++ e.show
  | .unmodelled => "unmodelled"

def parseProvider (prov scope : String) : Provider × Bool :=
  let σ := parseScope scope
  if prov == "-" then (.absent, false)
  else if prov == "self" then (.self (some σ), true)
  else if prov == "selfbad" then (.self none, true)
  else if prov == "bad" then (.obj none, false)
  else (.obj (some σ), false)

def opCall (kindStyle prov scope : String) (items : List String) : String :=
  let kind := (kindStyle.splitOn ":").headD ""
  let cs := parseCallItems items
  match cs.err with
  | some e => "decor " ++ e
  | none =>
    if kind == "func" || kind == "method" then
      let (p, selfProv) := parseProvider prov scope
      match decorate selfProv (kind == "method") (cs.params.map fun (n, h, _) => (n, h)) cs.ret with
      | .error _ => "decor pyexc TypeError"
      | .identity =>
        match cs.body with
        | .raises => "identity calls=1 bodyraised"
        | .returns _ => "identity calls=1 ok"
      | .wrapped d =>
        let tr := callWrapped genAcc d p (cs.params.map fun (n, _, v) => (n, v)) cs.body
        "calls=" ++ toString tr.bodyCalls ++ " pre=" ++ showBool tr.argsCheckedBeforeBody ++ " " ++ showEnd tr.result
    else if kind == "nt" || kind == "dc" then
      match hintsOf (cs.params.map fun (n, h, _) => (n, h)) with
      | .error _ => "decor pyexc TypeError"
      | .ok fields => showOutcomeC (constructBatch genAcc fields (cs.params.map fun (n, _, v) => (n, v)))
    else if kind == "pyd" then
      -- annotated fields in declaration order; None under Optional is skipped by pydantic itself; a value
      -- pydantic's own instance check refuses is recorded (ValidationError at the end) and validation goes on
      let step (acc : Except String (List (Name × Ann × Tensor) × Bool)) (p : Name × Hint × Value) :=
        match acc with
        | .error e => .error e
        | .ok (l, inv) =>
          let (n, h, v) := p
          match (fromHint h false).map (·.anns) with
          | .ok [some a] =>
            match v with
            | .tensor t => .ok (l ++ [(n, a, t)], inv)
            | .none => if a.optional then .ok (l, inv) else .ok (l, true)
            | _ => .ok (l, true)
          | .ok _ => .ok (l, inv)
          | .error _ => .error "decor pyexc TypeError"
      match cs.params.foldl step (.ok ([], false)) with
      | .error e => e
      | .ok (fs, inv) =>
        match validateIncremental genAcc {} fs with
        | .ok _ => if inv then "pyd-validation" else "ok"
        | r => showOutcomeC r
    else "bad-op"

/-! ## symbolic shapes -/

/-- prefix terms: `add(a,2)`, `isqrt(x)`, `grp(x)`, atoms = identifiers / integers -/
partial def parseSym (toks : List String) : Option (Sym × List String) :=
  match toks with
  | [] => none
  | t :: "(" :: rest =>
    let bin (mk : Sym → Sym → Sym) :=
      match parseSym rest with
      | some (a, "," :: rest1) =>
        match parseSym rest1 with
        | some (b, ")" :: rest2) => some (mk a b, rest2)
        | _ => none
      | _ => none
    let un (mk : Sym → Sym) :=
      match parseSym rest with
      | some (a, ")" :: rest1) => some (mk a, rest1)
      | _ => none
    match t with
    | "add" => bin (.bin .add) | "sub" => bin (.bin .sub) | "mul" => bin (.bin .mul)
    | "div" => bin (.bin .div) | "exp" => bin (.bin .exp)
    | "min" => bin (.fn2 .min) | "max" => bin (.fn2 .max)
    | "isqrt" => un .isqrt | "grp" => un .grp
    | "const" => bin (fun _ _ => .bad)
    | "anon" => (match rest with | ")" :: r => some (.bad, r) | _ => un (fun _ => .bad))
    | _ => none
  | t :: rest =>
    match t.toInt? with
    | some n => some (.lit n, rest)
    | none => some (.var t.toList, rest)

def symTokens (s : String) : List String :=
  let rec go (cs : List Char) (cur : String) (acc : List String) : List String :=
    match cs with
    | [] => (if cur.isEmpty then acc else acc ++ [cur])
    | c :: rest =>
      if c == '(' || c == ')' || c == ',' then
        go rest "" ((if cur.isEmpty then acc else acc ++ [cur]) ++ [c.toString])
      else go rest (cur.push c) acc
  go s.toList "" []

/-- `SYMSHAPE`: entries separated by `;` : a term, `...`, `anon(name)`, `const(name,n)` -/
def parseAxis (s : String) : Option Axis :=
  if s == "..." then some .ellipsis
  else if s.startsWith "anon(" then some (.anon ((s.drop 5).dropEnd 1).toString.toList)
  else if s.startsWith "const(" then
    match (((s.drop 6).dropEnd 1).toString).splitOn "," with
    | [k, n] => n.toInt?.map (fun i => Axis.const k.toList i)
    | _ => none
  else match parseSym (symTokens s) with
    | some (t, []) => some (.expr t)
    | _ => none

def opSymShape (axes : String) : String :=
  match (axes.splitOn ";").mapM parseAxis with
  | none => "bad-op"
  | some as =>
    match printShape as with
    | .error .zeroDivision => "printerr ZeroDivisionError"
    | .error .valueError => "printerr ValueError"
    | .error .typeError => "printerr TypeError"
    | .error .unmodelled => "unmodelled"
    | .ok s =>
      -- (`TensorType[Shape[...]]` is the string constructor applied to the printed shape, for every class)
      let r := opShape (String.ofList s)
      "str=" ++ String.ofList s ++ " => " ++ r ++ (if r.startsWith "ok " then " same-as-string=1" else "")

def opSym (tree scope : String) : String :=
  match parseSym (symTokens tree) with
  | some (t, []) =>
    let σ := parseScope scope
    let spec := match t.pyEval σ.get? with
      | some v => "py=" ++ toString v
      | none => "py=undef"
    match t.print with
    | .error .zeroDivision => "printerr ZeroDivisionError\t" ++ spec
    | .error .valueError => "printerr ValueError\t" ++ spec
    | .error .typeError => "printerr TypeError\t" ++ spec
    | .error .unmodelled => "unmodelled\t" ++ spec
    | .ok s =>
      let v := match parseDim s with
        | .error e => showParseErr e
        | .ok d => showEval (d.evaluate σ)
      "str=" ++ String.ofList s ++ " " ++ v ++ "\t" ++ spec
  | _ => "bad-op"

/-! ## pydantic models -/

structure PField where
  name : Name
  ann : Option Ann          -- none = plain field
  /-- numpy scalar types declared by the base type (`np.ndarray[Any, np.dtype[np.float32]]`): dtype codes -/
  declared : List DT := []

structure PState where
  fields : List PField := []
  va : Bool := false
  /-- context + instance data of the last successfully built instance -/
  inst : Option (CState × List (Name × Value)) := none
  outs : List String := []
  classErr : Option String := none

def pfieldOf (s : String) : Except String PField :=
  match s.splitOn "|" with
  | ["F", name, base, spec] =>
    match parseAnnSpec spec with
    | .absent => .ok { name := name.toList, ann := none }
    | .bad e => .error e
    | .good a =>
      let declared := match base.splitOn "=" with
        | [_, dts] => (dts.splitOn "+").map parseDT
        | _ => []
      .ok { name := name.toList, ann := some a, declared }
  | _ => .error "bad-op"

/-- class-definition time: declared numpy scalar types must belong to the class (`dtype in self.DTYPES`) -/
def classDefErr (fs : List PField) : Option String :=
  fs.findSome? fun f =>
    match f.ann with
    | some a => if classDefRejects genAcc a.cls f.declared then some ("classdef reject dtype tensor=" ++ showName f.name) else none
    | none => none

def runValidation (fs : List PField) (vals : List (Name × Value)) : String × Option CState :=
  -- declaration order whatever the keyword order; plain fields are not ours; a value pydantic refuses is
  -- recorded and reported at the end
  let step (acc : List (Name × Ann × Tensor) × Bool) (f : PField) :=
    let (l, inv) := acc
    match f.ann, lookupArg vals f.name with
    | some a, some (.tensor t) => (l ++ [(f.name, a, t)], inv)
    | some a, some .none => if a.optional then (l, inv) else (l, true)
    | some _, _ => (l, true)
    | none, _ => (l, inv)
  let (fsT, inv) := fs.foldl step ([], false)
  match validateIncremental genAcc {} fsT with
  | .ok st => if inv then ("pyd-validation", none) else ("ok clean=1", some st)
  | r => (showOutcomeC r, none)

def parseVals (fs : List PField) (s : String) : List (Name × Value) :=
  (fs.zip ((splitSemi s).map parseValue)).map fun (f, v) => (f.name, v)

def pydStep (ps : PState) (st : String) : PState :=
  match st.splitOn "|" with
  | "F" :: _ =>
    match pfieldOf st with
    | .ok f => { ps with fields := ps.fields ++ [f] }
    | .error e => { ps with classErr := ps.classErr <|> some ("classdef " ++ e) }
  | ["N", _order, vals] =>
    let vs := parseVals ps.fields vals
    let (o, st') := runValidation ps.fields vs
    { ps with outs := ps.outs ++ [o], inst := match st' with | some c => some (c, vs) | none => ps.inst }
  | ["S", fname, val] =>
    match ps.inst with
    | none => { ps with outs := ps.outs ++ ["no-instance"] }
    | some (c, data) =>
      match ps.fields.find? (fun f => f.name == fname.toList) with
      | none => { ps with outs := ps.outs ++ ["bad-op"] }
      | some f =>
        if !ps.va then { ps with outs := ps.outs ++ ["ok unvalidated"] } else
        match f.ann, parseValue val with
        | none, _ => { ps with outs := ps.outs ++ ["ok"] }
        | some a, .tensor t =>
          match pydanticAssign genAcc c f.name a t with
          | .ok _ => { ps with outs := ps.outs ++ ["ok"] }
          | r => { ps with outs := ps.outs ++ [showOutcomeC r] }
        | some a, .none => { ps with outs := ps.outs ++ [if a.optional then "ok" else "pyd-validation"] }
        | some _, _ => { ps with outs := ps.outs ++ ["pyd-validation"] }
  | _ => { ps with outs := ps.outs ++ ["bad-op"] }

def opPyd (config : String) (steps : List String) : String :=
  let ps := steps.foldl (fun ps st =>
    -- the class is defined when the first non-field step arrives
    pydStep ps st) { va := config.splitOn "," |>.contains "va=1" }
  match ps.classErr <|> classDefErr ps.fields with
  | some e => e
  | none => " ## ".intercalate ps.outs

/-! ## histories -/

structure HParse where
  aliases : List (String × Ann) := []
  ops : List HOp := []
  err : Option String := none
  /-- functions whose BODY changes what a provider returns (in place, while the call is running): fid ↦ (provider, new mapping) -/
  bodySets : List (String × String × Scope) := []

def lookupAlias (al : List (String × Ann)) (k : String) : Option Ann :=
  match al with
  | [] => none
  | (k', a) :: rest => if k' == k then some a else lookupAlias rest k

def unionKind (opt : String) (h : Hint) : Hint :=
  match opt with
  | "1" => .union [h, .none] | "2" => .union [h, .plain] | "3" => .union [h, .plain, .none]
  | "4" => .union [h, .none] | "5" => .union [.none, h] | "7" => .union [h, .none]
  | "8" => .union [.plain, h] | "9" => .union [.none, .plain, h]
  | _ => h

/-- `alias:opt` | `-` -/
def aliasHint (al : List (String × Ann)) (s : String) : Option Hint :=
  if s == "-" then some .plain else
  match s.splitOn ":" with
  | [a, opt] => (lookupAlias al a).map fun ann =>
      let h : Hint := if opt == "6" then .annotated false (some ann) else .annotated true (some ann)
      unionKind opt h
  | _ => none

/-- `alias:opt` or `alias:opt+alias:opt` (tuple) -/
def aliasHints (al : List (String × Ann)) (s : String) : Option Hint :=
  if s.startsWith "(" then
    let inner := ((s.drop 1).dropEnd 1).toString
    let parts := if inner.isEmpty then [] else inner.splitOn "+"
    (parts.mapM (aliasHint al)).map Hint.tuple
  else aliasHint al s

def parseHValue (s : String) : Value :=
  if s.startsWith "U:" then
    let body := (s.drop 2).toString
    .tup ((if body.isEmpty then [] else body.splitOn "+").map parseValue)
  else parseValue s

def parseHStep (hp : HParse) (st : String) : HParse :=
  match st.splitOn "|" with
  | ["A", alias, spec] =>
    match parseAnnSpec spec with
    | .good a => { hp with aliases := hp.aliases ++ [(alias, a)] }
    | .bad e => { hp with err := hp.err <|> some e }
    | .absent => { hp with err := hp.err <|> some "bad-op" }
  | ["V", pid, kind, scope] => { hp with ops := hp.ops ++ [.setProvider pid (kind != "bad" && kind != "badfalsy" && kind != "badstr" && kind != "baddict" && kind != "instbad") (parseScope scope)] }
  | ["S", pid, scope] => { hp with ops := hp.ops ++ [.setScope pid (parseScope scope)] }
  | ["D", fid, pid, params, ret, nested] =>
    let ps := (splitSemi params).map fun p =>
      match p.splitOn "=" with
      | [n, h] => (aliasHints hp.aliases h).map fun hh => (n.toList, hh)
      | _ => none
    let r : Option (Option Hint) := if ret == "-" then some none else (aliasHints hp.aliases ret).map some
    match ps.mapM id, r with
    | some ps', some r' =>
      let selfP := pid.startsWith "self:"
      let provider := if pid == "-" then none else some (if selfP then (pid.drop 5).toString else pid)
      let isSet := nested.startsWith "set:"
      let hf : HFunc := { provider, selfProvider := selfP || pid == "selfraw", isMethod := selfP, params := ps', ret := r',
                          nested := if nested == "-" || isSet then none else some nested }
      -- `set:pid=scope` : the body updates provider `pid` before it returns
      let hp := if isSet then
          match ((nested.drop 4).toString).splitOn "=" with
          | [p, sc] => { hp with bodySets := (fid, p, parseScope (sc.replace "," ";")) :: hp.bodySets.filter (fun x => x.1 != fid) }
          | _ => hp
        else { hp with bodySets := hp.bodySets.filter (fun x => x.1 != fid) }
      let hf := if pid == "selfraw" then { hf with provider := none, isMethod := false } else hf
      { hp with ops := hp.ops ++ [.decorate fid hf] }
    | _, _ => { hp with err := hp.err <|> some "bad-op" }
  | ["I", newfid, basefid, pid] =>
    -- the same decorated method reached through ANOTHER instance of its class, whose mapping comes from provider `pid`:
    -- nothing but the provider differs, and nothing is shared between the two (the model's state has no such component)
    let base := hp.ops.foldl (fun acc op => match op with | .decorate f d => if f == basefid then some d else acc | _ => acc) none
    match base with
    | some d =>
      let bs := match hp.bodySets.find? (fun x => x.1 == basefid) with
        | some (_, p, σ) => (newfid, p, σ) :: hp.bodySets
        | none => hp.bodySets
      { hp with ops := hp.ops ++ [.decorate newfid { d with provider := some pid }], bodySets := bs }
    | none => { hp with err := hp.err <|> some "bad-op" }
  | ["C", fid, names, vals, ret] =>
    let ns := splitSemi names
    let vs := (splitSemi vals).map parseHValue
    let body := if ret == "!" then BodyResult.raises else if ret == "-" then .returns .none else .returns (parseHValue ret)
    -- (a body that changes a provider: marked by a pseudo-operation carrying the function id; applied only if the body ran)
    let extra : List HOp := match hp.bodySets.find? (fun x => x.1 == fid) with
      | some (_, p, σ) => [.setScope ("@body@" ++ p) σ]
      | none => []
    { hp with ops := hp.ops ++ [.call fid ((ns.zip vs).map fun (n, v) => (n.toList, v)) body] ++ extra }
  | _ => { hp with err := hp.err <|> some "bad-op" }

def showOut : Out → Option String
  | .none => none
  | .decorErr => some "decor pyexc TypeError"
  | .verdict c r => some ("calls=" ++ toString c ++ " " ++ showEnd r)
  | .unknownFunc => some "unknown"

def opHist (steps : List String) : String :=
  let hp := steps.foldl parseHStep {}
  match hp.err with
  | some e => "decor " ++ e
  | none =>
    -- the model's `step`, operation by operation; a provider update made by a body takes place only if the body ran
    let run := hp.ops.foldl (fun (acc : GState × List Out × Bool) op =>
      let (st, outs, bodyRan) := acc
      match op with
      | .setScope p σ =>
        if p.startsWith "@body@" then
          if bodyRan then ((step genAcc st (.setScope (p.drop 6).toString σ)).1, outs, false) else (st, outs, false)
        else let (st', o) := step genAcc st op; (st', outs ++ [o], false)
      | _ =>
        let (st', o) := step genAcc st op
        let ran := match o with | .verdict c _ => c ≥ 1 | _ => false
        (st', outs ++ [o], ran)) (({} : GState), [], false)
    " ## ".intercalate (run.2.1.filterMap showOut ++ ["state provsame=1 annsame=1"])

/-! ## specification side (independent oracle), printed after a tab -/

def specDim (s : List Char) : String :=
  match Spec.recogniseDim s with
  | none => "NG"
  | some .anon => "G anon"
  | some (.multi g) => "G multi id=" ++ showName g
  | some (.expr name t) => "G expr id=" ++ showName (name.getD s) ++ " post=" ++ showPost t.post

def specEval (s : List Char) (σ : Scope) : String :=
  match Spec.recogniseDim s with
  | some (.expr _ t) =>
    match t.eval σ.get? with
    | some v => "G val " ++ toString v
    | none => "G undef"
  | some _ => "G marker"
  | none => "NG"

def specShape (s : String) : String :=
  match optShape s with
  | none => "G"
  | some cs =>
    let parts := splitWs cs []
    if parts.isEmpty then "NG" else
    let ds := parts.map Spec.recogniseDim
    if ds.any Option.isNone then "NG" else
    let markers := ds.filter (fun d => match d with | some .anon => true | some (.multi _) => true | _ => false)
    if markers.length > 1 then "NG" else "G"

def handle (line : String) : String :=
  match line.splitOn "\t" with
  | ["PARSE", s] => opParse s ++ "\t" ++ specDim s.toList
  | ["EVAL", s, scope] => opEval s scope ++ "\t" ++ specEval s.toList (parseScope scope)
  | ["EVALSEQ", s, scopes] =>
    opEvalSeq s scopes ++ "\t" ++ " ## ".intercalate ((scopes.splitOn "|").map fun sc => specEval s.toList (parseScope sc))
  | ["SHAPE", s] => opShape s ++ "\t" ++ specShape s
  | ["USE", s] => opUse s ++ "\t" ++ specShape s
  | ["CHECK", spec, dt, dims] => opCheck spec dt dims
  | "CTX" :: scope :: cmds => opCtx scope cmds
  | "CALL" :: kind :: prov :: scope :: items => opCall kind prov scope items
  | "HIST" :: steps => opHist steps
  | "PYD" :: config :: steps => opPyd config steps
  | ["SYM", tree, scope] => opSym tree scope
  | ["SYMSHAPE", axes] => opSymShape axes
  | _ => "bad-op"

partial def mainLoop (h : IO.FS.Stream) (out : IO.FS.Stream) : IO Unit := do
  let line ← h.getLine
  if line.isEmpty then return ()
  let s := if line.endsWith "\n" then (line.dropEnd 1).toString else line
  out.putStrLn (handle s)
  mainLoop h out

def main : IO Unit := do
  let out ← IO.getStdout
  mainLoop (← IO.getStdin) out
