import DltypeModel.Context
/-!
# Specification: what it means for the annotated tensors of a context to conform to ONE common
assignment (C01 / C02).

`σ` is the assignment: integers for dimension names, for the positions `g[i]` of a named group and for
the number of axes `*g` the group absorbs.  Stage 1 states conformance over the parsed dimension
(`DimExpr`, value of the postfix program); `Proofs/Eval.lean` (C05b) turns "value of the postfix
program" into "arithmetic value of the expression tree" for every dimension of the documented grammar.
-/
namespace Dltype.Spec
open Dltype

/-- `σ'` extends `σ`: every binding of `σ` is a binding of `σ'` -/
def ScopeLe (σ σ' : Scope) : Prop := ∀ k v, σ.get? k = some v → σ'.get? k = some v

/-- what one (expanded) dimension demands of an axis of size `a` under the assignment `σ`:
    anonymous axes demand nothing; every other dimension is bound, under its identifier, to the size
    of the axis, and an expression additionally evaluates to that size -/
def DimConforms (σ : Scope) (d : DimExpr) (a : Nat) : Prop :=
  d.isAnonymous = true ∨
  (σ.get? d.identifier = some (Int.ofNat a) ∧
    (d.isIdentifier = true ∨ d.isLiteral = true ∨ runPostfix d.post [] σ = .val (Int.ofNat a)))

/-- position-wise conformance of an expanded dimension list and a shape of the same length -/
def DimsConform (σ : Scope) : List DimExpr → List Nat → Prop
  | [], [] => True
  | d :: ds, a :: as => DimConforms σ d a ∧ DimsConform σ ds as
  | _, _ => False

/-- one annotated tensor conforms to the assignment -/
structure EntryConforms (acc : Acc) (σ : Scope) (e : Entry) : Prop where
  /-- rank, dtype and literal axes (the standalone check, characterised in `Properties/C03.lean`) -/
  check : Dltype.check acc e.ann e.tensor e.displayName = .ok ()
  /-- every axis, aligned around the marker, has the size its dimension demands -/
  dims : DimsConform σ (expandDims e.ann e.tensor.shape) e.tensor.shape
  /-- a named group absorbs the number of axes recorded for it -/
  group : ∀ g, e.ann.multiName = some g →
    σ.get? (lenKey g) = some (Int.ofNat e.tensor.shape.length - Int.ofNat (e.ann.dims.length - 1))

end Dltype.Spec

namespace Dltype.Spec
open Dltype

/-- the names a postfix program refers to -/
def namesOf : List PItem → List Name
  | [] => []
  | .str x :: rest => x :: namesOf rest
  | _ :: rest => namesOf rest

/-- full conformance of one dimension: every dimension that is not a plain identifier (a literal, an
    expression, `name=…`) has a program whose value under the assignment is the size of the axis -/
def DimStrong (σ : Scope) (d : DimExpr) (a : Nat) : Prop :=
  d.isAnonymous = true ∨
  (σ.get? d.identifier = some (Int.ofNat a) ∧
    (d.isIdentifier = true ∨ runPostfix d.post [] σ = .val (Int.ofNat a)))

def DimsStrong (σ : Scope) : List DimExpr → List Nat → Prop
  | [], [] => True
  | d :: ds, a :: as => DimStrong σ d a ∧ DimsStrong σ ds as
  | _, _ => False

/-- "every name used inside an expression is bound by an earlier dimension or by the provider":
    `B` is the set of names bound so far; each non-anonymous dimension adds its identifier -/
def RefsOrderedDims : List Name → List DimExpr → Prop
  | _, [] => True
  | B, d :: ds =>
    (d.isAnonymous = true ∨ d.isIdentifier = true ∨ ∀ x ∈ namesOf d.post, x ∈ B) ∧
    RefsOrderedDims (if d.isAnonymous then B else d.identifier :: B) ds

def boundAfter : List Name → List DimExpr → List Name
  | B, [] => B
  | B, d :: ds => boundAfter (if d.isAnonymous then B else d.identifier :: B) ds

/-- the same over the tensors of a context in queue order (a named group also binds its length key) -/
def RefsOrdered : List Name → List Entry → Prop
  | _, [] => True
  | B, e :: es =>
    RefsOrderedDims B (expandDims e.ann e.tensor.shape) ∧
    RefsOrdered ((match e.ann.multiName with | some g => [lenKey g] | none => []) ++
      boundAfter B (expandDims e.ann e.tensor.shape)) es

/-- an annotated tensor conforms (fully) to the assignment -/
structure EntryStrong (acc : Acc) (σ : Scope) (e : Entry) : Prop where
  check : Dltype.check acc e.ann e.tensor e.displayName = .ok ()
  dims : DimsStrong σ (expandDims e.ann e.tensor.shape) e.tensor.shape
  group : ∀ g, e.ann.multiName = some g →
    σ.get? (lenKey g) = some (Int.ofNat e.tensor.shape.length - Int.ofNat (e.ann.dims.length - 1))

/-- display names are pairwise distinct and not registered yet -/
def NamesFresh : List Name → List Entry → Prop
  | _, [] => True
  | reg, e :: es => e.displayName ∉ reg ∧ NamesFresh (reg ++ [e.displayName]) es

end Dltype.Spec
