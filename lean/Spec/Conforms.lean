import DltypeModel.Context
/-!
# Specification: what it means for the annotated tensors of a context to conform to ONE common
assignment (C01 / C02).

`σ` is the assignment: integers for dimension names, for the positions `g[i]` of a named group and for
the number of axes `*g` the group absorbs.  Stage 1 states conformance over the parsed dimension
(`DimExpr`, value of the postfix program); `Proofs/Eval.lean` (C05b) turns "value of the postfix
program" into "arithmetic value of the expression tree" for every dimension of the documented grammar.
-/
namespace Dltype.Spec
open Dltype

/-- `σ'` extends `σ`: every binding of `σ` is a binding of `σ'` -/
def ScopeLe (σ σ' : Scope) : Prop := ∀ k v, σ.get? k = some v → σ'.get? k = some v

/-- what one (expanded) dimension demands of an axis of size `a` under the assignment `σ`:
    anonymous axes demand nothing; every other dimension is bound, under its identifier, to the size
    of the axis, and an expression additionally evaluates to that size -/
def DimConforms (σ : Scope) (d : DimExpr) (a : Nat) : Prop :=
  d.isAnonymous = true ∨
  (σ.get? d.identifier = some (Int.ofNat a) ∧
    (d.isIdentifier = true ∨ d.isLiteral = true ∨ runPostfix d.post [] σ = .val (Int.ofNat a)))

/-- position-wise conformance of an expanded dimension list and a shape of the same length -/
def DimsConform (σ : Scope) : List DimExpr → List Nat → Prop
  | [], [] => True
  | d :: ds, a :: as => DimConforms σ d a ∧ DimsConform σ ds as
  | _, _ => False

/-- one annotated tensor conforms to the assignment -/
structure EntryConforms (acc : Acc) (σ : Scope) (e : Entry) : Prop where
  /-- rank, dtype and literal axes (the standalone check, characterised in `Properties/C03.lean`) -/
  check : Dltype.check acc e.ann e.tensor e.displayName = .ok ()
  /-- every axis, aligned around the marker, has the size its dimension demands -/
  dims : DimsConform σ (expandDims e.ann e.tensor.shape) e.tensor.shape
  /-- a named group absorbs the number of axes recorded for it -/
  group : ∀ g, e.ann.multiName = some g →
    σ.get? (lenKey g) = some (Int.ofNat e.tensor.shape.length - Int.ofNat (e.ann.dims.length - 1))

end Dltype.Spec
