import DltypeModel.Eval
/-!
# Specification: the documented dimension grammar, its trees and their arithmetic value.

Independent of the model's shunting-yard parser: trees, the canonical printer `Tree.str`, the
post-order `Tree.post`, the reference evaluator `Tree.eval`, and an executable recursive-descent
recogniser `recognise` (used by the correspondence check as the oracle).
-/
namespace Dltype.Spec
open Dltype

/-- expression trees of the documented grammar -/
inductive Tree
  | lit (ds : List Char)           -- a non-empty digit string (leading zeros allowed)
  | var (x : Name)
  | bin (o : BinOp) (l r : Tree)
  | fn2 (f : Fn) (a b : Tree)      -- `min(a,b)`, `max(a,b)`
  | isqrt (a : Tree)
  | grp (a : Tree)                 -- `( a )`
  deriving Repr, Inhabited, DecidableEq

def reserved (x : Name) : Bool := x = kwMin || x = kwMax || x = kwIsqrt

/-- precedence of the root of a tree; atoms bind tightest -/
def Tree.prec : Tree → Nat
  | .bin o _ _ => o.prec
  | _ => 100

/-- well-formed: legal names / numerals; an infix node's left operand binds at least as tightly,
    its right operand strictly tighter (= precedence + left-to-right association without parentheses);
    `fn2` only for min/max. -/
def Tree.WF : Tree → Bool
  | .lit ds => !ds.isEmpty && ds.all isDigit
  | .var x => isIdent x && !reserved x
  | .bin o l r => l.WF && r.WF && decide (o.prec ≤ l.prec) && decide (o.prec < r.prec)
  | .fn2 f a b => (f = .min || f = .max) && a.WF && b.WF
  | .isqrt a => a.WF
  | .grp a => a.WF

/-- the binary function nodes are `min` / `max` (the only shape `Tree.post` / `Tree.eval` give a meaning to) -/
def Tree.FnOK : Tree → Bool
  | .lit _ => true
  | .var _ => true
  | .bin _ l r => l.FnOK && r.FnOK
  | .fn2 f a b => (f = .min || f = .max) && a.FnOK && b.FnOK
  | .isqrt a => a.FnOK
  | .grp a => a.FnOK

def fnName : Fn → Name
  | .min => kwMin | .max => kwMax | .isqrt => kwIsqrt

def binChar : BinOp → Char
  | .add => '+' | .sub => '-' | .mul => '*' | .exp => '^' | .div => '/'

/-- the string a tree is written as (parentheses only at `grp`) -/
def Tree.str : Tree → List Char
  | .lit ds => ds
  | .var x => x
  | .bin o l r => l.str ++ [binChar o] ++ r.str
  | .fn2 f a b => fnName f ++ ['('] ++ a.str ++ [','] ++ b.str ++ [')']
  | .isqrt a => kwIsqrt ++ ['('] ++ a.str ++ [')']
  | .grp a => ['('] ++ a.str ++ [')']

/-- post-order program of a tree -/
def Tree.post : Tree → List PItem
  | .lit ds => [.int (digitsToNat ds)]
  | .var x => [.str x]
  | .bin o l r => l.post ++ r.post ++ [.op (.bin o)]
  | .fn2 f a b => a.post ++ b.post ++ [.op (.fn f)]
  | .isqrt a => a.post ++ [.op (.fn .isqrt)]
  | .grp a => a.post

def Tree.vars : Tree → List Name
  | .lit _ => []
  | .var x => [x]
  | .bin _ l r => l.vars ++ r.vars
  | .fn2 _ a b => a.vars ++ b.vars
  | .isqrt a => a.vars
  | .grp a => a.vars

/-- arithmetic value: `none` when a name is unbound or the arithmetic is undefined
    (division by zero, square root of a negative, negative exponent) -/
def Tree.eval (σ : Name → Option Int) : Tree → Option Int
  | .lit ds => some (Int.ofNat (digitsToNat ds))
  | .var x => σ x
  | .bin o l r =>
    match l.eval σ, r.eval σ with
    | some a, some b =>
      match o with
      | .add => some (a + b)
      | .sub => some (a - b)
      | .mul => some (a * b)
      | .div => if b = 0 then none else some (Int.fdiv a b)       -- floor division
      | .exp => if b < 0 then none else some (a ^ b.toNat)
    | _, _ => none
  | .fn2 f a b =>
    match a.eval σ, b.eval σ with
    | some x, some y =>
      match f with
      | .min => some (if x ≤ y then x else y)
      | .max => some (if x ≥ y then x else y)
      | .isqrt => none
    | _, _ => none
  | .isqrt a =>
    match a.eval σ with
    | some x => if x < 0 then none else some (Int.ofNat (Nat.sqrt x.toNat))   -- floor square root
    | none => none
  | .grp a => a.eval σ

/-! ## executable recogniser (recursive descent on characters) -/

inductive LTok | num (ds : List Char) | id (x : Name) | sym (c : Char)
  deriving DecidableEq, Repr

def lexGo : Nat → List Char → Option (List LTok)
  | 0, _ => none
  | _, [] => some []
  | fuel + 1, c :: cs =>
    if isDigit c then
      let ds := c :: cs.takeWhile isDigit
      (lexGo fuel (cs.dropWhile isDigit)).map (LTok.num ds :: ·)
    else if isAlpha c then
      let x := c :: cs.takeWhile isIdentChar
      (lexGo fuel (cs.dropWhile isIdentChar)).map (LTok.id x :: ·)
    else if c ∈ ['+', '-', '*', '/', '^', '(', ')', ','] then
      (lexGo fuel cs).map (LTok.sym c :: ·)
    else none

def lex (s : List Char) : Option (List LTok) := lexGo (s.length + 1) s

/-- the next token must be the symbol `c` -/
def expectSym (c : Char) : List LTok → Option (List LTok)
  | .sym d :: rest => if d = c then some rest else none
  | _ => none

def levelOps : Nat → List (Char × BinOp)
  | 1 => [('+', .add), ('-', .sub)]
  | 2 => [('*', .mul), ('/', .div)]
  | _ => [('^', .exp)]

mutual
  /-- `level 1 = expr`, `level 2 = term`, `level 3 = power`; left-associative chains -/
  def parseLevel : Nat → Nat → List LTok → Option (Tree × List LTok)
    | 0, _, _ => none
    | fuel + 1, lvl, ts =>
      let first := if lvl ≥ 3 then parseAtom fuel ts else parseLevel fuel (lvl + 1) ts
      match first with
      | none => none
      | some (t, rest) => parseChain fuel lvl t rest
  def parseChain : Nat → Nat → Tree → List LTok → Option (Tree × List LTok)
    | 0, _, _, _ => none
    | fuel + 1, lvl, acc, ts =>
      match ts with
      | .sym c :: rest =>
        match (levelOps lvl).lookup c with
        | some o =>
          let nxt := if lvl ≥ 3 then parseAtom fuel rest else parseLevel fuel (lvl + 1) rest
          match nxt with
          | none => none
          | some (r, rest') => parseChain fuel lvl (.bin o acc r) rest'
        | none => some (acc, ts)
      | _ => some (acc, ts)
  def parseAtom : Nat → List LTok → Option (Tree × List LTok)
    | 0, _ => none
    | fuel + 1, ts =>
      match ts with
      | .num ds :: rest => some (.lit ds, rest)
      | .sym c :: rest =>
        if c = '(' then
          (parseLevel fuel 1 rest).bind fun p => (expectSym ')' p.2).map fun r => (.grp p.1, r)
        else none
      | .id x :: rest =>
        if x = kwIsqrt then
          (expectSym '(' rest).bind fun r1 => (parseLevel fuel 1 r1).bind fun p =>
            (expectSym ')' p.2).map fun r => (.isqrt p.1, r)
        else if x = kwMin || x = kwMax then
          (expectSym '(' rest).bind fun r1 => (parseLevel fuel 1 r1).bind fun pa =>
            (expectSym ',' pa.2).bind fun r2 => (parseLevel fuel 1 r2).bind fun pb =>
              (expectSym ')' pb.2).map fun r => (.fn2 (if x = kwMin then .min else .max) pa.1 pb.1, r)
        else some (.var x, rest)
      | [] => none
end

/-- an expression of the grammar, completely consumed -/
def recogniseExpr (s : List Char) : Option Tree :=
  match lex s with
  | none => none
  | some ts =>
    match parseLevel (4 * ts.length + 8) 1 ts with
    | some (t, []) => some t
    | _ => none

/-- what a dimension string of the documented grammar denotes -/
inductive DimSpec
  | anon                                   -- `...`
  | multi (g : Name)                       -- `*g`
  | expr (name : Option Name) (t : Tree)   -- `[name=]expression`
  deriving Repr

/-- the documented dimension grammar; `none` = outside the grammar -/
def recogniseDim (s : List Char) : Option DimSpec :=
  if s = kwEllipsis then some .anon
  else match s with
    | '*' :: g => if isIdent g && !reserved g then some (.multi g) else none
    | _ =>
      if s.contains '=' then
        let (name, e) := splitEq s
        if isIdent name && !reserved name then
          match recogniseExpr e with
          | some t => if t.vars.contains name then none else some (.expr (some name) t)
          | none => none
        else none
      else (recogniseExpr s).map (.expr none)

end Dltype.Spec
