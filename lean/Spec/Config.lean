import DltypeModel.ConfigEval
import DltypeModel.Generated.DtypeTables
/-!
# Specification of the configuration-level properties (C04, C13, C20): hand-written from the
property statements / README, independent of the source.
-/
namespace Dltype.Spec
open Dltype

/-- the documented dtype categories of each exported class; `none` = anything -/
def documentedCats : String → Option (List String)
  | "TensorTypeBase" => none
  | "FloatTensor" => some ["float16", "bfloat16", "float32", "float64", "longdouble"]
  | "Float16Tensor" => some ["float16", "bfloat16"]
  | "IEEE754HalfFloatTensor" => some ["float16"]
  | "BFloat16Tensor" => some ["bfloat16"]
  | "Float32Tensor" => some ["float32"]
  | "Float64Tensor" => some ["float64"]
  | "DoubleTensor" => some ["float64"]
  | "IntTensor" => some ["int8", "int16", "int32", "int64", "uint8", "uint16", "uint32", "uint64"]
  | "SignedIntTensor" => some ["int8", "int16", "int32", "int64"]
  | "UnsignedIntTensor" => some ["uint8", "uint16", "uint32", "uint64"]
  | "Int8Tensor" => some ["int8"] | "Int16Tensor" => some ["int16"]
  | "Int32Tensor" => some ["int32"] | "Int64Tensor" => some ["int64"]
  | "UInt8Tensor" => some ["uint8"] | "UInt16Tensor" => some ["uint16"]
  | "UInt32Tensor" => some ["uint32"] | "UInt64Tensor" => some ["uint64"]
  | "BoolTensor" => some ["bool"]
  | _ => some []

/-- documented acceptance: `none` where the documentation makes no claim (bfloat16 outside torch) -/
def documented (cls cat : String) (lib : Nat) : Option Bool :=
  match documentedCats cls with
  | none => some true
  | some cats =>
    if cat = "bfloat16" ∧ lib ≠ 1 then (if cats.contains "bfloat16" then none else some false)
    else some (cats.contains cat)

/-- one cell of the observed table agrees with the documentation -/
def cellOK (accRow : List Bool) (cls : String) (j : Nat) (d : Nat × String × Nat) : Bool :=
  match documented cls (Gen.catNames.getD d.2.2 "other") d.1, accRow[j]? with
  | some b, some a => a == b
  | none, some _ => true
  | _, none => false

def rowOK (cls : String) (accRow : List Bool) : Bool :=
  accRow.length == Gen.dtypes.length &&
  ((List.range Gen.dtypes.length).zip Gen.dtypes).all (fun (j, d) => cellOK accRow cls j d)

/-- the whole observed acceptance table equals the documented one -/
def tableOK : Bool :=
  Gen.accRows.length == Gen.classNames.length &&
  (Gen.classNames.zip Gen.accRows).all (fun (c, r) => rowOK c r)

/-- the libraries' array types that must be supported in an environment -/
def supportedTypes (e : Env) : List String :=
  (if e.jax then ["jax.Array"] else []) ++ (if e.np then ["np.ndarray"] else []) ++ (if e.torch then ["torch.Tensor"] else [])

/-- environments that can exist: jax needs numpy -/
def realisable (e : Env) : Bool := !e.jax || e.np

def tensorClasses : List String :=
  ["BFloat16Tensor", "BoolTensor", "DoubleTensor", "Float16Tensor", "Float32Tensor", "Float64Tensor", "FloatTensor",
   "IEEE754HalfFloatTensor", "Int16Tensor", "Int32Tensor", "Int64Tensor", "Int8Tensor", "IntTensor", "SignedIntTensor",
   "UInt16Tensor", "UInt32Tensor", "UInt64Tensor", "UInt8Tensor", "UnsignedIntTensor"]

end Dltype.Spec
