import DltypeModel.Parser
/-!
# L3 Postfix evaluator — `DLTypeDimensionExpression.evaluate`, `_DLTypeOperator.evaluate*`.
-/
namespace Dltype

inductive EvalResult
  | val (v : Int)
  | keyError (name : Name)
  | pyExc (e : PyExc)
  /-- negative exponent: Python goes through floating point, not modelled -/
  | unmodelled
  deriving DecidableEq, Repr, Inhabited

/-- `_DLTypeOperator.evaluate` for the five infix operators -/
def evalBin (o : BinOp) (a b : Int) : EvalResult :=
  match o with
  | .add => .val (a + b)
  | .sub => .val (a - b)
  | .mul => .val (a * b)
  | .exp => if b < 0 then .unmodelled else .val (a ^ b.toNat)
  | .div => if b = 0 then .pyExc .zeroDivision else .val (Int.fdiv a b)

/-- `_DLTypeOperator.evaluate` for `min` / `max` -/
def evalFn2 (f : Fn) (a b : Int) : EvalResult :=
  match f with
  | .min => .val (if a ≤ b then a else b)
  | .max => .val (if a ≥ b then a else b)
  | .isqrt => .pyExc .typeError   -- unreachable: isqrt is dispatched as unary

/-- `_DLTypeOperator.evaluate_unary` -/
def evalIsqrt (a : Int) : EvalResult :=
  if a < 0 then .pyExc .valueError else .val (Int.ofNat (Nat.sqrt a.toNat))

/-- the token loop of `evaluate`; the stack has its top at the head -/
def runPostfix : List PItem → List Int → Scope → EvalResult
  | [], [v], _ => .val v
  | [], _, _ => .pyExc .valueError                    -- "Invalid stack"
  | .int n :: rest, stk, σ => runPostfix rest (Int.ofNat n :: stk) σ
  | .str x :: rest, stk, σ =>
    match σ.get? x with
    | some v => runPostfix rest (v :: stk) σ
    | none => .keyError x
  | .op (.fn .isqrt) :: rest, stk, σ =>
    match stk with
    | [] => .pyExc .indexError
    | b :: stk' =>
      match evalIsqrt b with
      | .val v => runPostfix rest (v :: stk') σ
      | r => r
  | .op o :: rest, stk, σ =>
    match stk with
    | b :: a :: stk' =>
      match (match o with | .bin bo => evalBin bo a b | .fn f => evalFn2 f a b) with
      | .val v => runPostfix rest (v :: stk') σ
      | r => r
    | _ => .pyExc .indexError

/-- `DLTypeDimensionExpression.evaluate(scope)` -/
def DimExpr.evaluate (d : DimExpr) (σ : Scope) : EvalResult :=
  if d.isAnonymous then .pyExc .valueError
  else if d.isIdentifier && σ.has d.identifier then
    match σ.get? d.identifier with
    | some v => .val v
    | none => .keyError d.identifier   -- unreachable
  else runPostfix d.post [] σ

/-- parse a dimension string and evaluate it: `expression_from_string(s).evaluate(scope)`; `none` = SyntaxError -/
def evalString (s : List Char) (σ : Scope) : Option EvalResult :=
  match parseDim s with
  | .ok d => some (d.evaluate σ)
  | .error _ => none

end Dltype
