import DltypeModel.Eval
/-!
# L4 Shape string and annotation — `TensorTypeBase.__init__`, `_parse_shape_string`.
-/
namespace Dltype

/-- an annotation object (`TensorTypeBase` instance); `cls` indexes the generated dtype table -/
structure Ann where
  dims : List DimExpr
  multiIdx : Option Nat := none
  multiName : Option Name := none
  anonMulti : Bool := false
  /-- `_literal_dims`: (index, value) -/
  literalDims : List (Nat × Int) := []
  cls : Nat := 0
  optional : Bool := false
  deriving DecidableEq, Repr, Inhabited

/-- `str.split()` restricted to the space character (printable ASCII has no other whitespace) -/
def splitWs : List Char → List Char → List (List Char)
  | [], cur => if cur.isEmpty then [] else [cur]
  | c :: cs, cur =>
    if c = ' ' then (if cur.isEmpty then splitWs cs [] else cur :: splitWs cs [])
    else splitWs cs (cur ++ [c])

def parseDims : List (List Char) → Except ParseErr (List DimExpr)
  | [] => .ok []
  | s :: rest =>
    match parseDim s with
    | .error e => .error e
    | .ok d =>
      match parseDims rest with
      | .error e => .error e
      | .ok ds => .ok (d :: ds)

def DimExpr.isMarker (d : DimExpr) : Bool := d.isNamedMultiaxis || d.isAnonymous

/-- indices of the multi-axis markers -/
def markerIdxs : List DimExpr → Nat → List Nat
  | [], _ => []
  | d :: ds, i => if d.isMarker then i :: markerIdxs ds (i + 1) else markerIdxs ds (i + 1)

/-- `(idx, dim.evaluate({}))` for literal dims that are not the marker -/
def literalDimsOf : List DimExpr → Nat → Option Nat → List (Nat × Int)
  | [], _, _ => []
  | d :: ds, i, mi =>
    if d.isLiteral && mi ≠ some i then
      match d.evaluate [] with
      | .val v => (i, v) :: literalDimsOf ds (i + 1) mi
      | _ => literalDimsOf ds (i + 1) mi       -- unreachable for parser output (a literal evaluates)
    else literalDimsOf ds (i + 1) mi

/-- the literal-dims evaluation raising is a Python exception at construction (not SyntaxError) -/
def literalDimsRaise : List DimExpr → Nat → Option Nat → Option PyExc
  | [], _, _ => none
  | d :: ds, i, mi =>
    if d.isLiteral && mi ≠ some i then
      match d.evaluate [] with
      | .val _ => literalDimsRaise ds (i + 1) mi
      | .pyExc e => some e
      | _ => some .typeError
    else literalDimsRaise ds (i + 1) mi

inductive ShapeErr | parse (e : ParseErr) | py (e : PyExc)
  deriving DecidableEq, Repr

/-- `Class[shape]` / `Class(shape)`; `none` is `Class[None]` -/
def parseShape (shape : Option (List Char)) (cls : Nat := 0) (optional : Bool := false) :
    Except ShapeErr Ann :=
  match shape with
  | none => .ok { dims := [], cls, optional }
  | some s =>
    let parts := splitWs s []
    if parts.isEmpty then .error (.parse .syntax) else
    match parseDims parts with
    | .error e => .error (.parse e)
    | .ok dims =>
      let ms := markerIdxs dims 0
      if ms.length > 1 then .error (.parse .syntax) else
      let mi := ms.getLast?
      let multiName := match mi with
        | none => none
        | some i => match dims[i]? with
          | some d => if d.isNamedMultiaxis then some d.identifier else none
          | none => none
      match literalDimsRaise dims 0 mi with
      | some e => .error (.py e)
      | none =>
        .ok { dims, multiIdx := mi, multiName, anonMulti := dims.any (·.isAnonymous),
              literalDims := literalDimsOf dims 0 mi, cls, optional }

end Dltype
