import DltypeModel.Eval
/-!
# L9 Symbolic printer — `_symbolic_expressions.py`.

`Sym` is the tree Python builds when the operator expression is evaluated (Python's own
precedence / associativity decide its shape); `Sym.print` is `str()` of the resulting axis object,
constant folding of literal-literal operands included — every operation object checks its operands when it is *constructed*,
and the whole expression is constructed before any of it is printed, so an operand check that fails anywhere wins over every
printing error (`Sym.hasBad` first, then `Sym.str`); `Sym.pyEval` is the arithmetic Python's
evaluation order gives the expression.
-/
namespace Dltype

inductive Sym
  | lit (n : Int)                 -- `LiteralAxis(n)` or a bare int operand
  | var (x : Name)                -- `VariableAxis(x)`
  | bin (o : BinOp) (l r : Sym)   -- `l + r`, `l - r`, `l * r`, `l // r`, `l ** r`
  | fn2 (f : Fn) (a b : Sym)      -- `Min(a, b)`, `Max(a, b)`
  | isqrt (a : Sym)               -- `ISqrt(a)`
  | grp (a : Sym)                 -- `Group(a)`
  | bad                           -- a `ConstantAxis` / `AnonymousAxis` used as an operand
  deriving Repr, Inhabited, DecidableEq

def intStr (n : Int) : List Char := (toString n).toList

inductive PrintErr | zeroDivision | valueError | typeError | unmodelled
  deriving DecidableEq, Repr

/-- is the operand a `LiteralAxis` object (only those are folded) -/
def Sym.litVal : Sym → Option Int
  | .lit n => some n
  | _ => none

/-- a `ConstantAxis` / `AnonymousAxis` occurs as an operand somewhere: `_assert_operand` raises TypeError in the constructor of
    the operation object that receives it -/
def Sym.hasBad : Sym → Bool
  | .lit _ => false
  | .var _ => false
  | .bad => true
  | .grp a => a.hasBad
  | .isqrt a => a.hasBad
  | .fn2 _ a b => a.hasBad || b.hasBad
  | .bin _ l r => l.hasBad || r.hasBad

/-- `str(axis)` of an expression whose construction succeeded -/
def Sym.str : Sym → Except PrintErr (List Char)
  | .lit n => .ok (intStr n)
  | .var x => .ok x
  | .bad => .error .typeError      -- (never reached through `Sym.print`)
  | .grp a => do let s ← a.str; pure (['('] ++ s ++ [')'])
  | .isqrt a =>
    match a.litVal with
    | some n => if n < 0 then .error .valueError else .ok (intStr (Int.ofNat (Nat.sqrt n.toNat)))
    | none => do let s ← a.str; pure ("isqrt(".toList ++ s ++ [')'])
  | .fn2 f a b =>
    match a.litVal, b.litVal with
    | some x, some y =>
      match f with
      | .min => .ok (intStr (if x ≤ y then x else y))
      | .max => .ok (intStr (if x ≥ y then x else y))
      | .isqrt => .error .unmodelled
    | _, _ => do
      let sa ← a.str; let sb ← b.str
      pure ((match f with | .min => "min(" | .max => "max(" | .isqrt => "isqrt(").toList ++ sa ++ [','] ++ sb ++ [')'])
  | .bin o l r =>
    match l.litVal, r.litVal with
    | some x, some y =>
      match o with
      | .add => .ok (intStr (x + y))
      | .sub => .ok (intStr (x - y))
      | .mul => .ok (intStr (x * y))
      | .div => if y = 0 then .error .zeroDivision else .ok (intStr (Int.fdiv x y))
      | .exp => if y < 0 then .error .unmodelled else .ok (intStr (x ^ y.toNat))
    | _, _ => do
      let sl ← l.str; let sr ← r.str
      pure (sl ++ [match o with | .add => '+' | .sub => '-' | .mul => '*' | .div => '/' | .exp => '^'] ++ sr)

/-- evaluating the Python operator expression (constructs every operation object, operands left to right), then `str()` -/
def Sym.print (s : Sym) : Except PrintErr (List Char) :=
  if s.hasBad then .error .typeError else s.str

/-- the arithmetic Python's evaluation of the operator expression denotes -/
def Sym.pyEval (σ : Name → Option Int) : Sym → Option Int
  | .lit n => some n
  | .var x => σ x
  | .bad => none
  | .grp a => a.pyEval σ
  | .isqrt a =>
    match a.pyEval σ with
    | some x => if x < 0 then none else some (Int.ofNat (Nat.sqrt x.toNat))
    | none => none
  | .fn2 f a b =>
    match a.pyEval σ, b.pyEval σ with
    | some x, some y =>
      match f with
      | .min => some (if x ≤ y then x else y)
      | .max => some (if x ≥ y then x else y)
      | .isqrt => none
    | _, _ => none
  | .bin o l r =>
    match l.pyEval σ, r.pyEval σ with
    | some a, some b =>
      match o with
      | .add => some (a + b)
      | .sub => some (a - b)
      | .mul => some (a * b)
      | .div => if b = 0 then none else some (Int.fdiv a b)
      | .exp => if b < 0 then none else some (a ^ b.toNat)
    | _, _ => none

/-- one entry of `Shape[...]` -/
inductive Axis
  | expr (s : Sym)                    -- an operable axis / computed axis / int
  | ellipsis                          -- `...` or `AnonymousAxis(...)`
  | anon (name : Name)                -- `AnonymousAxis("name")`  → `*name`
  | const (name : Name) (n : Int)     -- `ConstantAxis("name", n)` → `name=n`
  deriving Repr, Inhabited

def Axis.hasBad : Axis → Bool
  | .expr s => s.hasBad
  | _ => false

def Axis.print : Axis → Except PrintErr (List Char)
  | .expr s => s.str
  | .ellipsis => .ok ['.', '.', '.']
  | .anon n => .ok ('*' :: n)
  | .const k n => .ok (k ++ ['='] ++ intStr n)

def joinSp : List (List Char) → List Char
  | [] => []
  | [x] => x
  | x :: xs => x ++ [' '] ++ joinSp xs

/-- `str(Shape[...])` : the entries joined by single spaces (the subscript tuple is evaluated — every entry constructed —
    before `Shape` prints any of them) -/
def printShape (axes : List Axis) : Except PrintErr (List Char) :=
  if axes.any Axis.hasBad then .error .typeError else (axes.mapM Axis.print).map joinSp

end Dltype
