import DltypeModel.Basic
/-!
# L1 Tokenizer — `_tokenize_string_expr`, `_span_to_tok`, `_span_to_str_or_int`,
`_assert_token_list_valid`.  Domain: printable ASCII (`str.isnumeric` ≙ non-empty, all `0-9`).
-/
namespace Dltype

/-- `_span_to_tok` on a single character -/
def charTok (c : Char) : Option Tok :=
  if c = '+' then some (.bin .add) else if c = '-' then some (.bin .sub)
  else if c = '*' then some (.bin .mul) else if c = '^' then some (.bin .exp)
  else if c = '/' then some (.bin .div) else if c = '=' then some .eq
  else if c = '(' then some .lp else if c = ')' then some .rp
  else if c = ',' then some .comma else none

def isDigit (c : Char) : Bool := '0' ≤ c && c ≤ '9'

def digitVal (c : Char) : Nat := c.toNat - '0'.toNat

/-- `int(span)` for an all-digit span -/
def digitsToNat (s : List Char) : Nat := s.foldl (fun acc c => acc * 10 + digitVal c) 0

def kwMin : Name := ['m', 'i', 'n']
def kwMax : Name := ['m', 'a', 'x']
def kwIsqrt : Name := ['i', 's', 'q', 'r', 't']
def kwEllipsis : Name := ['.', '.', '.']

/-- `_span_to_tok(span) or _span_to_str_or_int(span)` for a non-empty span without special characters -/
def spanTok (s : List Char) : Tok :=
  if s = kwMin then .fn .min else if s = kwMax then .fn .max else if s = kwIsqrt then .fn .isqrt
  else if !s.isEmpty && s.all isDigit then .int (digitsToNat s) else .str s

def flushSpan (span : List Char) : List Tok := if span.isEmpty then [] else [spanTok span]

/-- the character loop of `_tokenize_string_expr`; `span` is the current span (in order) -/
def tokenizeAux : List Char → List Char → Except ParseErr (List Tok)
  | [], span => .ok (flushSpan span)
  | c :: cs, span =>
    if c = ' ' then .error .syntax
    else match charTok c with
      | some t => (tokenizeAux cs []).map (fun r => flushSpan span ++ t :: r)
      | none => tokenizeAux cs (span ++ [c])

def tokenizeRaw (s : List Char) : Except ParseErr (List Tok) := tokenizeAux s []

/-- contribution of a token to `n_expected_args` -/
def Tok.expArgs : Tok → Nat
  | .fn .isqrt => 1 | .fn _ => 2 | .bin _ => 2 | _ => 0
/-- contribution of a token to `n_actual_args` -/
def Tok.actArgs : Tok → Nat
  | .fn _ => 1 | .bin _ => 1 | .str _ => 1 | .int _ => 1 | _ => 0

def sumMap (f : Tok → Nat) : List Tok → Nat
  | [] => 0
  | t :: ts => f t + sumMap f ts

/-- `_assert_token_list_valid` (true = does not raise) -/
def tokensValid (ts : List Tok) : Bool :=
  match ts with
  | [] => false
  | [.str _] => true
  | [.int _] => true
  | [.bin .mul, .str _] => true
  | _ => !ts.contains .eq && (1 + sumMap Tok.expArgs ts == sumMap Tok.actArgs ts)

/-- `_tokenize_string_expr` -/
def tokenize (s : List Char) : Except ParseErr (List Tok) :=
  match tokenizeRaw s with
  | .error e => .error e
  | .ok ts => if tokensValid ts then .ok ts else .error .syntax

end Dltype
