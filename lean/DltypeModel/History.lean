import DltypeModel.Entry
/-!
# L8 Histories — everything that outlives one call.

State components (each is a component of `GState`; the translator's `SharedState` audit lists every
store in the source whose target is not a local of the running call and every cache, and
`Properties/C09.lean` proves that list equal to `stateComponents`):

* the registered functions with the result of decorating them (`dltype_hints`, `signature` closures);
* the provider objects and the mapping each currently returns.

Annotation objects are values in this model: `from_hint` copies an annotation when it has to change
the `optional` flag, a call works on a private copy of the provider's mapping, and the two
`lru_cache`s are pure functions of their keys, so none of them is a state component.
-/
namespace Dltype

abbrev Ident := String

/-- a declared function: provider id, hinted parameters, return hint, and optionally a function it calls
    in its body (with its own arguments) before returning -/
structure HFunc where
  provider : Option Ident
  selfProvider : Bool := false
  isMethod : Bool := false
  params : List (Name × Hint)
  ret : Option Hint
  nested : Option Ident := none
  deriving Repr, Inhabited

structure GState where
  funcs : List (Ident × HFunc × Decorated) := []
  /-- provider id ↦ (implements the protocol, mapping it currently returns) -/
  provs : List (Ident × Bool × Scope) := []
  deriving Repr, Inhabited

def stateComponents : List String := ["funcs", "provs"]

inductive HOp
  | setProvider (p : Ident) (isProvider : Bool) (σ : Scope)
  /-- the provider object changes what it returns -/
  | setScope (p : Ident) (σ : Scope)
  | decorate (f : Ident) (d : HFunc)
  | call (f : Ident) (args : List (Name × Value)) (body : BodyResult)
  deriving Repr, Inhabited

inductive Out
  | none
  | decorErr
  | verdict (calls : Nat) (r : CallEnd)
  | unknownFunc
  deriving Repr, Inhabited

def lookup {α} (k : Ident) : List (Ident × α) → Option α
  | [] => .none
  | (k', v) :: rest => if k' = k then some v else lookup k rest

def providerOf (s : GState) (f : HFunc) : Provider :=
  match f.provider with
  | none => .absent
  | some p =>
    match lookup p s.provs with
    | some (true, σ) => if f.selfProvider then .self (some σ) else .obj (some σ)
    | _ => if f.selfProvider then .self none else .obj none

/-- the verdict of a call, computed from the declaration, the values and the providers' current
    mappings only.  `depth` = how many further levels of nested checked calls the bodies make
    (the harness's functions stop nesting at a fixed depth, so recursion terminates). -/
def freshVerdict (acc : Acc) (s : GState) : Nat → Ident → List (Name × Value) → BodyResult → Out
  | depth, f, args, body =>
    match lookup f s.funcs with
    | none => .unknownFunc
    | some (hf, dec) =>
      -- the body of `f`: first the nested checked call (its error propagates), then `body`
      let body' : Except CallEnd BodyResult :=
        match hf.nested, depth with
        | some g, d + 1 =>
          match freshVerdict acc s d g args body with
          | .verdict _ (.returned _) => .ok body
          | .verdict _ r => .error r
          | _ => .error .unmodelled
        | _, _ => .ok body
      match dec with
      | .error _ => .decorErr
      | .identity =>
        match body' with
        | .ok b => .verdict 1 (match b with | .raises => .bodyRaised | .returns v => .returned v)
        | .error r => .verdict 1 r
      | .wrapped d =>
        match body' with
        | .ok b =>
          let tr := callWrapped acc d (providerOf s hf) args b
          .verdict tr.bodyCalls tr.result
        | .error r =>
          -- arguments are still checked first; if they pass, the body raises the nested call's error
          let tr := callWrapped acc d (providerOf s hf) args .raises
          .verdict tr.bodyCalls (match tr.result with | .bodyRaised => r | e => e)

def setKey {α} (k : Ident) (v : α) : List (Ident × α) → List (Ident × α)
  | [] => [(k, v)]
  | (k', v') :: rest => if k' = k then (k, v) :: rest else (k', v') :: setKey k v rest

def step (acc : Acc) (s : GState) : HOp → GState × Out
  | .setProvider p isP σ => ({ s with provs := setKey p (isP, σ) s.provs }, .none)
  | .setScope p σ =>
    let isP := match lookup p s.provs with | some (b, _) => b | none => true
    ({ s with provs := setKey p (isP, σ) s.provs }, .none)
  | .decorate f d =>
    let dec := decorate d.selfProvider d.isMethod d.params d.ret
    ({ s with funcs := setKey f (d, dec) s.funcs },
      match dec with | .error _ => .decorErr | _ => .none)
  | .call f args body => (s, freshVerdict acc s 3 f args body)

def exec (acc : Acc) : GState → List HOp → GState × List Out
  | s, [] => (s, [])
  | s, op :: ops =>
    let (s', o) := step acc s op
    let (s'', os) := exec acc s' ops
    (s'', o :: os)

end Dltype
