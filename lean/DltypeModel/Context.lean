import DltypeModel.Check
/-!
# L6 Context — `_ConcreteType`, `get_expected_shape`, `DLTypeContext.add`, `assert_context`,
`_assert_tensor_shape`.
-/
namespace Dltype

/-- a runtime value handed to the checker -/
inductive Value
  | none
  | tensor (t : Tensor)
  /-- anything that is neither `None`, a supported array nor a tuple (an `int`, a `str`, …) -/
  | other
  | tup (vs : List Value)
  deriving Repr, Inhabited

/-- `_ConcreteType` -/
structure Entry where
  argIndex : Nat
  name : Name
  tensor : Tensor
  ann : Ann
  deriving Repr, Inhabited

def natStr (n : Nat) : List Char := Nat.toDigits 10 n

/-- `tensor_arg_name` -/
def Entry.displayName (e : Entry) : Name :=
  if e.argIndex > 0 then e.name ++ ['['] ++ natStr e.argIndex ++ [']'] else e.name

/-- key under which position `i` of group `g` is bound: `f"{multiaxis_name}[{i}]"` -/
def grpKey (g : Name) (i : Nat) : Name := g ++ ['['] ++ natStr i ++ [']']
/-- key under which the number of axes absorbed by `*g` is bound -/
def lenKey (g : Name) : Name := '*' :: g

def noneName : Name := ['N', 'o', 'n', 'e']

inductive Outcome (α : Type)
  | ok (a : α)
  | reject (r : Report)
  | pyExc (e : PyExc)
  | unmodelled
  deriving Repr

instance : Monad Outcome where
  pure := .ok
  bind x f := match x with
    | .ok a => f a
    | .reject r => .reject r
    | .pyExc e => .pyExc e
    | .unmodelled => .unmodelled

/-- the multi-axis literals inserted by `get_expected_shape` for `actual[mi .. mi+n)` -/
def multiDims (gname : Name) (anon : Bool) : Nat → List Nat → List DimExpr
  | _, [] => []
  | i, a :: rest => mkMultiLiteral (grpKey gname i) a anon :: multiDims gname anon (i + 1) rest

/-- `_ConcreteType.get_expected_shape` -/
def expandDims (ann : Ann) (shape : List Nat) : List DimExpr :=
  match ann.multiIdx with
  | none => ann.dims
  | some mi =>
    let n := shape.length + 1 - ann.dims.length
    let gname := ann.multiName.getD noneName
    ann.dims.take mi ++ multiDims gname ann.anonMulti 0 ((shape.drop mi).take n) ++ ann.dims.drop (mi + 1)

/-- one iteration of the loop of `_assert_tensor_shape` -/
def dimStep (tname : Name) (idx : Nat) (d : DimExpr) (actual : Nat) (σ : Scope) : Outcome Scope :=
  if d.isAnonymous then .ok σ
  else if d.isLiteral && !σ.has d.identifier then .ok (σ.set d.identifier actual)
  else if d.isIdentifier && !σ.has d.identifier then .ok (σ.set d.identifier actual)
  else
    match d.evaluate σ with
    | .keyError k => .reject (.invalidRef tname k σ.keys)
    | .pyExc e => .pyExc e
    | .unmodelled => .unmodelled
    | .val v =>
      if v ≠ Int.ofNat actual then .reject (.shape tname idx v actual)
      else
        match σ.get? d.identifier with
        | none => .ok (σ.set d.identifier actual)
        | some b => if b ≠ Int.ofNat actual then .reject (.shape tname idx b actual) else .ok σ

/-- `_assert_tensor_shape` -/
def assertDims (tname : Name) : Nat → List DimExpr → List Nat → Scope → Outcome Scope
  | _, [], _, σ => .ok σ
  | _, _ :: _, [], σ => .ok σ        -- unreachable: the expanded list has the tensor's rank
  | idx, d :: ds, a :: as, σ =>
    match dimStep tname idx d a σ with
    | .ok σ' => assertDims tname (idx + 1) ds as σ'
    | .reject r => .reject r
    | .pyExc e => .pyExc e
    | .unmodelled => .unmodelled

/-- the state of a `DLTypeContext`: `tensor_shape_map`, keys of `registered_tensor_dtypes` -/
structure CState where
  σ : Scope := []
  registered : List Name := []
  deriving Repr, Inhabited

/-- a named group must absorb the same number of axes wherever it appears -/
def groupLenStep (e : Entry) (σ : Scope) : Outcome Scope :=
  match e.ann.multiName with
  | none => .ok σ
  | some g =>
    let nFixed := e.ann.dims.length - 1
    let nGroup : Int := Int.ofNat e.tensor.shape.length - Int.ofNat nFixed
    match σ.get? (lenKey g) with
    | none => .ok (σ.set (lenKey g) nGroup)
    | some b =>
      if b ≠ nGroup then .reject (.ndims e.displayName (Int.ofNat nFixed + b) e.tensor.shape.length)
      else .ok σ

/-- the body of the `while` loop of `assert_context` for one queued tensor -/
def tensorStep (acc : Acc) (st : CState) (e : Entry) : Outcome CState :=
  match check acc e.ann e.tensor e.displayName with
  | .error r => .reject r
  | .ok () =>
    if st.registered.contains e.displayName then .reject (.duplicate e.displayName)
    else
      match assertDims e.displayName 0 (expandDims e.ann e.tensor.shape) e.tensor.shape st.σ with
      | .ok σ' =>
        match groupLenStep e σ' with
        | .ok σ'' => .ok { σ := σ'', registered := st.registered ++ [e.displayName] }
        | .reject r => .reject r
        | .pyExc x => .pyExc x
        | .unmodelled => .unmodelled
      | .reject r => .reject r
      | .pyExc x => .pyExc x
      | .unmodelled => .unmodelled

/-- `assert_context` : drain the queue in order -/
def runEntries (acc : Acc) : CState → List Entry → Outcome CState
  | st, [] => .ok st
  | st, e :: es =>
    match tensorStep acc st e with
    | .ok st' => runEntries acc st' es
    | .reject r => .reject r
    | .pyExc x => .pyExc x
    | .unmodelled => .unmodelled

/-- the `zip(..., strict=True)` loop of `DLTypeContext.add` -/
def addGo (name : Name) : Nat → List (Option Ann) → List Value → Outcome (List Entry)
  | _, [], [] => .ok []
  | _, [], _ :: _ => .pyExc .valueError
  | _, _ :: _, [] => .pyExc .valueError
  | i, a :: as, v :: vs =>
    match a with
    | none => addGo name (i + 1) as vs
    | some ann =>
      match v with
      | .none =>
        if ann.optional then addGo name (i + 1) as vs else .reject .unsupported
      | .tensor t =>
        match addGo name (i + 1) as vs with
        | .ok es => .ok ({ argIndex := i, name, tensor := t, ann } :: es)
        | r => r
      | _ => .reject .unsupported

/-- `ctx.add(name, values, annotations)`; `none` annotations = nothing to do -/
def ctxAdd (name : Name) (vals : List Value) (anns : Option (List (Option Ann))) : Outcome (List Entry) :=
  match anns with
  | none => .ok []
  | some as => addGo name 0 as vals

end Dltype
