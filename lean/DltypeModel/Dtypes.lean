import DltypeModel.Context
import DltypeModel.Generated.DtypeTables
/-! dtype acceptance as observed from the real classes (regenerated table). -/
namespace Dltype

/-- `Class[...].check` accepts the dtype (row = class index, column = global dtype index) -/
def genAcc : Acc := fun cls dt =>
  match Gen.accRows[cls]? with
  -- (a dtype outside the observed table — an abstract scalar class, `typing.Any` — is in no class's `DTYPES`: it is accepted exactly
  --  by the classes that restrict nothing, i.e. whose row accepts every observed dtype)
  | some row => row[dt.code]?.getD (row.all id)
  | none => false

end Dltype
