import DltypeModel.Context
import DltypeModel.Generated.DtypeTables
/-! dtype acceptance as observed from the real classes (regenerated table). -/
namespace Dltype

/-- `Class[...].check` accepts the dtype (row = class index, column = global dtype index) -/
def genAcc : Acc := fun cls dt =>
  match Gen.accRows[cls]? with
  | some row => row[dt.code]?.getD false
  | none => false

end Dltype
