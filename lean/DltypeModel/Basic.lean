/-!
# Basic types of the dltype model

Executable model of `dltype/_lib/_parser.py` and friends. Core Lean only (no Mathlib), so the
driver can be compiled. Text is `List Char` inside the model; the driver converts at the boundary.
-/
namespace Dltype

abbrev Name := List Char

/-- infix operators (`_infix_operators`) -/
inductive BinOp | add | sub | mul | exp | div
  deriving DecidableEq, Repr, Inhabited

/-- functional operators (`_functional_operators`) -/
inductive Fn | min | max | isqrt
  deriving DecidableEq, Repr, Inhabited

/-- members of `_DLTypeOperator`: what can sit on the operator stack / in a postfix program -/
inductive Op | bin (o : BinOp) | fn (f : Fn)
  deriving DecidableEq, Repr, Inhabited

/-- tokens produced by `_tokenize_string_expr` -/
inductive Tok
  | int (n : Nat) | str (s : Name) | bin (o : BinOp) | fn (f : Fn) | lp | rp | comma | eq
  deriving DecidableEq, Repr, Inhabited

/-- items of a postfix program (`parsed_expression`) -/
inductive PItem | int (n : Nat) | str (s : Name) | op (o : Op)
  deriving DecidableEq, Repr, Inhabited

/-- `_op_precedence` (checked against the source by `Generated/ParserTables.lean`) -/
def BinOp.prec : BinOp → Nat
  | .add => 1 | .sub => 1 | .mul => 2 | .div => 2 | .exp => 3
def Fn.prec : Fn → Nat
  | .min => 4 | .max => 4 | .isqrt => 5
def Op.prec : Op → Nat
  | .bin o => o.prec | .fn f => f.prec
/-- precedence of `_DLTypeGroupToken.LPAREN` -/
def lparenPrec : Nat := 6

def BinOp.sym : BinOp → String
  | .add => "+" | .sub => "-" | .mul => "*" | .exp => "^" | .div => "/"
def Fn.sym : Fn → String
  | .min => "min" | .max => "max" | .isqrt => "isqrt"
def Op.sym : Op → String
  | .bin o => o.sym | .fn f => f.sym

/-- Python exceptions other than `SyntaxError` / `DLTypeError` that the modelled code can raise -/
inductive PyExc | valueError | zeroDivision | indexError | typeError
  deriving DecidableEq, Repr, Inhabited

def PyExc.show : PyExc → String
  | .valueError => "ValueError" | .zeroDivision => "ZeroDivisionError"
  | .indexError => "IndexError" | .typeError => "TypeError"

/-- what construction of an annotation can raise: only `SyntaxError`; `fuel` is the
    (provably unreachable, see `Proofs/Fuel.lean`) exhaustion of the recursion bound. -/
inductive ParseErr | syntax | fuel
  deriving DecidableEq, Repr, Inhabited

/-- Python dict with insertion order: association list, first match wins, new keys appended. -/
abbrev Scope := List (Name × Int)

def Scope.get? (σ : Scope) (k : Name) : Option Int :=
  match σ with
  | [] => none
  | (k', v) :: rest => if k' = k then some v else Scope.get? rest k

def Scope.has (σ : Scope) (k : Name) : Bool := (σ.get? k).isSome

/-- `d[k] = v` for a key that is absent (callers test absence first) or present (overwrite in place). -/
def Scope.set (σ : Scope) (k : Name) (v : Int) : Scope :=
  match σ with
  | [] => [(k, v)]
  | (k', v') :: rest => if k' = k then (k', v) :: rest else (k', v') :: Scope.set rest k v

def Scope.keys (σ : Scope) : List Name := σ.map Prod.fst

end Dltype
