import DltypeModel.Shape
/-!
# L5 Standalone check — `TensorTypeBase.check`.
-/
namespace Dltype

/-- a dtype as the model sees it: library and an index into that library's dtype list -/
structure DT where
  lib : Nat
  code : Nat
  deriving DecidableEq, Repr, Inhabited

structure Tensor where
  dt : DT
  shape : List Nat
  deriving DecidableEq, Repr, Inhabited

/-- error reports (the fields the messages carry) -/
inductive Report
  | ndims (tensor : Name) (expected : Int) (actual : Nat)
  | dtype (tensor : Name)
  | shape (tensor : Name) (idx : Nat) (expected : Int) (actual : Int)
  | invalidRef (tensor : Name) (missing : Name) (validRefs : List Name)
  | duplicate (tensor : Name)
  | unsupported
  | scopeProvider
  deriving DecidableEq, Repr, Inhabited

/-- dtype acceptance: `not DTYPES or tensor.dtype in DTYPES`, class id × dtype -/
abbrev Acc := Nat → DT → Bool

/-- `adjusted_idx`: index into the actual tensor of declared axis `idx` -/
def adjIdx (ann : Ann) (rank idx : Nat) : Nat :=
  match ann.multiIdx with
  | some mi => if idx > mi then idx + rank - ann.dims.length else idx
  | none => idx

/-- the literal-axis loop of `check` -/
def checkLiterals (tname : Name) (ann : Ann) (shape : List Nat) : List (Nat × Int) → Except Report Unit
  | [] => .ok ()
  | (idx, lit) :: rest =>
    let adj := adjIdx ann shape.length idx
    match shape[adj]? with
    | none => .ok ()     -- unreachable after the rank test (Python would raise IndexError)
    | some a =>
      if Int.ofNat a ≠ lit then .error (.shape tname adj lit (Int.ofNat a))
      else checkLiterals tname ann shape rest

/-- the rank test at the top of `check` -/
def rankCheck (ann : Ann) (shape : List Nat) (tname : Name) : Except Report Unit :=
  match ann.multiIdx with
  | some _ =>
    if shape.length < ann.dims.length - 1
    then .error (.ndims tname (Int.ofNat (ann.dims.length - 1)) shape.length) else .ok ()
  | none =>
    if shape.length ≠ ann.dims.length
    then .error (.ndims tname (Int.ofNat ann.dims.length) shape.length) else .ok ()

/-- `TensorTypeBase.check(tensor, tensor_name)` -/
def check (acc : Acc) (ann : Ann) (t : Tensor) (tname : Name) : Except Report Unit :=
  match rankCheck ann t.shape tname with
  | .error r => .error r
  | .ok () =>
    if !acc ann.cls t.dt then .error (.dtype tname)
    else checkLiterals tname ann t.shape ann.literalDims

end Dltype
