import DltypeModel.Context
/-!
# L7a Hints — `DLTypeAnnotation.from_hint`, `_resolve_types`, `_resolve_value`.
-/
namespace Dltype

/-- the shape of a type hint as `from_hint` sees it -/
inductive Hint
  /-- the hint `None` -/
  | none
  /-- not a Union / tuple / Annotated -/
  | plain
  /-- `Union[...]` / `X | Y` -/
  | union (alts : List Hint)
  /-- `tuple[...]` -/
  | tuple (elems : List Hint)
  /-- `Annotated[base, meta, ...]`: is the base a supported array type; the dltype annotation if `meta` is one -/
  | annotated (baseOk : Bool) (ann : Option Ann)
  deriving Repr, Inhabited

def Hint.isNone : Hint → Bool
  | .none => true
  | _ => false

/-- decoration-time failure -/
inductive DecorErr | typeError
  deriving DecidableEq, Repr

/-- what `from_hint` returns: the flattened annotations and whether they came from a `tuple[...]` hint
    (`_TupleHint`), i.e. whether the value is to be unpacked as a tuple -/
structure HintAnns where
  isTuple : Bool
  anns : List (Option Ann)
  deriving Repr, Inhabited

mutual
/-- `DLTypeAnnotation.from_hint(hint, name, optional=…)` : one entry per (flattened) position -/
def fromHint : Hint → Bool → Except DecorErr HintAnns
  | .none, _ => .ok ⟨false, [none]⟩
  | .plain, _ => .ok ⟨false, [none]⟩
  | .union alts, _ => unionGo alts 0 none
  | .tuple elems, _ => (fromHints elems).map (fun l => ⟨true, l⟩)
  | .annotated _ none, _ => .ok ⟨false, [none]⟩
  | .annotated baseOk (some a), optional =>
    if !baseOk then .error .typeError else .ok ⟨false, [some { a with optional := optional }]⟩
/-- `non_none_types = [t for t in args if t is not None]`; exactly one → recurse with `optional=True`,
    otherwise TypeError.  (Written as a traversal so that the recursion is structural.) -/
def unionGo : List Hint → Nat → Option (Except DecorErr HintAnns) → Except DecorErr HintAnns
  | [], 1, some r => r
  | [], _, _ => .error .typeError
  | h :: rest, n, acc =>
    if h.isNone then unionGo rest n acc else unionGo rest (n + 1) (some (fromHint h true))
/-- `itertools.chain(*[from_hint(inner) for inner in args])` -/
def fromHints : List Hint → Except DecorErr (List (Option Ann))
  | [] => .ok []
  | h :: hs =>
    match fromHint h false with
    | .error e => .error e
    | .ok xs =>
      match fromHints hs with
      | .error e => .error e
      | .ok ys => .ok (xs.anns ++ ys)
end

/-- `_resolve_types`: `None` when there is nothing to check -/
def resolveTypes (anns : List (Option Ann)) : Option (List (Option Ann)) :=
  if anns.all Option.isNone then none else some anns

end Dltype
