import DltypeModel.Eval
/-!
# Trusted statement of the CPython primitives that the operator bodies use.

`Generated/OpSemantics.lean` is the translator's rendering of `_DLTypeOperator.evaluate` /
`evaluate_unary` into these primitives (operand order preserved); `Properties/Tables.lean` proves
that rendering equal to the model's `evalBin` / `evalFn2` / `evalIsqrt`.
-/
namespace Dltype.Py

/-- result of evaluating a Python integer expression -/
abbrev R := EvalResult

def add (a b : Int) : R := .val (a + b)
def sub (a b : Int) : R := .val (a - b)
def mul (a b : Int) : R := .val (a * b)
/-- `a // b` -/
def floordiv (a b : Int) : R := if b = 0 then .pyExc .zeroDivision else .val (Int.fdiv a b)
/-- `a ** b` on ints: an int for `b ≥ 0`; a float (or ZeroDivisionError) otherwise — not modelled -/
def pow (a b : Int) : R := if b < 0 then .unmodelled else .val (a ^ b.toNat)
/-- `int(x)` of an int is the int -/
def int (x : R) : R := x
def min (a b : Int) : R := .val (if a ≤ b then a else b)
def max (a b : Int) : R := .val (if a ≥ b then a else b)
/-- `math.isqrt(a)` -/
def isqrt (a : Int) : R := if a < 0 then .pyExc .valueError else .val (Int.ofNat (Nat.sqrt a.toNat))

end Dltype.Py
