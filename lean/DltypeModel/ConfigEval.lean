import DltypeModel.Config
import DltypeModel.Generated.Selection
/-!
Evaluation of the rendered `DTYPES` expressions: the flat list of dtype objects a class carries in a
given environment (names prefixed by their library).
-/
namespace Dltype

def lookupS {α} (k : String) : List (String × α) → Option α
  | [] => none
  | (k', v) :: rest => if k' = k then some v else lookupS k rest

def moduleTable (m : String) : List (String × DtExpr) :=
  if m = "_numpy_tensors" then Gen.numpyDtypes
  else if m = "_torch_tensors" then Gen.torchDtypes
  else if m = "_universal_tensors" then Gen.universalDtypes
  else []

def libPrefix (m : String) : String :=
  if m = "_numpy_tensors" then "np." else if m = "_torch_tensors" then "torch." else "?."

mutual
/-- value of a `DTYPES` expression written in module `m`; `none` = raises -/
def evalDt (e : Env) (m : String) : Nat → DtExpr → Option (List String)
  | 0, _ => none
  | _ + 1, .dt n => some [libPrefix m ++ n]
  | fuel + 1, .ref m' c =>
    match lookupS c (moduleTable m') with
    | some x => evalDt e m' fuel x
    | none => none
  | fuel + 1, .alias c =>
    match lookupS c (moduleTable m) with
    | some x => evalDt e m fuel x
    | none => none
  | fuel + 1, .cat parts => evalDts e m fuel parts
  | fuel + 1, .ite c t f => if c.eval e then evalDt e m fuel t else evalDt e m fuel f
  | fuel + 1, .iteAvail _ t _ => evalDt e m fuel t      -- float128 / longdouble are available on this platform
  | _ + 1, .raise => none
def evalDts (e : Env) (m : String) : Nat → List DtExpr → Option (List String)
  | 0, _ => none
  | _ + 1, [] => some []
  | fuel + 1, x :: xs =>
    match evalDt e m fuel x, evalDts e m fuel xs with
    | some a, some b => some (a ++ b)
    | _, _ => none
end

/-- `Class.DTYPES` of class `c` of module `m` in environment `e` -/
def classDtypes (e : Env) (m c : String) : Option (List String) :=
  match lookupS c (moduleTable m) with
  | some x => evalDt e m 64 x
  | none => none

end Dltype
