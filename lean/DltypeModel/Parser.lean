import DltypeModel.Tokenizer
/-!
# L2 Dimension parser — `expression_from_string`, `_maybe_multiaxis`, `_get_group_indices`,
`_postfix_from_infix`, `_flush_op_by_precedence`, `DLTypeDimensionExpression.__init__`.
-/
namespace Dltype

def isAlpha (c : Char) : Bool := ('a' ≤ c && c ≤ 'z') || ('A' ≤ c && c ≤ 'Z')
def isIdentChar (c : Char) : Bool := isAlpha c || isDigit c || c = '_'

/-- `_VALID_IDENTIFIER_RX.match` -/
def isIdent (s : Name) : Bool :=
  match s with
  | [] => false
  | c :: cs => isAlpha c && cs.all isIdentChar

/-- `DLTypeDimensionExpression` (constructor arguments; the derived flags are functions) -/
structure DimExpr where
  identifier : Name
  post : List PItem
  isMultiaxisLiteral : Bool := false
  isAnonymous : Bool := false
  isNamedMultiaxis : Bool := false
  deriving DecidableEq, Repr, Inhabited

def PItem.isInt : PItem → Bool | .int _ => true | _ => false

def DimExpr.isLiteral (d : DimExpr) : Bool := !d.isMultiaxisLiteral && d.post.all PItem.isInt
def DimExpr.isIdentifier (d : DimExpr) : Bool :=
  d.isMultiaxisLiteral || d.isNamedMultiaxis || d.post == [.str d.identifier]
def DimExpr.isExpression (d : DimExpr) : Bool :=
  !(d.isIdentifier && d.isLiteral) && (decide (d.post.length > 1) || !d.post.contains (.str d.identifier))
/-- the constructor raises `SyntaxError` -/
def DimExpr.selfRef (d : DimExpr) : Bool := d.isExpression && d.post.contains (.str d.identifier)

/-- `DLTypeDimensionExpression(identifier, postfix)` for an ordinary expression -/
def mkDim (identifier : Name) (post : List PItem) : Except ParseErr DimExpr :=
  let d : DimExpr := { identifier, post }
  if d.selfRef then .error .syntax else .ok d

/-- `from_multiaxis_literal` -/
def mkMultiLiteral (identifier : Name) (size : Nat) (anon : Bool) : DimExpr :=
  { identifier, post := [.int size], isMultiaxisLiteral := true, isAnonymous := anon }

/-- the scanning loop of `_get_group_indices` (indices relative to the slice) -/
def groupGo : List Tok → Nat → Int → Option Nat → List Nat → Option Nat × List Nat × Option Nat
  | [], _, _, lp, cs => (lp, cs, none)
  | .lp :: rest, idx, depth, lp, cs =>
      groupGo rest (idx + 1) (depth + 1) (if depth + 1 = 1 then some idx else lp) cs
  | .comma :: rest, idx, depth, lp, cs =>
      groupGo rest (idx + 1) depth lp (if depth = 1 then cs ++ [idx] else cs)
  | .rp :: rest, idx, depth, lp, cs =>
      if depth = 1 then (lp, cs, some idx) else groupGo rest (idx + 1) (depth - 1) lp cs
  | _ :: rest, idx, depth, lp, cs => groupGo rest (idx + 1) depth lp cs

/-- `_get_group_indices` (none = SyntaxError) -/
def groupIndices (ts : List Tok) : Option (Nat × List Nat × Nat) :=
  match groupGo ts 0 0 none [] with
  | (some l, cs, some r) =>
    if l > r || cs.any (fun c => c < l || c > r) then none else some (l, cs, r)
  | _ => none

/-- `_flush_op_by_precedence` -/
def flush (p : Nat) : List Op → List PItem → List Op × List PItem
  | [], out => ([], out)
  | s :: st, out => if s.prec ≥ p then flush p st (out ++ [.op s]) else (s :: st, out)

/-- the argument slices `expression[lhs+1 : stop]` for the successive stops -/
def argSlices (ts : List Tok) : Nat → List Nat → List (List Tok)
  | _, [] => []
  | lhs, a :: more => ((ts.drop (lhs + 1)).take (a - (lhs + 1))) :: argSlices ts a more

/-- a recursive `_postfix_from_infix` call on an argument slice, given the loop for ordinary slices:
    empty → SyntaxError, the two `_maybe_multiaxis` shapes short-circuit. -/
def innerWith (rec : List Tok → Except ParseErr (List PItem)) (slice : List Tok) :
    Except ParseErr (List PItem) :=
  match slice with
  | [] => .error .syntax
  | [.str s] => if s = kwEllipsis then .ok [] else rec slice
  | [.bin .mul, .str n] => if isIdent n then .ok [.str n] else .error .syntax
  | _ => rec slice

def mapArgs (f : List Tok → Except ParseErr (List PItem)) : List (List Tok) → Except ParseErr (List PItem)
  | [] => .ok []
  | s :: more =>
    match f s with
    | .error e => .error e
    | .ok code =>
      match mapArgs f more with
      | .error e => .error e
      | .ok rest => .ok (code ++ rest)

def arityOk (pend : Option Fn) (nCommas : Nat) : Bool :=
  match pend with
  | some .isqrt => nCommas == 0
  | some _ => nCommas == 1
  | none => nCommas == 0

def pendPrec : Option Fn → Nat
  | some f => f.prec
  | none => lparenPrec

def pushPend : Option Fn → List Op → List Op
  | some f, st => .fn f :: st
  | none, st => st

/-- the `while` loop of `_postfix_from_infix`; `fuel` bounds loop iterations + recursion depth
    (`ts.length + 1` always suffices, `Proofs/Fuel.lean`). -/
def loop : Nat → List Tok → List Op → List PItem → Except ParseErr (List PItem)
  | 0, _, _, _ => .error .fuel
  | _ + 1, [], st, out => .ok (out ++ st.map PItem.op)
  | fuel + 1, t :: rest, st, out =>
    let group (pend : Option Fn) : Except ParseErr (List PItem) :=
      let (st', out') := flush (pendPrec pend) st out
      match groupIndices (t :: rest) with
      | none => .error .syntax
      | some (l, cs, r) =>
        if !arityOk pend cs.length then .error .syntax else
        match mapArgs (innerWith (fun s => loop fuel s [] [])) (argSlices (t :: rest) l (cs ++ [r])) with
        | .error e => .error e
        | .ok code => loop fuel ((t :: rest).drop (r + 1)) (pushPend pend st') (out' ++ code)
    match t with
    | .int n => loop fuel rest st (out ++ [.int n])
    | .bin o =>
      let (st', out') := flush o.prec st out
      loop fuel rest (.bin o :: st') out'
    | .fn f => group (some f)
    | .lp => group none
    | .str s => if isIdent s then loop fuel rest st (out ++ [.str s]) else .error .syntax
    | _ => .error .syntax

/-- `_postfix_from_infix(identifier, tokens)` at top level -/
def pfiTop (identifier : Name) (ts : List Tok) : Except ParseErr DimExpr :=
  match ts with
  | [] => .error .syntax
  | [.str s] =>
    if s = kwEllipsis then .ok { identifier, post := [], isAnonymous := true }
    else (loop (ts.length + 1) ts [] []).bind (mkDim identifier)
  | [.bin .mul, .str n] =>
    if isIdent n then .ok { identifier := n, post := [.str n], isNamedMultiaxis := true }
    else .error .syntax
  | _ => (loop (ts.length + 1) ts [] []).bind (mkDim identifier)

/-- split at the first `=` : `(identifier, expression)`; without `=` both are the whole string -/
def splitEq (s : List Char) : Name × List Char :=
  if s.contains '=' then (s.takeWhile (· ≠ '='), (s.dropWhile (· ≠ '=')).drop 1) else (s, s)

/-- `expression_from_string` -/
def parseDim (s : List Char) : Except ParseErr DimExpr :=
  if s.isEmpty then .error .syntax else
  let (identifier, expr) := splitEq s
  match tokenize expr with
  | .error e => .error e
  | .ok ts => pfiTop identifier ts

end Dltype
