import DltypeModel.Hints
/-!
# L7b Entry points — `dltyped`, `dltyped_namedtuple`, `dltyped_dataclass`, the pydantic validator.

The wrapped body is an opaque parameter (`BodyResult`); what the wrapper does with it is recorded in
a `CallTrace`, so "called exactly once, before/after the checks, result handed through" are
statements about the trace.  Signature binding (`inspect.Signature.bind/apply_defaults`) is not
modelled: the harness hands over the bound arguments.
-/
namespace Dltype

/-- what the wrapped function does when (if) it is called -/
inductive BodyResult
  | returns (v : Value)
  | raises
  deriving Repr, Inhabited

/-- the scope provider given to `dltyped` and what it yields at this call -/
inductive Provider
  | absent
  /-- `"self"` with the bound instance: its scope if it implements the protocol -/
  | self (scope : Option Scope)
  /-- an object: its scope if it implements the protocol -/
  | obj (scope : Option Scope)
  deriving Repr, Inhabited

/-- how a call through the wrapper ends -/
inductive CallEnd
  | returned (v : Value)          -- the very value the body returned
  | rejected (r : Report)         -- a DLTypeError
  | pyExc (e : PyExc)
  | bodyRaised                    -- the body's own exception, propagated unchanged
  | unmodelled
  deriving Repr, Inhabited

structure CallTrace where
  /-- number of times the wrapper invoked the body -/
  bodyCalls : Nat
  /-- the argument checks had all passed when the body was invoked -/
  argsCheckedBeforeBody : Bool
  result : CallEnd
  deriving Repr, Inhabited

/-- a decorated function: flattened annotations per hinted parameter in annotation order, the return hint -/
structure FuncDecl where
  params : List (Name × HintAnns)
  ret : Option HintAnns
  deriving Repr, Inhabited

def kwSelf : Name := ['s', 'e', 'l', 'f']
def kwCls : Name := ['c', 'l', 's']
def kwReturn : Name := ['r', 'e', 't', 'u', 'r', 'n']

inductive Decorated
  /-- the decorator returned the function itself (no dltype hint anywhere) -/
  | identity
  | wrapped (d : FuncDecl)
  | error (e : DecorErr)
  deriving Repr, Inhabited

def hintsOf : List (Name × Hint) → Except DecorErr (List (Name × HintAnns))
  | [] => .ok []
  | (n, h) :: rest =>
    match fromHint h false with
    | .error e => .error e
    | .ok a =>
      match hintsOf rest with
      | .error e => .error e
      | .ok r => .ok ((n, a) :: r)

/-- `dltyped(provider)(func)` for an enabled decorator: `selfProvider` = the string "self" was given,
    `isMethod` = the signature has a parameter called `self` or `cls` -/
def decorate (selfProvider isMethod : Bool) (params : List (Name × Hint)) (ret : Option Hint) : Decorated :=
  if selfProvider && !isMethod then .error .typeError else
  match hintsOf params with
  | .error e => .error e
  | .ok ps =>
    match (match ret with | none => Except.ok none | some h => (fromHint h false).map some) with
    | .error e => .error e
    | .ok r =>
      let all := ps.map Prod.snd ++ (match r with | some x => [x] | none => [])
      if all.all (fun h => h.anns.all Option.isNone) then .identity
      else .wrapped { params := ps, ret := r }

def lookupArg (args : List (Name × Value)) (n : Name) : Option Value :=
  match args with
  | [] => none
  | (k, v) :: rest => if k = n then some v else lookupArg rest n

/-- `_resolve_value` + `ctx.add` for one hinted name -/
def addHinted (name : Name) (v : Value) (h : HintAnns) : Outcome (List Entry) :=
  match resolveTypes h.anns with
  | none => .ok []
  | some as =>
    if h.isTuple then
      match v with
      | .tup vs => addGo name 0 as vs
      | .tensor _ => .unmodelled           -- iterating an array yields sub-arrays
      | _ => .pyExc .typeError             -- `zip(hints, 5)` / `zip(hints, None)`
    else addGo name 0 as [v]

/-- the `for name in dltype_hints` loop of the wrapper -/
def addParams (args : List (Name × Value)) : List (Name × HintAnns) → Outcome (List Entry)
  | [] => .ok []
  | (n, anns) :: rest =>
    if n = kwSelf || n = kwCls then .pyExc .typeError else
    if anns.anns.isEmpty then addParams args rest else
    match lookupArg args n with
    | none => .pyExc .typeError          -- unreachable: bound arguments contain every parameter
    | some v =>
      match addHinted n v anns with
      | .ok es =>
        match addParams args rest with
        | .ok es' => .ok (es ++ es')
        | r => r
      | r => r

def outcomeEnd {α} : Outcome α → CallEnd
  | .ok _ => .unmodelled
  | .reject r => .rejected r
  | .pyExc e => .pyExc e
  | .unmodelled => .unmodelled

/-- the mapping the provider yields for this call, or the provider error -/
def providerScope : Provider → Except CallEnd Scope
  | .absent => .ok []
  | .self (some σ) => .ok σ
  | .obj (some σ) => .ok σ
  | .self none => .error (.rejected .scopeProvider)
  | .obj none => .error (.rejected .scopeProvider)

/-- everything the wrapper does before it calls the body: add all hinted arguments, assert -/
def argsPhase (acc : Acc) (d : FuncDecl) (σ : Scope) (args : List (Name × Value)) : Outcome CState :=
  match addParams args d.params with
  | .ok es => runEntries acc { σ := σ } es
  | .reject r => .reject r
  | .pyExc e => .pyExc e
  | .unmodelled => .unmodelled

/-- `ctx.add("return", …)` -/
def addReturn (isTuple : Bool) (as : List (Option Ann)) (v : Value) : Outcome (List Entry) :=
  if isTuple then
    match v with
    | .tup vs => addGo kwReturn 0 as vs
    | .tensor _ => .unmodelled
    | _ => .pyExc .typeError
  else addGo kwReturn 0 as [v]

/-- what the wrapper does with the value the body returned, in the context left by the argument phase -/
def returnPhase (acc : Acc) (d : FuncDecl) (st : CState) (v : Value) : CallEnd :=
  match d.ret.bind (fun h => (resolveTypes h.anns).map (fun as => (h.isTuple, as))) with
  | none => .returned v
  | some (isTuple, as) =>
    match addReturn isTuple as v with
    | .ok es =>
      match runEntries acc st es with
      | .ok _ => .returned v
      | .reject r => .rejected r
      | .pyExc e => .pyExc e
      | .unmodelled => .unmodelled
    | .reject r => .rejected r
    | .pyExc e => .pyExc e
    | .unmodelled => .unmodelled

/-- one call through the wrapper of `dltyped` -/
def callWrapped (acc : Acc) (d : FuncDecl) (prov : Provider) (args : List (Name × Value))
    (body : BodyResult) : CallTrace :=
  match providerScope prov with
  | .error e => { bodyCalls := 0, argsCheckedBeforeBody := false, result := e }
  | .ok σ =>
    match argsPhase acc d σ args with
    | .ok st =>
      match body with
      | .raises => { bodyCalls := 1, argsCheckedBeforeBody := true, result := .bodyRaised }
      | .returns v => { bodyCalls := 1, argsCheckedBeforeBody := true, result := returnPhase acc d st v }
    | .reject r => { bodyCalls := 0, argsCheckedBeforeBody := false, result := .rejected r }
    | .pyExc e => { bodyCalls := 0, argsCheckedBeforeBody := false, result := .pyExc e }
    | .unmodelled => { bodyCalls := 0, argsCheckedBeforeBody := false, result := .unmodelled }

/-! ## classes: one batch context over the fields, in field order -/

/-- `validated_new` / `new_init`: the instance is built first (opaque), then all hinted fields are
    added to one fresh context and asserted -/
def constructBatch (acc : Acc) (fields : List (Name × HintAnns)) (vals : List (Name × Value)) :
    Outcome CState :=
  let rec addAll : List (Name × HintAnns) → Outcome (List Entry)
    | [] => .ok []
    | (n, anns) :: rest =>
      match lookupArg vals n with
      | none => .pyExc .typeError
      | some v =>
        match addHinted n v anns with
        | .ok es =>
          match addAll rest with
          | .ok es' => .ok (es ++ es')
          | r => r
        | r => r
  match addAll fields with
  | .ok es => runEntries acc {} es
  | .reject r => .reject r
  | .pyExc e => .pyExc e
  | .unmodelled => .unmodelled

/-- pydantic: one validator call per annotated field, in declaration order, on a context that lives
    in the validation's data map: `check`, `add`, `assert_context` -/
def pydanticField (acc : Acc) (st : CState) (name : Name) (ann : Ann) (t : Tensor) : Outcome CState :=
  match check acc ann t name with
  | .error r => .reject r
  | .ok () => runEntries acc st [{ argIndex := 0, name, tensor := t, ann }]

/-- `dltyped_namedtuple()(cls)` / `dltyped_dataclass()(cls)` for an enabled decorator applied to a NamedTuple / dataclass: every
    field hint is translated (an unsupported one is a TypeError at decoration); a NamedTuple without any hinted field is handed back
    untouched, a dataclass always gets the validating `__init__` -/
inductive ClassKind | namedTuple | dataclass
  deriving DecidableEq, Repr

def decorateClass (k : ClassKind) (fields : List (Name × Hint)) : Except DecorErr (Option (List (Name × HintAnns))) :=
  match hintsOf fields with
  | .error e => .error e
  | .ok fs => if k = .namedTuple && fs.isEmpty then .ok none else .ok (some fs)

/-- class-definition time of a pydantic model (`__get_pydantic_core_schema__`): a numpy array type that declares scalar types
    (`np.ndarray[Any, np.dtype[...]]`, `npt.NDArray[...]`) is refused when one of them is not accepted by the annotation's class -/
def classDefRejects (acc : Acc) (cls : Nat) (declared : List DT) : Bool :=
  declared.any (fun d => !acc cls d)

/-- a whole validation: fold over the annotated, non-None fields -/
def validateIncremental (acc : Acc) : CState → List (Name × Ann × Tensor) → Outcome CState
  | st, [] => .ok st
  | st, (n, a, t) :: rest =>
    match pydanticField acc st n a t with
    | .ok st' => validateIncremental acc st' rest
    | r => r

/-- `validate_assignment=True`: assigning to an annotated field re-runs that field's validator with the
    instance's current data, which still holds the context of the construction (all field names registered).
    KNOWN FINDING F13: a conforming assignment therefore ends in the duplicate-name error. -/
def pydanticAssign (acc : Acc) (st : CState) (name : Name) (ann : Ann) (t : Tensor) : Outcome CState :=
  pydanticField acc st name ann t

end Dltype
