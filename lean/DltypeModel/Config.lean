/-!
# L10 Configuration — the small languages the translator renders the source's selection logic into.
-/
namespace Dltype

/-- Boolean condition over the availability predicates `is_numpy_available()`, … -/
inductive Cond
  | np | torch | jax | tt
  | not (c : Cond)
  | and (a b : Cond)
  | or (a b : Cond)
  deriving Repr, DecidableEq, Inhabited

/-- an environment: which of numpy, torch, jax can be imported -/
structure Env where
  np : Bool
  torch : Bool
  jax : Bool
  deriving Repr, DecidableEq, Inhabited

def Cond.eval (e : Env) : Cond → Bool
  | .np => e.np | .torch => e.torch | .jax => e.jax | .tt => true
  | .not c => !c.eval e
  | .and a b => a.eval e && b.eval e
  | .or a b => a.eval e || b.eval e

def allEnvs : List Env :=
  [⟨false, false, false⟩, ⟨false, false, true⟩, ⟨false, true, false⟩, ⟨false, true, true⟩,
   ⟨true, false, false⟩, ⟨true, false, true⟩, ⟨true, true, false⟩, ⟨true, true, true⟩]

/-- first branch of an `if/elif/else` chain whose condition holds -/
def firstBranch {α} (e : Env) : List (Cond × α) → Option α
  | [] => none
  | (c, a) :: rest => if c.eval e then some a else firstBranch e rest

/-- `DTYPES = …` expressions -/
inductive DtExpr
  | dt (name : String)                      -- `np.float32`, `torch.half`
  | ref (module cls : String)               -- `Other.DTYPES`
  | cat (parts : List DtExpr)               -- `(*a, *b)`
  | ite (c : Cond) (t e : DtExpr)           -- `t if c else e`
  | iteAvail (test : String) (t e : DtExpr) -- `(np.float128,) if is_np_float128_available() else ()`
  | alias (cls : String)                    -- `Float16Tensor = IEEE754HalfFloatTensor`
  | raise
  deriving Repr, Inhabited

end Dltype
