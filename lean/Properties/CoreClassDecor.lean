import DltypeModel
import DltypeModel.Generated.ClassDecor
import Properties.C13
/-!
# The translator tie for the decoration-time parts of `dltyped_namedtuple` and `dltyped_dataclass`.

`Generated/ClassDecor.lean` is regenerated on every run (`harness/translate_core.py: gen_classdecor`) from the statements of
`_inner_dltyped_namedtuple` / `_inner_dltyped_dataclass` before they define the validating `__new__` / `__init__`: the disabled
(/ scripting) guard first, the "is it a NamedTuple / a dataclass" test, the translation of every field hint — with exactly the
arguments `from_hint(hint, field_name)`, a field table built per decorated class —, "no hinted field → the class itself" (NamedTuple
only), what is returned.
-/
namespace Dltype.CoreClassDecor
open Dltype

def toModel : Gen.ClassDecorated → Except DecorErr (Option (List (Name × HintAnns)))
  | .identity => .ok none
  | .wrapped fs => .ok (some fs)
  | .error e => .error e

/-- **the decoration-time part of `dltyped_namedtuple` in the source IS the model's `decorateClass`** -/
theorem ntDecorate_is_source (fields : List (Name × Hint)) :
    toModel (Gen.ntDecorate true true fields) = decorateClass .namedTuple fields := by
  unfold Gen.ntDecorate decorateClass
  simp only [Bool.not_true, Bool.false_eq_true, if_false]
  cases hintsOf fields with
  | error e => rfl
  | ok fs => cases h : fs.isEmpty <;> simp [h, toModel]

/-- **… and of `dltyped_dataclass`** -/
theorem dcDecorate_is_source (fields : List (Name × Hint)) :
    toModel (Gen.dcDecorate false true true fields) = decorateClass .dataclass fields := by
  unfold Gen.dcDecorate decorateClass
  simp only [Bool.false_or, Bool.not_true, Bool.false_eq_true, if_false]
  cases hintsOf fields with
  | error e => rfl
  | ok fs => simp [toModel]

/-- **C13 about the source**: disabled class decorators hand the class back whatever its fields are -/
theorem source_disabled_class_is_identity (isNT isDC scripting : Bool) (fields : List (Name × Hint)) :
    Gen.ntDecorate false isNT fields = .identity ∧ Gen.dcDecorate scripting false isDC fields = .identity ∧
    Gen.dcDecorate true true isDC fields = .identity := by
  refine ⟨rfl, ?_, rfl⟩
  cases scripting <;> rfl

/-- not a NamedTuple / not a dataclass: TypeError, before any hint is read -/
theorem source_wrong_kind_refused (fields : List (Name × Hint)) :
    Gen.ntDecorate true false fields = .error .typeError ∧ Gen.dcDecorate false true false fields = .error .typeError := ⟨rfl, rfl⟩

/-- non-vacuity: a general Union field is refused by both enabled decorators and passes both disabled ones -/
theorem example_class_decor :
    toModel (Gen.ntDecorate true true [(['x'], .union [.plain, .annotated true none])]) = .error .typeError ∧
    toModel (Gen.dcDecorate false true true [(['x'], .plain)]) = .ok (some [(['x'], ⟨false, [none]⟩)]) ∧
    toModel (Gen.ntDecorate true true []) = .ok none := ⟨rfl, rfl, rfl⟩

end Dltype.CoreClassDecor
