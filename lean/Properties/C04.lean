import DltypeModel
import Spec.Config
namespace Dltype.C04
open Dltype

/-- C04: every exported class accepts exactly the dtypes of its documented category, for every dtype
    object numpy(+ml_dtypes), torch and jax can construct (table re-observed from the real classes on
    every run); bfloat16 is claimed for torch arrays only. -/
theorem table_is_documented : Spec.tableOK = true := by decide +kernel

/-- `dtype in Class.DTYPES` and `Class[...].check` agree on every cell -/
theorem membership_is_check : Gen.memRows = Gen.accRows := by decide +kernel

def row (c : String) : List Bool :=
  match (Gen.classNames.zip Gen.accRows).find? (fun p => p.1 == c) with
  | some p => p.2
  | none => []

def subset (a b : List Bool) : Bool := (a.zip b).all (fun (x, y) => !x || y)
def union (a b : List Bool) : List Bool := (a.zip b).map (fun (x, y) => x || y)

/-- the documented superset relations between classes -/
theorem superset_relations :
    subset (row "Float16Tensor") (row "FloatTensor") = true ∧
    subset (row "IEEE754HalfFloatTensor") (row "Float16Tensor") = true ∧
    subset (row "BFloat16Tensor") (row "Float16Tensor") = true ∧
    subset (row "Float32Tensor") (row "FloatTensor") = true ∧
    subset (row "Float64Tensor") (row "FloatTensor") = true ∧
    row "DoubleTensor" = row "Float64Tensor" ∧
    union (row "SignedIntTensor") (row "UnsignedIntTensor") = row "IntTensor" ∧
    union (union (row "Int8Tensor") (row "Int16Tensor")) (union (row "Int32Tensor") (row "Int64Tensor")) = row "SignedIntTensor" ∧
    union (union (row "UInt8Tensor") (row "UInt16Tensor")) (union (row "UInt32Tensor") (row "UInt64Tensor")) = row "UnsignedIntTensor" ∧
    (row "TensorTypeBase").all id = true := by decide +kernel

/-- non-vacuity: the table has all 20 classes and covers all three libraries -/
theorem table_nonempty :
    Gen.classNames.length = 20 ∧ Gen.accRows.length = 20 ∧
    (Gen.dtypes.any (fun d => d.1 == 0) && Gen.dtypes.any (fun d => d.1 == 1) && Gen.dtypes.any (fun d => d.1 == 2)) = true ∧
    (Gen.dtypes.length ≥ 60) = true := by decide +kernel

end Dltype.C04
