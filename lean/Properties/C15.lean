import DltypeModel
import Spec.Config
namespace Dltype.C15
open Dltype

/-- two arrays the checker cannot tell apart: same shape, and every class treats their dtypes alike -/
def TensorEquiv (acc : Acc) (t t' : Tensor) : Prop := t.shape = t'.shape ∧ ∀ c, acc c t.dt = acc c t'.dt

def EntryEquiv (acc : Acc) (e e' : Entry) : Prop :=
  e.argIndex = e'.argIndex ∧ e.name = e'.name ∧ e.ann = e'.ann ∧ TensorEquiv acc e.tensor e'.tensor

theorem check_congr (acc : Acc) (a : Ann) (t t' : Tensor) (n : Name) (h : TensorEquiv acc t t') :
    check acc a t n = check acc a t' n := by
  obtain ⟨hs, hd⟩ := h
  unfold check
  rw [hs, hd a.cls]

theorem tensorStep_congr (acc : Acc) (st : CState) (e e' : Entry) (h : EntryEquiv acc e e') :
    tensorStep acc st e = tensorStep acc st e' := by
  obtain ⟨hi, hn, ha, ht⟩ := h
  have hdn : e.displayName = e'.displayName := by simp [Entry.displayName, hi, hn]
  have hs : e.tensor.shape = e'.tensor.shape := ht.1
  have hg : ∀ σ, groupLenStep e σ = groupLenStep e' σ := by
    intro σ; simp [groupLenStep, ha, hs, hdn]
  unfold tensorStep
  rw [check_congr acc e.ann e.tensor e'.tensor e.displayName ht, ha, hdn, hs]
  simp only [hg]

/-- element-wise relation of two entry lists -/
inductive ListEquiv (acc : Acc) : List Entry → List Entry → Prop
  | nil : ListEquiv acc [] []
  | cons {e e' es es'} : EntryEquiv acc e e' → ListEquiv acc es es' → ListEquiv acc (e :: es) (e' :: es')

/-- C15: replacing the arrays of a context by arrays of the same shapes whose dtypes every class treats
    alike (e.g. the same dtype category in another library) changes neither the verdict, nor the report,
    nor the bindings; bindings are shared across libraries because the map is keyed by names only. -/
theorem runEntries_congr (acc : Acc) (st : CState) (es es' : List Entry)
    (h : ListEquiv acc es es') : runEntries acc st es = runEntries acc st es' := by
  induction h generalizing st with
  | nil => rfl
  | cons hd _ ih =>
    simp only [runEntries, tensorStep_congr acc st _ _ hd]
    split <;> simp_all

def sharedCats : List String :=
  ["bool", "int8", "int16", "int32", "int64", "uint8", "uint16", "uint32", "uint64", "float16", "float32", "float64"]

/-- column `j` of the observed acceptance table -/
def column (j : Nat) : List Bool := Gen.accRows.map (fun r => r.getD j false)

/-- over the regenerated table: two dtypes of the same shared category (bool, 8–64-bit signed and
    unsigned integers, float16/32/64), from whichever libraries, are treated alike by every class -/
theorem shared_categories_library_independent :
    ((List.range Gen.dtypes.length).zip Gen.dtypes).all (fun (i, d) =>
      ((List.range Gen.dtypes.length).zip Gen.dtypes).all (fun (j, d') =>
        !(d.2.2 == d'.2.2 && sharedCats.contains (Gen.catNames.getD d.2.2 "other")) || column i == column j)) = true := by
  decide +kernel

/-- non-vacuity: each shared category occurs in all three libraries -/
theorem shared_categories_present :
    sharedCats.all (fun c => [0, 1, 2].all (fun lib =>
      Gen.dtypes.any (fun d => d.1 == lib && Gen.catNames.getD d.2.2 "other" == c))) = true := by
  decide +kernel

end Dltype.C15
