import DltypeModel
import Spec
namespace Dltype.C06
open Dltype

/-- KNOWN FINDING F6 (negation of the full statement "accept ⇒ grammatical", kernel-checked witnesses):
    strings outside the documented grammar that the (faithful) parser model accepts. -/
theorem full_statement_false :
    ((parseDim "a(b)+".toList).toOption.isSome ∧ (Spec.recogniseDim "a(b)+".toList).isNone) ∧
    ((parseDim "1=2".toList).toOption.isSome ∧ (Spec.recogniseDim "1=2".toList).isNone) ∧
    ((parseDim "a=a".toList).toOption.isSome ∧ (Spec.recogniseDim "a=a".toList).isNone) := by
  decide

end Dltype.C06
