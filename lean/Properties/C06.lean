import DltypeModel
import Spec
import Proofs.Fuel
import Proofs.RecogniserComplete
namespace Dltype.C06
open Dltype Dltype.Proofs

/-- KNOWN FINDING F6 (negation of the full statement "accept ⇒ grammatical", kernel-checked witnesses):
    strings outside the documented grammar that the (faithful) parser model accepts. -/
theorem full_statement_false :
    ((parseDim "a(b)+".toList).toOption.isSome ∧ (Spec.recogniseDim "a(b)+".toList).isNone) ∧
    ((parseDim "1=2".toList).toOption.isSome ∧ (Spec.recogniseDim "1=2".toList).isNone) ∧
    ((parseDim "a=a".toList).toOption.isSome ∧ (Spec.recogniseDim "a=a".toList).isNone) := by
  decide

/-- **C06_partial (1)** whatever the string, parsing one dimension raises nothing but SyntaxError: the
    recursion bound of the model (`fuel`) is never what stops it -/
theorem dimension_parser_raises_only_syntax_error (s : List Char) (e : ParseErr)
    (h : parseDim s = .error e) : e = .syntax := by
  match e, h with
  | .syntax, _ => rfl
  | .fuel, h =>
    exfalso
    unfold parseDim at h
    split at h
    · cases h
    · simp only at h
      cases ht : tokenize (splitEq s).2 with
      | error e' =>
        simp only [ht] at h
        injection h with h
        subst h
        unfold tokenize at ht
        cases hr : tokenizeRaw (splitEq s).2 with
        | error e'' =>
          simp only [hr] at ht
          injection ht with ht; subst ht
          -- the character loop only ever fails with SyntaxError
          have : ∀ (cs span : List Char), tokenizeAux cs span ≠ .error .fuel := by
            intro cs
            induction cs with
            | nil => intro span; simp [tokenizeAux]
            | cons c cs ih =>
              intro span
              simp only [tokenizeAux]
              split
              · simp
              · split
                · cases hh : tokenizeAux cs [] with
                  | error e3 => simp only [Except.map]; intro he; injection he with he; subst he; exact ih [] hh
                  | ok r => simp [Except.map]
                · exact ih _
          exact this _ _ hr
        | ok ts => simp only [hr] at ht; split at ht <;> cases ht
      | ok ts =>
        simp only [ht] at h
        unfold pfiTop at h
        have hloop : (loop (ts.length + 1) ts [] []).bind (mkDim (splitEq s).1) ≠ .error .fuel := by
          cases hl : loop (ts.length + 1) ts [] [] with
          | error e' =>
            simp only [Except.bind]
            intro he; injection he with he; subst he
            exact loop_no_fuel (ts.length + 1) ts [] [] (by omega) hl
          | ok p =>
            simp only [Except.bind, mkDim]
            split <;> simp
        split at h
        · cases h
        · split at h
          · cases h
          · exact hloop h
        · split at h <;> cases h
        · exact hloop h

/-- **C06_partial (2)** a space anywhere in the expression part of a dimension is a SyntaxError -/
theorem space_is_syntax_error (cs span : List Char) (h : ' ' ∈ cs) : tokenizeAux cs span = .error .syntax := by
  induction cs generalizing span with
  | nil => simp at h
  | cons c cs ih =>
    simp only [tokenizeAux]
    by_cases hc : c = ' '
    · simp [hc]
    · have hin : ' ' ∈ cs := by
        rcases List.mem_cons.mp h with h | h
        · exact absurd h.symm hc
        · exact h
      simp only [hc, if_false]
      split
      · rw [ih [] hin]; rfl
      · exact ih _ hin

/-- **C06_partial (3)** the empty string, a whitespace-only shape and a shape with two multi-axis markers
    are SyntaxErrors at construction -/
theorem empty_and_double_marker_rejected :
    (parseDim [] matches .error .syntax) = true ∧
    (parseShape (some []) matches .error (.parse .syntax)) = true ∧
    (parseShape (some "   ".toList) matches .error (.parse .syntax)) = true ∧
    (parseShape (some "... a ...".toList) matches .error (.parse .syntax)) = true ∧
    (parseShape (some "*x a *y".toList) matches .error (.parse .syntax)) = true ∧
    (parseShape (some "... *y".toList) matches .error (.parse .syntax)) = true := by decide

/-- more than one marker is refused whatever the other dimensions are -/
theorem two_markers_rejected (s : List Char) (dims : List DimExpr) (cls : Nat) (opt : Bool)
    (hs : (splitWs s []).isEmpty = false) (hd : parseDims (splitWs s []) = .ok dims)
    (hm : (markerIdxs dims 0).length > 1) : parseShape (some s) cls opt = .error (.parse .syntax) := by
  unfold parseShape
  simp [hs, hd, hm]

/-- the judge of the correspondence run is exact: the independent recogniser says "not an expression of the
    grammar" only for strings that no well-formed tree writes (completeness), and "expression" only for strings
    some well-formed tree writes (soundness) -/
theorem oracle_verdict_is_the_grammar (s : List Char) :
    (Spec.recogniseExpr s = none ↔ ¬ ∃ t : Spec.Tree, t.WF = true ∧ t.str = s) := by
  constructor
  · rintro h ⟨t, hwf, rfl⟩
    rw [recogniseExpr_complete t hwf] at h
    cases h
  · intro h
    cases hr : Spec.recogniseExpr s with
    | none => rfl
    | some t =>
      exfalso
      obtain ⟨a, b⟩ := recogniseExpr_sound s t hr
      exact h ⟨t, b, a⟩

end Dltype.C06
