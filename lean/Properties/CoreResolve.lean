import DltypeModel
import DltypeModel.Generated.Resolve
import Properties.Core
/-!
# The translator tie for `_resolve_types`, `_resolve_value` and the statement `ctx.add(name, _resolve_value(v, h), _resolve_types(h))`.

`Generated/Resolve.lean` is regenerated on every run (`harness/translate_core.py: gen_resolve`) from the bodies of the two helpers of
`_core.py`: the `None` / all-`None` test of `_resolve_types` (its order, the quantifier, what is returned in either case, the element
kept for every position) and the conditional of `_resolve_value` (the tuple-hint test, which side wraps).  The wrapper of `dltyped`,
`validated_new` and `new_init` contain the statement above verbatim (their translators pin its text and read it as the model's
`addHinted` / `addReturn`); the theorems below show that this reading is what the regenerated helpers compute.
-/
namespace Dltype.CoreResolve
open Dltype

theorem map_id_option (l : List (Option Ann)) :
    l.map (fun ann => (match ann with | some ann => some ann.dltypeAnnotation | none => none)) = l := by
  induction l with
  | nil => rfl
  | cons a l ih => cases a <;> simp [ih]

/-- **`_resolve_types` in the source IS the model's `resolveTypes`** (on a hint that is present) -/
theorem resolveTypes_is_source (anns : List (Option Ann)) :
    Gen.resolveTypes (some anns) = resolveTypes anns := by
  change (if (anns.all fun ann => ann.isNone) = true then none
    else some (anns.map (fun ann => (match ann with | some ann => some ann.dltypeAnnotation | none => none)))) = _
  rw [map_id_option]
  rfl

/-- `_resolve_types(None)` (a name without a hint, `dltype_hints.get(return_key)` of a function without a return hint) is `None` -/
theorem resolveTypes_none : Gen.resolveTypes none = none := rfl

/-- a result of `_resolve_types` has the length of its argument and keeps every position: nothing is dropped or reordered -/
theorem resolveTypes_keeps_positions (anns as : List (Option Ann)) (h : Gen.resolveTypes (some anns) = some as) : as = anns := by
  rw [resolveTypes_is_source] at h
  unfold resolveTypes at h
  split at h
  · cases h
  · exact (Option.some.inj h).symm

/-- `_resolve_types` answers `None` exactly when no position carries an annotation -/
theorem resolveTypes_none_iff (anns : List (Option Ann)) :
    Gen.resolveTypes (some anns) = none ↔ ∀ a ∈ anns, a = none := by
  rw [resolveTypes_is_source]
  unfold resolveTypes
  constructor
  · intro h a ha
    split at h
    · rename_i hall
      have := List.all_eq_true.mp hall a ha
      cases a <;> simp_all
    · cases h
  · intro h
    have : anns.all Option.isNone = true := List.all_eq_true.mpr (fun a ha => by rw [h a ha]; rfl)
    simp [this]

/-- **`_resolve_value` in the source**: a tuple hint hands the value over as it is (whatever its length), any other hint wraps it
    into a one-element tuple -/
theorem resolveValue_is_source (v : Value) :
    Gen.resolveValue v true = v ∧ Gen.resolveValue v false = .tup [v] := ⟨rfl, rfl⟩

/-- **the statement `ctx.add(name, _resolve_value(v, h), _resolve_types(h))` in the source IS the model's `addHinted`** -/
theorem addResolved_is_addHinted (name : Name) (v : Value) (h : HintAnns) :
    Gen.addResolved name v h = addHinted name v h := by
  unfold Gen.addResolved Gen.ctxAdd addHinted
  rw [resolveTypes_is_source]
  cases resolveTypes h.anns with
  | none => rfl
  | some as =>
    cases hT : h.isTuple
    · simp only [Gen.resolveValue, Bool.false_eq_true, if_false]; exact Core.addGo_is_source name 0 as [v]
    · simp only [Gen.resolveValue, if_true]
      cases v with
      | tup vs => exact Core.addGo_is_source name 0 as vs
      | none => rfl
      | tensor t => rfl
      | other => rfl

/-- **… and the return statement `ctx.add(return_key, _resolve_value(retval, hints[return_key]), maybe_return_annotation)` IS `addReturn`** -/
theorem ctxAdd_is_addReturn (isTuple : Bool) (as : List (Option Ann)) (v : Value) :
    Gen.ctxAdd kwReturn (Gen.resolveValue v isTuple) (some as) = addReturn isTuple as v := by
  unfold Gen.ctxAdd addReturn
  cases isTuple
  · simp only [Gen.resolveValue, Bool.false_eq_true, if_false]; exact Core.addGo_is_source kwReturn 0 as [v]
  · simp only [Gen.resolveValue, if_true]
    cases v with
    | tup vs => exact Core.addGo_is_source kwReturn 0 as vs
    | none => rfl
    | tensor t => rfl
    | other => rfl

/-- C11 about the source: under a tuple hint the elements are paired with the annotations by position from 0, under any other hint
    the value is the single element at position 0 — for every value, tuples included -/
theorem source_single_hint_never_unpacks (name : Name) (v : Value) (anns : List (Option Ann)) (as : List (Option Ann))
    (h : Gen.resolveTypes (some anns) = some as) :
    Gen.addResolved name v ⟨false, anns⟩ = addGo name 0 as [v] := by
  unfold Gen.addResolved Gen.ctxAdd
  simp only [h, Gen.resolveValue, Bool.false_eq_true, if_false]
  exact Core.addGo_is_source name 0 as [v]

example : Gen.resolveTypes (some [none, some {dims := []}]) = some [none, some {dims := []}] := by decide
example : Gen.resolveTypes (some [none, none]) = none := by decide
example : Gen.resolveValue (.tup [.other]) false = .tup [.tup [.other]] := rfl

end Dltype.CoreResolve
