import DltypeModel
namespace Dltype.C10
open Dltype

/-- C10a: `T | None` (in either order) yields T's annotation with `optional = true` -/
theorem optional_union (a : Ann) (opt : Bool) :
    fromHint (.union [.annotated true (some a), .none]) opt = .ok ⟨false, [some { a with optional := true }]⟩ ∧
    fromHint (.union [.none, .annotated true (some a)]) opt = .ok ⟨false, [some { a with optional := true }]⟩ := by
  constructor <;> simp [fromHint, unionGo, Hint.isNone]

/-- C10a: a union that offers a dltype tensor next to another non-None alternative is refused
    (TypeError at decoration), with or without None among the alternatives -/
theorem general_union_refused (h1 h2 : Hint) (rest : List Hint) (opt : Bool)
    (n1 : h1.isNone = false) (n2 : h2.isNone = false) (hr : ∀ h ∈ rest, h.isNone = true) :
    fromHint (.union (h1 :: h2 :: rest)) opt = .error .typeError := by
  have aux : ∀ (l : List Hint) (k : Nat) (acc : Option (Except DecorErr HintAnns)),
      (∀ h ∈ l, h.isNone = true) → k ≥ 2 → unionGo l k acc = .error .typeError := by
    intro l
    induction l with
    | nil =>
      intro k acc _ hk
      match k, acc with
      | 0, _ => omega
      | 1, _ => omega
      | k + 2, _ => simp [unionGo]
    | cons h t ih =>
      intro k acc hl hk
      have : h.isNone = true := hl h (by simp)
      simp only [unionGo, this, if_true]
      exact ih k acc (fun x hx => hl x (by simp [hx])) hk
  simp only [fromHint, unionGo, n1, n2]
  exact aux rest 2 _ hr (by omega)

/-- a plain hint without `| None` keeps `optional = false` -/
theorem plain_not_optional (a : Ann) :
    fromHint (.annotated true (some a)) false = .ok ⟨false, [some { a with optional := false }]⟩ := by
  simp [fromHint]

/-- C10b: `None` under an optional annotation contributes nothing and the remaining elements of the
    same tuple are still processed -/
theorem none_skipped (name : Name) (i : Nat) (a : Ann) (as : List (Option Ann)) (vs : List Value)
    (h : a.optional = true) :
    addGo name i (some a :: as) (.none :: vs) = addGo name (i + 1) as vs := by
  simp [addGo, h]

/-- C10b: `None` under a hint without `| None` is never accepted -/
theorem none_rejected (name : Name) (i : Nat) (a : Ann) (as : List (Option Ann)) (vs : List Value)
    (h : a.optional = false) :
    addGo name i (some a :: as) (.none :: vs) = .reject .unsupported := by
  simp [addGo, h]

/-- C10b: a value that is not None is queued exactly as under the plain hint (the flag plays no part) -/
theorem tensor_same_as_plain (name : Name) (i : Nat) (a : Ann) (t : Tensor) (as : List (Option Ann))
    (vs : List Value) (o : Bool) :
    addGo name i (some { a with optional := o } :: as) (.tensor t :: vs) =
      (match addGo name (i + 1) as vs with
       | .ok es => .ok ({ argIndex := i, name, tensor := t, ann := { a with optional := o } } :: es)
       | r => r) := by
  cases h : addGo name (i + 1) as vs <;> simp [addGo, h]

/-- the `optional` flag is not read by the checks themselves -/
theorem checkLiterals_ignores_optional (a : Ann) (o : Bool) (n : Name) (shape : List Nat) (l : List (Nat × Int)) :
    checkLiterals n { a with optional := o } shape l = checkLiterals n a shape l := by
  induction l with
  | nil => rfl
  | cons p ps ih =>
    obtain ⟨idx, lit⟩ := p
    simp only [checkLiterals]
    have hadj : adjIdx { a with optional := o } shape.length idx = adjIdx a shape.length idx := rfl
    rw [hadj]
    cases shape[adjIdx a shape.length idx]? with
    | none => rfl
    | some s => simp only [ih]

theorem check_ignores_optional (acc : Acc) (a : Ann) (o : Bool) (t : Tensor) (n : Name) :
    check acc { a with optional := o } t n = check acc a t n := by
  unfold check
  rw [checkLiterals_ignores_optional]
  rfl

/-- **None in place of a whole tuple whose hint carries annotations is never accepted**: `zip(annotations, None)` is a TypeError, for a
    parameter, a field and a return value alike (the hint `tuple[A, B]` has no `| None`; `from_hint` does not make the tuple itself
    optional under `Optional[tuple[...]]` either) -/
theorem none_for_tuple_hint_refused (name : Name) (anns : List (Option Ann)) (h : anns.all Option.isNone = false) :
    addHinted name .none ⟨true, anns⟩ = .pyExc .typeError ∧ addReturn true anns .none = .pyExc .typeError := by
  constructor
  · unfold addHinted resolveTypes
    simp [h]
  · rfl

end Dltype.C10
