import DltypeModel
import Properties.C02
import Properties.C13
namespace Dltype.C19
open Dltype

/-- what Lean carries for C19 (partial): under eager execution a conforming call through the wrapper hands
    the module's own result through unchanged (C02b), and while torch is scripting the decorator for
    functions returns the function itself (generated guard, C13).  The capture modes themselves are
    observed, not proved. -/
theorem eager_transparent (acc : Acc) (d : FuncDecl) (p : Provider) (args : List (Name × Value))
    (b : BodyResult) (v : Value) (h : (callWrapped acc d p args b).result = .returned v) :
    b = .returns v := (C02.returned_is_body_value acc d p args b v h).1

theorem scripting_returns_function_itself (en : Option Bool) (envDisable : Bool) :
    C13.returnsIdentity "dltyped" en envDisable true = true := by
  cases en with
  | none => cases envDisable <;> rfl
  | some b => cases b <;> cases envDisable <;> rfl

end Dltype.C19
