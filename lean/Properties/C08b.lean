import DltypeModel
namespace Dltype.C08b
open Dltype

/-- every error class of `_errors.py` derives directly from `DLTypeError`, which derives from `TypeError` -/
theorem error_classes_are_type_errors :
    (Gen.errorClasses.head? == some ("DLTypeError", ["TypeError", "ABC"])) = true ∧
    (Gen.errorClasses.drop 1).all (fun c => c.2 == ["DLTypeError"]) = true ∧
    Gen.errorClasses.map Prod.fst =
      ["DLTypeError", "DLTypeUnsupportedTensorTypeError", "DLTypeShapeError", "DLTypeNDimsError", "DLTypeDtypeError",
       "DLTypeDuplicateError", "DLTypeInvalidReferenceError", "DLTypeScopeProviderError"] := by decide

end Dltype.C08b
