import DltypeModel
namespace Dltype.C03
open Dltype

/-! Independent statement of what the standalone check demands. -/

/-- rank: equal to the number of declared axes, or at least the number of remaining axes with a marker -/
def rankOK (ann : Ann) (shape : List Nat) : Bool :=
  match ann.multiIdx with
  | some _ => decide (ann.dims.length - 1 ≤ shape.length)
  | none => decide (shape.length = ann.dims.length)

/-- alignment: axes left of the marker count from the front, axes right of it from the back -/
def align (ann : Ann) (rank idx : Nat) : Nat :=
  match ann.multiIdx with
  | some mi => if idx > mi then rank - (ann.dims.length - idx) else idx
  | none => idx

/-- the literal axes as recorded in an annotation produced by the shape parser -/
structure WFAnn (ann : Ann) : Prop where
  idx_lt : ∀ p ∈ ann.literalDims, p.1 < ann.dims.length
  not_marker : ∀ p ∈ ann.literalDims, ann.multiIdx ≠ some p.1
  marker_lt : ∀ mi, ann.multiIdx = some mi → mi < ann.dims.length

def literalOK (ann : Ann) (shape : List Nat) (p : Nat × Int) : Prop :=
  ∃ a, shape[align ann shape.length p.1]? = some a ∧ Int.ofNat a = p.2

theorem adj_eq_align (ann : Ann) (shape : List Nat) (idx : Nat) (hr : rankOK ann shape = true)
    (hi : idx < ann.dims.length) :
    adjIdx ann shape.length idx = align ann shape.length idx := by
  unfold align adjIdx
  unfold rankOK at hr
  cases hm : ann.multiIdx with
  | none => rfl
  | some mi =>
    simp only [hm] at hr ⊢
    have := of_decide_eq_true hr
    split <;> omega

theorem adj_in_range (ann : Ann) (shape : List Nat) (idx : Nat) (hr : rankOK ann shape = true)
    (hi : idx < ann.dims.length) (hn : ann.multiIdx ≠ some idx)
    (hm : ∀ mi, ann.multiIdx = some mi → mi < ann.dims.length) :
    align ann shape.length idx < shape.length := by
  unfold align
  unfold rankOK at hr
  cases hmi : ann.multiIdx with
  | none =>
    simp only [hmi] at hr ⊢
    have := of_decide_eq_true hr
    omega
  | some mi =>
    simp only [hmi] at hr ⊢
    have := of_decide_eq_true hr
    have h1 := hm mi hmi
    have : idx ≠ mi := fun h => hn (by rw [hmi, h])
    split <;> omega

/-- the literal loop succeeds exactly when every literal axis has its literal size at the aligned position -/
theorem checkLiterals_ok_iff (n : Name) (ann : Ann) (shape : List Nat) (l : List (Nat × Int))
    (hr : rankOK ann shape = true) (hi : ∀ p ∈ l, p.1 < ann.dims.length)
    (hn : ∀ p ∈ l, ann.multiIdx ≠ some p.1) (hm : ∀ mi, ann.multiIdx = some mi → mi < ann.dims.length) :
    checkLiterals n ann shape l = .ok () ↔ ∀ p ∈ l, literalOK ann shape p := by
  induction l with
  | nil => simp [checkLiterals]
  | cons p ps ih =>
    obtain ⟨idx, lit⟩ := p
    have hidx : idx < ann.dims.length := hi (idx, lit) (by simp)
    have hnm : ann.multiIdx ≠ some idx := hn (idx, lit) (by simp)
    have hadj := adj_eq_align ann shape idx hr hidx
    have hlt := adj_in_range ann shape idx hr hidx hnm hm
    have ih' := ih (fun q hq => hi q (by simp [hq])) (fun q hq => hn q (by simp [hq]))
    simp only [checkLiterals, hadj]
    have hget : shape[align ann shape.length idx]? = some shape[align ann shape.length idx] := by
      simp [hlt]
    rw [hget]
    simp only
    by_cases heq : Int.ofNat shape[align ann shape.length idx] = lit
    · simp only [heq, ne_eq, not_true_eq_false, if_false]
      rw [ih']
      constructor
      · intro h q hq
        rcases List.mem_cons.mp hq with rfl | hq'
        · exact ⟨_, hget, heq⟩
        · exact h q hq'
      · intro h q hq
        exact h q (List.mem_cons_of_mem _ hq)
    · simp only [ne_eq, heq, not_false_eq_true, if_true]
      constructor
      · intro h; cases h
      · intro h
        obtain ⟨a, ha, hal⟩ := h (idx, lit) (by simp)
        rw [hget] at ha
        cases ha
        exact absurd hal heq

theorem rankCheck_ok_iff (ann : Ann) (shape : List Nat) (n : Name) :
    rankCheck ann shape n = .ok () ↔ rankOK ann shape = true := by
  unfold rankCheck rankOK
  cases ann.multiIdx with
  | none => simp only; split <;> simp_all
  | some mi => simp only; split <;> simp_all <;> omega

/-- C03 (order of the errors): a rank mismatch is reported as the rank error, with the declared
    (minimum) rank and the actual rank, whatever the dtype and the sizes are -/
theorem rank_error_first (acc : Acc) (ann : Ann) (t : Tensor) (n : Name) (hr : rankOK ann t.shape = false) :
    check acc ann t n = .error (.ndims n
      (Int.ofNat (match ann.multiIdx with | some _ => ann.dims.length - 1 | none => ann.dims.length)) t.shape.length) := by
  unfold check rankCheck
  unfold rankOK at hr
  cases hm : ann.multiIdx with
  | none =>
    simp only [hm] at hr ⊢
    have : ¬ t.shape.length = ann.dims.length := by simpa using hr
    simp [this]
  | some mi =>
    simp only [hm] at hr ⊢
    have : ¬ ann.dims.length - 1 ≤ t.shape.length := by simpa using hr
    have : t.shape.length < ann.dims.length - 1 := by omega
    simp [this]

/-- with a fitting rank, a dtype outside the class is reported as the dtype error before any axis -/
theorem dtype_error_second (acc : Acc) (ann : Ann) (t : Tensor) (n : Name) (hr : rankOK ann t.shape = true)
    (ha : acc ann.cls t.dt = false) : check acc ann t n = .error (.dtype n) := by
  unfold check
  rw [(rankCheck_ok_iff ann t.shape n).mpr hr]
  simp [ha]

/-- C03 (accept side): a tensor passes the annotation's own check exactly when its rank fits, its dtype
    belongs to the class and every literal axis has the literal size at the aligned position. -/
theorem check_ok_iff (acc : Acc) (ann : Ann) (t : Tensor) (n : Name) (h : WFAnn ann) :
    check acc ann t n = .ok () ↔
      rankOK ann t.shape = true ∧ acc ann.cls t.dt = true ∧ ∀ p ∈ ann.literalDims, literalOK ann t.shape p := by
  by_cases hr : rankOK ann t.shape = true
  · unfold check
    rw [(rankCheck_ok_iff ann t.shape n).mpr hr]
    by_cases ha : acc ann.cls t.dt = true
    · simp only [ha, Bool.not_true, Bool.false_eq_true, if_false]
      rw [checkLiterals_ok_iff n ann t.shape ann.literalDims hr h.idx_lt h.not_marker h.marker_lt]
      simp [hr]
    · simp only [Bool.not_eq_true] at ha
      simp [ha]
  · have hf : rankOK ann t.shape = false := by simpa using hr
    rw [rank_error_first acc ann t n hf]
    simp [hf]

/-- a shape error names an axis index of the actual tensor, and its `actual` is the size found there,
    different from the expected literal -/
theorem shape_error_is_true (n : Name) (ann : Ann) (shape : List Nat) (l : List (Nat × Int))
    (i : Nat) (e a : Int) (h : checkLiterals n ann shape l = .error (.shape n i e a)) :
    ∃ s, shape[i]? = some s ∧ a = Int.ofNat s ∧ e ≠ a ∧ ∃ p ∈ l, p.2 = e := by
  induction l with
  | nil => simp [checkLiterals] at h
  | cons p ps ih =>
    obtain ⟨idx, lit⟩ := p
    simp only [checkLiterals] at h
    split at h
    · cases h
    · rename_i s hs
      split at h
      · rename_i hne
        injection h with h
        injection h with _ hi he ha
        subst hi he ha
        exact ⟨s, hs, rfl, fun h => hne h.symm, (idx, lit), by simp, rfl⟩
      · obtain ⟨s', h1, h2, h3, q, hq, hq2⟩ := ih h
        exact ⟨s', h1, h2, h3, q, List.mem_cons_of_mem _ hq, hq2⟩

end Dltype.C03
