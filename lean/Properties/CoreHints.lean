import DltypeModel
import DltypeModel.Generated.HintLoop
import Properties.C10
import Properties.C11
/-!
# The translator tie for `DLTypeAnnotation.from_hint`.

`Generated/HintLoop.lean` is regenerated on every run from `from_hint` (`harness/translate_core.py`): the order of its tests
(`hint is None`, Union, tuple, not Annotated, metadata, base type), what each branch returns or raises, the comparison on the
number of non-None alternatives of a Union and the `optional=` of its recursive call, the `_TupleHint` wrapper and the
`optional=` of the element calls of a tuple hint, the optional flag set on a *copy* of the shared annotation object.  It is
proved equal to the model `fromHint` (`DltypeModel/Hints.lean`) that the theorems of C10 and C11 are about.
-/
namespace Dltype.CoreHints
open Dltype

mutual
theorem fromHint_is_source : ∀ (h : Hint) (o : Bool), Gen.fromHint h o = fromHint h o
  | .none, _ => by simp [Gen.fromHint, fromHint]
  | .plain, _ => by simp [Gen.fromHint, fromHint]
  | .union alts, o => by
    simp only [Gen.fromHint, fromHint]
    exact unionGo_is_source alts 0 none none o (fun _ => ⟨rfl, rfl⟩) (fun _ => rfl) (fun h => by omega)
  | .tuple elems, o => by simp only [Gen.fromHint, fromHint, fromHints_is_source elems o]
  | .annotated _ none, _ => by simp [Gen.fromHint, fromHint]
  | .annotated baseOk (some a), o => by simp [Gen.fromHint, fromHint]
/-- the source remembers the FIRST non-None alternative, the model the LAST; they are only used when there is exactly one -/
theorem unionGo_is_source : ∀ (l : List Hint) (n : Nat) (accG accM : Option (Except DecorErr HintAnns)) (o : Bool),
    (n = 0 → accG = none ∧ accM = none) → (n = 1 → accG = accM) → (n ≥ 1 → accG.isSome = true ∧ accM.isSome = true) →
    Gen.unionGo l n accG o = unionGo l n accM
  | [], n, accG, accM, o, h0, h1, hs => by
    by_cases hn : n = 1
    · have he := h1 hn
      obtain ⟨hsG, _⟩ := hs (by omega)
      subst he
      cases accG with
      | none => simp at hsG
      | some r => simp [Gen.unionGo, unionGo, hn]
    · cases accM with
      | none => simp [Gen.unionGo, unionGo, hn]
      | some r =>
        match n with
        | 0 => simp [Gen.unionGo, unionGo]
        | 1 => exact absurd rfl hn
        | k + 2 => simp [Gen.unionGo, unionGo]
  | h :: rest, n, accG, accM, o, h0, h1, hs => by
    simp only [Gen.unionGo, unionGo]
    by_cases hh : h.isNone = true
    · simp only [hh, if_true]
      exact unionGo_is_source rest n accG accM o h0 h1 hs
    · simp only [hh, Bool.false_eq_true, if_false]
      apply unionGo_is_source rest (n + 1)
      · intro hc; omega
      · intro hc
        have hn0 : n = 0 := by omega
        obtain ⟨hg, _⟩ := h0 hn0
        subst hg
        simp only [fromHint_is_source h true]
      · intro _
        refine ⟨?_, rfl⟩
        cases accG <;> rfl
theorem fromHints_is_source : ∀ (l : List Hint) (o : Bool), Gen.fromHints l o = fromHints l
  | [], _ => by simp [Gen.fromHints, fromHints]
  | h :: hs, o => by
    simp only [Gen.fromHints, fromHints, fromHint_is_source h false, fromHints_is_source hs o]
    cases fromHint h false with
    | error e => rfl
    | ok xs => cases fromHints hs <;> rfl
end

/-- **C10 about the source**: `T | None` (either order) marks the annotation optional — on a copy —, a union with two non-None
    alternatives is refused with TypeError at decoration -/
theorem source_optional_union (a : Ann) (opt : Bool) :
    Gen.fromHint (.union [.annotated true (some a), .none]) opt = .ok ⟨false, [some { a with optional := true }]⟩ ∧
    Gen.fromHint (.union [.none, .annotated true (some a)]) opt = .ok ⟨false, [some { a with optional := true }]⟩ := by
  rw [fromHint_is_source, fromHint_is_source]
  exact C10.optional_union a opt

theorem source_general_union_refused (h1 h2 : Hint) (rest : List Hint) (opt : Bool)
    (n1 : h1.isNone = false) (n2 : h2.isNone = false) (hr : ∀ h ∈ rest, h.isNone = true) :
    Gen.fromHint (.union (h1 :: h2 :: rest)) opt = .error .typeError := by
  rw [fromHint_is_source]
  exact C10.general_union_refused h1 h2 rest opt n1 n2 hr

/-- **C11 about the source**: a `tuple[...]` hint of any length (one included) is marked as a tuple hint -/
theorem source_tuple_hint_is_tuple (elems : List Hint) (opt : Bool) (r : HintAnns)
    (h : Gen.fromHint (.tuple elems) opt = .ok r) : r.isTuple = true := by
  rw [fromHint_is_source] at h
  exact C11.tuple_hint_is_tuple elems opt r h

end Dltype.CoreHints
