import DltypeModel
import DltypeModel.Generated.Wrapper
import Properties.C02
import Properties.C07
/-!
# The translator tie for the wrapper of `dltyped`.

`Generated/Wrapper.lean` is regenerated on every run from the Python source of the inner function `wrapper` of
`dltyped` (`harness/translate_core.py`): the fallback for unresolvable hints must be `warn; return func(*args, **kwargs)`, the
provider chain, the loop over the resolved hints, and the `try` block — `ctx.assert_context()`, `retval = func(*args, **kwargs)`
(with exactly the caller's arguments), the return hint, the second `assert_context`, `return retval`.  It is proved equal to the
model `callWrapped` (`DltypeModel/Entry.lean`) that the trace theorems of C02, C07, C12 and C16 are about.
-/
namespace Dltype.CoreWrap
open Dltype

/-- what the bound arguments and the resolved hints of a real call satisfy -/
structure CallOK (d : FuncDecl) (args : List (Name × Value)) : Prop where
  /-- `return` is a keyword: no parameter has that name -/
  no_return : ∀ p ∈ d.params, p.1 ≠ kwReturn
  /-- the hints are a dict: parameter names are distinct -/
  nodup : (d.params.map Prod.fst).Nodup
  /-- `bound_args.arguments` (after `apply_defaults`) has every parameter -/
  bound : ∀ p ∈ d.params, lookupArg args p.1 ≠ none

theorem lookupHint_append_left (l r : List (Name × HintAnns)) (k : Name) (h : HintAnns)
    (hm : (k, h) ∈ l) (hn : (l.map Prod.fst).Nodup) : Gen.lookupHint (l ++ r) k = some h := by
  induction l with
  | nil => cases hm
  | cons x xs ih =>
    obtain ⟨k', h'⟩ := x
    simp only [List.map_cons, List.nodup_cons] at hn
    rcases List.mem_cons.mp hm with heq | hm'
    · cases heq; simp [Gen.lookupHint]
    · have hne : k' ≠ k := by
        intro e; subst e
        exact hn.1 (List.mem_map.mpr ⟨(k', h), hm', rfl⟩)
      simp only [List.cons_append, Gen.lookupHint, hne, if_false]
      exact ih hm' hn.2

theorem lookupHint_append_right (l r : List (Name × HintAnns)) (k : Name) (hk : ∀ p ∈ l, p.1 ≠ k) :
    Gen.lookupHint (l ++ r) k = Gen.lookupHint r k := by
  induction l with
  | nil => rfl
  | cons x xs ih =>
    obtain ⟨k', h'⟩ := x
    have : k' ≠ k := hk (k', h') (by simp)
    simp only [List.cons_append, Gen.lookupHint, this, if_false]
    exact ih (fun p hp => hk p (by simp [hp]))

theorem lookup_return (d : FuncDecl) (h : ∀ p ∈ d.params, p.1 ≠ kwReturn) :
    Gen.lookupHint (Gen.allHints d) kwReturn = d.ret := by
  unfold Gen.allHints Gen.retHints
  rw [lookupHint_append_right _ _ _ h]
  cases d.ret with
  | none => rfl
  | some r => simp [Gen.lookupHint]

/-- the loop over the hints, on a part of the parameter list -/
theorem hintLoop_params (hints : List (Name × HintAnns)) (args : List (Name × Value)) (ps tail : List (Name × HintAnns))
    (hl : ∀ p ∈ ps, Gen.lookupHint hints p.1 = some p.2) (hr : ∀ p ∈ ps, p.1 ≠ kwReturn)
    (hb : ∀ p ∈ ps, lookupArg args p.1 ≠ none) :
    Gen.hintLoop hints args (ps ++ tail) =
      (match addParams args ps with
       | .ok es => (match Gen.hintLoop hints args tail with | .ok es' => .ok (es ++ es') | r => r)
       | r => r) := by
  induction ps with
  | nil =>
    simp only [List.nil_append, addParams]
    cases Gen.hintLoop hints args tail <;> simp
  | cons p ps ih =>
    obtain ⟨n, h⟩ := p
    have ih' := ih (fun q hq => hl q (by simp [hq])) (fun q hq => hr q (by simp [hq])) (fun q hq => hb q (by simp [hq]))
    have hn : n ≠ kwReturn := hr (n, h) (by simp)
    have hlk : Gen.lookupHint hints n = some h := hl (n, h) (by simp)
    have hbd : lookupArg args n ≠ none := hb (n, h) (by simp)
    simp only [List.cons_append, Gen.hintLoop, Gen.hintStep, addParams, hn, decide_false, Bool.false_eq_true, if_false, hlk]
    by_cases hs : (n = kwSelf || n = kwCls) = true
    · have : (decide (n = kwSelf) || decide (n = kwCls)) = true := by simpa using hs
      simp [this, hs]
    · have hs' : (decide (n = kwSelf) || decide (n = kwCls)) = false := by simpa using hs
      simp only [hs', Bool.false_eq_true, if_false, hs]
      by_cases he : h.anns.isEmpty = true
      · simp only [he, Bool.not_true, Bool.false_eq_true, if_false, if_true, List.nil_append]
        rw [ih']
        cases addParams args ps with
        | ok es => cases Gen.hintLoop hints args tail <;> simp
        | reject r => rfl
        | pyExc e => rfl
        | unmodelled => rfl
      · simp only [he, Bool.not_false, if_true, Bool.false_eq_true, if_false]
        cases hla : lookupArg args n with
        | none => exact absurd hla hbd
        | some v =>
          simp only
          cases addHinted n v h with
          | ok es =>
            simp only
            rw [ih']
            cases addParams args ps with
            | ok es2 =>
              simp only
              cases Gen.hintLoop hints args tail with
              | ok es3 => simp [List.append_assoc]
              | reject r => rfl
              | pyExc e => rfl
              | unmodelled => rfl
            | reject r => rfl
            | pyExc e => rfl
            | unmodelled => rfl
          | reject r => rfl
          | pyExc e => rfl
          | unmodelled => rfl

theorem hintLoop_is_addParams (d : FuncDecl) (args : List (Name × Value)) (h : CallOK d args) :
    Gen.hintLoop (Gen.allHints d) args d.params = addParams args d.params := by
  have hl : ∀ p ∈ d.params, Gen.lookupHint (Gen.allHints d) p.1 = some p.2 := by
    intro p hp
    unfold Gen.allHints
    exact lookupHint_append_left _ _ p.1 p.2 (by simpa using hp) h.nodup
  have := hintLoop_params (Gen.allHints d) args d.params [] hl h.no_return h.bound
  rw [List.append_nil] at this
  rw [this]
  cases addParams args d.params <;> simp [Gen.hintLoop]

/-- the model's wrapper once the provider's mapping is known -/
def afterProvider (acc : Acc) (d : FuncDecl) (args : List (Name × Value)) (body : BodyResult) (σ : Scope) : CallTrace :=
  match argsPhase acc d σ args with
  | .ok st =>
    match body with
    | .raises => { bodyCalls := 1, argsCheckedBeforeBody := true, result := .bodyRaised }
    | .returns v => { bodyCalls := 1, argsCheckedBeforeBody := true, result := returnPhase acc d st v }
  | .reject r => { bodyCalls := 0, argsCheckedBeforeBody := false, result := .rejected r }
  | .pyExc e => { bodyCalls := 0, argsCheckedBeforeBody := false, result := .pyExc e }
  | .unmodelled => { bodyCalls := 0, argsCheckedBeforeBody := false, result := .unmodelled }

theorem callWrapped_eq (acc : Acc) (d : FuncDecl) (prov : Provider) (args : List (Name × Value)) (body : BodyResult) :
    callWrapped acc d prov args body =
      (match providerScope prov with
       | .error e => { bodyCalls := 0, argsCheckedBeforeBody := false, result := e }
       | .ok σ => afterProvider acc d args body σ) := by
  unfold callWrapped afterProvider
  cases providerScope prov with
  | error e => rfl
  | ok σ =>
    simp only
    cases argsPhase acc d σ args with
    | ok st => cases body <;> rfl
    | reject r => rfl
    | pyExc e => rfl
    | unmodelled => rfl

/-- **the wrapper of `dltyped` in the source IS the model's `callWrapped`**: provider resolution, every hinted argument queued in
    hint order, one `assert_context` BEFORE the wrapped function is called, the function called with exactly the caller's
    arguments, its value checked against the return hint in the same context and handed back unchanged -/
theorem wrapper_is_source (acc : Acc) (d : FuncDecl) (prov : Provider) (args : List (Name × Value)) (body : BodyResult)
    (h : CallOK d args) : Gen.wrapperCall acc d prov args body = callWrapped acc d prov args body := by
  have main : ∀ σ, Gen.wrapperMain acc d args body σ = afterProvider acc d args body σ := by
    intro σ
    unfold Gen.wrapperMain afterProvider argsPhase
    simp only [hintLoop_is_addParams d args h, lookup_return d h.no_return]
    cases addParams args d.params with
    | reject r => rfl
    | pyExc e => rfl
    | unmodelled => rfl
    | ok es =>
      simp only
      cases runEntries acc { σ := σ } es with
      | reject r => rfl
      | pyExc e => rfl
      | unmodelled => rfl
      | ok st =>
        simp only
        cases body with
        | raises => rfl
        | returns v =>
          simp only [returnPhase]
          cases d.ret.bind (fun h => (resolveTypes h.anns).map (fun as => (h.isTuple, as))) with
          | none => rfl
          | some p =>
            obtain ⟨isT, as⟩ := p
            simp only
            cases addReturn isT as v with
            | reject r => rfl
            | pyExc e => rfl
            | unmodelled => rfl
            | ok es2 =>
              simp only [List.nil_append]
              cases runEntries acc st es2 <;> rfl
  rw [callWrapped_eq]
  unfold Gen.wrapperCall
  cases prov with
  | absent => simp [Provider.isSelf, Provider.given, Provider.selfImplements, Provider.objImplements, providerScope, main]
  | self s =>
    cases s with
    | none => simp [Provider.isSelf, Provider.given, Provider.selfImplements, Provider.objImplements, providerScope]
    | some σ => simp [Provider.isSelf, Provider.selfImplements, Provider.selfScope, providerScope, main]
  | obj s =>
    cases s with
    | none => simp [Provider.isSelf, Provider.given, Provider.selfImplements, Provider.objImplements, providerScope]
    | some σ => simp [Provider.isSelf, Provider.given, Provider.objImplements, Provider.objScope, providerScope, main]

/-! ## trace theorems, restated about the regenerated wrapper -/

/-- **C02 about the source**: when a call through the regenerated wrapper returns `v`, the wrapped function returned `v`, it
    was invoked exactly once, and the argument checks had completed before -/
theorem source_returned_is_body_value (acc : Acc) (d : FuncDecl) (p : Provider) (args : List (Name × Value))
    (b : BodyResult) (v : Value) (hok : CallOK d args) (h : (Gen.wrapperCall acc d p args b).result = .returned v) :
    b = .returns v ∧ (Gen.wrapperCall acc d p args b).bodyCalls = 1 ∧
      (Gen.wrapperCall acc d p args b).argsCheckedBeforeBody = true := by
  rw [wrapper_is_source acc d p args b hok] at h ⊢
  exact C02.returned_is_body_value acc d p args b v h

/-- **C07 about the source**: when the argument phase does not pass, the regenerated wrapper never invokes the wrapped function -/
theorem source_args_rejected_no_body (acc : Acc) (d : FuncDecl) (p : Provider) (args : List (Name × Value))
    (b : BodyResult) (σ : Scope) (hok : CallOK d args) (hp : providerScope p = .ok σ)
    (h : ∀ st, argsPhase acc d σ args ≠ .ok st) : (Gen.wrapperCall acc d p args b).bodyCalls = 0 := by
  rw [wrapper_is_source acc d p args b hok]
  exact (C07.args_rejected_no_body acc d p args b σ hp h).1

/-- **C07 about the source**: when only the return value violates, the wrapped function ran exactly once, after the argument
    checks, and the error is raised instead of the value -/
theorem source_return_rejected_body_once (acc : Acc) (d : FuncDecl) (p : Provider) (args : List (Name × Value))
    (v : Value) (σ : Scope) (st : CState) (r : Report) (hok : CallOK d args) (hp : providerScope p = .ok σ)
    (ha : argsPhase acc d σ args = .ok st) (hr : returnPhase acc d st v = .rejected r) :
    (Gen.wrapperCall acc d p args (.returns v)).bodyCalls = 1 ∧
    (Gen.wrapperCall acc d p args (.returns v)).argsCheckedBeforeBody = true ∧
    (Gen.wrapperCall acc d p args (.returns v)).result = .rejected r := by
  rw [wrapper_is_source acc d p args _ hok]
  exact C07.return_rejected_body_once acc d p args v σ st r hp ha hr

/-- **C12 about the source**: the mapping the provider returns at this call is the initial binding table of this call's
    context (an object given to the decorator, or `"self"`), no provider means the empty table, and something that does not
    implement the protocol is refused before anything is checked or called -/
theorem source_provider_mapping_is_initial (acc : Acc) (d : FuncDecl) (σ : Scope) (args : List (Name × Value)) (b : BodyResult) :
    Gen.wrapperCall acc d (.obj (some σ)) args b = Gen.wrapperMain acc d args b σ ∧
    Gen.wrapperCall acc d (.self (some σ)) args b = Gen.wrapperMain acc d args b σ ∧
    Gen.wrapperCall acc d .absent args b = Gen.wrapperMain acc d args b [] ∧
    Gen.wrapperCall acc d (.obj none) args b = { bodyCalls := 0, argsCheckedBeforeBody := false, result := .rejected .scopeProvider } ∧
    Gen.wrapperCall acc d (.self none) args b = { bodyCalls := 0, argsCheckedBeforeBody := false, result := .rejected .scopeProvider } := by
  refine ⟨?_, ?_, ?_, ?_, ?_⟩ <;>
    simp [Gen.wrapperCall, Provider.isSelf, Provider.given, Provider.selfImplements, Provider.objImplements, Provider.selfScope,
      Provider.objScope]

/-- non-vacuity: a declaration and bound arguments that satisfy `CallOK` -/
theorem example_callOK :
    CallOK { params := [(['x'], { isTuple := false, anns := [none] })], ret := none } [(['x'], .other)] := by
  refine ⟨?_, ?_, ?_⟩
  · intro p hp; simp at hp; subst hp; decide
  · simp
  · intro p hp; simp at hp; subst hp; simp [lookupArg]

end Dltype.CoreWrap
