import Properties.CoreParseLoop
import Properties.CoreEval
import Properties.C05
import Properties.C06
/-!
# C05 about the source, end to end.

Every function on the path from a dimension string to its value is regenerated from the Python source on every run and proved
equal to the model: `expression_from_string`, `_tokenize_string_expr`, `_assert_token_list_valid`, `_postfix_from_infix`,
`_maybe_multiaxis`, `_get_group_indices`, `_flush_op_by_precedence`, the flags and the self-reference test of
`DLTypeDimensionExpression.__init__`, `DLTypeDimensionExpression.evaluate`, the operator bodies and tables.  Hence the theorems of
C05 hold of the regenerated functions themselves.
-/
namespace Dltype.CoreExpr
open Dltype Dltype.Spec

/-- **C05a about the source**: for EVERY well-formed tree of the documented grammar, the regenerated `expression_from_string`
    accepts the tree's string and compiles it to the tree's post-order, with the string itself as identifier -/
theorem source_grammar_accepted_and_compiled (t : Tree) (hwf : t.WF = true) :
    Gen.parseDimGen t.str = .ok { identifier := t.str, post := t.post } := by
  rw [CoreParse.parseDim_is_source]
  exact Proofs.parseDim_tree t hwf

/-- **C05 about the source, end to end**: parsing the string of a tree with the regenerated parser and evaluating the result with
    the regenerated evaluator under a scope gives a value exactly when the tree has an arithmetic value, and then that value -/
theorem source_string_evaluates_to_arithmetic_value (t : Tree) (hwf : t.WF = true) (σ : Scope) (v : Int) :
    (match Gen.parseDimGen t.str with
      | .ok d => some (Gen.evaluateDim d σ)
      | .error _ => none) = some (.val v) ↔ t.eval σ.get? = some v := by
  rw [CoreParse.parseDim_is_source]
  exact CoreEval.source_evaluates_to_arithmetic_value t hwf σ v

/-- **C06 (partial) about the source**: the regenerated dimension parser raises nothing but SyntaxError -/
theorem source_parser_raises_only_syntax_error (s : List Char) (e : ParseErr) (h : Gen.parseDimGen s = .error e) : e = .syntax := by
  rw [CoreParse.parseDim_is_source] at h
  exact C06.dimension_parser_raises_only_syntax_error s e h

end Dltype.CoreExpr
