import DltypeModel
import Spec
import Properties.C05
namespace Dltype.C18
open Dltype Dltype.Spec

/-- the printer folds literal-literal operands to the value Python computes -/
theorem fold_add (x y : Int) : (Sym.bin .add (.lit x) (.lit y)).print = .ok (intStr (x + y)) := rfl

def wSym : Sym := .bin .mul (.bin .add (.var ['a']) (.var ['b'])) (.var ['c'])
def wScope : Scope := [(['a'], 2), (['b'], 3), (['c'], 4)]

/-- KNOWN FINDING F12 (negation of the full statement, kernel-checked witness): `(a+b)*c` prints
    `a+b*c`, which the string grammar reads as `a+(b*c)`: 14 instead of Python's 20. -/
theorem full_statement_false :
    wSym.print = .ok ['a', '+', 'b', '*', 'c'] ∧
    evalString ['a', '+', 'b', '*', 'c'] wScope = some (.val 14) ∧
    wSym.pyEval wScope.get? = some 20 := by
  refine ⟨rfl, ?_, ?_⟩
  · decide
  · decide

/-- a literal that prints as a numeral which reads back as itself (true of every natural number; a
    decidable side condition, so that no lemma about decimal printing is needed) -/
def litOK (n : Int) : Bool :=
  decide (0 ≤ n) && !(intStr n).isEmpty && (intStr n).all isDigit && decide (Int.ofNat (digitsToNat (intStr n)) = n)

/-- the expression tree of the string grammar that a symbolic expression is printed as — defined exactly
    when no literal-literal operation is folded, every literal is a natural number and no operand is a
    constant / anonymous axis -/
def toTree : Sym → Option Tree
  | .lit n => if litOK n then some (.lit (intStr n)) else none
  | .var x => some (.var x)
  | .bad => none
  | .grp a => (toTree a).map .grp
  | .isqrt a => if a.litVal.isSome then none else (toTree a).map .isqrt
  | .fn2 f a b =>
    if (a.litVal.isSome && b.litVal.isSome) || f = .isqrt then none
    else match toTree a, toTree b with
      | some x, some y => some (.fn2 f x y)
      | _, _ => none
  | .bin o l r =>
    if l.litVal.isSome && r.litVal.isSome then none
    else match toTree l, toTree r with
      | some x, some y => some (.bin o x y)
      | _, _ => none

theorem str_bin_nofold (o : BinOp) (l r : Sym) (h : (l.litVal.isSome && r.litVal.isSome) = false) :
    (Sym.bin o l r).str = (do
      let sl ← l.str; let sr ← r.str
      pure (sl ++ [match o with | .add => '+' | .sub => '-' | .mul => '*' | .div => '/' | .exp => '^'] ++ sr)) := by
  cases hla : l.litVal with
  | none => simp only [Sym.str, hla]; cases o <;> rfl
  | some x =>
    cases hlb : r.litVal with
    | none => simp only [Sym.str, hla, hlb]; cases o <;> rfl
    | some y => simp [hla, hlb] at h

theorem str_fn2_nofold (f : Fn) (a b : Sym) (h : (a.litVal.isSome && b.litVal.isSome) = false) :
    (Sym.fn2 f a b).str = (do
      let sa ← a.str; let sb ← b.str
      pure ((match f with | .min => "min(" | .max => "max(" | .isqrt => "isqrt(").toList ++ sa ++ [','] ++ sb ++ [')'])) := by
  cases hla : a.litVal with
  | none => simp only [Sym.str, hla]; cases f <;> rfl
  | some x =>
    cases hlb : b.litVal with
    | none => simp only [Sym.str, hla, hlb]; cases f <;> rfl
    | some y => simp [hla, hlb] at h

theorem str_is_tree_string (s : Sym) (t : Tree) (h : toTree s = some t) : s.str = .ok t.str := by
  induction s generalizing t with
  | lit n =>
    simp only [toTree] at h
    split at h
    · cases h; rfl
    · cases h
  | var x => simp only [toTree] at h; cases h; rfl
  | bad => simp [toTree] at h
  | grp a ih =>
    simp only [toTree, Option.map_eq_some_iff] at h
    obtain ⟨ta, hta, rfl⟩ := h
    simp [Sym.str, ih ta hta, Tree.str, bind, Except.bind, pure, Except.pure]
  | isqrt a ih =>
    simp only [toTree] at h
    split at h
    · cases h
    · rename_i hl
      simp only [Option.map_eq_some_iff] at h
      obtain ⟨ta, hta, rfl⟩ := h
      have hlv : a.litVal = none := by simpa using hl
      simp [Sym.str, hlv, ih ta hta, Tree.str, kwIsqrt, bind, Except.bind, pure, Except.pure]
  | fn2 f a b iha ihb =>
    simp only [toTree] at h
    split at h
    · cases h
    · rename_i hc
      simp only [Bool.or_eq_true, Bool.and_eq_true, decide_eq_true_eq, not_or, not_and] at hc
      cases hta : toTree a with
      | none => simp [hta] at h
      | some ta =>
        cases htb : toTree b with
        | none => simp [hta, htb] at h
        | some tb =>
          simp only [hta, htb] at h
          cases h
          have hnl : (a.litVal.isSome && b.litVal.isSome) = false := by
            cases h1 : a.litVal.isSome <;> cases h2 : b.litVal.isSome <;> simp_all
          rw [str_fn2_nofold f a b hnl, iha ta hta, ihb tb htb]
          cases f with
          | isqrt => exact absurd rfl hc.2
          | min => simp [Tree.str, fnName, kwMin, bind, Except.bind, pure, Except.pure]
          | max => simp [Tree.str, fnName, kwMax, bind, Except.bind, pure, Except.pure]
  | bin o l r ihl ihr =>
    simp only [toTree] at h
    split at h
    · cases h
    · rename_i hc
      cases htl : toTree l with
      | none => simp [htl] at h
      | some tl =>
        cases htr : toTree r with
        | none => simp [htl, htr] at h
        | some tr =>
          simp only [htl, htr] at h
          cases h
          have hnl : (l.litVal.isSome && r.litVal.isSome) = false := by simpa using hc
          rw [str_bin_nofold o l r hnl, ihl tl htl, ihr tr htr]
          cases o <;> simp [Tree.str, binChar, bind, Except.bind, pure, Except.pure]

/-- an expression that is printed as a tree has no constant / anonymous operand -/
theorem toTree_noBad (s : Sym) (t : Tree) (h : toTree s = some t) : s.hasBad = false := by
  induction s generalizing t with
  | lit n => rfl
  | var x => rfl
  | bad => simp [toTree] at h
  | grp a ih =>
    simp only [toTree, Option.map_eq_some_iff] at h
    obtain ⟨ta, hta, _⟩ := h
    exact ih ta hta
  | isqrt a ih =>
    simp only [toTree] at h
    split at h
    · cases h
    · simp only [Option.map_eq_some_iff] at h
      obtain ⟨ta, hta, _⟩ := h
      exact ih ta hta
  | fn2 f a b iha ihb =>
    simp only [toTree] at h
    split at h
    · cases h
    · cases hta : toTree a with
      | none => simp [hta] at h
      | some ta =>
        cases htb : toTree b with
        | none => simp [hta, htb] at h
        | some tb => simp [Sym.hasBad, iha ta hta, ihb tb htb]
  | bin o l r ihl ihr =>
    simp only [toTree] at h
    split at h
    · cases h
    · cases htl : toTree l with
      | none => simp [htl] at h
      | some tl =>
        cases htr : toTree r with
        | none => simp [htl, htr] at h
        | some tr => simp [Sym.hasBad, ihl tl htl, ihr tr htr]

/-- where `toTree` is defined, the printer writes exactly the string of that tree … -/
theorem print_is_tree_string (s : Sym) (t : Tree) (h : toTree s = some t) : s.print = .ok t.str := by
  simp only [Sym.print, toTree_noBad s t h, Bool.false_eq_true, if_false]
  exact str_is_tree_string s t h

/-- … and that tree has the value Python's evaluation of the operator expression gives -/
theorem tree_value_is_python_value (s : Sym) (t : Tree) (h : toTree s = some t) (σ : Name → Option Int) :
    t.eval σ = s.pyEval σ := by
  induction s generalizing t with
  | lit n =>
    simp only [toTree] at h
    split at h
    · rename_i hok
      cases h
      simp only [litOK, Bool.and_eq_true, decide_eq_true_eq] at hok
      simp only [Tree.eval, Sym.pyEval]
      exact congrArg some hok.2
    · cases h
  | var x => simp only [toTree] at h; cases h; rfl
  | bad => simp [toTree] at h
  | grp a ih =>
    simp only [toTree, Option.map_eq_some_iff] at h
    obtain ⟨ta, hta, rfl⟩ := h
    simp [Tree.eval, Sym.pyEval, ih ta hta]
  | isqrt a ih =>
    simp only [toTree] at h
    split at h
    · cases h
    · simp only [Option.map_eq_some_iff] at h
      obtain ⟨ta, hta, rfl⟩ := h
      simp only [Tree.eval, Sym.pyEval, ih ta hta]
      cases Sym.pyEval σ a <;> rfl
  | fn2 f a b iha ihb =>
    simp only [toTree] at h
    split at h
    · cases h
    · cases hta : toTree a with
      | none => simp [hta] at h
      | some ta =>
        cases htb : toTree b with
        | none => simp [hta, htb] at h
        | some tb =>
          simp only [hta, htb] at h
          cases h
          simp only [Tree.eval, Sym.pyEval, iha ta hta, ihb tb htb]
          cases Sym.pyEval σ a <;> cases Sym.pyEval σ b <;> cases f <;> rfl
  | bin o l r ihl ihr =>
    simp only [toTree] at h
    split at h
    · cases h
    · cases htl : toTree l with
      | none => simp [htl] at h
      | some tl =>
        cases htr : toTree r with
        | none => simp [htl, htr] at h
        | some tr =>
          simp only [htl, htr] at h
          cases h
          simp only [Tree.eval, Sym.pyEval, ihl tl htl, ihr tr htr]
          cases Sym.pyEval σ l <;> cases Sym.pyEval σ r <;> cases o <;> rfl

/-- **C18_partial** for every symbolic expression that prints without folding and whose printed form needs
    no parentheses of its own (the tree it is printed as is well-formed: every infix operand binds at least
    as tightly on the left, strictly tighter on the right — e.g. flat chains, functions, explicit `Group`s),
    `TensorType[Shape[...]]` means what Python's evaluation of the operator expression means: the printed
    string evaluates, under every scope, to exactly Python's value. -/
theorem printed_string_means_python_value (s : Sym) (t : Tree) (h : toTree s = some t) (hwf : t.WF = true)
    (σ : Scope) (v : Int) :
    (∃ str, s.print = .ok str ∧ evalString str σ = some (.val v)) ↔ s.pyEval σ.get? = some v := by
  rw [← tree_value_is_python_value s t h σ.get?, ← C05.string_evaluates_to_arithmetic_value t hwf σ v]
  constructor
  · rintro ⟨str, hp, he⟩
    rw [print_is_tree_string s t h] at hp
    cases hp
    exact he
  · intro he
    exact ⟨t.str, print_is_tree_string s t h, he⟩

theorem bind_typeError {α} (x : Except PrintErr (List Char)) (f : List Char → Except PrintErr α)
    (h : (x >>= f) = .error .typeError) : x = .error .typeError ∨ ∃ v, x = .ok v ∧ f v = .error .typeError := by
  cases x with
  | error e => left; simpa [bind, Except.bind] using h
  | ok v => right; exact ⟨v, rfl, by simpa [bind, Except.bind] using h⟩

/-- printing itself never raises TypeError -/
theorem str_never_typeError (s : Sym) (hb : s.hasBad = false) (h : s.str = .error .typeError) : False := by
  induction s with
  | lit n => simp [Sym.str] at h
  | var x => simp [Sym.str] at h
  | bad => simp [Sym.hasBad] at hb
  | grp a ih =>
    simp only [Sym.hasBad] at hb
    simp only [Sym.str] at h
    rcases bind_typeError _ _ h with h1 | ⟨v, _, h2⟩
    · exact ih hb h1
    · simp [pure, Except.pure] at h2
  | isqrt a ih =>
    simp only [Sym.hasBad] at hb
    simp only [Sym.str] at h
    split at h
    · split at h <;> simp at h
    · rcases bind_typeError _ _ h with h1 | ⟨v, _, h2⟩
      · exact ih hb h1
      · simp [pure, Except.pure] at h2
  | fn2 f a b iha ihb =>
    simp only [Sym.hasBad, Bool.or_eq_false_iff] at hb
    simp only [Sym.str] at h
    split at h
    · cases f <;> simp at h
    · rcases bind_typeError _ _ h with h1 | ⟨v, _, h2⟩
      · exact iha hb.1 h1
      · rcases bind_typeError _ _ h2 with h3 | ⟨w, _, h4⟩
        · exact ihb hb.2 h3
        · simp [pure, Except.pure] at h4
  | bin o l r ihl ihr =>
    simp only [Sym.hasBad, Bool.or_eq_false_iff] at hb
    simp only [Sym.str] at h
    split at h
    · cases o <;> simp at h
      all_goals (split at h <;> simp at h)
    · rcases bind_typeError _ _ h with h1 | ⟨v, _, h2⟩
      · exact ihl hb.1 h1
      · rcases bind_typeError _ _ h2 with h3 | ⟨w, _, h4⟩
        · exact ihr hb.2 h3
        · simp [pure, Except.pure] at h4

/-- an operand position of an expression: the expression itself, or an operand position of one of its operands -/
inductive Operand (x : Sym) : Sym → Prop
  | here : Operand x x
  | grp {a} : Operand x a → Operand x (.grp a)
  | isqrt {a} : Operand x a → Operand x (.isqrt a)
  | fn2l {f a b} : Operand x a → Operand x (.fn2 f a b)
  | fn2r {f a b} : Operand x b → Operand x (.fn2 f a b)
  | binl {o l r} : Operand x l → Operand x (.bin o l r)
  | binr {o l r} : Operand x r → Operand x (.bin o l r)

theorem hasBad_iff (s : Sym) : s.hasBad = true ↔ Operand .bad s := by
  constructor
  · intro h
    induction s with
    | lit n => cases h
    | var x => cases h
    | bad => exact .here
    | grp a ih => exact .grp (ih h)
    | isqrt a ih => exact .isqrt (ih h)
    | fn2 f a b iha ihb =>
      simp only [Sym.hasBad, Bool.or_eq_true] at h
      rcases h with h | h
      · exact .fn2l (iha h)
      · exact .fn2r (ihb h)
    | bin o l r ihl ihr =>
      simp only [Sym.hasBad, Bool.or_eq_true] at h
      rcases h with h | h
      · exact .binl (ihl h)
      · exact .binr (ihr h)
  · intro h
    induction h with
    | here => rfl
    | grp _ ih => exact ih
    | isqrt _ ih => exact ih
    | fn2l _ ih => simp [Sym.hasBad, ih]
    | fn2r _ ih => simp [Sym.hasBad, ih]
    | binl _ ih => simp [Sym.hasBad, ih]
    | binr _ ih => simp [Sym.hasBad, ih]

/-- **C18, last clause**: arithmetic on a constant / anonymous axis is refused with TypeError — wherever the axis sits in the
    expression (either side, any depth, under `Group` / `ISqrt` / `Min` / `Max`), whatever else the expression contains
    (a division by a literal zero elsewhere does not get to raise first: nothing is printed before everything is built), and
    nothing else raises TypeError -/
theorem bad_operand_refused (s : Sym) : s.print = .error .typeError ↔ Operand .bad s := by
  rw [← hasBad_iff]
  constructor
  · intro h
    cases hb : s.hasBad with
    | true => rfl
    | false =>
      exfalso
      simp only [Sym.print, hb, Bool.false_eq_true, if_false] at h
      exact str_never_typeError s hb h
  · intro h
    simp [Sym.print, h]

/-- non-vacuity, and the order of the two failures: `(1 // 0) + ConstantAxis` is a TypeError, not a ZeroDivisionError -/
theorem example_bad_operand :
    (Sym.bin .add (.bin .div (.lit 1) (.lit 0)) .bad).print = .error .typeError ∧
    (Sym.bin .add (.bin .div (.lit 1) (.lit 0)) (.var ['a'])).print = .error .zeroDivision := ⟨rfl, rfl⟩

/-- non-vacuity: `a - b ** Group(4 - z)` is printed as a well-formed tree -/
theorem example_printable :
    (match toTree (.bin .sub (.var ['a']) (.bin .exp (.var ['b']) (.grp (.bin .sub (.lit 4) (.var ['z']))))) with
     | some t => t.WF
     | none => false) = true := by decide

end Dltype.C18
