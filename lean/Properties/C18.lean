import DltypeModel
import Spec
import Properties.C05
namespace Dltype.C18
open Dltype Dltype.Spec

/-- the printer folds literal-literal operands to the value Python computes -/
theorem fold_add (x y : Int) : (Sym.bin .add (.lit x) (.lit y)).print = .ok (intStr (x + y)) := rfl

def wSym : Sym := .bin .mul (.bin .add (.var ['a']) (.var ['b'])) (.var ['c'])
def wScope : Scope := [(['a'], 2), (['b'], 3), (['c'], 4)]

/-- KNOWN FINDING F12 (negation of the full statement, kernel-checked witness): `(a+b)*c` prints
    `a+b*c`, which the string grammar reads as `a+(b*c)`: 14 instead of Python's 20. -/
theorem full_statement_false :
    wSym.print = .ok ['a', '+', 'b', '*', 'c'] ∧
    evalString ['a', '+', 'b', '*', 'c'] wScope = some (.val 14) ∧
    wSym.pyEval wScope.get? = some 20 := by
  refine ⟨rfl, ?_, ?_⟩
  · decide
  · decide

/-- a literal that prints as a numeral which reads back as itself (true of every natural number; a
    decidable side condition, so that no lemma about decimal printing is needed) -/
def litOK (n : Int) : Bool :=
  decide (0 ≤ n) && !(intStr n).isEmpty && (intStr n).all isDigit && decide (Int.ofNat (digitsToNat (intStr n)) = n)

/-- the expression tree of the string grammar that a symbolic expression is printed as — defined exactly
    when no literal-literal operation is folded, every literal is a natural number and no operand is a
    constant / anonymous axis -/
def toTree : Sym → Option Tree
  | .lit n => if litOK n then some (.lit (intStr n)) else none
  | .var x => some (.var x)
  | .bad => none
  | .grp a => (toTree a).map .grp
  | .isqrt a => if a.litVal.isSome then none else (toTree a).map .isqrt
  | .fn2 f a b =>
    if (a.litVal.isSome && b.litVal.isSome) || f = .isqrt then none
    else match toTree a, toTree b with
      | some x, some y => some (.fn2 f x y)
      | _, _ => none
  | .bin o l r =>
    if l.litVal.isSome && r.litVal.isSome then none
    else match toTree l, toTree r with
      | some x, some y => some (.bin o x y)
      | _, _ => none

theorem print_bin_nofold (o : BinOp) (l r : Sym) (h : (l.litVal.isSome && r.litVal.isSome) = false) :
    (Sym.bin o l r).print = (do
      let sl ← l.print; let sr ← r.print
      pure (sl ++ [match o with | .add => '+' | .sub => '-' | .mul => '*' | .div => '/' | .exp => '^'] ++ sr)) := by
  cases hla : l.litVal with
  | none => simp only [Sym.print, hla]; cases o <;> rfl
  | some x =>
    cases hlb : r.litVal with
    | none => simp only [Sym.print, hla, hlb]; cases o <;> rfl
    | some y => simp [hla, hlb] at h

theorem print_fn2_nofold (f : Fn) (a b : Sym) (h : (a.litVal.isSome && b.litVal.isSome) = false) :
    (Sym.fn2 f a b).print = (do
      let sa ← a.print; let sb ← b.print
      pure ((match f with | .min => "min(" | .max => "max(" | .isqrt => "isqrt(").toList ++ sa ++ [','] ++ sb ++ [')'])) := by
  cases hla : a.litVal with
  | none => simp only [Sym.print, hla]; cases f <;> rfl
  | some x =>
    cases hlb : b.litVal with
    | none => simp only [Sym.print, hla, hlb]; cases f <;> rfl
    | some y => simp [hla, hlb] at h

/-- where `toTree` is defined, the printer writes exactly the string of that tree … -/
theorem print_is_tree_string (s : Sym) (t : Tree) (h : toTree s = some t) : s.print = .ok t.str := by
  induction s generalizing t with
  | lit n =>
    simp only [toTree] at h
    split at h
    · cases h; rfl
    · cases h
  | var x => simp only [toTree] at h; cases h; rfl
  | bad => simp [toTree] at h
  | grp a ih =>
    simp only [toTree, Option.map_eq_some_iff] at h
    obtain ⟨ta, hta, rfl⟩ := h
    simp [Sym.print, ih ta hta, Tree.str, bind, Except.bind, pure, Except.pure]
  | isqrt a ih =>
    simp only [toTree] at h
    split at h
    · cases h
    · rename_i hl
      simp only [Option.map_eq_some_iff] at h
      obtain ⟨ta, hta, rfl⟩ := h
      have hlv : a.litVal = none := by simpa using hl
      simp [Sym.print, hlv, ih ta hta, Tree.str, kwIsqrt, bind, Except.bind, pure, Except.pure]
  | fn2 f a b iha ihb =>
    simp only [toTree] at h
    split at h
    · cases h
    · rename_i hc
      simp only [Bool.or_eq_true, Bool.and_eq_true, decide_eq_true_eq, not_or, not_and] at hc
      cases hta : toTree a with
      | none => simp [hta] at h
      | some ta =>
        cases htb : toTree b with
        | none => simp [hta, htb] at h
        | some tb =>
          simp only [hta, htb] at h
          cases h
          have hnl : (a.litVal.isSome && b.litVal.isSome) = false := by
            cases h1 : a.litVal.isSome <;> cases h2 : b.litVal.isSome <;> simp_all
          rw [print_fn2_nofold f a b hnl, iha ta hta, ihb tb htb]
          cases f with
          | isqrt => exact absurd rfl hc.2
          | min => simp [Tree.str, fnName, kwMin, bind, Except.bind, pure, Except.pure]
          | max => simp [Tree.str, fnName, kwMax, bind, Except.bind, pure, Except.pure]
  | bin o l r ihl ihr =>
    simp only [toTree] at h
    split at h
    · cases h
    · rename_i hc
      cases htl : toTree l with
      | none => simp [htl] at h
      | some tl =>
        cases htr : toTree r with
        | none => simp [htl, htr] at h
        | some tr =>
          simp only [htl, htr] at h
          cases h
          have hnl : (l.litVal.isSome && r.litVal.isSome) = false := by simpa using hc
          rw [print_bin_nofold o l r hnl, ihl tl htl, ihr tr htr]
          cases o <;> simp [Tree.str, binChar, bind, Except.bind, pure, Except.pure]

/-- … and that tree has the value Python's evaluation of the operator expression gives -/
theorem tree_value_is_python_value (s : Sym) (t : Tree) (h : toTree s = some t) (σ : Name → Option Int) :
    t.eval σ = s.pyEval σ := by
  induction s generalizing t with
  | lit n =>
    simp only [toTree] at h
    split at h
    · rename_i hok
      cases h
      simp only [litOK, Bool.and_eq_true, decide_eq_true_eq] at hok
      simp only [Tree.eval, Sym.pyEval]
      exact congrArg some hok.2
    · cases h
  | var x => simp only [toTree] at h; cases h; rfl
  | bad => simp [toTree] at h
  | grp a ih =>
    simp only [toTree, Option.map_eq_some_iff] at h
    obtain ⟨ta, hta, rfl⟩ := h
    simp [Tree.eval, Sym.pyEval, ih ta hta]
  | isqrt a ih =>
    simp only [toTree] at h
    split at h
    · cases h
    · simp only [Option.map_eq_some_iff] at h
      obtain ⟨ta, hta, rfl⟩ := h
      simp only [Tree.eval, Sym.pyEval, ih ta hta]
      cases Sym.pyEval σ a <;> rfl
  | fn2 f a b iha ihb =>
    simp only [toTree] at h
    split at h
    · cases h
    · cases hta : toTree a with
      | none => simp [hta] at h
      | some ta =>
        cases htb : toTree b with
        | none => simp [hta, htb] at h
        | some tb =>
          simp only [hta, htb] at h
          cases h
          simp only [Tree.eval, Sym.pyEval, iha ta hta, ihb tb htb]
          cases Sym.pyEval σ a <;> cases Sym.pyEval σ b <;> cases f <;> rfl
  | bin o l r ihl ihr =>
    simp only [toTree] at h
    split at h
    · cases h
    · cases htl : toTree l with
      | none => simp [htl] at h
      | some tl =>
        cases htr : toTree r with
        | none => simp [htl, htr] at h
        | some tr =>
          simp only [htl, htr] at h
          cases h
          simp only [Tree.eval, Sym.pyEval, ihl tl htl, ihr tr htr]
          cases Sym.pyEval σ l <;> cases Sym.pyEval σ r <;> cases o <;> rfl

/-- **C18_partial** for every symbolic expression that prints without folding and whose printed form needs
    no parentheses of its own (the tree it is printed as is well-formed: every infix operand binds at least
    as tightly on the left, strictly tighter on the right — e.g. flat chains, functions, explicit `Group`s),
    `TensorType[Shape[...]]` means what Python's evaluation of the operator expression means: the printed
    string evaluates, under every scope, to exactly Python's value. -/
theorem printed_string_means_python_value (s : Sym) (t : Tree) (h : toTree s = some t) (hwf : t.WF = true)
    (σ : Scope) (v : Int) :
    (∃ str, s.print = .ok str ∧ evalString str σ = some (.val v)) ↔ s.pyEval σ.get? = some v := by
  rw [← tree_value_is_python_value s t h σ.get?, ← C05.string_evaluates_to_arithmetic_value t hwf σ v]
  constructor
  · rintro ⟨str, hp, he⟩
    rw [print_is_tree_string s t h] at hp
    cases hp
    exact he
  · intro he
    exact ⟨t.str, print_is_tree_string s t h, he⟩

/-- arithmetic on a constant / anonymous axis is refused -/
theorem bad_operand_refused (o : BinOp) (x : Sym) :
    (Sym.bin o x .bad).print = .error .typeError ∨ (∃ e, x.print = .error e) := by
  cases hx : x.print with
  | error e => exact Or.inr ⟨e, rfl⟩
  | ok sx =>
    left
    simp only [Sym.print]
    cases hl : x.litVal <;> simp [Sym.litVal, hx, bind, Except.bind]

/-- non-vacuity: `a - b ** Group(4 - z)` is printed as a well-formed tree -/
theorem example_printable :
    (match toTree (.bin .sub (.var ['a']) (.bin .exp (.var ['b']) (.grp (.bin .sub (.lit 4) (.var ['z']))))) with
     | some t => t.WF
     | none => false) = true := by decide

end Dltype.C18
