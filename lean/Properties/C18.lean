import DltypeModel
namespace Dltype.C18
open Dltype

/-- the printer folds literal-literal operands to the value Python computes -/
theorem fold_add (x y : Int) : (Sym.bin .add (.lit x) (.lit y)).print = .ok (intStr (x + y)) := rfl

def wSym : Sym := .bin .mul (.bin .add (.var ['a']) (.var ['b'])) (.var ['c'])
def wScope : Scope := [(['a'], 2), (['b'], 3), (['c'], 4)]

/-- KNOWN FINDING F12 (negation of the full statement, kernel-checked witness): `(a+b)*c` prints
    `a+b*c`, which the string grammar reads as `a+(b*c)`: 14 instead of Python's 20. -/
theorem full_statement_false :
    wSym.print = .ok ['a', '+', 'b', '*', 'c'] ∧
    evalString ['a', '+', 'b', '*', 'c'] wScope = some (.val 14) ∧
    wSym.pyEval wScope.get? = some 20 := by
  refine ⟨rfl, ?_, ?_⟩
  · decide
  · decide

end Dltype.C18
