import DltypeModel
import Properties.C02
namespace Dltype.C16
open Dltype

/-- an exception raised by the body propagates unchanged: the wrapper's result is `bodyRaised`
    exactly when the argument checks passed and the body raised -/
theorem body_exception_propagates (acc : Acc) (d : FuncDecl) (p : Provider) (args : List (Name × Value))
    (σ : Scope) (st : CState) (hp : providerScope p = .ok σ) (ha : argsPhase acc d σ args = .ok st) :
    (callWrapped acc d p args .raises).result = .bodyRaised ∧
    (callWrapped acc d p args .raises).bodyCalls = 1 := by
  unfold callWrapped
  simp [hp, ha]

/-- the wrapper never invents a `bodyRaised` result: it appears only if the body did raise -/
theorem bodyRaised_only_from_body (acc : Acc) (d : FuncDecl) (p : Provider) (args : List (Name × Value))
    (b : BodyResult) (h : (callWrapped acc d p args b).result = .bodyRaised) : b = .raises := by
  unfold callWrapped at h
  cases hp : providerScope p with
  | error e =>
    simp only [hp] at h
    cases p with
    | absent => simp [providerScope] at hp
    | self s => cases s <;> simp [providerScope] at hp <;> simp_all
    | obj s => cases s <;> simp [providerScope] at hp <;> simp_all
  | ok σ =>
    simp only [hp] at h
    cases ha : argsPhase acc d σ args with
    | ok st =>
      simp only [ha] at h
      cases b with
      | raises => rfl
      | returns w =>
        simp only at h
        unfold returnPhase at h
        repeat' split at h
        all_goals simp_all
    | reject r => simp [ha] at h
    | pyExc e => simp [ha] at h
    | unmodelled => simp [ha] at h

/-- the decorator returns the function itself when no hint carries a dltype annotation -/
theorem no_hints_identity (isMethod : Bool) (params : List (Name × Hint))
    (h : ∀ p ∈ params, p.2 = .plain) : decorate false isMethod params none = .identity := by
  unfold decorate
  have : hintsOf params = .ok (params.map fun p => (p.1, ⟨false, [none]⟩)) := by
    induction params with
    | nil => rfl
    | cons p ps ih =>
      obtain ⟨n, hh⟩ := p
      have hp : hh = .plain := h (n, hh) (by simp)
      subst hp
      have := ih (fun q hq => h q (by simp [hq]))
      simp [hintsOf, fromHint, this]
  simp [this]

/-! ## the order in which the caller WRITES its arguments does not matter

`signature.bind` hands the wrapper a mapping from parameter name to value; the model receives it as an association list.  Positional,
keyword, mixed, reversed-keyword calls of one function with the same values differ only in the order of that list (names are distinct). -/

/-- looking a name up does not depend on the order of an association list with distinct keys -/
theorem lookupArg_perm {l l' : List (Name × Value)} (hp : l.Perm l') (hn : (l.map Prod.fst).Nodup) (n : Name) :
    lookupArg l n = lookupArg l' n := by
  induction hp with
  | nil => rfl
  | cons x _ ih =>
    obtain ⟨k, v⟩ := x
    simp only [List.map_cons, List.nodup_cons] at hn
    simp only [lookupArg]
    split
    · rfl
    · exact ih hn.2
  | swap x y l =>
    obtain ⟨k₁, v₁⟩ := x
    obtain ⟨k₂, v₂⟩ := y
    simp only [List.map_cons, List.nodup_cons, List.mem_cons, not_or] at hn
    simp only [lookupArg]
    by_cases h1 : k₁ = n
    · by_cases h2 : k₂ = n
      · exact absurd (h2.trans h1.symm) hn.1.1
      · simp [h1, h2]
    · by_cases h2 : k₂ = n <;> simp [h1, h2]
  | trans h₁ _ ih₁ ih₂ =>
    have hn' := (List.Perm.map Prod.fst h₁).nodup_iff.mp hn
    exact (ih₁ hn).trans (ih₂ hn')

/-- the entries queued for the parameters depend on the bound arguments only through the value of each name -/
theorem addParams_perm {args args' : List (Name × Value)} (hp : args.Perm args') (hn : (args.map Prod.fst).Nodup)
    (ps : List (Name × HintAnns)) : addParams args ps = addParams args' ps := by
  induction ps with
  | nil => rfl
  | cons p ps ih =>
    obtain ⟨n, anns⟩ := p
    simp only [addParams, lookupArg_perm hp hn n, ih]

/-- **C16 / C14: the call style does not matter** — two calls of a decorated function whose bound arguments are the same set of
    (name, value) pairs, written in any order (positional, by keyword, keywords reversed), have the same trace: same verdict, same
    report, same number of executions of the body -/
theorem call_style_does_not_matter (acc : Acc) (d : FuncDecl) (p : Provider) {args args' : List (Name × Value)} (b : BodyResult)
    (hp : args.Perm args') (hn : (args.map Prod.fst).Nodup) :
    callWrapped acc d p args b = callWrapped acc d p args' b := by
  unfold callWrapped argsPhase
  rw [addParams_perm hp hn]

example : lookupArg [(['x'], .none), (['y'], .other)] ['y'] = lookupArg [(['y'], .other), (['x'], .none)] ['y'] := rfl

end Dltype.C16
