import DltypeModel
import Properties.C02
namespace Dltype.C16
open Dltype

/-- an exception raised by the body propagates unchanged: the wrapper's result is `bodyRaised`
    exactly when the argument checks passed and the body raised -/
theorem body_exception_propagates (acc : Acc) (d : FuncDecl) (p : Provider) (args : List (Name × Value))
    (σ : Scope) (st : CState) (hp : providerScope p = .ok σ) (ha : argsPhase acc d σ args = .ok st) :
    (callWrapped acc d p args .raises).result = .bodyRaised ∧
    (callWrapped acc d p args .raises).bodyCalls = 1 := by
  unfold callWrapped
  simp [hp, ha]

/-- the wrapper never invents a `bodyRaised` result: it appears only if the body did raise -/
theorem bodyRaised_only_from_body (acc : Acc) (d : FuncDecl) (p : Provider) (args : List (Name × Value))
    (b : BodyResult) (h : (callWrapped acc d p args b).result = .bodyRaised) : b = .raises := by
  unfold callWrapped at h
  cases hp : providerScope p with
  | error e =>
    simp only [hp] at h
    cases p with
    | absent => simp [providerScope] at hp
    | self s => cases s <;> simp [providerScope] at hp <;> simp_all
    | obj s => cases s <;> simp [providerScope] at hp <;> simp_all
  | ok σ =>
    simp only [hp] at h
    cases ha : argsPhase acc d σ args with
    | ok st =>
      simp only [ha] at h
      cases b with
      | raises => rfl
      | returns w =>
        simp only at h
        unfold returnPhase at h
        repeat' split at h
        all_goals simp_all
    | reject r => simp [ha] at h
    | pyExc e => simp [ha] at h
    | unmodelled => simp [ha] at h

/-- the decorator returns the function itself when no hint carries a dltype annotation -/
theorem no_hints_identity (isMethod : Bool) (params : List (Name × Hint))
    (h : ∀ p ∈ params, p.2 = .plain) : decorate false isMethod params none = .identity := by
  unfold decorate
  have : hintsOf params = .ok (params.map fun p => (p.1, ⟨false, [none]⟩)) := by
    induction params with
    | nil => rfl
    | cons p ps ih =>
      obtain ⟨n, hh⟩ := p
      have hp : hh = .plain := h (n, hh) (by simp)
      subst hp
      have := ih (fun q hq => h q (by simp [hq]))
      simp [hintsOf, fromHint, this]
  simp [this]

end Dltype.C16
