import Properties.C03
import Properties.C01
import Proofs.Shape
namespace Dltype.C03p
open Dltype Dltype.Spec Dltype.Proofs

/-- every annotation object built from a shape string (any class, optional or not) satisfies the
    well-formedness premises of the C03 and C01 theorems -/
theorem parsed_annotations_are_wellformed (shape : Option (List Char)) (cls : Nat) (opt : Bool) (ann : Ann)
    (h : parseShape shape cls opt = .ok ann) : C03.WFAnn ann ∧ MarkerInRange ann :=
  ⟨(parseShape_wf shape cls opt ann h).2, (parseShape_wf shape cls opt ann h).1⟩

/-- **C03** for every shape string: the annotation's own check accepts a tensor exactly when the rank fits,
    the dtype belongs to the class and every literal axis has its literal size at the aligned position -/
theorem check_ok_iff_parsed (acc : Acc) (shape : Option (List Char)) (cls : Nat) (opt : Bool) (ann : Ann)
    (h : parseShape shape cls opt = .ok ann) (t : Tensor) (n : Name) :
    check acc ann t n = .ok () ↔
      C03.rankOK ann t.shape = true ∧ acc ann.cls t.dt = true ∧ ∀ p ∈ ann.literalDims, C03.literalOK ann t.shape p :=
  C03.check_ok_iff acc ann t n (parseShape_wf shape cls opt ann h).2

/-- **C01** for annotations built from shape strings: an accepted context conforms to its final bindings -/
theorem accepted_conforms_parsed (acc : Acc) (σ₀ : Scope) (es : List Entry) (st' : CState)
    (hp : ∀ e ∈ es, ∃ shape cls opt, parseShape shape cls opt = .ok e.ann)
    (h : runEntries acc { σ := σ₀ } es = .ok st') :
    ScopeLe σ₀ st'.σ ∧ ∀ e ∈ es, EntryConforms acc st'.σ e :=
  C01.accepted_conforms acc σ₀ [] es st'
    (fun e he => by obtain ⟨s, c, o, hs⟩ := hp e he; exact (parseShape_wf s c o e.ann hs).1) h

end Dltype.C03p
