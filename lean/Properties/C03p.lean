import Properties.C03
import Properties.C01
import Proofs.Shape
import Properties.C05
namespace Dltype.C03p
open Dltype Dltype.Spec Dltype.Proofs

/-- every annotation object built from a shape string (any class, optional or not) satisfies the
    well-formedness premises of the C03 and C01 theorems -/
theorem parsed_annotations_are_wellformed (shape : Option (List Char)) (cls : Nat) (opt : Bool) (ann : Ann)
    (h : parseShape shape cls opt = .ok ann) : C03.WFAnn ann ∧ MarkerInRange ann :=
  ⟨(parseShape_wf shape cls opt ann h).2, (parseShape_wf shape cls opt ann h).1⟩

/-- **C03** for every shape string: the annotation's own check accepts a tensor exactly when the rank fits,
    the dtype belongs to the class and every literal axis has its literal size at the aligned position -/
theorem check_ok_iff_parsed (acc : Acc) (shape : Option (List Char)) (cls : Nat) (opt : Bool) (ann : Ann)
    (h : parseShape shape cls opt = .ok ann) (t : Tensor) (n : Name) :
    check acc ann t n = .ok () ↔
      C03.rankOK ann t.shape = true ∧ acc ann.cls t.dt = true ∧ ∀ p ∈ ann.literalDims, C03.literalOK ann t.shape p :=
  C03.check_ok_iff acc ann t n (parseShape_wf shape cls opt ann h).2

/-- **C01** for annotations built from shape strings: an accepted context conforms to its final bindings -/
theorem accepted_conforms_parsed (acc : Acc) (σ₀ : Scope) (es : List Entry) (st' : CState)
    (hp : ∀ e ∈ es, ∃ shape cls opt, parseShape shape cls opt = .ok e.ann)
    (h : runEntries acc { σ := σ₀ } es = .ok st') :
    ScopeLe σ₀ st'.σ ∧ ∀ e ∈ es, EntryConforms acc st'.σ e :=
  C01.accepted_conforms acc σ₀ [] es st'
    (fun e he => by obtain ⟨s, c, o, hs⟩ := hp e he; exact (parseShape_wf s c o e.ann hs).1) h

/-- **C01 in the terms of the documented grammar**: if a dimension string is read by the independent
    recogniser as the expression tree `t` (so the parser reads it as `t` too), is neither a plain name nor a bare
    literal, and the axis of size `a` it annotates conforms under the final bindings `σ` of an accepted
    context, then the ARITHMETIC VALUE of `t` under `σ` (precedence, left-to-right association, floor
    division, floor square root) is `a`. -/
theorem expression_axis_has_arithmetic_value (s : List Char) (t : Tree) (σ : Scope) (a : Nat)
    (hrec : recogniseExpr s = some t)
    (hni : ({ identifier := s, post := t.post } : DimExpr).isIdentifier = false)
    (hnl : ({ identifier := s, post := t.post } : DimExpr).isLiteral = false)
    (h : ∀ d, parseDim s = .ok d → DimConforms σ d a) : t.eval σ.get? = some (Int.ofNat a) := by
  obtain ⟨hs, hwf⟩ := C05.recogniser_is_sound s t hrec
  have hp := C05.parser_accepts_what_recogniser_accepts s t hrec
  have hc := h _ hp
  subst hs
  exact C05.checker_demands_tree_value t hwf σ a hni hnl hc

end Dltype.C03p
