import DltypeModel
namespace Dltype.C07
open Dltype

/-- C07a: when the argument phase does not accept (a rejection, or any exception of the checker), the body
    is never started and the caller gets exactly that error. -/
theorem args_rejected_no_body (acc : Acc) (d : FuncDecl) (p : Provider) (args : List (Name × Value))
    (b : BodyResult) (σ : Scope) (hp : providerScope p = .ok σ)
    (h : ∀ st, argsPhase acc d σ args ≠ .ok st) :
    (callWrapped acc d p args b).bodyCalls = 0 ∧
    (match argsPhase acc d σ args with
     | .reject r => (callWrapped acc d p args b).result = .rejected r
     | .pyExc e => (callWrapped acc d p args b).result = .pyExc e
     | .unmodelled => (callWrapped acc d p args b).result = .unmodelled
     | .ok _ => False) := by
  unfold callWrapped
  simp only [hp]
  cases ha : argsPhase acc d σ args with
  | ok st => exact absurd ha (h st)
  | reject r => simp
  | pyExc e => simp
  | unmodelled => simp

/-- C07b: when the arguments are accepted and only the return value is refused, the body has run exactly
    once, after the argument checks, and the caller gets the error instead of the value. -/
theorem return_rejected_body_once (acc : Acc) (d : FuncDecl) (p : Provider) (args : List (Name × Value))
    (v : Value) (σ : Scope) (st : CState) (r : Report) (hp : providerScope p = .ok σ)
    (ha : argsPhase acc d σ args = .ok st) (hr : returnPhase acc d st v = .rejected r) :
    (callWrapped acc d p args (.returns v)).bodyCalls = 1 ∧
    (callWrapped acc d p args (.returns v)).argsCheckedBeforeBody = true ∧
    (callWrapped acc d p args (.returns v)).result = .rejected r := by
  unfold callWrapped
  simp [hp, ha, hr]

/-- the return annotation plays no part in the argument phase -/
theorem return_hint_not_in_args_phase (acc : Acc) (d : FuncDecl) (r : Option HintAnns) (σ : Scope)
    (args : List (Name × Value)) :
    argsPhase acc { d with ret := r } σ args = argsPhase acc d σ args := rfl

/-- a failing provider is reported before anything else happens -/
theorem provider_error_first (acc : Acc) (d : FuncDecl) (args : List (Name × Value)) (b : BodyResult) :
    (callWrapped acc d (.obj none) args b).bodyCalls = 0 ∧
    (callWrapped acc d (.obj none) args b).result = .rejected .scopeProvider := by
  simp [callWrapped, providerScope]

/-- **a function whose only dltype hint is its return annotation is checked like any other**: when the parameters carry no hint the
    checker can use (plain types, or no parameters at all) but the return annotation does, the decorator hands back the checking
    wrapper — never the function itself -/
theorem return_only_is_wrapped (selfProvider isMethod : Bool) (params : List (Name × Hint)) (h : Hint) (ps : List (Name × HintAnns))
    (r : HintAnns) (hm : (selfProvider && !isMethod) = false) (hps : hintsOf params = .ok ps) (hr : fromHint h false = .ok r)
    (hsome : r.anns.all Option.isNone = false) :
    decorate selfProvider isMethod params (some h) = .wrapped { params := ps, ret := some r } := by
  unfold decorate
  simp only [hm, Bool.false_eq_true, if_false, hps, hr, Except.map]
  have : (List.map Prod.snd ps ++ [r]).all (fun h => h.anns.all Option.isNone) = false := by
    simp [List.all_append, hsome]
  simp [this]

/-- … and its result is then checked: with no parameter at all, a returned value that violates the return annotation is not handed to
    the caller (instance of `return_rejected_body_once` for the empty argument list) -/
example (acc : Acc) (r : HintAnns) (p : Provider) (v : Value) (σ : Scope) (hp : providerScope p = .ok σ) :
    (callWrapped acc { params := [], ret := some r } p [] (.returns v)).bodyCalls = 1 := by
  unfold callWrapped argsPhase
  simp [hp, addParams, runEntries]

end Dltype.C07
