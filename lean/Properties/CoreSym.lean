import DltypeModel
import DltypeModel.Generated.SymClasses
import Properties.C18
import Properties.CoreShape
/-!
# The translator tie for the symbolic classes (`_symbolic_expressions.py`) and `TensorTypeBase.__class_getitem__`.

`Generated/SymClasses.lean` is regenerated on every run (`harness/translate_core.py: gen_symbolic`): the class statements of the
module (who derives from `OperableAxis`), the test of `_assert_operand`, the constructors of the operation classes (which operands
they check, in which order; what they store — the operand itself or `LiteralAxis(operand)`), every `__str__` (the test for
literal folding, the folded arithmetic, the pieces of the f-string and their order), `ComputedAxis.__str__`, the operator methods
of `OperableAxis` with `__resolve_expr_sides`, `str()` of `ConstantAxis` / `AnonymousAxis` / `Shape`, and the argument that
`TensorTypeBase.__class_getitem__` hands to the constructor.  Here they are proved equal to the hand-written model of
`DltypeModel/Symbolic.lean` that the theorems of C18 are about.
-/
namespace Dltype.CoreSym
open Dltype Dltype.Spec

/-- there is no two-argument `isqrt` class: such a node stands for no Python object -/
def proper : Sym → Bool
  | .lit _ => true
  | .var _ => true
  | .bad => true
  | .grp a => proper a
  | .isqrt a => proper a
  | .fn2 f a b => f != .isqrt && proper a && proper b
  | .bin _ l r => proper l && proper r

/-! ## the class table -/

/-- who may take part in axis arithmetic: every operable class and `int`; not `ConstantAxis`, `AnonymousAxis`, `Shape` -/
theorem operand_classes :
    (["int", "LiteralAxis", "VariableAxis", "ComputedAxis", "NamedComputedAxis", "Group", "ISqrt", "Add", "Subtract", "Multiply",
      "Divide", "Exp", "Min", "Max"].all Gen.okClass = true) ∧
    (["ConstantAxis", "AnonymousAxis", "Shape", "str", "NoneType"].all (fun c => !Gen.okClass c) = true) := by
  constructor <;> decide

theorem assertOperand_is_source (s : Sym) (hp : proper s = true) :
    Gen.assertOperand s = if s = .bad then .error .typeError else .ok () := by
  cases s with
  | lit n => rfl
  | var x => rfl
  | bad => rfl
  | grp a => rfl
  | isqrt a => rfl
  | fn2 f a b => cases f <;> first | rfl | (simp [proper] at hp)
  | bin o l r => cases o <;> rfl

/-- the test for literal folding, on what the constructor stored (an operand that passed the operand check) -/
theorem storedIs_literal (s : Sym) (hb : s ≠ .bad) (hp : proper s = true) :
    Gen.storedIs Gen.storedUnary_axis s "LiteralAxis" = s.litVal.isSome ∧
    Gen.storedIs Gen.storedBinary_lhs s "LiteralAxis" = s.litVal.isSome ∧
    Gen.storedIs Gen.storedBinary_rhs s "LiteralAxis" = s.litVal.isSome := by
  cases s with
  | lit n => exact ⟨rfl, rfl, rfl⟩
  | var x => exact ⟨rfl, rfl, rfl⟩
  | bad => exact absurd rfl hb
  | grp a => exact ⟨rfl, rfl, rfl⟩
  | isqrt a => exact ⟨rfl, rfl, rfl⟩
  | fn2 f a b => cases f <;> first | exact ⟨rfl, rfl, rfl⟩ | (simp [proper] at hp)
  | bin o l r => cases o <;> exact ⟨rfl, rfl, rfl⟩

/-- `ComputedAxis` prints its computation and nothing else -/
theorem computedStr_id (x : Except PrintErr (List Char)) : Gen.computedStr x = x := by
  cases x <;> rfl

theorem litVal_some {s : Sym} {x : Int} (h : s.litVal = some x) : s = .lit x := by
  cases s <;> simp [Sym.litVal] at h
  subst h; rfl

theorem hasBad_false_ne {s : Sym} (h : s.hasBad = false) : s ≠ .bad := by
  intro e; subst e; simp [Sym.hasBad] at h

/-! ## `__str__` -/

/-- **every `__str__` of the source IS the model's printer** (on expressions whose construction succeeded) -/
theorem symStr_is_source (s : Sym) (hp : proper s = true) (hb : s.hasBad = false) : Gen.symStr s = s.str := by
  induction s with
  | lit n => rfl
  | var x => rfl
  | bad => rfl
  | grp a ih =>
    simp only [proper] at hp
    simp only [Sym.hasBad] at hb
    simp only [Gen.symStr, Sym.str, ih hp hb]
    cases a.str <;> rfl
  | isqrt a ih =>
    simp only [proper] at hp
    simp only [Sym.hasBad] at hb
    simp only [Gen.symStr, Sym.str, (storedIs_literal a (hasBad_false_ne hb) hp).1]
    cases hl : a.litVal with
    | some n =>
      have := litVal_some hl; subst this
      simp only [Option.isSome_some, if_true, Gen.valueOf, Py.isqrt]
      by_cases hn : n < 0 <;> simp [hn, Gen.fmtR, bind, Except.bind, pure, Except.pure]
    | none =>
      simp only [Option.isSome_none, Bool.false_eq_true, if_false, ih hp hb]
      cases a.str <;> rfl
  | fn2 f a b iha ihb =>
    simp only [proper, Bool.and_eq_true] at hp
    simp only [Sym.hasBad, Bool.or_eq_false_iff] at hb
    have hl := (storedIs_literal a (hasBad_false_ne hb.1) hp.1.2).2.1
    have hr := (storedIs_literal b (hasBad_false_ne hb.2) hp.2).2.2
    cases hlv : a.litVal with
    | some x =>
      cases hrv : b.litVal with
      | some y =>
        have := litVal_some hlv; subst this
        have := litVal_some hrv; subst this
        cases f
        · rfl
        · rfl
        · simp at hp
      | none =>
        rw [C18.str_fn2_nofold f a b (by simp [hrv])]
        cases f
        · simp only [Gen.symStr, hl, hr, hlv, hrv, Option.isSome_none, Bool.and_false, Bool.false_eq_true, if_false, iha hp.1.2 hb.1, ihb hp.2 hb.2]
          cases a.str <;> cases b.str <;> rfl
        · simp only [Gen.symStr, hl, hr, hlv, hrv, Option.isSome_none, Bool.and_false, Bool.false_eq_true, if_false, iha hp.1.2 hb.1, ihb hp.2 hb.2]
          cases a.str <;> cases b.str <;> rfl
        · simp at hp
    | none =>
      rw [C18.str_fn2_nofold f a b (by simp [hlv])]
      cases f
      · simp only [Gen.symStr, hl, hr, hlv, Option.isSome_none, Bool.false_and, Bool.false_eq_true, if_false, iha hp.1.2 hb.1, ihb hp.2 hb.2]
        cases a.str <;> cases b.str <;> rfl
      · simp only [Gen.symStr, hl, hr, hlv, Option.isSome_none, Bool.false_and, Bool.false_eq_true, if_false, iha hp.1.2 hb.1, ihb hp.2 hb.2]
        cases a.str <;> cases b.str <;> rfl
      · simp at hp
  | bin o l r ihl ihr =>
    simp only [proper, Bool.and_eq_true] at hp
    simp only [Sym.hasBad, Bool.or_eq_false_iff] at hb
    have hl := (storedIs_literal l (hasBad_false_ne hb.1) hp.1).2.1
    have hr := (storedIs_literal r (hasBad_false_ne hb.2) hp.2).2.2
    cases hlv : l.litVal with
    | some x =>
      cases hrv : r.litVal with
      | some y =>
        have := litVal_some hlv; subst this
        have := litVal_some hrv; subst this
        cases o with
        | add => rfl
        | sub => rfl
        | mul => rfl
        | div =>
          have h1 : (Sym.bin .div (.lit x) (.lit y)).str = if y = 0 then .error .zeroDivision else .ok (intStr (Int.fdiv x y)) := rfl
          have h2 : Gen.symStr (.bin .div (.lit x) (.lit y)) = Gen.computedStr (do let s2 ← Gen.fmtR (Py.floordiv x y); pure s2) := rfl
          rw [h1, h2, computedStr_id]
          unfold Py.floordiv
          by_cases hy : y = 0 <;> simp [hy, Gen.fmtR, bind, Except.bind, pure, Except.pure]
        | exp =>
          have h1 : (Sym.bin .exp (.lit x) (.lit y)).str = if y < 0 then .error .unmodelled else .ok (intStr (x ^ y.toNat)) := rfl
          have h2 : Gen.symStr (.bin .exp (.lit x) (.lit y)) = Gen.computedStr (do let s2 ← Gen.fmtR (Py.pow x y); pure s2) := rfl
          rw [h1, h2, computedStr_id]
          unfold Py.pow
          by_cases hy : y < 0 <;> simp [hy, Gen.fmtR, bind, Except.bind, pure, Except.pure]
      | none =>
        rw [C18.str_bin_nofold o l r (by simp [hrv])]
        cases o <;>
        · simp only [Gen.symStr, computedStr_id, hl, hr, hlv, hrv, Option.isSome_none, Bool.and_false, Bool.false_eq_true, if_false, ihl hp.1 hb.1, ihr hp.2 hb.2]
          cases l.str <;> cases r.str <;> rfl
    | none =>
      rw [C18.str_bin_nofold o l r (by simp [hlv])]
      cases o <;>
      · simp only [Gen.symStr, computedStr_id, hl, hr, hlv, Option.isSome_none, Bool.false_and, Bool.false_eq_true, if_false, ihl hp.1 hb.1, ihr hp.2 hb.2]
        cases l.str <;> cases r.str <;> rfl

/-! ## construction -/

/-- a constant / anonymous axis sits in an operand position (the node itself is not one) -/
def badInside : Sym → Bool
  | .grp a => a.hasBad
  | .isqrt a => a.hasBad
  | .fn2 _ a b => a.hasBad || b.hasBad
  | .bin _ l r => l.hasBad || r.hasBad
  | _ => false

theorem hasBad_eq (s : Sym) : s.hasBad = (decide (s = .bad) || badInside s) := by
  cases s <;> simp [Sym.hasBad, badInside]

theorem bindUnit (x : Except PrintErr Unit) (f : Unit → Except PrintErr Unit) (b1 b2 : Bool)
    (hx : x = if b1 then .error .typeError else .ok ()) (hf : f () = if b2 then .error .typeError else .ok ()) :
    (x >>= f) = if (b1 || b2) then .error .typeError else .ok () := by
  subst hx
  cases b1 <;> cases b2 <;> simp_all [bind, Except.bind]

/-- **the constructors of the source refuse exactly the expressions with a constant / anonymous operand** -/
theorem symBuild_is_source (s : Sym) (hp : proper s = true) :
    Gen.symBuild s = if badInside s then .error .typeError else .ok () := by
  induction s with
  | lit n => rfl
  | var x => rfl
  | bad => rfl
  | grp a ih =>
    simp only [proper] at hp
    simp only [Gen.symBuild, Gen.buildGroup, badInside, hasBad_eq a]
    rw [Bool.or_comm]
    apply bindUnit _ _ _ _ (ih hp)
    rw [assertOperand_is_source a hp]
    by_cases h : a = .bad <;> simp [h, bind, Except.bind, pure, Except.pure]
  | isqrt a ih =>
    simp only [proper] at hp
    simp only [Gen.symBuild, Gen.buildUnary, badInside, hasBad_eq a]
    rw [Bool.or_comm]
    apply bindUnit _ _ _ _ (ih hp)
    rw [assertOperand_is_source a hp]
    by_cases h : a = .bad <;> simp [h, bind, Except.bind, pure, Except.pure]
  | fn2 f a b iha ihb =>
    simp only [proper, Bool.and_eq_true] at hp
    have key : (do Gen.symBuild a; Gen.symBuild b; Gen.buildBinary a b) =
        if badInside (.fn2 f a b) then Except.error PrintErr.typeError else .ok () := by
      have hbi : badInside (.fn2 f a b) = (a.hasBad || b.hasBad) := rfl
      rw [hbi, hasBad_eq a, hasBad_eq b]
      have e : (decide (a = .bad) || badInside a || (decide (b = .bad) || badInside b)) =
          (badInside a || (badInside b || (decide (a = .bad) || decide (b = .bad)))) := by
        cases decide (a = .bad) <;> cases badInside a <;> cases decide (b = .bad) <;> cases badInside b <;> rfl
      rw [e]
      apply bindUnit _ _ _ _ (iha hp.1.2)
      apply bindUnit _ _ _ _ (ihb hp.2)
      simp only [Gen.buildBinary]
      rw [assertOperand_is_source a hp.1.2, assertOperand_is_source b hp.2]
      by_cases h1 : a = .bad <;> by_cases h2 : b = .bad <;> simp [h1, h2, bind, Except.bind, pure, Except.pure]
    cases f
    · exact key
    · exact key
    · simp at hp
  | bin o l r ihl ihr =>
    simp only [proper, Bool.and_eq_true] at hp
    have key : (do Gen.symBuild l; Gen.symBuild r; Gen.buildBinary l r) =
        if badInside (.bin o l r) then Except.error PrintErr.typeError else .ok () := by
      have hbi : badInside (.bin o l r) = (l.hasBad || r.hasBad) := rfl
      rw [hbi, hasBad_eq l, hasBad_eq r]
      have e : (decide (l = .bad) || badInside l || (decide (r = .bad) || badInside r)) =
          (badInside l || (badInside r || (decide (l = .bad) || decide (r = .bad)))) := by
        cases decide (l = .bad) <;> cases badInside l <;> cases decide (r = .bad) <;> cases badInside r <;> rfl
      rw [e]
      apply bindUnit _ _ _ _ (ihl hp.1)
      apply bindUnit _ _ _ _ (ihr hp.2)
      simp only [Gen.buildBinary]
      rw [assertOperand_is_source l hp.1, assertOperand_is_source r hp.2]
      by_cases h1 : l = .bad <;> by_cases h2 : r = .bad <;> simp [h1, h2, bind, Except.bind, pure, Except.pure]
    cases o <;> exact key

/-- **evaluating the operator expression and printing the result, as the source does it, IS the model's `Sym.print`** -/
theorem symPrint_is_source (s : Sym) (hp : proper s = true) : Gen.symPrint s = s.print := by
  simp only [Gen.symPrint, Sym.print, symBuild_is_source s hp]
  cases hb : badInside s with
  | true =>
    have : s.hasBad = true := by rw [hasBad_eq, hb]; simp
    simp [this, bind, Except.bind]
  | false =>
    by_cases he : s = .bad
    · subst he; rfl
    · have hh : s.hasBad = false := by rw [hasBad_eq, hb]; simp [he]
      simp only [hh, Bool.false_eq_true, if_false]
      exact symStr_is_source s hp hh

/-! ## `Shape[...]` and `TensorType[Shape[...]]` -/

/-- an entry of `Shape[...]` that stands for a Python object (constant / anonymous axes are entries of their own) -/
def properAxis : Axis → Bool
  | .expr s => proper s && s != .bad
  | _ => true

theorem joinStr_eq : ∀ l : List (List Char), Gen.joinStr " ".toList l = joinSp l
  | [] => rfl
  | [_] => rfl
  | x :: y :: r => by
    have ih := joinStr_eq (y :: r)
    simp only [Gen.joinStr, joinSp, ih]
    rfl

theorem axisStr_is_source (a : Axis) (hp : properAxis a = true) (hb : a.hasBad = false) : Gen.axisStr a = a.print := by
  cases a with
  | expr s =>
    simp only [properAxis, Bool.and_eq_true] at hp
    exact symStr_is_source s hp.1 hb
  | ellipsis => rfl
  | anon n => rfl
  | const k n => rfl

theorem mapM_axisStr (axes : List Axis) (hp : ∀ a ∈ axes, properAxis a = true) (hb : axes.any Axis.hasBad = false) :
    axes.mapM Gen.axisStr = axes.mapM Axis.print := by
  induction axes with
  | nil => rfl
  | cons a rest ih =>
    simp only [List.any_cons, Bool.or_eq_false_iff] at hb
    simp only [List.mapM_cons, axisStr_is_source a (hp a (by simp)) hb.1, ih (fun x hx => hp x (by simp [hx])) hb.2]

theorem mapM_build (axes : List Axis) (hp : ∀ a ∈ axes, properAxis a = true) (k : Except PrintErr (List Char)) :
    (axes.mapM Gen.buildAxis >>= fun _ => k) =
      if axes.any Axis.hasBad then .error .typeError else k := by
  induction axes with
  | nil => rfl
  | cons a rest ih =>
    have ih' := ih (fun x hx => hp x (by simp [hx]))
    have ha := hp a (by simp)
    simp only [List.mapM_cons, List.any_cons, bind_assoc]
    cases a with
    | expr s =>
      simp only [properAxis, Bool.and_eq_true, bne_iff_ne, ne_eq] at ha
      have hh : s.hasBad = badInside s := by rw [hasBad_eq]; simp [ha.2]
      simp only [Gen.buildAxis, symBuild_is_source s ha.1, Axis.hasBad, hh]
      cases badInside s with
      | true => simp [bind, Except.bind]
      | false =>
        simp only [Bool.false_eq_true, if_false, Bool.false_or]
        rw [← ih']
        simp [bind, Except.bind, pure, Except.pure]
    | ellipsis =>
      simp only [Gen.buildAxis, Axis.hasBad, Bool.false_or]; rw [← ih']; simp [bind, Except.bind, pure, Except.pure]
    | anon n =>
      simp only [Gen.buildAxis, Axis.hasBad, Bool.false_or]; rw [← ih']; simp [bind, Except.bind, pure, Except.pure]
    | const c n =>
      simp only [Gen.buildAxis, Axis.hasBad, Bool.false_or]; rw [← ih']; simp [bind, Except.bind, pure, Except.pure]

/-- **`str(Shape[...])` of the source IS the model's `printShape`** -/
theorem shapeStr_is_source (axes : List Axis) (hp : ∀ a ∈ axes, properAxis a = true) : Gen.shapeStr axes = printShape axes := by
  simp only [Gen.shapeStr, printShape]
  rw [mapM_build axes hp]
  cases hb : axes.any Axis.hasBad with
  | true => rfl
  | false =>
    simp only [Bool.false_eq_true, if_false, mapM_axisStr axes hp hb]
    cases List.mapM Axis.print axes with
    | error e => rfl
    | ok parts => simp only [bind, Except.bind, pure, Except.pure, Except.map]; exact congrArg Except.ok (joinStr_eq parts)

/-- **`TensorType[Shape[...]]` in the source is the string constructor applied to the printed shape** — together with
    `CoreShape.construct_is_source`: the annotation built from a symbolic shape is the model's `parseShape` of the model's print -/
theorem classGetItem_is_source (cls : Nat) (axes : List Axis) (hp : ∀ a ∈ axes, properAxis a = true) :
    Gen.classGetItem cls (.shape axes) = (printShape axes).map (fun s => parseShape (some s) cls false) := by
  simp only [Gen.classGetItem, shapeStr_is_source axes hp]
  cases printShape axes with
  | error e => rfl
  | ok s => simp [bind, Except.bind, pure, Except.pure, Except.map, CoreShape.construct_is_source]

theorem classGetItem_string (cls : Nat) (s : List Char) :
    Gen.classGetItem cls (.str s) = .ok (parseShape (some s) cls false) ∧ Gen.classGetItem cls .none = .ok (parseShape none cls false) := by
  simp [Gen.classGetItem, CoreShape.construct_is_source]

/-! ## the operator methods -/

/-- `x <op> y` builds the node `op x y` whichever of the two operands' methods Python ends up calling: `x.__op__(y)` when `x` is an
    axis object, the reflected `y.__rop__(x)` when only `y` is (e.g. `2 - a`) -/
theorem operators_build_the_python_tree (x y : Sym) :
    Gen.applyDunder "__add__" x y = some (.bin .add x y) ∧ Gen.applyDunder "__radd__" y x = some (.bin .add x y) ∧
    Gen.applyDunder "__sub__" x y = some (.bin .sub x y) ∧ Gen.applyDunder "__rsub__" y x = some (.bin .sub x y) ∧
    Gen.applyDunder "__mul__" x y = some (.bin .mul x y) ∧ Gen.applyDunder "__rmul__" y x = some (.bin .mul x y) ∧
    Gen.applyDunder "__floordiv__" x y = some (.bin .div x y) ∧ Gen.applyDunder "__rfloordiv__" y x = some (.bin .div x y) ∧
    Gen.applyDunder "__pow__" x y = some (.bin .exp x y) ∧ Gen.applyDunder "__rpow__" y x = some (.bin .exp x y) :=
  ⟨rfl, rfl, rfl, rfl, rfl, rfl, rfl, rfl, rfl, rfl⟩

/-- and there are no other operator methods (no `__truediv__`, `__mod__`, `__neg__`, …: those expressions raise TypeError in Python) -/
theorem operator_methods : Gen.dunders.map (·.1) =
    ["__add__", "__radd__", "__sub__", "__rsub__", "__mul__", "__rmul__", "__floordiv__", "__rfloordiv__", "__pow__", "__rpow__"] := rfl

/-! ## C18 about the source -/

theorem toTree_proper (s : Sym) (t : Tree) (h : C18.toTree s = some t) : proper s = true := by
  induction s generalizing t with
  | lit n => rfl
  | var x => rfl
  | bad => rfl
  | grp a ih =>
    simp only [C18.toTree, Option.map_eq_some_iff] at h
    obtain ⟨ta, hta, _⟩ := h
    exact ih ta hta
  | isqrt a ih =>
    simp only [C18.toTree] at h
    split at h
    · cases h
    · simp only [Option.map_eq_some_iff] at h
      obtain ⟨ta, hta, _⟩ := h
      exact ih ta hta
  | fn2 f a b iha ihb =>
    simp only [C18.toTree] at h
    split at h
    · cases h
    · rename_i hc
      simp only [Bool.or_eq_true, Bool.and_eq_true, decide_eq_true_eq, not_or] at hc
      cases hta : C18.toTree a with
      | none => simp [hta] at h
      | some ta =>
        cases htb : C18.toTree b with
        | none => simp [hta, htb] at h
        | some tb =>
          simp only [proper, iha ta hta, ihb tb htb, Bool.and_true, bne_iff_ne, ne_eq]
          exact hc.2
  | bin o l r ihl ihr =>
    simp only [C18.toTree] at h
    split at h
    · cases h
    · cases htl : C18.toTree l with
      | none => simp [htl] at h
      | some tl =>
        cases htr : C18.toTree r with
        | none => simp [htl, htr] at h
        | some tr => simp [proper, ihl tl htl, ihr tr htr]

/-- **C18_partial about the source**: what the classes of `_symbolic_expressions.py` print for an expression (constructors,
    `__str__` methods and `ComputedAxis` as regenerated from the source) evaluates, under every scope, to exactly Python's value of
    the operator expression — for every expression that prints without folding and needs no parentheses of its own -/
theorem source_printed_string_means_python_value (s : Sym) (t : Tree) (h : C18.toTree s = some t) (hwf : t.WF = true)
    (σ : Scope) (v : Int) :
    (∃ str, Gen.symPrint s = .ok str ∧ evalString str σ = some (.val v)) ↔ s.pyEval σ.get? = some v := by
  rw [symPrint_is_source s (toTree_proper s t h)]
  exact C18.printed_string_means_python_value s t h hwf σ v

/-- **C18, last clause, about the source**: the constructors regenerated from the source refuse (TypeError) exactly the
    expressions with a constant / anonymous axis in some operand position -/
theorem source_bad_operand_refused (s : Sym) (hp : proper s = true) :
    Gen.symPrint s = .error .typeError ↔ C18.Operand .bad s := by
  rw [symPrint_is_source s hp]
  exact C18.bad_operand_refused s

/-- non-vacuity: `Min(a, 2) * Group(b - 1)` is a proper expression the source prints as `min(a,2)*(b-1)` -/
theorem example_source_print :
    proper (.bin .mul (.fn2 .min (.var ['a']) (.lit 2)) (.grp (.bin .sub (.var ['b']) (.lit 1)))) = true ∧
    Gen.symPrint (.bin .mul (.fn2 .min (.var ['a']) (.lit 2)) (.grp (.bin .sub (.var ['b']) (.lit 1)))) = .ok "min(a,2)*(b-1)".toList :=
  ⟨rfl, rfl⟩

end Dltype.CoreSym
