import DltypeModel
import DltypeModel.Generated.Core
import Properties.C03
import Properties.C01
import Properties.C02
/-!
# The translator tie for the checker's core.

`DltypeModel/Generated/Core.lean` is regenerated on every run from the Python source of
`DLTypeContext._assert_tensor_shape`, `DLTypeContext.assert_context` and `TensorTypeBase.check`
(`harness/translate_core.py`).  The theorems below prove each regenerated definition equal to the hand-written
model (`DltypeModel/Check.lean`, `DltypeModel/Context.lean`) that all property theorems (C01, C02, C03, C08, …) are
about — for every annotation, tensor, name and binding table.  When the source changes its behaviour, the regenerated
definition changes and these proofs no longer check: the tie is broken and the check searches for a failing input.
-/
namespace Dltype.Core
open Dltype

/-- the standalone check raises only its three reports: as an `Outcome` -/
def liftE : Except Report Unit → Outcome Unit
  | .ok () => .ok ()
  | .error r => .reject r

/-- the loop body of `_assert_tensor_shape` in the source IS the model's `dimStep` -/
theorem dimStep_is_source : Gen.dimStep = dimStep := by
  funext tname idx d actual σ
  unfold Gen.dimStep dimStep
  by_cases h1 : d.isAnonymous = true
  · simp [h1]
  · by_cases h2 : (d.isLiteral && !σ.has d.identifier) = true
    · simp [h1, h2]
    · by_cases h3 : (d.isIdentifier && !σ.has d.identifier) = true
      · simp [h1, h2, h3]
      · simp only [h1, h2, h3, Bool.false_eq_true, if_false]
        cases d.evaluate σ with
        | keyError k => rfl
        | pyExc e => rfl
        | unmodelled => rfl
        | val v =>
          simp only
          by_cases hv : v = (actual : Int)
          · subst hv
            rcases Option.eq_none_or_eq_some (σ.get? d.identifier) with hg | ⟨b, hg⟩
            · simp [Scope.setdefault, hg]
            · by_cases hb : b = (actual : Int)
              · simp [Scope.setdefault, hg, hb]
              · simp [Scope.setdefault, hg, hb]
          · simp [hv]

/-- hence the whole loop -/
theorem assertDims_is_source : Gen.assertDims = assertDims := by
  funext tname idx ds as σ
  induction ds generalizing idx as σ with
  | nil => simp [Gen.assertDims, assertDims]
  | cons d ds ih =>
    cases as with
    | nil => simp [Gen.assertDims, assertDims]
    | cons a as =>
      simp only [Gen.assertDims, assertDims, dimStep_is_source]
      cases dimStep tname idx d a σ with
      | ok σ' => exact ih (idx + 1) as σ'
      | reject r => rfl
      | pyExc e => rfl
      | unmodelled => rfl

/-! ## `TensorTypeBase.check` -/

/-- rank and dtype tests of the model, as one function -/
def headModel (acc : Acc) (ann : Ann) (t : Tensor) (n : Name) : Except Report Unit :=
  match rankCheck ann t.shape n with
  | .error r => .error r
  | .ok () => if !acc ann.cls t.dt then .error (.dtype n) else .ok ()

theorem checkHead_is_source (acc : Acc) (ann : Ann) (t : Tensor) (n : Name)
    (hm : ∀ mi, ann.multiIdx = some mi → mi < ann.dims.length) :
    Gen.checkHead acc ann t n = liftE (headModel acc ann t n) := by
  unfold Gen.checkHead headModel rankCheck
  cases hmi : ann.multiIdx with
  | none =>
    simp only
    by_cases hl : t.shape.length = ann.dims.length
    · by_cases ha : acc ann.cls t.dt = true <;> simp [hl, ha, liftE]
    · simp [hl, liftE]
  | some mi =>
    have h1 := hm mi hmi
    simp only
    have he : Int.ofNat ann.dims.length - Int.ofNat 1 = Int.ofNat (ann.dims.length - 1) := by
      simp only [Int.ofNat_eq_natCast]; omega
    simp only [he]
    by_cases hl : t.shape.length < ann.dims.length - 1
    · have hc : (Int.ofNat t.shape.length < Int.ofNat (ann.dims.length - 1)) := by
        simp only [Int.ofNat_eq_natCast]; omega
      simp only [hc, decide_true, if_true, hl, liftE]
    · have hc : ¬ (Int.ofNat t.shape.length < Int.ofNat (ann.dims.length - 1)) := by
        simp only [Int.ofNat_eq_natCast]; omega
      simp only [hc, decide_false, Bool.false_eq_true, if_false, hl]
      by_cases ha : acc ann.cls t.dt = true <;> simp [ha, liftE]

/-- one literal axis as the model checks it -/
def literalModel (ann : Ann) (t : Tensor) (n : Name) (idx : Nat) (lit : Int) : Outcome Unit :=
  match t.shape[adjIdx ann t.shape.length idx]? with
  | none => .ok ()
  | some a => if Int.ofNat a ≠ lit then .reject (.shape n (adjIdx ann t.shape.length idx) lit (Int.ofNat a)) else .ok ()

theorem pyIndex_nat (s : List Nat) (i : Nat) : Gen.pyIndex s (Int.ofNat i) = s[i]? := by
  unfold Gen.pyIndex
  have : ¬ (Int.ofNat i < 0) := by simp only [Int.ofNat_eq_natCast]; omega
  rw [if_neg this]
  simp

theorem literalStep_is_source (ann : Ann) (t : Tensor) (n : Name) (idx : Nat) (lit : Int)
    (hr : C03.rankOK ann t.shape = true) (hi : idx < ann.dims.length) (hn : ann.multiIdx ≠ some idx)
    (hm : ∀ mi, ann.multiIdx = some mi → mi < ann.dims.length) :
    Gen.literalStep ann t n idx lit = literalModel ann t n idx lit := by
  unfold Gen.literalStep literalModel adjIdx
  unfold C03.rankOK at hr
  rcases Option.eq_none_or_eq_some ann.multiIdx with hmi | ⟨mi, hmi⟩
  · simp only [hmi] at hr ⊢
    have hlen := of_decide_eq_true hr
    have hlt : idx < t.shape.length := by omega
    have hget : t.shape[idx]? = some t.shape[idx] := by simp [hlt]
    simp only [Option.isSome_none, Bool.false_and, Bool.false_eq_true, if_false, pyIndex_nat, hget]
    by_cases hv : (t.shape[idx] : Int) = lit <;> simp [hv]
  · have h1 := hm mi hmi
    have hne : idx ≠ mi := fun h => hn (by rw [hmi, h])
    simp only [hmi] at hr ⊢
    have hr' := of_decide_eq_true hr
    by_cases hgt : idx > mi
    · have hadj : (Int.ofNat idx + (Int.ofNat t.shape.length - Int.ofNat ann.dims.length)) =
          Int.ofNat (idx + t.shape.length - ann.dims.length) := by
        simp only [Int.ofNat_eq_natCast]; omega
      have hlt : idx + t.shape.length - ann.dims.length < t.shape.length := by omega
      have hget : t.shape[idx + t.shape.length - ann.dims.length]? = some t.shape[idx + t.shape.length - ann.dims.length] := by
        simp [hlt]
      simp only [Option.isSome_some, Option.getD_some, hgt, decide_true, Bool.and_self, if_true, hadj, pyIndex_nat, hget]
      by_cases hv : (t.shape[idx + t.shape.length - ann.dims.length] : Int) = lit <;> simp [hv]
    · have hlt : idx < t.shape.length := by omega
      have hget : t.shape[idx]? = some t.shape[idx] := by simp [hlt]
      simp only [Option.isSome_some, Option.getD_some, hgt, decide_false, Bool.and_false, Bool.false_eq_true, if_false,
        pyIndex_nat, hget]
      by_cases hv : (t.shape[idx] : Int) = lit <;> simp [hv]

theorem checkLiterals_is_source (ann : Ann) (t : Tensor) (n : Name) (l : List (Nat × Int))
    (hr : C03.rankOK ann t.shape = true) (hi : ∀ p ∈ l, p.1 < ann.dims.length)
    (hn : ∀ p ∈ l, ann.multiIdx ≠ some p.1) (hm : ∀ mi, ann.multiIdx = some mi → mi < ann.dims.length) :
    Gen.checkLiterals ann t n l = liftE (checkLiterals n ann t.shape l) := by
  induction l with
  | nil => simp [Gen.checkLiterals, checkLiterals, liftE]
  | cons p ps ih =>
    obtain ⟨idx, lit⟩ := p
    have ih' := ih (fun q hq => hi q (by simp [hq])) (fun q hq => hn q (by simp [hq]))
    have hidx := hi (idx, lit) (by simp)
    have hnm := hn (idx, lit) (by simp)
    have hlt : adjIdx ann t.shape.length idx < t.shape.length := by
      rw [C03.adj_eq_align ann t.shape idx hr hidx]; exact C03.adj_in_range ann t.shape idx hr hidx hnm hm
    have hget : t.shape[adjIdx ann t.shape.length idx]? = some t.shape[adjIdx ann t.shape.length idx] := by
      simp [hlt]
    simp only [Gen.checkLiterals, checkLiterals]
    rw [literalStep_is_source ann t n idx lit hr hidx hnm hm]
    simp only [literalModel, hget]
    by_cases hv : (t.shape[adjIdx ann t.shape.length idx] : Int) = lit
    · simp only [Int.ofNat_eq_natCast, hv, ne_eq, not_true_eq_false, if_false]; exact ih'
    · simp [hv, liftE]

/-- **`TensorTypeBase.check` in the source IS the model's `check`** (for every annotation the shape parser can produce) -/
theorem check_is_source (acc : Acc) (ann : Ann) (t : Tensor) (n : Name) (hwf : C03.WFAnn ann) :
    Gen.check acc ann t n = liftE (check acc ann t n) := by
  unfold Gen.check check
  rw [checkHead_is_source acc ann t n hwf.marker_lt]
  unfold headModel
  cases hrc : rankCheck ann t.shape n with
  | error r => simp [liftE]
  | ok u =>
    cases u
    have hr : C03.rankOK ann t.shape = true := (C03.rankCheck_ok_iff ann t.shape n).mp hrc
    by_cases ha : acc ann.cls t.dt = true
    · simp only [ha, Bool.not_true, Bool.false_eq_true, if_false, liftE]
      exact checkLiterals_is_source ann t n ann.literalDims hr hwf.idx_lt hwf.not_marker hwf.marker_lt
    · simp [ha, liftE]

/-! ## the loop body of `assert_context` -/

/-- **the `while` body of `DLTypeContext.assert_context` in the source IS the model's `tensorStep`**: the standalone check, the
    duplicate-name test, registration, expansion of the marker, the per-dimension loop and the group-length test, in that
    order, with those reports -/
theorem tensorBody_is_source (acc : Acc) (st : CState) (e : Entry) (hwf : C03.WFAnn e.ann)
    (hname : ∀ g, e.ann.multiName = some g → 1 ≤ e.ann.dims.length) :
    Gen.tensorBody acc st.σ st.registered e = tensorStep acc st e := by
  unfold Gen.tensorBody tensorStep
  rw [check_is_source acc e.ann e.tensor e.displayName hwf, assertDims_is_source]
  cases check acc e.ann e.tensor e.displayName with
  | error r => simp [liftE]
  | ok u =>
    cases u
    simp only [liftE]
    simp only [List.contains_eq_mem]
    by_cases hdup : e.displayName ∈ st.registered
    · simp only [hdup, decide_true, if_true]
    · simp only [hdup, decide_false, Bool.false_eq_true, if_false]
      cases assertDims e.displayName 0 (expandDims e.ann e.tensor.shape) e.tensor.shape st.σ with
      | reject r => rfl
      | pyExc x => rfl
      | unmodelled => rfl
      | ok σ' =>
        simp only [groupLenStep]
        rcases Option.eq_none_or_eq_some e.ann.multiName with hmn | ⟨g, hmn⟩
        · simp [hmn]
        · have h1 := hname g hmn
          have he : Int.ofNat e.ann.dims.length - Int.ofNat 1 = Int.ofNat (e.ann.dims.length - 1) := by
            simp only [Int.ofNat_eq_natCast]; omega
          simp only [hmn, he, Scope.setdefault]
          rcases Option.eq_none_or_eq_some (σ'.get? (lenKey g)) with hg | ⟨b, hg⟩
          · simp [hg]
          · by_cases hb : b = (e.tensor.shape.length : Int) - ((e.ann.dims.length - 1 : Nat) : Int)
            · simp [hg, hb]
            · simp [hg, hb]

/-- annotations produced by the shape parser satisfy the side condition of `tensorBody_is_source` -/
theorem parsed_multiName_has_marker (shape : Option (List Char)) (cls : Nat) (opt : Bool) (ann : Ann)
    (h : parseShape shape cls opt = .ok ann) : ∀ g, ann.multiName = some g → 1 ≤ ann.dims.length := by
  intro g hg
  cases shape with
  | none => simp [parseShape] at h; subst h; simp at hg
  | some s =>
    simp only [parseShape] at h
    split at h
    · cases h
    · split at h
      · cases h
      · rename_i dims hd
        split at h
        · cases h
        · split at h
          · cases h
          · cases h
            simp only at hg ⊢
            cases hl : (markerIdxs dims 0).getLast? with
            | none => simp [hl] at hg
            | some i =>
              simp only [hl] at hg
              cases hdi : dims[i]? with
              | none => simp [hdi] at hg
              | some d =>
                have : i < dims.length := by
                  rcases List.getElem?_eq_some_iff.mp hdi with ⟨hlt, _⟩
                  exact hlt
                omega

/-- what `tensorBody_is_source` asks of an annotation (true of everything the shape parser produces:
    `C03p.parsed_annotations_are_wellformed`, `parsed_multiName_has_marker`) -/
def AnnOK (ann : Ann) : Prop := C03.WFAnn ann ∧ ∀ g, ann.multiName = some g → 1 ≤ ann.dims.length

/-- **draining the queue in the source IS the model's `runEntries`** — the function the theorems of C01 (no false
    accepts), C02 (no false rejects) and C08 (reports) are stated about -/
theorem runEntries_is_source (acc : Acc) (st : CState) (es : List Entry) (h : ∀ e ∈ es, AnnOK e.ann) :
    Gen.runEntries acc st es = runEntries acc st es := by
  induction es generalizing st with
  | nil => simp [Gen.runEntries, runEntries]
  | cons e es ih =>
    have he := h e (by simp)
    simp only [Gen.runEntries, runEntries, tensorBody_is_source acc st e he.1 he.2]
    cases tensorStep acc st e with
    | ok st' => exact ih st' (fun x hx => h x (by simp [hx]))
    | reject r => rfl
    | pyExc x => rfl
    | unmodelled => rfl


/-! ## `_ConcreteType.get_expected_shape` -/

theorem multiDims_append (g : Name) (anon : Bool) (k : Nat) (xs : List Nat) (a : Nat) :
    multiDims g anon k (xs ++ [a]) = multiDims g anon k xs ++ [mkMultiLiteral (grpKey g (k + xs.length)) a anon] := by
  induction xs generalizing k with
  | nil => simp [multiDims]
  | cons x xs ih =>
    simp only [List.cons_append, multiDims, ih (k + 1), List.length_cons]
    have : k + 1 + xs.length = k + (xs.length + 1) := by omega
    rw [this]

theorem multiDims_length (g : Name) (anon : Bool) (k : Nat) (xs : List Nat) : (multiDims g anon k xs).length = xs.length := by
  induction xs generalizing k with
  | nil => rfl
  | cons x xs ih => simp [multiDims, ih]

/-- invariant of the insertion loop: after `i` iterations the list is the model's expansion of the first `i` absorbed axes -/
theorem expandLoop_inv (e : Entry) (mi n i : Nat) (hmi : mi < e.ann.dims.length)
    (hb : mi + i + n ≤ e.tensor.shape.length) :
    Gen.expandLoop e mi n i
      (e.ann.dims.take mi ++ multiDims (e.ann.multiName.getD noneName) e.ann.anonMulti 0 ((e.tensor.shape.drop mi).take i) ++ e.ann.dims.drop (mi + 1)) =
    .ok (e.ann.dims.take mi ++ multiDims (e.ann.multiName.getD noneName) e.ann.anonMulti 0 ((e.tensor.shape.drop mi).take (i + n)) ++ e.ann.dims.drop (mi + 1)) := by
  induction n generalizing i with
  | zero => simp [Gen.expandLoop]
  | succ n ih =>
    have hlt : mi + i < e.tensor.shape.length := by omega
    have hget : e.tensor.shape[mi + i]? = some e.tensor.shape[mi + i] := by simp [hlt]
    have htake : (e.tensor.shape.drop mi).take (i + 1) = (e.tensor.shape.drop mi).take i ++ [e.tensor.shape[mi + i]] := by
      rw [List.take_succ]
      simp [List.getElem?_drop, hget]
    have hlen : ((e.tensor.shape.drop mi).take i).length = i := by
      simp only [List.length_take, List.length_drop]; omega
    simp only [Gen.expandLoop, Gen.expandStep, pyIndex_nat, hget]
    have hins : Gen.pyInsert
        (e.ann.dims.take mi ++ multiDims (e.ann.multiName.getD noneName) e.ann.anonMulti 0 ((e.tensor.shape.drop mi).take i) ++ e.ann.dims.drop (mi + 1))
        (Int.ofNat (mi + i)) (mkMultiLiteral (grpKey (e.ann.multiName.getD noneName) i) e.tensor.shape[mi + i] e.ann.anonMulti) =
        e.ann.dims.take mi ++ multiDims (e.ann.multiName.getD noneName) e.ann.anonMulti 0 ((e.tensor.shape.drop mi).take (i + 1)) ++ e.ann.dims.drop (mi + 1) := by
      unfold Gen.pyInsert
      have hneg : ¬ (Int.ofNat (mi + i) < 0) := by simp only [Int.ofNat_eq_natCast]; omega
      have hA : (e.ann.dims.take mi).length = mi := by simp [List.length_take]; omega
      have hB : (multiDims (e.ann.multiName.getD noneName) e.ann.anonMulti 0 ((e.tensor.shape.drop mi).take i)).length = i := by
        rw [multiDims_length, hlen]
      have htn : (Int.ofNat (mi + i)).toNat = mi + i := rfl
      simp only [hneg, if_false, htn]
      have hk : min (mi + i) (e.ann.dims.take mi ++ multiDims (e.ann.multiName.getD noneName) e.ann.anonMulti 0 ((e.tensor.shape.drop mi).take i) ++ e.ann.dims.drop (mi + 1)).length = mi + i := by
        simp only [List.length_append, hA, hB]; omega
      rw [hk, htake, multiDims_append, hlen]
      have e1 : (e.ann.dims.take mi ++ multiDims (e.ann.multiName.getD noneName) e.ann.anonMulti 0 ((e.tensor.shape.drop mi).take i) ++ e.ann.dims.drop (mi + 1)).take (mi + i)
          = e.ann.dims.take mi ++ multiDims (e.ann.multiName.getD noneName) e.ann.anonMulti 0 ((e.tensor.shape.drop mi).take i) := by
        rw [List.take_append_of_le_length (by simp [hA, hB])]
        rw [List.take_of_length_le (by simp [hA, hB])]
      have e2 : (e.ann.dims.take mi ++ multiDims (e.ann.multiName.getD noneName) e.ann.anonMulti 0 ((e.tensor.shape.drop mi).take i) ++ e.ann.dims.drop (mi + 1)).drop (mi + i)
          = e.ann.dims.drop (mi + 1) := by
        rw [List.drop_append_of_le_length (by simp [hA, hB])]
        rw [List.drop_of_length_le (by simp [hA, hB])]
        simp
      rw [e1, e2]
      simp
    rw [hins]
    have := ih (i + 1) (by omega)
    rw [this]
    have : i + 1 + n = i + (n + 1) := by omega
    rw [this]

/-- **`get_expected_shape` in the source IS the model's `expandDims`** and never raises (for annotations the shape parser can
    produce): pop the marker, then insert one literal per absorbed axis, named `group[i]`, at the marker's position -/
theorem expand_is_source (e : Entry) (hm : ∀ mi, e.ann.multiIdx = some mi → mi < e.ann.dims.length) :
    Gen.expand e = .ok (expandDims e.ann e.tensor.shape) := by
  unfold Gen.expand expandDims
  rcases Option.eq_none_or_eq_some e.ann.multiIdx with hmi | ⟨mi, hmi⟩
  · simp [hmi]
  · have h1 := hm mi hmi
    simp only [hmi]
    have hpop : Gen.pyPop e.ann.dims (Int.ofNat mi) = some (e.ann.dims.take mi ++ e.ann.dims.drop (mi + 1)) := by
      unfold Gen.pyPop
      have hneg : ¬ (Int.ofNat mi < 0) := by simp only [Int.ofNat_eq_natCast]; omega
      have htn : (Int.ofNat mi).toNat = mi := rfl
      simp only [hneg, if_false, htn, h1, if_true, List.eraseIdx_eq_take_drop_succ]
    have hoff : (((Int.ofNat e.tensor.shape.length) - (Int.ofNat e.ann.dims.length)) + (Int.ofNat 1)).toNat
        = e.tensor.shape.length + 1 - e.ann.dims.length := by
      have : (((Int.ofNat e.tensor.shape.length) - (Int.ofNat e.ann.dims.length)) + (Int.ofNat 1))
          = (e.tensor.shape.length : Int) - (e.ann.dims.length : Int) + 1 := rfl
      rw [this]; omega
    simp only [hpop, hoff]
    by_cases hn : e.tensor.shape.length + 1 - e.ann.dims.length = 0
    · simp [hn, Gen.expandLoop, multiDims]
    · have := expandLoop_inv e mi (e.tensor.shape.length + 1 - e.ann.dims.length) 0 h1 (by omega)
      simp only [List.take_zero, multiDims, List.append_nil, Nat.zero_add] at this
      exact this

/-! ## `DLTypeContext.add` -/

/-- **the loop of `DLTypeContext.add` in the source IS the model's `addGo`**: a `None` annotation is skipped, `None` under an
    optional annotation is skipped and the later elements are still looked at, anything that is not a supported array is
    the unsupported-type error, and a tensor is queued with its position -/
theorem addGo_is_source (name : Name) (i : Nat) (as : List (Option Ann)) (vs : List Value) :
    Gen.addGo name i as vs = addGo name i as vs := by
  induction as generalizing i vs with
  | nil => cases vs <;> simp [Gen.addGo, addGo]
  | cons a as ih =>
    cases vs with
    | nil => simp [Gen.addGo, addGo]
    | cons v vs =>
      cases a with
      | none => simp only [Gen.addGo, Gen.addStep, addGo]; exact ih (i + 1) vs
      | some ann =>
        cases v with
        | none =>
          by_cases ho : ann.optional = true
          · simp only [Gen.addGo, Gen.addStep, addGo, ho, Value.isNoneV, Bool.and_self, if_true]; exact ih (i + 1) vs
          · simp [Gen.addGo, Gen.addStep, addGo, ho, Value.isNoneV]
        | tensor t =>
          simp only [Gen.addGo, Gen.addStep, addGo, Value.isNoneV, Bool.and_false, Bool.false_eq_true, if_false]
          rw [ih (i + 1) vs]
          cases addGo name (i + 1) as vs <;> rfl
        | other => simp [Gen.addGo, Gen.addStep, addGo, Value.isNoneV]
        | tup ws => simp [Gen.addGo, Gen.addStep, addGo, Value.isNoneV]

/-! ## the property theorems, restated about the regenerated source -/

open Dltype.Spec Dltype.Proofs in
/-- **C01 about the source**: whenever the regenerated `assert_context` loop drains a queue without an error, every
    tensor conforms to the final bindings -/
theorem source_no_false_accepts (acc : Acc) (σ₀ : Scope) (reg : List Name) (es : List Entry) (st' : CState)
    (hok : ∀ e ∈ es, AnnOK e.ann)
    (h : Gen.runEntries acc { σ := σ₀, registered := reg } es = .ok st') :
    ScopeLe σ₀ st'.σ ∧ ∀ e ∈ es, EntryConforms acc st'.σ e := by
  rw [runEntries_is_source _ _ _ hok] at h
  exact C01.accepted_conforms acc σ₀ reg es st' (fun e he => (hok e he).1.marker_lt) h

open Dltype.Spec Dltype.Proofs in
/-- **C02 about the source**: a queue that conforms fully to one assignment is drained by the regenerated loop without
    any error -/
theorem source_no_false_rejects (acc : Acc) (σ₀ σ : Scope) (es : List Entry) (hok : ∀ e ∈ es, AnnOK e.ann)
    (hle : ScopeLe σ₀ σ) (hs : ∀ e ∈ es, EntryStrong acc σ e) (hfresh : NamesFresh [] es)
    (hr : RefsOrdered σ₀.keys es) :
    ∃ st', Gen.runEntries acc { σ := σ₀ } es = .ok st' ∧ ScopeLe st'.σ σ := by
  rw [runEntries_is_source _ _ _ hok]
  exact C02.complete acc σ₀ σ es hle hs hfresh hr

/-- **C03 about the source**: the regenerated `check` accepts exactly when the rank fits, the dtype is accepted and every
    literal axis has its literal size at the aligned position -/
theorem source_check_ok_iff (acc : Acc) (ann : Ann) (t : Tensor) (n : Name) (h : C03.WFAnn ann) :
    Gen.check acc ann t n = .ok () ↔
      C03.rankOK ann t.shape = true ∧ acc ann.cls t.dt = true ∧ ∀ p ∈ ann.literalDims, C03.literalOK ann t.shape p := by
  rw [check_is_source acc ann t n h, ← C03.check_ok_iff acc ann t n h]
  cases check acc ann t n with
  | ok u => cases u; simp [liftE]
  | error r => simp [liftE]

/-- the regenerated `check` raises nothing but its three reports (no IndexError from the literal loop) for annotations the
    shape parser produces -/
theorem source_check_raises_only_reports (acc : Acc) (ann : Ann) (t : Tensor) (n : Name) (h : C03.WFAnn ann) :
    Gen.check acc ann t n = .ok () ∨ ∃ r, Gen.check acc ann t n = .reject r := by
  rw [check_is_source acc ann t n h]
  cases check acc ann t n with
  | ok u => cases u; exact Or.inl rfl
  | error r => exact Or.inr ⟨r, rfl⟩

/-- non-vacuity: a concrete annotation and tensor through the regenerated code -/
theorem example_source_check :
    let ann : Ann := { dims := [{ identifier := ['a'], post := [.str ['a']] }, { identifier := ['3'], post := [.int 3] }],
                       literalDims := [(1, 3)] }
    Gen.check (fun _ _ => true) ann { dt := ⟨0, 0⟩, shape := [2, 3] } ['x'] = .ok () ∧
    Gen.check (fun _ _ => true) ann { dt := ⟨0, 0⟩, shape := [2, 4] } ['x'] = .reject (.shape ['x'] 1 3 4) := by
  constructor <;> rfl

end Dltype.Core
