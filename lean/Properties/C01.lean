import DltypeModel
import Spec
import Proofs.Context
namespace Dltype.C01
open Dltype Dltype.Spec Dltype.Proofs

/-- C01 (context level): whenever a context is accepted — the queue of annotated tensors is drained
    without an error, starting from the bindings `σ₀` a scope provider supplied — the final bindings
    extend `σ₀` and EVERY tensor of the context conforms to those final bindings: rank, dtype and literal
    axes pass the standalone check (characterised in `C03`), every non-anonymous axis is bound under its
    dimension's identifier to the size of the axis, every expression axis has the value of its
    expression under the final bindings, and a `*name` group absorbs the recorded number of axes. -/
theorem accepted_conforms (acc : Acc) (σ₀ : Scope) (reg : List Name) (es : List Entry) (st' : CState)
    (hwf : ∀ e ∈ es, MarkerInRange e.ann)
    (h : runEntries acc { σ := σ₀, registered := reg } es = .ok st') :
    ScopeLe σ₀ st'.σ ∧ ∀ e ∈ es, EntryConforms acc st'.σ e :=
  runEntries_sound acc _ st' es hwf h

/-- no name is ever matched against two different sizes inside one context: two axes whose dimensions
    carry the same identifier (a name, `name=…`, or position `i` of the same `*group`), in whichever
    tensors of the context, have the same size -/
theorem same_identifier_same_size (σ : Scope) (d d' : DimExpr) (a a' : Nat)
    (h : DimConforms σ d a) (h' : DimConforms σ d' a') (hid : d.identifier = d'.identifier)
    (hn : d.isAnonymous = false) (hn' : d'.isAnonymous = false) : a = a' := by
  rcases h with h | ⟨hb, _⟩
  · rw [hn] at h; cases h
  · rcases h' with h' | ⟨hb', _⟩
    · rw [hn'] at h'; cases h'
    · rw [hid, hb'] at hb
      exact (Int.ofNat.inj (Option.some.inj hb)).symm

/-- a `*name` group absorbs the same number of axes wherever it appears in an accepted context -/
theorem same_group_same_length (acc : Acc) (σ : Scope) (e e' : Entry) (g : Name)
    (h : EntryConforms acc σ e) (h' : EntryConforms acc σ e')
    (hg : e.ann.multiName = some g) (hg' : e'.ann.multiName = some g) :
    Int.ofNat e.tensor.shape.length - Int.ofNat (e.ann.dims.length - 1) =
      Int.ofNat e'.tensor.shape.length - Int.ofNat (e'.ann.dims.length - 1) := by
  have := h.group g hg
  rw [h'.group g hg'] at this
  exact (Option.some.inj this).symm

theorem runEntries_append (acc : Acc) (st : CState) (xs ys : List Entry) :
    runEntries acc st (xs ++ ys) =
      (match runEntries acc st xs with
       | .ok st1 => runEntries acc st1 ys
       | .reject r => .reject r | .pyExc e => .pyExc e | .unmodelled => .unmodelled) := by
  induction xs generalizing st with
  | nil => simp [runEntries]
  | cons x xs ih =>
    simp only [List.cons_append, runEntries]
    cases tensorStep acc st x with
    | ok st1 => exact ih st1
    | reject r => rfl
    | pyExc e => rfl
    | unmodelled => rfl

/-- C01 (call level): whenever a call through the `dltyped` wrapper returns normally, the annotated
    arguments and the annotated return value were drained, in this order, by ONE context that started
    from the provider's bindings — so by `accepted_conforms` they all conform to one common assignment. -/
theorem returned_call_is_one_accepted_context (acc : Acc) (d : FuncDecl) (p : Provider)
    (args : List (Name × Value)) (b : BodyResult) (v : Value)
    (h : (callWrapped acc d p args b).result = .returned v) :
    ∃ σ₀ es esr st', providerScope p = .ok σ₀ ∧ addParams args d.params = .ok es ∧
      runEntries acc { σ := σ₀ } (es ++ esr) = .ok st' ∧
      (match d.ret.bind (fun h => (resolveTypes h.anns).map (fun as => (h.isTuple, as))) with
       | none => esr = []
       | some (isT, as) => addReturn isT as v = .ok esr) := by
  unfold callWrapped at h
  cases hp : providerScope p with
  | error e =>
    simp only [hp] at h
    cases p with
    | absent => simp [providerScope] at hp
    | self s => cases s <;> simp [providerScope] at hp <;> simp_all
    | obj s => cases s <;> simp [providerScope] at hp <;> simp_all
  | ok σ₀ =>
    simp only [hp] at h
    cases ha : argsPhase acc d σ₀ args with
    | ok st =>
      simp only [ha] at h
      unfold argsPhase at ha
      cases hes : addParams args d.params with
      | ok es =>
        simp only [hes] at ha
        cases b with
        | raises => simp at h
        | returns w =>
          simp only at h
          unfold returnPhase at h
          cases hr : d.ret.bind (fun h => (resolveTypes h.anns).map (fun as => (h.isTuple, as))) with
          | none =>
            refine ⟨σ₀, es, [], st, rfl, rfl, by simpa using ha, by simp [hr]⟩
          | some pr =>
            obtain ⟨isT, as⟩ := pr
            simp only [hr] at h
            cases hadd : addReturn isT as w with
            | ok esr =>
              simp only [hadd] at h
              cases hrun : runEntries acc st esr with
              | ok st' =>
                simp only [hrun] at h
                injection h with h
                subst h
                refine ⟨σ₀, es, esr, st', rfl, rfl, ?_, by simp [hr, hadd]⟩
                rw [runEntries_append, ha]
                exact hrun
              | reject r => simp [hrun] at h
              | pyExc e => simp [hrun] at h
              | unmodelled => simp [hrun] at h
            | reject r => simp [hadd] at h
            | pyExc e => simp [hadd] at h
            | unmodelled => simp [hadd] at h
      | reject r => simp [hes] at ha
      | pyExc e => simp [hes] at ha
      | unmodelled => simp [hes] at ha
    | reject r => simp [ha] at h
    | pyExc e => simp [ha] at h
    | unmodelled => simp [ha] at h

/-- non-vacuity: a three-tensor context with a marker, a named expression and a provider name is
    accepted and meets the hypotheses -/
theorem example_accept :
    (match parseShape (some "a b".toList), parseShape (some "*g c=a+b".toList), parseShape (some "k c".toList) with
     | .ok a1, .ok a2, .ok a3 =>
       (runEntries (fun _ _ => true) { σ := [(['k'], 7)] }
          [{ argIndex := 0, name := ['x'], tensor := { dt := ⟨0, 0⟩, shape := [2, 3] }, ann := a1 },
           { argIndex := 0, name := ['y'], tensor := { dt := ⟨0, 0⟩, shape := [4, 4, 5] }, ann := a2 },
           { argIndex := 0, name := ['z'], tensor := { dt := ⟨0, 0⟩, shape := [7, 5] }, ann := a3 }]
        matches .ok _)
     | _, _, _ => false) = true := by decide

end Dltype.C01
