import DltypeModel
namespace Dltype.C01
open Dltype

/-- placeholder non-vacuity example (the soundness theorem is added by Proofs/Context.lean) -/
theorem example_accept :
    (runEntries (fun _ _ => true) {}
      [{ argIndex := 0, name := ['x'], tensor := { dt := ⟨0, 0⟩, shape := [2, 3] },
         ann := { dims := [{ identifier := ['a'], post := [.str ['a']] }, { identifier := ['b'], post := [.str ['b']] }] } }]
      matches .ok _) = true := by decide

end Dltype.C01
