import DltypeModel
import Spec
import Properties.C14
import Proofs.Context
namespace Dltype.C17
open Dltype Dltype.Spec Dltype.Proofs

/-- every validation starts from an empty context: the verdict of a validation is a function of the
    declared fields and the values alone -/
theorem validation_starts_empty (acc : Acc) (fs : List (Name × Ann × Tensor)) :
    validateIncremental acc {} fs = validateIncremental acc { σ := [], registered := [] } fs := rfl

/-- bindings are shared across the fields of one validation: a validation that succeeds leaves all its
    annotated fields conforming to one common assignment (C14 ∘ C01) -/
theorem accepted_validation_conforms (acc : Acc) (fs : List (Name × Ann × Tensor)) (st' : CState)
    (hwf : ∀ f ∈ fs, MarkerInRange f.2.1) (h : validateIncremental acc {} fs = .ok st') :
    ∀ f ∈ fs, EntryConforms acc st'.σ (C14.toEntry f) := by
  rw [C14.incremental_eq_batch] at h
  have := runEntries_sound acc {} st' (fs.map C14.toEntry)
    (by
      intro e he
      obtain ⟨f, hf, rfl⟩ := List.mem_map.mp he
      exact hwf f hf) h
  intro f hf
  exact this.2 _ (List.mem_map.mpr ⟨f, hf, rfl⟩)

/-- a field given `None` under `Optional` never reaches the validator: the validation of the remaining
    fields is the validation of the list without it (the model's field list contains only the fields that
    carry an array) -/
theorem validation_is_fold (acc : Acc) (st : CState) (f : Name × Ann × Tensor) (fs : List (Name × Ann × Tensor)) :
    validateIncremental acc st (f :: fs) =
      (match pydanticField acc st f.1 f.2.1 f.2.2 with
       | .ok st' => validateIncremental acc st' fs
       | r => r) := by
  obtain ⟨n, a, t⟩ := f
  simp only [validateIncremental]
  cases pydanticField acc st n a t <;> rfl

/-- the first failing field (in declaration order) decides the report -/
theorem first_failing_field_reports (acc : Acc) (st : CState) (n : Name) (a : Ann) (t : Tensor)
    (fs : List (Name × Ann × Tensor)) (r : Report) (h : pydanticField acc st n a t = .reject r) :
    validateIncremental acc st ((n, a, t) :: fs) = .reject r := by
  simp [validateIncremental, h]

end Dltype.C17
