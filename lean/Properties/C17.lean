import DltypeModel
namespace Dltype.C17
open Dltype

/-- every validation starts from an empty context: the verdict of a validation is a function of the
    declared fields and the values alone -/
theorem validation_starts_empty (acc : Acc) (fs : List (Name × Ann × Tensor)) :
    validateIncremental acc {} fs = validateIncremental acc { σ := [], registered := [] } fs := rfl

end Dltype.C17
