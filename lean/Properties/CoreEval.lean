import DltypeModel
import DltypeModel.Generated.EvalLoop
import DltypeModel.Generated.DimFlags
import Properties.C05
/-!
# The translator tie for the expression evaluator.

`Generated/EvalLoop.lean` is regenerated on every run from the Python source of `DLTypeDimensionExpression.evaluate`
(`harness/translate_core.py`): the guards before the loop, the `isinstance` chain of the loop body with its pushes and pops
(operand order preserved), the calls into the operator bodies (`Generated/OpSemantics.lean`) and the operator sets
(`Generated/ParserTables.lean`), and the stack-size test after the loop.  It is proved equal to the model
(`DltypeModel/Eval.lean`: `runPostfix`, `DimExpr.evaluate`) that the theorems of C05 are about.
-/
namespace Dltype.CoreEval
open Dltype

/-- what the loop leaves, read the way the statements after the loop read it -/
def finish : Except EvalResult (List Int) → EvalResult
  | .error r => r
  | .ok stack =>
    if decide (stack.length ≠ 1) then .pyExc .valueError else
    match stack.getLast? with
    | some v => .val v
    | none => .pyExc .indexError

theorem finish_ok (stack : List Int) : finish (.ok stack) = runPostfix [] stack [] := by
  cases stack with
  | nil => simp [finish, runPostfix]
  | cons a rest =>
    cases rest with
    | nil => simp [finish, runPostfix]
    | cons b rest' => simp [finish, runPostfix]

theorem runPostfix_nil_scope (stack : List Int) (σ : Scope) : runPostfix [] stack σ = runPostfix [] stack [] := by
  cases stack with
  | nil => simp [runPostfix]
  | cons a rest => cases rest <;> simp [runPostfix]

/-- the loop of `evaluate` in the source IS the model's stack machine -/
theorem evalLoop_is_source (toks : List PItem) (stack : List Int) (σ : Scope) :
    finish (Gen.evalLoop toks stack σ) = runPostfix toks stack σ := by
  induction toks generalizing stack with
  | nil => rw [Gen.evalLoop, finish_ok]; exact (runPostfix_nil_scope stack σ).symm
  | cons tok rest ih =>
    cases tok with
    | int n =>
      simp only [Gen.evalLoop, Gen.evalStep, runPostfix]
      exact ih _
    | str x =>
      simp only [Gen.evalLoop, Gen.evalStep, runPostfix]
      cases σ.get? x with
      | none => simp [finish]
      | some v => simp only; exact ih _
    | op o =>
      cases stack with
      | nil =>
        cases o with
        | bin b => cases b <;> simp [Gen.evalLoop, Gen.evalStep, runPostfix, finish]
        | fn f => cases f <;> simp [Gen.evalLoop, Gen.evalStep, runPostfix, finish]
      | cons b stk =>
        cases o with
        | fn f =>
          cases f with
          | isqrt =>
            simp only [Gen.evalLoop, Gen.evalStep, runPostfix, Gen.opName, Gen.unaryFunctions, List.contains_cons,
              List.contains_nil, beq_self_eq_true, Bool.or_false, if_true, Gen.evaluateUnary, Gen.opResult, Py.isqrt, evalIsqrt]
            by_cases hb : b < 0
            · simp [hb, finish]
            · simp only [hb, if_false]; exact ih _
          | min =>
            cases stk with
            | nil => simp [Gen.evalLoop, Gen.evalStep, runPostfix, Gen.opName, Gen.unaryFunctions, finish]
            | cons a stk' =>
              simp only [Gen.evalLoop, Gen.evalStep, runPostfix, Gen.opName, Gen.unaryFunctions]
              simp only [show (["ISQRT"].contains "MIN") = false by decide, Bool.false_eq_true, if_false, Gen.evaluate, Gen.opResult,
                Py.min, evalFn2]
              simp only [show ("MIN" = "ADD") = False by decide, show ("MIN" = "SUB") = False by decide, show ("MIN" = "MUL") = False by decide,
                show ("MIN" = "EXP") = False by decide, show ("MIN" = "DIV") = False by decide, if_false, if_true]
              exact ih _
          | max =>
            cases stk with
            | nil => simp [Gen.evalLoop, Gen.evalStep, runPostfix, Gen.opName, Gen.unaryFunctions, finish]
            | cons a stk' =>
              simp only [Gen.evalLoop, Gen.evalStep, runPostfix, Gen.opName, Gen.unaryFunctions]
              simp only [show (["ISQRT"].contains "MAX") = false by decide, Bool.false_eq_true, if_false, Gen.evaluate, Gen.opResult,
                Py.max, evalFn2]
              simp only [show ("MAX" = "ADD") = False by decide, show ("MAX" = "SUB") = False by decide, show ("MAX" = "MUL") = False by decide,
                show ("MAX" = "EXP") = False by decide, show ("MAX" = "DIV") = False by decide, show ("MAX" = "MIN") = False by decide,
                if_false, if_true]
              exact ih _
        | bin bo =>
          cases stk with
          | nil => cases bo <;> simp [Gen.evalLoop, Gen.evalStep, runPostfix, Gen.opName, Gen.unaryFunctions, finish]
          | cons a stk' =>
            cases bo with
            | add =>
              simp [Gen.evalLoop, Gen.evalStep, runPostfix, Gen.opName, Gen.unaryFunctions, Gen.evaluate, Gen.opResult, Py.add, evalBin]
              exact ih _
            | sub =>
              simp [Gen.evalLoop, Gen.evalStep, runPostfix, Gen.opName, Gen.unaryFunctions, Gen.evaluate, Gen.opResult, Py.sub, evalBin]
              exact ih _
            | mul =>
              simp [Gen.evalLoop, Gen.evalStep, runPostfix, Gen.opName, Gen.unaryFunctions, Gen.evaluate, Gen.opResult, Py.mul, evalBin]
              exact ih _
            | exp =>
              simp only [Gen.evalLoop, Gen.evalStep, runPostfix, Gen.opName, Gen.unaryFunctions]
              simp [Gen.evaluate, Gen.opResult, Py.pow, Py.int, evalBin]
              by_cases hb : b < 0
              · simp [hb, finish]
              · simp only [hb, if_false]; exact ih _
            | div =>
              simp only [Gen.evalLoop, Gen.evalStep, runPostfix, Gen.opName, Gen.unaryFunctions]
              simp [Gen.evaluate, Gen.opResult, Py.floordiv, evalBin]
              by_cases hb : b = 0
              · simp [hb, finish]
              · simp only [hb, if_false]; exact ih _

/-- **`DLTypeDimensionExpression.evaluate` in the source IS the model's `DimExpr.evaluate`** -/
theorem evaluate_is_source (d : DimExpr) (σ : Scope) : Gen.evaluateDim d σ = d.evaluate σ := by
  unfold Gen.evaluateDim DimExpr.evaluate
  by_cases h1 : d.isAnonymous = true
  · simp [h1]
  · by_cases h2 : (d.isIdentifier && σ.has d.identifier) = true
    · simp only [h1, h2, Bool.false_eq_true, if_false, if_true]
      cases σ.get? d.identifier <;> rfl
    · simp only [h1, h2, Bool.false_eq_true, if_false]
      exact evalLoop_is_source d.post [] σ

open Dltype.Spec in
/-- **C05 about the source**: for every well-formed tree, the regenerated `evaluate`, run on what the (model) parser makes
    of the tree's string, returns a value exactly when the tree has an arithmetic value, and then that value -/
theorem source_evaluates_to_arithmetic_value (t : Tree) (hwf : t.WF = true) (σ : Scope) (v : Int) :
    (match parseDim t.str with
      | .ok d => some (Gen.evaluateDim d σ)
      | .error _ => none) = some (.val v) ↔ t.eval σ.get? = some v := by
  have := C05.string_evaluates_to_arithmetic_value t hwf σ v
  unfold evalString at this
  cases h : parseDim t.str with
  | error e => simp [h] at this ⊢; exact this
  | ok d => simp only [h, evaluate_is_source] at this ⊢; exact this

/-- **the derived flags of `DLTypeDimensionExpression.__init__` and its self-reference test in the source ARE the model's**
    (`Generated/DimFlags.lean`) -/
theorem dim_flags_are_source (d : DimExpr) :
    Gen.isLiteral d = d.isLiteral ∧ Gen.isIdentifier d = d.isIdentifier ∧ Gen.isExpression d = d.isExpression ∧
    Gen.selfRef d = d.selfRef := by
  refine ⟨rfl, rfl, rfl, rfl⟩

end Dltype.CoreEval
