import DltypeModel
import DltypeModel.Generated.Errors
import Properties.C08
/-!
# The translator tie for the messages of the error classes (C08: "whose message names the offending tensor, the axis index, expected and actual").

`Generated/Errors.lean` is regenerated on every run (`harness/translate_core.py: gen_errors`) from `_errors.py`: for the four classes whose
message is built from the facts of a report (shape, rank, duplicate, invalid reference) the `__init__` assignments — with their
`or "anonymous"` / `or "?"` defaults — are substituted into the f-string that `__str__` returns.  The theorems pin the format the harness
reads the facts from (`tensor=… dim=… expected=… actual=…`) and show that every such message carries the facts of the model's report.
(The messages of the dtype / unsupported-type / provider errors print library objects — dtypes, classes, the provider — and stay outside.)
-/
namespace Dltype.CoreErrors
open Dltype

/-- the text `str(e)` of the error raised for a report (none: the message prints library objects) -/
def message : Report → Option (List Char)
  | .shape t i e a => some (Gen.shapeMessage (Int.ofNat i) e a t)
  | .ndims t e a => some (Gen.ndimsMessage e (Int.ofNat a) t)
  | .duplicate t => some (Gen.duplicateMessage t)
  | .invalidRef t m refs => some (Gen.invalidRefMessage t m refs)
  | .dtype _ => none
  | .unsupported => none
  | .scopeProvider => none

/-- the tensor a report is about, as the message prints it (`tensor_name or "anonymous"` / `or "?"`; the duplicate error prints the name as it is) -/
def shownTensor : Report → List Char
  | .shape t _ _ _ => Gen.orText t "anonymous".toList
  | .ndims t _ _ => Gen.orText t "anonymous".toList
  | .duplicate t => t
  | .invalidRef t _ _ => Gen.orText t "?".toList
  | _ => []

/-- **the format of the shape error in the source** — the one the harness (`impl.show_report`, `_msg_ok`) and the dormant tests read -/
theorem shape_message_format (i e a : Int) (t : List Char) :
    Gen.shapeMessage i e a t = "Invalid tensor shape, tensor=".toList ++ Gen.orText t "anonymous".toList ++ " dim=".toList ++ Gen.fmtI i
      ++ " expected=".toList ++ Gen.fmtI e ++ " actual=".toList ++ Gen.fmtI a := rfl

theorem ndims_message_format (e a : Int) (t : List Char) :
    Gen.ndimsMessage e a t = "Invalid number of dimensions, tensor=".toList ++ Gen.orText t "anonymous".toList ++ " expected ndims=".toList
      ++ Gen.fmtI e ++ " actual=".toList ++ Gen.fmtI a := rfl

theorem duplicate_message_format (t : List Char) : Gen.duplicateMessage t = "Invalid duplicate tensor, tensor=".toList ++ t := rfl

/-- a name given to the error is printed as it is; only a missing name becomes `anonymous` -/
theorem orText_nonempty (t d : List Char) (h : t ≠ []) : Gen.orText t d = t := by
  unfold Gen.orText
  cases t with
  | nil => exact absurd rfl h
  | cons c cs => rfl

theorem split_shape : "Invalid tensor shape, tensor=".toList = "Invalid tensor shape, ".toList ++ "tensor=".toList := by decide
theorem split_ndims : "Invalid number of dimensions, tensor=".toList = "Invalid number of dimensions, ".toList ++ "tensor=".toList := by decide
theorem split_dup : "Invalid duplicate tensor, tensor=".toList = "Invalid duplicate tensor, ".toList ++ "tensor=".toList := by decide
theorem split_ref : "Invalid axis referenced before assignment tensor=".toList = "Invalid axis referenced before assignment ".toList ++ "tensor=".toList := by decide
theorem split_missing : " missing_ref=".toList = " ".toList ++ "missing_ref=".toList := by decide

/-- **every message that is built from a report names the tensor of that report**: `tensor=<name>` occurs in it -/
theorem message_names_the_tensor (r : Report) (m : List Char) (h : message r = some m) :
    ("tensor=".toList ++ shownTensor r) <:+: m := by
  cases r with
  | shape t i e a =>
    cases h
    refine ⟨"Invalid tensor shape, ".toList, " dim=".toList ++ Gen.fmtI (Int.ofNat i) ++ " expected=".toList ++ Gen.fmtI e ++ " actual=".toList ++ Gen.fmtI a, ?_⟩
    rw [shape_message_format, split_shape]
    simp only [shownTensor, List.append_assoc]
  | ndims t e a =>
    cases h
    refine ⟨"Invalid number of dimensions, ".toList, " expected ndims=".toList ++ Gen.fmtI e ++ " actual=".toList ++ Gen.fmtI (Int.ofNat a), ?_⟩
    rw [ndims_message_format, split_ndims]
    simp only [shownTensor, List.append_assoc]
  | duplicate t =>
    cases h
    refine ⟨"Invalid duplicate tensor, ".toList, [], ?_⟩
    rw [duplicate_message_format, split_dup]
    simp only [shownTensor, List.append_assoc, List.append_nil]
  | invalidRef t mr refs =>
    cases h
    refine ⟨"Invalid axis referenced before assignment ".toList, " missing_ref=".toList ++ Gen.orText mr "?".toList ++ " valid_refs=".toList
      ++ Gen.joinText ", ".toList (if refs.isEmpty then [] else refs), ?_⟩
    unfold Gen.invalidRefMessage
    rw [split_ref]
    simp only [shownTensor, List.append_assoc]
  | dtype t => cases h
  | unsupported => cases h
  | scopeProvider => cases h

/-- **the shape error ends with the axis index in the actual tensor and the expected and actual sizes of the report**, in that order -/
theorem shape_message_carries_the_facts (t : Name) (i : Nat) (e a : Int) (m : List Char) (h : message (.shape t i e a) = some m) :
    (" dim=".toList ++ Gen.fmtI (Int.ofNat i) ++ " expected=".toList ++ Gen.fmtI e ++ " actual=".toList ++ Gen.fmtI a) <:+ m := by
  cases h
  refine ⟨"Invalid tensor shape, tensor=".toList ++ Gen.orText t "anonymous".toList, ?_⟩
  rw [shape_message_format]
  simp only [List.append_assoc]

/-- … the rank error with the expected and the actual number of dimensions -/
theorem ndims_message_carries_the_facts (t : Name) (e : Int) (a : Nat) (m : List Char) (h : message (.ndims t e a) = some m) :
    (" expected ndims=".toList ++ Gen.fmtI e ++ " actual=".toList ++ Gen.fmtI (Int.ofNat a)) <:+ m := by
  cases h
  refine ⟨"Invalid number of dimensions, tensor=".toList ++ Gen.orText t "anonymous".toList, ?_⟩
  rw [ndims_message_format]
  simp only [List.append_assoc]

/-- … the invalid-reference error names the missing name -/
theorem invalidRef_message_names_the_missing_name (t mr : Name) (refs : List Name) (m : List Char) (h : message (.invalidRef t mr refs) = some m) :
    ("missing_ref=".toList ++ Gen.orText mr "?".toList) <:+: m := by
  cases h
  refine ⟨"Invalid axis referenced before assignment tensor=".toList ++ Gen.orText t "?".toList ++ " ".toList,
    " valid_refs=".toList ++ Gen.joinText ", ".toList (if refs.isEmpty then [] else refs), ?_⟩
  unfold Gen.invalidRefMessage
  rw [split_missing]
  simp only [List.append_assoc]

/-! ## which tensor a report is about -/

/-- the tensor name a report carries -/
def tensorOf : Report → Option Name
  | .shape t _ _ _ => some t
  | .ndims t _ _ => some t
  | .dtype t => some t
  | .duplicate t => some t
  | .invalidRef t _ _ => some t
  | .unsupported => none
  | .scopeProvider => none

theorem checkLiterals_names (tn : Name) (ann : Ann) (shape : List Nat) (l : List (Nat × Int)) (r : Report)
    (h : checkLiterals tn ann shape l = .error r) : tensorOf r = some tn := by
  induction l with
  | nil => cases h
  | cons x rest ih =>
    obtain ⟨idx, lit⟩ := x
    simp only [checkLiterals] at h
    split at h
    · cases h
    · split at h
      · cases h; rfl
      · exact ih h

/-- the standalone check names the tensor it was asked about -/
theorem check_names (acc : Acc) (ann : Ann) (t : Tensor) (tn : Name) (r : Report) (h : check acc ann t tn = .error r) :
    tensorOf r = some tn := by
  unfold check at h
  cases hr : rankCheck ann t.shape tn with
  | error r' =>
    rw [hr] at h
    cases h
    unfold rankCheck at hr
    split at hr <;> split at hr <;> first | (cases hr; rfl) | cases hr
  | ok u =>
    rw [hr] at h
    simp only at h
    split at h
    · cases h; rfl
    · exact checkLiterals_names tn ann t.shape ann.literalDims r h

/-- **every rejection of a context names the tensor that was rejected** — the display name (`name`, `name[i]` for tuple element
    i > 0) of the FIRST entry that fails (C08a): the report's tensor is that entry's display name, and, for the four kinds of message
    built from the report, `tensor=<that name>` is what the user reads -/
theorem rejection_names_the_rejected_tensor (acc : Acc) (st : CState) (es : List Entry) (r : Report)
    (h : runEntries acc st es = .reject r) :
    ∃ pre e post st1, es = pre ++ e :: post ∧ runEntries acc st pre = .ok st1 ∧ tensorOf r = some e.displayName := by
  obtain ⟨pre, e, post, st1, h1, h2, h3⟩ := C08.rejection_is_first_failure acc st es r h
  refine ⟨pre, e, post, st1, h1, h2, ?_⟩
  rcases C08.report_kind_matches_aspect acc st1 e r h3 with hc | ⟨hd, _⟩ | ha | ⟨g, b, _, hn, _⟩
  · exact check_names acc e.ann e.tensor e.displayName r hc
  · rw [hd]; rfl
  · obtain ⟨j, dj, aj, σj, _, _, _, h4⟩ := C08.axis_report_is_true e.displayName _ _ _ r ha
    rcases h4 with ⟨v, hv, _⟩ | ⟨k, hk, _⟩
    · rw [hv]; rfl
    · rw [hk]; rfl
  · rw [hn]; rfl

example : Gen.shapeMessage 1 3 4 "x".toList = "Invalid tensor shape, tensor=x dim=1 expected=3 actual=4".toList := by decide
example : Gen.ndimsMessage 2 1 [] = "Invalid number of dimensions, tensor=anonymous expected ndims=2 actual=1".toList := by decide
example : Gen.invalidRefMessage "y".toList "b".toList ["a".toList, "c".toList] =
    "Invalid axis referenced before assignment tensor=y missing_ref=b valid_refs=a, c".toList := by decide

end Dltype.CoreErrors
