import DltypeModel
import DltypeModel.Generated.Errors
/-!
# The translator tie for the messages of the error classes (C08: "whose message names the offending tensor, the axis index, expected and actual").

`Generated/Errors.lean` is regenerated on every run (`harness/translate_core.py: gen_errors`) from `_errors.py`: for the four classes whose
message is built from the facts of a report (shape, rank, duplicate, invalid reference) the `__init__` assignments — with their
`or "anonymous"` / `or "?"` defaults — are substituted into the f-string that `__str__` returns.  The theorems pin the format the harness
reads the facts from (`tensor=… dim=… expected=… actual=…`) and show that every such message carries the facts of the model's report.
(The messages of the dtype / unsupported-type / provider errors print library objects — dtypes, classes, the provider — and stay outside.)
-/
namespace Dltype.CoreErrors
open Dltype

/-- the text `str(e)` of the error raised for a report (none: the message prints library objects) -/
def message : Report → Option (List Char)
  | .shape t i e a => some (Gen.shapeMessage (Int.ofNat i) e a t)
  | .ndims t e a => some (Gen.ndimsMessage e (Int.ofNat a) t)
  | .duplicate t => some (Gen.duplicateMessage t)
  | .invalidRef t m refs => some (Gen.invalidRefMessage t m refs)
  | .dtype _ => none
  | .unsupported => none
  | .scopeProvider => none

/-- the tensor a report is about, as the message prints it (`tensor_name or "anonymous"` / `or "?"`; the duplicate error prints the name as it is) -/
def shownTensor : Report → List Char
  | .shape t _ _ _ => Gen.orText t "anonymous".toList
  | .ndims t _ _ => Gen.orText t "anonymous".toList
  | .duplicate t => t
  | .invalidRef t _ _ => Gen.orText t "?".toList
  | _ => []

/-- **the format of the shape error in the source** — the one the harness (`impl.show_report`, `_msg_ok`) and the dormant tests read -/
theorem shape_message_format (i e a : Int) (t : List Char) :
    Gen.shapeMessage i e a t = "Invalid tensor shape, tensor=".toList ++ Gen.orText t "anonymous".toList ++ " dim=".toList ++ Gen.fmtI i
      ++ " expected=".toList ++ Gen.fmtI e ++ " actual=".toList ++ Gen.fmtI a := rfl

theorem ndims_message_format (e a : Int) (t : List Char) :
    Gen.ndimsMessage e a t = "Invalid number of dimensions, tensor=".toList ++ Gen.orText t "anonymous".toList ++ " expected ndims=".toList
      ++ Gen.fmtI e ++ " actual=".toList ++ Gen.fmtI a := rfl

theorem duplicate_message_format (t : List Char) : Gen.duplicateMessage t = "Invalid duplicate tensor, tensor=".toList ++ t := rfl

/-- a name given to the error is printed as it is; only a missing name becomes `anonymous` -/
theorem orText_nonempty (t d : List Char) (h : t ≠ []) : Gen.orText t d = t := by
  unfold Gen.orText
  cases t with
  | nil => exact absurd rfl h
  | cons c cs => rfl

theorem split_shape : "Invalid tensor shape, tensor=".toList = "Invalid tensor shape, ".toList ++ "tensor=".toList := by decide
theorem split_ndims : "Invalid number of dimensions, tensor=".toList = "Invalid number of dimensions, ".toList ++ "tensor=".toList := by decide
theorem split_dup : "Invalid duplicate tensor, tensor=".toList = "Invalid duplicate tensor, ".toList ++ "tensor=".toList := by decide
theorem split_ref : "Invalid axis referenced before assignment tensor=".toList = "Invalid axis referenced before assignment ".toList ++ "tensor=".toList := by decide
theorem split_missing : " missing_ref=".toList = " ".toList ++ "missing_ref=".toList := by decide

/-- **every message that is built from a report names the tensor of that report**: `tensor=<name>` occurs in it -/
theorem message_names_the_tensor (r : Report) (m : List Char) (h : message r = some m) :
    ("tensor=".toList ++ shownTensor r) <:+: m := by
  cases r with
  | shape t i e a =>
    cases h
    refine ⟨"Invalid tensor shape, ".toList, " dim=".toList ++ Gen.fmtI (Int.ofNat i) ++ " expected=".toList ++ Gen.fmtI e ++ " actual=".toList ++ Gen.fmtI a, ?_⟩
    rw [shape_message_format, split_shape]
    simp only [shownTensor, List.append_assoc]
  | ndims t e a =>
    cases h
    refine ⟨"Invalid number of dimensions, ".toList, " expected ndims=".toList ++ Gen.fmtI e ++ " actual=".toList ++ Gen.fmtI (Int.ofNat a), ?_⟩
    rw [ndims_message_format, split_ndims]
    simp only [shownTensor, List.append_assoc]
  | duplicate t =>
    cases h
    refine ⟨"Invalid duplicate tensor, ".toList, [], ?_⟩
    rw [duplicate_message_format, split_dup]
    simp only [shownTensor, List.append_assoc, List.append_nil]
  | invalidRef t mr refs =>
    cases h
    refine ⟨"Invalid axis referenced before assignment ".toList, " missing_ref=".toList ++ Gen.orText mr "?".toList ++ " valid_refs=".toList
      ++ Gen.joinText ", ".toList (if refs.isEmpty then [] else refs), ?_⟩
    unfold Gen.invalidRefMessage
    rw [split_ref]
    simp only [shownTensor, List.append_assoc]
  | dtype t => cases h
  | unsupported => cases h
  | scopeProvider => cases h

/-- **the shape error ends with the axis index in the actual tensor and the expected and actual sizes of the report**, in that order -/
theorem shape_message_carries_the_facts (t : Name) (i : Nat) (e a : Int) (m : List Char) (h : message (.shape t i e a) = some m) :
    (" dim=".toList ++ Gen.fmtI (Int.ofNat i) ++ " expected=".toList ++ Gen.fmtI e ++ " actual=".toList ++ Gen.fmtI a) <:+ m := by
  cases h
  refine ⟨"Invalid tensor shape, tensor=".toList ++ Gen.orText t "anonymous".toList, ?_⟩
  rw [shape_message_format]
  simp only [List.append_assoc]

/-- … the rank error with the expected and the actual number of dimensions -/
theorem ndims_message_carries_the_facts (t : Name) (e : Int) (a : Nat) (m : List Char) (h : message (.ndims t e a) = some m) :
    (" expected ndims=".toList ++ Gen.fmtI e ++ " actual=".toList ++ Gen.fmtI (Int.ofNat a)) <:+ m := by
  cases h
  refine ⟨"Invalid number of dimensions, tensor=".toList ++ Gen.orText t "anonymous".toList, ?_⟩
  rw [ndims_message_format]
  simp only [List.append_assoc]

/-- … the invalid-reference error names the missing name -/
theorem invalidRef_message_names_the_missing_name (t mr : Name) (refs : List Name) (m : List Char) (h : message (.invalidRef t mr refs) = some m) :
    ("missing_ref=".toList ++ Gen.orText mr "?".toList) <:+: m := by
  cases h
  refine ⟨"Invalid axis referenced before assignment tensor=".toList ++ Gen.orText t "?".toList ++ " ".toList,
    " valid_refs=".toList ++ Gen.joinText ", ".toList (if refs.isEmpty then [] else refs), ?_⟩
  unfold Gen.invalidRefMessage
  rw [split_missing]
  simp only [List.append_assoc]

example : Gen.shapeMessage 1 3 4 "x".toList = "Invalid tensor shape, tensor=x dim=1 expected=3 actual=4".toList := by decide
example : Gen.ndimsMessage 2 1 [] = "Invalid number of dimensions, tensor=anonymous expected ndims=2 actual=1".toList := by decide
example : Gen.invalidRefMessage "y".toList "b".toList ["a".toList, "c".toList] =
    "Invalid axis referenced before assignment tensor=y missing_ref=b valid_refs=a, c".toList := by decide

end Dltype.CoreErrors
