import DltypeModel
namespace Dltype.Tables
open Dltype

/-- the precedence table of the source is the model's -/
theorem prec_table :
    Gen.opPrecedence = [("ADD", BinOp.add.prec), ("SUB", BinOp.sub.prec), ("MUL", BinOp.mul.prec),
      ("DIV", BinOp.div.prec), ("EXP", BinOp.exp.prec), ("MIN", Fn.min.prec), ("MAX", Fn.max.prec),
      ("ISQRT", Fn.isqrt.prec), ("LPAREN", lparenPrec)] := by decide

/-- operators with equal precedence are popped (left association): `>=` in `_flush_op_by_precedence` -/
theorem flush_comparison :
    Gen.flushComparison = ("GtE", "_op_precedence.get(stack[-1], 0)", "_op_precedence.get(current_op, 0)") := by decide

theorem operator_sets :
    Gen.unaryFunctions = ["ISQRT"] ∧ Gen.binaryFunctions = ["MAX", "MIN"] ∧
    Gen.functionalOperators = ["ISQRT", "MAX", "MIN"] ∧
    Gen.infixOperators = ["ADD", "DIV", "EXP", "MUL", "SUB"] := by decide

theorem operator_symbols :
    Gen.operatorEnum = [("ADD", BinOp.add.sym), ("SUB", BinOp.sub.sym), ("MUL", BinOp.mul.sym),
      ("EXP", BinOp.exp.sym), ("DIV", BinOp.div.sym), ("MIN", Fn.min.sym), ("MAX", Fn.max.sym),
      ("ISQRT", Fn.isqrt.sym)] ∧
    Gen.groupEnum = [("LPAREN", "("), ("RPAREN", ")"), ("COMMA", ",")] ∧
    Gen.specifierEnum = [("EQUALS", "=")] ∧
    Gen.modifierEnum = [("ANONYMOUS_MULTIAXIS", "..."), ("NAMED_MULTIAXIS", "*")] := by decide

/-- the identifier pattern of the source is the one `isIdent` models -/
theorem identifier_pattern : Gen.identifierPattern = "^[a-zA-Z][a-zA-Z0-9\\_]*$" := by decide

/-- the source's operator bodies, rendered by the translator, are the model's operator semantics -/
theorem evaluate_is_model (a b : Int) :
    Gen.evaluate "ADD" a b = some (evalBin .add a b) ∧
    Gen.evaluate "SUB" a b = some (evalBin .sub a b) ∧
    Gen.evaluate "MUL" a b = some (evalBin .mul a b) ∧
    Gen.evaluate "EXP" a b = some (evalBin .exp a b) ∧
    Gen.evaluate "DIV" a b = some (evalBin .div a b) ∧
    Gen.evaluate "MIN" a b = some (evalFn2 .min a b) ∧
    Gen.evaluate "MAX" a b = some (evalFn2 .max a b) ∧
    Gen.evaluate "ISQRT" a b = none := by
  refine ⟨?_, ?_, ?_, ?_, ?_, ?_, ?_, ?_⟩ <;> rfl

theorem evaluate_unary_is_model (a : Int) :
    Gen.evaluateUnary "ISQRT" a = some (evalIsqrt a) ∧ Gen.evaluateUnary "MIN" a = none := by
  constructor <;> rfl

end Dltype.Tables
