import DltypeModel
import Spec.Config
namespace Dltype.C20
open Dltype

/-- import succeeds exactly when numpy or torch is importable, otherwise ImportError (both in
    `_dtypes.py` and in `__init__.py`) -/
theorem import_outcome :
    allEnvs.all (fun e =>
      ((firstBranch e Gen.dtypesChain == some none) == (!e.np && !e.torch)) &&
      ((firstBranch e Gen.initChain == some none) == (!e.np && !e.torch)) &&
      ((!e.np && !e.torch) == Gen.missingDependencyIsImportError.eval e)) = true := by decide

/-- the supported array types are exactly those of the importable libraries -/
theorem supported_types :
    allEnvs.all (fun e => !(Spec.realisable e && (e.np || e.torch)) ||
      firstBranch e Gen.dtypesChain == some (some (Spec.supportedTypes e))) = true := by decide

/-- which module the exported classes come from; BFloat16Tensor is None exactly without torch -/
theorem exports :
    allEnvs.all (fun e => !(e.np || e.torch) ||
      (match firstBranch e Gen.initChain with
       | some (some (m, classes, nones)) =>
         (m == (if e.np && e.torch then "_universal_tensors" else if e.torch then "_torch_tensors" else "_numpy_tensors")) &&
         ((classes ++ nones).length == Spec.tensorClasses.length && Spec.tensorClasses.all (classes ++ nones).contains) &&
         (nones == (if e.torch then [] else ["BFloat16Tensor"]))
       | _ => false)) = true := by decide

/-- with numpy and torch every exported class carries exactly torch's dtypes followed by numpy's -/
theorem universal_dtypes_are_union :
    let e : Env := ⟨true, true, true⟩
    Spec.tensorClasses.all (fun c =>
      match classDtypes e "_universal_tensors" c, classDtypes e "_torch_tensors" c with
      | some u, some t => u == t ++ (classDtypes e "_numpy_tensors" c).getD []
      | _, _ => false) = true := by decide

end Dltype.C20
