import DltypeModel.Generated.SrcLogs
/-!
# Provenance: the functions of group Logs are, statement for statement, the ones the hand-written model was written against
(written by `harness/provenance.py --snapshot`; re-run it only after the model has been brought up to date with an intended change of the source).
-/
namespace Dltype.Prov

theorem logs_is_the_modelled_source : Gen.Src.srcLogs = [
  ("class DummyLogger", [""]),
  ("DummyLogger.debug", ["def(self, *args)", "pass"]),
  ("DummyLogger.info", ["def(self, *args)", "pass"]),
  ("DummyLogger.warning", ["def(self, *args)", "pass"]),
  ("DummyLogger.error", ["def(self, *args)", "pass"]),
  ("DummyLogger.exception", ["def(self, *args)", "pass"]),
  ("get_logger", ["def(name)", "if _constants.GLOBAL_DISABLE:\n    return DummyLogger()", "if not _constants.DEBUG_MODE:\n    return DummyLogger()", "return logging.getLogger(name)"])] := by
  rfl

end Dltype.Prov
