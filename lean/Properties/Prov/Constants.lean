import DltypeModel.Generated.SrcConstants
/-!
# Provenance: the functions of group Constants are, statement for statement, the ones the hand-written model was written against
(written by `harness/provenance.py --snapshot`; re-run it only after the model has been brought up to date with an intended change of the source).
-/
namespace Dltype.Prov

theorem constants_is_the_modelled_source : Gen.Src.srcConstants = [
  ("class _Env", ["BaseSettings"]),
  ("@__env", ["_Env()"]),
  ("@PYDANTIC_INFO_KEY", ["'__dltype__'"]),
  ("@DEBUG_MODE", ["__env.DEBUG_MODE"]),
  ("@MAX_ACCEPTABLE_EVALUATION_TIME_NS", ["int(5000000000.0)"]),
  ("@GLOBAL_DISABLE", ["__env.DISABLE"])] := by
  rfl

end Dltype.Prov
