import DltypeModel.Generated.SrcExpand
/-!
# Provenance: the functions of group Expand are, statement for statement, the ones the hand-written model was written against
(written by `harness/provenance.py --snapshot`; re-run it only after the model has been brought up to date with an intended change of the source).
-/
namespace Dltype.Prov

theorem expand_is_the_modelled_source : Gen.Src.srcExpand = [
  ("_ConcreteType.tensor_arg_name", ["def(self) @property", "return f'{self.tensor_arg_name_orig}[{self.arg_index}]' if self.arg_index > 0 else self.tensor_arg_name_orig"]),
  ("_ConcreteType.get_expected_shape", ["def(self, tensor)", "expected_shape = list(self.dltype_annotation.expected_shape)", "if self.dltype_annotation.multiaxis_index is not None:\n    actual_shape = tensor.shape\n    multi_axis_offset = len(actual_shape) - len(expected_shape) + 1\n    expected_shape.pop(self.dltype_annotation.multiaxis_index)\n    for i in range(multi_axis_offset):\n        expected_shape.insert(self.dltype_annotation.multiaxis_index + i, _parser.DLTypeDimensionExpression.from_multiaxis_literal(f'{self.dltype_annotation.multiaxis_name}[{i}]', actual_shape[self.dltype_annotation.multiaxis_index + i], is_anonymous=self.dltype_annotation.anonymous_multiaxis))", "return tuple(expected_shape)"]),
  ("DLTypeContext.__init__", ["def(self)", "self._hinted_tensors = deque()", "self.tensor_shape_map = {}", "self.registered_tensor_dtypes = {}"])] := by
  rfl

end Dltype.Prov
