import DltypeModel.Generated.SrcExpand
/-!
# Provenance: the functions of group Expand are, statement for statement, the ones the hand-written model was written against
(written by `harness/provenance.py --snapshot`; re-run it only after the model has been brought up to date with an intended change of the source).
-/
namespace Dltype.Prov

theorem expand_is_the_modelled_source : Gen.Src.srcExpand = [
  ("_ConcreteType.tensor_arg_name", ["def(self) @property", "return f'{self.tensor_arg_name_orig}[{self.arg_index}]' if self.arg_index > 0 else self.tensor_arg_name_orig"]),
  ("DLTypeContext.__init__", ["def(self)", "self._hinted_tensors = deque()", "self.tensor_shape_map = {}", "self.registered_tensor_dtypes = {}"])] := by
  rfl

end Dltype.Prov
