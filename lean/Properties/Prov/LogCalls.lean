import DltypeModel.Generated.SrcLogCalls
/-!
# Provenance: the functions of group LogCalls are, statement for statement, the ones the hand-written model was written against
(written by `harness/provenance.py --snapshot`; re-run it only after the model has been brought up to date with an intended change of the source).
-/
namespace Dltype.Prov

theorem logcalls_is_the_modelled_source : Gen.Src.srcLogCalls = [
  ("_dltype_context.py", ["_logger.debug('Replacing multiaxis dimension %r with actual shape %r', self.dltype_annotation.multiaxis_index, tensor.shape)", "_logger.debug('Context evaluation took %d ns', runtime_ns)", "_logger.debug('Checking dimension %r with scope=%s', dimension_expression, self.tensor_shape_map)", "_logger.debug('Skipping literal dimension %r (%s)', dimension_expression, self.tensor_shape_map)", "_logger.debug('establishing %r with %r', dimension_expression.identifier, actual_shape[dim_idx])"]),
  ("_core.py", ["_logger.debug('Creating DLType from hint %r', hint)", "_logger.warning('Invalid annotated dltype hint: %r', args[1:] if len(args) >= n_expected_args else None)", "_logger.warning('dltype_hints=%r', dltype_hints)", "_logger.debug('Using self as scope provider %s', ctx.tensor_shape_map)", "_logger.debug('Using unbound scope provider %s', ctx.tensor_shape_map)", "_logger.debug('No DLType hint for %r', name)"]),
  ("_parser.py", ["_logger.debug('Parsing infix expression %r', expression)", "_logger.debug('Parsed infix expression %r to postfix %r', identifier, postfix)", "_logger.debug('Created new %s dimension expression %r', 'multiaxis' if self.is_multiaxis_literal else '', self)", "_logger.debug('Evaluating expression %s with scope %s', self, scope)", "_logger.debug('Evaluated expression %r to %r', self, stack[0])"]),
  ("_tensor_type_base.py", [])] := by
  rfl

end Dltype.Prov
