import DltypeModel.Generated.SrcHints
/-!
# Provenance: the functions of group Hints are, statement for statement, the ones the hand-written model was written against
(written by `harness/provenance.py --snapshot`; re-run it only after the model has been brought up to date with an intended change of the source).
-/
namespace Dltype.Prov

theorem hints_is_the_modelled_source : Gen.Src.srcHints = [
  ("_resolve_types", ["def(annotations) @lru_cache()", "if annotations is None or all((ann is None for ann in annotations)):\n    return None", "return tuple((ann.dltype_annotation if ann is not None else None for ann in annotations))"]),
  ("_resolve_value", ["def(value, type_hint)", "return value if isinstance(type_hint, _TupleHint) else (value,)"]),
  ("_maybe_get_type_hints", ["def(existing_hints, func)", "if existing_hints is not None:\n    return existing_hints", "try:\n    return {name: DLTypeAnnotation.from_hint(hint, name) for name, hint in get_type_hints(func, include_extras=True).items()}\nexcept NameError:\n    return None"]),
  ("_maybe_get_signature", ["def(existing, func) @lru_cache()", "if existing is not None:\n    return existing", "try:\n    return inspect.signature(func)\nexcept TypeError:\n    return None"])] := by
  rfl

end Dltype.Prov
