import DltypeModel.Generated.SrcHints
/-!
# Provenance: the functions of group Hints are, statement for statement, the ones the hand-written model was written against
(written by `harness/provenance.py --snapshot`; re-run it only after the model has been brought up to date with an intended change of the source).
-/
namespace Dltype.Prov

theorem hints_is_the_modelled_source : Gen.Src.srcHints = [
  ("DLTypeAnnotation.from_hint", ["def(cls, hint, name, *, optional=False) @classmethod", "if hint is None:\n    warnings.warn(f'[{name}] is missing a DLType hint', category=UserWarning, stacklevel=3)\n    return (None,)", "n_expected_args = len(cls._fields)", "origin = get_origin(hint)", "args = get_args(hint)", "if origin is Union:\n    non_none_types = [t for t in args if t not in {type(None), None}]\n    if len(non_none_types) != 1:\n        msg = f'Only Optional tensor types are supported, not general Union types. Got: {hint}'\n        raise TypeError(msg)\n    return cls.from_hint(non_none_types[0], name, optional=True)", "if origin is tuple:\n    return _TupleHint(itertools.chain(*[cls.from_hint(inner_hint, name) for inner_hint in args]))", "if origin is not Annotated:\n    return (None,)", "if len(args) < n_expected_args or not isinstance(args[1], _tensor_type_base.TensorTypeBase):\n    return (None,)", "tensor_type, dltype_hint = (_tensor_type_base.unwrap_type_alias(args[0]), args[1])", "if not any((T in tensor_type.mro() for T in _dtypes.SUPPORTED_TENSOR_TYPES)):\n    msg = f'Invalid base type=<{tensor_type}> in DLType hint, expected a subtype of {_dtypes.SUPPORTED_TENSOR_TYPES}'\n    raise TypeError(msg)", "if dltype_hint.optional != optional:\n    dltype_hint = copy.copy(dltype_hint)\n    dltype_hint.optional = optional", "return (cls(tensor_type_hint=tensor_type, dltype_annotation=dltype_hint),)"]),
  ("_resolve_types", ["def(annotations) @lru_cache()", "if annotations is None or all((ann is None for ann in annotations)):\n    return None", "return tuple((ann.dltype_annotation if ann is not None else None for ann in annotations))"]),
  ("_resolve_value", ["def(value, type_hint)", "return value if isinstance(type_hint, _TupleHint) else (value,)"]),
  ("_maybe_get_type_hints", ["def(existing_hints, func)", "if existing_hints is not None:\n    return existing_hints", "try:\n    return {name: DLTypeAnnotation.from_hint(hint, name) for name, hint in get_type_hints(func, include_extras=True).items()}\nexcept NameError:\n    return None"]),
  ("_maybe_get_signature", ["def(existing, func) @lru_cache()", "if existing is not None:\n    return existing", "try:\n    return inspect.signature(func)\nexcept TypeError:\n    return None"])] := by
  rfl

end Dltype.Prov
