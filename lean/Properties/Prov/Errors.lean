import DltypeModel.Generated.SrcErrors
/-!
# Provenance: the functions of group Errors are, statement for statement, the ones the hand-written model was written against
(written by `harness/provenance.py --snapshot`; re-run it only after the model has been brought up to date with an intended change of the source).
-/
namespace Dltype.Prov

theorem errors_is_the_modelled_source : Gen.Src.srcErrors = [
  ("class DLTypeError", ["TypeError, ABC"]),
  ("class DLTypeUnsupportedTensorTypeError", ["DLTypeError"]),
  ("class DLTypeShapeError", ["DLTypeError"]),
  ("class DLTypeNDimsError", ["DLTypeError"]),
  ("class DLTypeDtypeError", ["DLTypeError"]),
  ("class DLTypeDuplicateError", ["DLTypeError"]),
  ("class DLTypeInvalidReferenceError", ["DLTypeError"]),
  ("class DLTypeScopeProviderError", ["DLTypeError"]),
  ("DLTypeError.__init__", ["def(self, error_ctx)", "self._ctx = error_ctx", "super().__init__()"]),
  ("DLTypeError.set_context", ["def(self, error_ctx)", "self._ctx = error_ctx"]),
  ("DLTypeError.__str__", ["def(self) @abstractmethod", "if self._ctx is not None:\n    return f'[{self._ctx}] {self!s}'", "return super().__str__()"]),
  ("DLTypeUnsupportedTensorTypeError.__init__", ["def(self, actual_type)", "self._actual = actual_type"]),
  ("DLTypeUnsupportedTensorTypeError.__str__", ["def(self)", "return f'Invalid tensor type, expected one of {SUPPORTED_TENSOR_TYPES}, actual={self._actual}'"]),
  ("DLTypeShapeError.__init__", ["def(self, index, expected_shape, actual, tensor_name, error_ctx=None)", "self._tensor_name = tensor_name or 'anonymous'", "self._index = index", "self._expected = expected_shape", "self._actual = actual", "super().__init__(error_ctx=error_ctx)"]),
  ("DLTypeShapeError.__str__", ["def(self)", "return f'Invalid tensor shape, tensor={self._tensor_name} dim={self._index} expected={self._expected} actual={self._actual}'"]),
  ("DLTypeNDimsError.__init__", ["def(self, expected, actual, tensor_name, error_ctx=None)", "self._tensor_name = tensor_name or 'anonymous'", "self._expected = expected", "self._actual = actual", "super().__init__(error_ctx=error_ctx)"]),
  ("DLTypeNDimsError.__str__", ["def(self)", "return f'Invalid number of dimensions, tensor={self._tensor_name} expected ndims={self._expected} actual={self._actual}'"]),
  ("DLTypeDtypeError.__init__", ["def(self, tensor_name, expected, received, error_ctx=None)", "self._tensor_name = tensor_name or 'anonymous'", "self._expected = expected or set()", "self._received = received or set()", "super().__init__(error_ctx=error_ctx)"]),
  ("DLTypeDtypeError.__str__", ["def(self)", "expected = ','.join(sorted(map(str, self._expected)))", "received = ','.join(sorted(map(str, self._received)))", "return f'Invalid dtype, tensor={self._tensor_name} expected one of ({expected}) got={received}'"]),
  ("DLTypeDuplicateError.__init__", ["def(self, tensor_name, error_ctx=None)", "self._tensor_name = tensor_name", "super().__init__(error_ctx=error_ctx)"]),
  ("DLTypeDuplicateError.__str__", ["def(self)", "return f'Invalid duplicate tensor, tensor={self._tensor_name}'"]),
  ("DLTypeInvalidReferenceError.__init__", ["def(self, tensor_name, missing_ref, current_context, error_ctx=None)", "self._tensor_name = tensor_name or '?'", "self._missing_ref = missing_ref or '?'", "self._context = current_context or {}", "super().__init__(error_ctx=error_ctx)"]),
  ("DLTypeInvalidReferenceError.__str__", ["def(self)", "context = ', '.join(self._context.keys())", "return f'Invalid axis referenced before assignment tensor={self._tensor_name} missing_ref={self._missing_ref} valid_refs={context}'"]),
  ("DLTypeScopeProviderError.__init__", ["def(self, bad_scope_provider, error_ctx=None)", "self._bad_scope_provider = bad_scope_provider", "super().__init__(error_ctx=error_ctx)"]),
  ("DLTypeScopeProviderError.__str__", ["def(self)", "return f\"Invalid scope provider {self._bad_scope_provider}, expected 'self' or a DLTypeScopeProvider\""])] := by
  rfl

end Dltype.Prov
