import DltypeModel.Generated.SrcDeps
/-!
# Provenance: the functions of group Deps are, statement for statement, the ones the hand-written model was written against
(written by `harness/provenance.py --snapshot`; re-run it only after the model has been brought up to date with an intended change of the source).
-/
namespace Dltype.Prov

theorem deps_is_the_modelled_source : Gen.Src.srcDeps = [
  ("@Ret", ["typing.TypeVar('Ret')"]),
  ("@P", ["typing.ParamSpec('P')"]),
  ("_empty_wrapper", ["def(fn)", "return fn"]),
  ("is_torch_available", ["def() @cache", "return torch is not None"]),
  ("is_numpy_available", ["def() @cache", "return np is not None"]),
  ("is_jax_available", ["def() @cache", "return jax is not None"]),
  ("is_np_float128_available", ["def() @cache", "float_128_available = False", "if is_numpy_available():\n    try:\n        _ = np.float128\n        float_128_available = True\n    except AttributeError:\n        pass", "return float_128_available"]),
  ("is_np_longdouble_available", ["def() @cache", "longdouble_available = False", "if is_numpy_available():\n    try:\n        _ = np.longdouble\n        longdouble_available = True\n    except AttributeError:\n        pass", "return longdouble_available"]),
  ("raise_for_missing_dependency", ["def()", "if not is_torch_available() and (not is_numpy_available()):\n    msg = 'Neither torch nor numpy is available. Please install one of them to use dltype.'\n    raise ImportError(msg)", "msg = 'Improper use of raise_for_missing_dependency, should only be called when both dependencies are missing.'", "raise AssertionError(msg)"]),
  ("is_torch_scripting", ["def()", "if not is_torch_available():\n    return False", "return torch.jit.is_scripting()"])] := by
  rfl

end Dltype.Prov
