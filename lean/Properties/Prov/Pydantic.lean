import DltypeModel.Generated.SrcPydantic
/-!
# Provenance: the functions of group Pydantic are, statement for statement, the ones the hand-written model was written against
(written by `harness/provenance.py --snapshot`; re-run it only after the model has been brought up to date with an intended change of the source).
-/
namespace Dltype.Prov

theorem pydantic_is_the_modelled_source : Gen.Src.srcPydantic = [
  ("TensorTypeBase.__get_pydantic_core_schema__", ["def(self, source_type, handler)", "'<validate_tensor: compiled by translate_core.py>'", "source_type = unwrap_type_alias(source_type)", "if _deps.is_numpy_available() and typing.get_origin(source_type) is np.ndarray:\n    dtypes = _resolve_numpy_dtype(source_type)\n    if self.DTYPES and any((dtype not in self.DTYPES for dtype in dtypes)):\n        raise _errors.DLTypeDtypeError(tensor_name=handler.field_name, expected=self.DTYPES, received=dtypes)\n    source_type = np.ndarray", "return core_schema.with_info_after_validator_function(validate_tensor, schema=core_schema.is_instance_schema(source_type), field_name=handler.field_name)"]),
  ("unwrap_type_alias", ["def(tp)", "origin = typing.get_origin(tp)", "if origin is not None and hasattr(origin, '__value__'):\n    return origin.__value__[typing.get_args(tp)]", "return getattr(tp, '__value__', tp)"]),
  ("_resolve_numpy_dtype", ["def(np_array_t)", "maybe_dtype_arg = typing.get_args(np_array_t)[1]", "maybe_dtype = typing.get_args(maybe_dtype_arg)", "return [dtype for maybe_union in maybe_dtype for dtype in typing.get_args(maybe_union) or [maybe_union]]"])] := by
  rfl

end Dltype.Prov
