import DltypeModel.Generated.SrcShape
/-!
# Provenance: the functions of group Shape are, statement for statement, the ones the hand-written model was written against
(written by `harness/provenance.py --snapshot`; re-run it only after the model has been brought up to date with an intended change of the source).
-/
namespace Dltype.Prov

theorem shape_is_the_modelled_source : Gen.Src.srcShape = [
  ("TensorTypeBase.__class_getitem__", ["def(cls, shape_string) @classmethod", "return cls(shape_string if isinstance(shape_string, str | None) else str(shape_string))"])] := by
  rfl

end Dltype.Prov
