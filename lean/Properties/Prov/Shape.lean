import DltypeModel.Generated.SrcShape
/-!
# Provenance: the functions of group Shape are, statement for statement, the ones the hand-written model was written against
(written by `harness/provenance.py --snapshot`; re-run it only after the model has been brought up to date with an intended change of the source).
-/
namespace Dltype.Prov

theorem shape_is_the_modelled_source : Gen.Src.srcShape = [
  ("TensorTypeBase.__init__", ["def(self, shape, *, optional=False)", "self.multiaxis_index = None", "self.anonymous_multiaxis = False", "self.multiaxis_name = None", "self.optional = optional", "self.expected_shape = self._parse_shape_string(shape)", "self._literal_dims = tuple(((idx, dim.evaluate({})) for idx, dim in enumerate(self.expected_shape) if dim.is_literal and idx != self.multiaxis_index))"]),
  ("TensorTypeBase._parse_shape_string", ["def(self, shape_string)", "if shape_string is None:\n    return ()", "split_shape = shape_string.split()", "if not split_shape:\n    msg = f'Invalid shape shape_string={shape_string!r}'\n    raise SyntaxError(msg)", "processed_shapes = []", "_multiaxis_parsed = set()", "for i, dim_str in enumerate(split_shape):\n    expression = _parser.expression_from_string(dim_str)\n    if expression.is_named_multiaxis or expression.is_anonymous:\n        _multiaxis_parsed.add(i)\n        self.multiaxis_name = expression.identifier if expression.is_named_multiaxis else None\n        self.multiaxis_index = i\n    self.anonymous_multiaxis |= expression.is_anonymous\n    processed_shapes.append(expression)", "if len(_multiaxis_parsed) > 1:\n    msg = f'Multiple multiaxis modifiers not allowed in shape_string={shape_string!r}'\n    raise SyntaxError(msg)", "return tuple(processed_shapes)"]),
  ("TensorTypeBase.__class_getitem__", ["def(cls, shape_string) @classmethod", "return cls(shape_string if isinstance(shape_string, str | None) else str(shape_string))"])] := by
  rfl

end Dltype.Prov
