import DltypeModel.Generated.SrcSurface
/-!
# Provenance: the functions of group Surface are, statement for statement, the ones the hand-written model was written against
(written by `harness/provenance.py --snapshot`; re-run it only after the model has been brought up to date with an intended change of the source).
-/
namespace Dltype.Prov

theorem surface_is_the_modelled_source : Gen.Src.srcSurface = [
  ("_core.py: class _TupleHint(tuple)", ["= __slots__"]),
  ("_core.py: class DLTypeAnnotation(NamedTuple)", []),
  ("_core.py: class DLTypeScopeProvider(Protocol) @runtime_checkable", []),
  ("_dltype_context.py: class _ConcreteType(NamedTuple)", []),
  ("_dltype_context.py: class DLTypeContext()", ["def __init__"]),
  ("_tensor_type_base.py: class TensorTypeBase()", ["= DTYPES", "def __class_getitem__ @classmethod", "def __get_pydantic_core_schema__", "def __init__", "def __repr__ @override"]),
  ("_parser.py: class _DLTypeSpecifier(enum.Enum)", ["= EQUALS", "def __repr__"]),
  ("_parser.py: class _DLTypeGroupToken(enum.Enum)", ["= COMMA", "= LPAREN", "= RPAREN", "def __repr__"]),
  ("_parser.py: class _DLTypeModifier(enum.Enum)", ["= ANONYMOUS_MULTIAXIS", "= NAMED_MULTIAXIS", "def __repr__"]),
  ("_parser.py: class _DLTypeOperator(enum.Enum)", ["= ADD", "= DIV", "= EXP", "= ISQRT", "= MAX", "= MIN", "= MUL", "= SUB", "def __repr__"]),
  ("_parser.py: class DLTypeDimensionExpression()", ["def __init__", "def __repr__ @override"]),
  ("_errors.py: class DLTypeError(TypeError, ABC)", ["def __init__", "def __str__ @abstractmethod"]),
  ("_errors.py: class DLTypeUnsupportedTensorTypeError(DLTypeError)", ["def __init__", "def __str__"]),
  ("_errors.py: class DLTypeShapeError(DLTypeError)", ["def __init__", "def __str__"]),
  ("_errors.py: class DLTypeNDimsError(DLTypeError)", ["def __init__", "def __str__"]),
  ("_errors.py: class DLTypeDtypeError(DLTypeError)", ["def __init__", "def __str__"]),
  ("_errors.py: class DLTypeDuplicateError(DLTypeError)", ["def __init__", "def __str__"]),
  ("_errors.py: class DLTypeInvalidReferenceError(DLTypeError)", ["def __init__", "def __str__"]),
  ("_errors.py: class DLTypeScopeProviderError(DLTypeError)", ["def __init__", "def __str__"]),
  ("_symbolic_expressions.py: class OperableAxis(ABC)", ["def __add__", "def __floordiv__", "def __mul__", "def __pow__", "def __radd__", "def __repr__", "def __rfloordiv__", "def __rmul__", "def __rpow__", "def __rsub__", "def __str__ @abstractmethod", "def __sub__"]),
  ("_symbolic_expressions.py: class AxisOperationBase(OperableAxis, ABC)", ["def __init__ @abstractmethod"]),
  ("_symbolic_expressions.py: class UnaryAxisOperationBase(AxisOperationBase)", ["def __init__"]),
  ("_symbolic_expressions.py: class ISqrt(UnaryAxisOperationBase)", ["def __str__"]),
  ("_symbolic_expressions.py: class Group(UnaryAxisOperationBase)", ["def __init__", "def __str__"]),
  ("_symbolic_expressions.py: class BinaryAxisOperationBase(AxisOperationBase)", ["def __init__"]),
  ("_symbolic_expressions.py: class Add(BinaryAxisOperationBase)", ["def __str__"]),
  ("_symbolic_expressions.py: class Subtract(BinaryAxisOperationBase)", ["def __str__"]),
  ("_symbolic_expressions.py: class Divide(BinaryAxisOperationBase)", ["def __str__"]),
  ("_symbolic_expressions.py: class Multiply(BinaryAxisOperationBase)", ["def __str__"]),
  ("_symbolic_expressions.py: class Exp(BinaryAxisOperationBase)", ["def __str__"]),
  ("_symbolic_expressions.py: class Max(BinaryAxisOperationBase)", ["def __str__"]),
  ("_symbolic_expressions.py: class Min(BinaryAxisOperationBase)", ["def __str__"]),
  ("_symbolic_expressions.py: class LiteralAxis(OperableAxis)", ["def __init__", "def __str__"]),
  ("_symbolic_expressions.py: class VariableAxis(OperableAxis)", ["def __init__", "def __str__"]),
  ("_symbolic_expressions.py: class ComputedAxis(OperableAxis)", ["def __init__", "def __repr__", "def __str__"]),
  ("_symbolic_expressions.py: class NamedComputedAxis(ComputedAxis)", ["def __init__", "def __str__ @override"]),
  ("_symbolic_expressions.py: class ConstantAxis()", ["def __init__", "def __str__"]),
  ("_symbolic_expressions.py: class AnonymousAxis()", ["def __init__", "def __repr__", "def __str__"]),
  ("_symbolic_expressions.py: class Shape()", ["def __class_getitem__ @classmethod", "def __init__", "def __repr__", "def __str__"]),
  ("_log_utils.py: class DummyLogger()", [])] := by
  rfl

end Dltype.Prov
