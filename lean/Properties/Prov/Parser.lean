import DltypeModel.Generated.SrcParser
/-!
# Provenance: the functions of group Parser are, statement for statement, the ones the hand-written model was written against
(written by `harness/provenance.py --snapshot`; re-run it only after the model has been brought up to date with an intended change of the source).
-/
namespace Dltype.Prov

theorem parser_is_the_modelled_source : Gen.Src.srcParser = [
  ("_span_to_tok", ["def(character)", "maybe_operator = _DLTypeOperator._value2member_map_.get(character)", "maybe_specifier = _DLTypeSpecifier._value2member_map_.get(character)", "maybe_group = _DLTypeGroupToken._value2member_map_.get(character)", "return maybe_operator or maybe_specifier or maybe_group"]),
  ("_span_to_str_or_int", ["def(span)", "if span.isnumeric():\n    return int(span)", "return span"]),
  ("DLTypeDimensionExpression.from_multiaxis_literal", ["def(cls, identifier, literal, *, is_anonymous=False) @classmethod", "return cls(identifier, [literal], is_multiaxis_literal=True, is_anonymous=is_anonymous)"]),
  ("@_VALID_IDENTIFIER_RX", ["re.compile('^[a-zA-Z][a-zA-Z0-9\\\\_]*$')"])] := by
  rfl

end Dltype.Prov
