import DltypeModel
import DltypeModel.Generated.ParseHelpers
import Properties.Tables
/-!
# The translator tie for two helpers of the shunting-yard parser.

`Generated/ParseHelpers.lean` is regenerated on every run from `_flush_op_by_precedence` (the three conjuncts of the loop
condition with the comparison as written, the body `postfix.append(stack.pop())`) and `_get_group_indices` (the if-chain of the
scan with its updates in source order, `if rparen_idx: break`, the three tests after the loop).  They are proved equal to the
model's `flush` and `groupIndices` — the latter for every offset: the indices the source returns are the model's slice-relative
indices plus the offset, which is what the hand-written main loop (`loop` in `DltypeModel/Parser.lean`) assumes.
-/
namespace Dltype.CoreParse
open Dltype

theorem precOf_op (o : Op) : Gen.precOf (Gen.opNameP o) = o.prec := by
  cases o with
  | bin b => cases b <;> rfl
  | fn f => cases f <;> rfl

theorem precOf_lparen : Gen.precOf "LPAREN" = lparenPrec := rfl

/-- **`_flush_op_by_precedence` in the source IS the model's `flush`** (for an operator or `(` as `current_op`) -/
theorem flush_is_source (pname : String) (p : Nat) (hp : Gen.precOf pname = p) (st : List Op) (out : List PItem) :
    Gen.flushLoop pname st out = flush p st out := by
  induction st generalizing out with
  | nil => simp [Gen.flushLoop, flush]
  | cons s st ih =>
    simp only [Gen.flushLoop, flush, precOf_op, hp]
    by_cases h : s.prec ≥ p
    · simp [h, ih]
    · simp [h]

def shiftO (off : Nat) : Option Nat → Option Nat := Option.map (· + off)

/-- invariant of the scan: the state of the source (absolute indices) is the state of the model (relative indices) shifted -/
theorem groupLoop_eq (off : Nat) (ts : List Tok) (idx : Nat) (l0 : Option Nat) (c0 : List Nat) (d0 : Int)
    (lp : Option Nat) (cs : List Nat)
    (hd : d0 ≤ idx) (hl : l0 = shiftO off lp) (hc : c0 = cs.map (· + off)) :
    (Gen.groupLoop off ts idx ⟨l0, c0, none, d0⟩).lparen_idx = shiftO off (groupGo ts idx d0 lp cs).1 ∧
    (Gen.groupLoop off ts idx ⟨l0, c0, none, d0⟩).comma_idx = (groupGo ts idx d0 lp cs).2.1.map (· + off) ∧
    (Gen.groupLoop off ts idx ⟨l0, c0, none, d0⟩).rparen_idx = shiftO off (groupGo ts idx d0 lp cs).2.2 := by
  induction ts generalizing idx l0 c0 d0 lp cs with
  | nil => simp [Gen.groupLoop, groupGo, hl, hc, shiftO]
  | cons tok rest ih =>
    cases tok with
    | lp =>
      have hstep : Gen.groupStep Tok.lp idx off ⟨l0, c0, none, d0⟩ =
          ⟨if d0 + 1 = 1 then some (idx + off) else l0, c0, none, d0 + 1⟩ := by
        simp [Gen.groupStep]
      simp only [Gen.groupLoop, hstep, groupGo]
      refine ih (idx + 1) _ c0 (d0 + 1) _ cs (by omega) ?_ hc
      by_cases h1 : d0 + 1 = 1
      · simp [h1, shiftO]
      · simp [h1, hl]
    | comma =>
      by_cases h1 : d0 = 1
      · subst h1
        have hstep : Gen.groupStep Tok.comma idx off ⟨l0, c0, none, 1⟩ = ⟨l0, c0 ++ [idx + off], none, 1⟩ := by
          simp [Gen.groupStep]
        simp only [Gen.groupLoop, hstep, groupGo, if_true]
        exact ih (idx + 1) l0 (c0 ++ [idx + off]) 1 lp (cs ++ [idx]) (by omega) hl (by simp [hc])
      · have hstep : Gen.groupStep Tok.comma idx off ⟨l0, c0, none, d0⟩ = ⟨l0, c0, none, d0⟩ := by
          simp [Gen.groupStep, h1]
        simp only [Gen.groupLoop, hstep, groupGo, h1, if_false]
        exact ih (idx + 1) l0 c0 d0 lp cs (by omega) hl hc
    | rp =>
      by_cases h1 : d0 = 1
      · subst h1
        have hstep : Gen.groupStep Tok.rp idx off ⟨l0, c0, none, 1⟩ = ⟨l0, c0, some (idx + off), 1 - 1⟩ := by
          simp [Gen.groupStep]
        have hpos : idx + off ≠ 0 := by omega
        simp only [Gen.groupLoop, hstep, groupGo, if_true, hpos, ne_eq, not_false_eq_true, decide_true]
        simp [hl, hc, shiftO]
      · have hstep : Gen.groupStep Tok.rp idx off ⟨l0, c0, none, d0⟩ = ⟨l0, c0, none, d0 - 1⟩ := by
          simp [Gen.groupStep, h1]
        simp only [Gen.groupLoop, hstep, groupGo, h1, if_false]
        exact ih (idx + 1) l0 c0 (d0 - 1) lp cs (by omega) hl hc
    | int n =>
      have hstep : Gen.groupStep (Tok.int n) idx off ⟨l0, c0, none, d0⟩ = ⟨l0, c0, none, d0⟩ := by simp [Gen.groupStep]
      simp only [Gen.groupLoop, hstep, groupGo]
      exact ih (idx + 1) l0 c0 d0 lp cs (by omega) hl hc
    | str s =>
      have hstep : Gen.groupStep (Tok.str s) idx off ⟨l0, c0, none, d0⟩ = ⟨l0, c0, none, d0⟩ := by simp [Gen.groupStep]
      simp only [Gen.groupLoop, hstep, groupGo]
      exact ih (idx + 1) l0 c0 d0 lp cs (by omega) hl hc
    | bin o =>
      have hstep : Gen.groupStep (Tok.bin o) idx off ⟨l0, c0, none, d0⟩ = ⟨l0, c0, none, d0⟩ := by simp [Gen.groupStep]
      simp only [Gen.groupLoop, hstep, groupGo]
      exact ih (idx + 1) l0 c0 d0 lp cs (by omega) hl hc
    | fn f =>
      have hstep : Gen.groupStep (Tok.fn f) idx off ⟨l0, c0, none, d0⟩ = ⟨l0, c0, none, d0⟩ := by simp [Gen.groupStep]
      simp only [Gen.groupLoop, hstep, groupGo]
      exact ih (idx + 1) l0 c0 d0 lp cs (by omega) hl hc
    | eq =>
      have hstep : Gen.groupStep Tok.eq idx off ⟨l0, c0, none, d0⟩ = ⟨l0, c0, none, d0⟩ := by simp [Gen.groupStep]
      simp only [Gen.groupLoop, hstep, groupGo]
      exact ih (idx + 1) l0 c0 d0 lp cs (by omega) hl hc

theorem any_shift (cs : List Nat) (l r off : Nat) :
    (cs.map (· + off)).any (fun c => decide (c < l + off) || decide (c > r + off)) = cs.any (fun c => decide (c < l) || decide (c > r)) := by
  induction cs with
  | nil => rfl
  | cons c cs ihc =>
    simp only [List.map_cons, List.any_cons, ihc]
    congr 1
    have e1 : decide (c + off < l + off) = decide (c < l) := by
      by_cases h : c < l <;> simp [h] <;> omega
    have e2 : decide (c + off > r + off) = decide (c > r) := by
      by_cases h : c > r <;> simp [h] <;> omega
    rw [e1, e2]

/-- **`_get_group_indices(expr, offset)` in the source IS the model's `groupIndices expr`, shifted by the offset** -/
theorem groupIndices_is_source (ts : List Tok) (off : Nat) :
    Gen.groupIndices ts off = (groupIndices ts).map (fun p => (p.1 + off, p.2.1.map (· + off), p.2.2 + off)) := by
  obtain ⟨h1, h2, h3⟩ := groupLoop_eq off ts 0 none [] 0 none [] (by omega) rfl rfl
  unfold Gen.groupIndices groupIndices
  have hst : ({} : Gen.GroupState) = ⟨none, [], none, 0⟩ := rfl
  simp only [hst, h1, h2, h3]
  rcases hg : groupGo ts 0 0 none [] with ⟨l, cs, r⟩
  cases l with
  | none => simp [shiftO]
  | some l =>
    cases r with
    | none => simp [shiftO]
    | some r =>
      simp only [shiftO, Option.map_some]
      have hany := any_shift cs l r off
      have hgt : decide (l + off > r + off) = decide (l > r) := by
        by_cases h : l > r <;> simp [h] <;> omega
      rw [hany, hgt]
      by_cases hb : (decide (l > r) || cs.any (fun c => decide (c < l) || decide (c > r))) = true
      · simp only [hb, if_true]
        have : (l > r || cs.any (fun c => c < l || c > r)) = true := by simpa using hb
        simp [this]
      · have hb' : (decide (l > r) || cs.any (fun c => decide (c < l) || decide (c > r))) = false := by simpa using hb
        simp only [hb', Bool.false_eq_true, if_false]
        have : (l > r || cs.any (fun c => c < l || c > r)) = false := by simpa using hb'
        simp [this]

end Dltype.CoreParse
