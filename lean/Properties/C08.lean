import DltypeModel
import Spec
import Proofs.Report
namespace Dltype.C08
open Dltype Dltype.Spec Dltype.Proofs

/-- **C08a** a rejection comes from the FIRST tensor (in source order) that fails; all tensors before it
    were accepted, and the report is computed under exactly the bindings they established -/
theorem rejection_is_first_failure (acc : Acc) (st : CState) (es : List Entry) (r : Report)
    (h : runEntries acc st es = .reject r) :
    ∃ pre e post st1, es = pre ++ e :: post ∧ runEntries acc st pre = .ok st1 ∧ tensorStep acc st1 e = .reject r :=
  runEntries_reject acc st es r h

/-- the kind of the report matches the violated aspect: the standalone check's report (rank, dtype,
    literal axis — characterised in C03), the duplicate-name report, a per-axis report, or the rank report of
    a `*name` group that absorbs a different number of axes than recorded -/
theorem report_kind_matches_aspect (acc : Acc) (st : CState) (e : Entry) (r : Report)
    (h : tensorStep acc st e = .reject r) :
    check acc e.ann e.tensor e.displayName = .error r ∨
    (r = .duplicate e.displayName ∧ e.displayName ∈ st.registered) ∨
    (assertDims e.displayName 0 (expandDims e.ann e.tensor.shape) e.tensor.shape st.σ = .reject r) ∨
    (∃ g b, e.ann.multiName = some g ∧
       r = .ndims e.displayName (Int.ofNat (e.ann.dims.length - 1) + b) e.tensor.shape.length ∧
       b ≠ Int.ofNat e.tensor.shape.length - Int.ofNat (e.ann.dims.length - 1)) :=
  tensorStep_reject acc st e r h

/-- a per-axis report is factually correct: it names the tensor, the index `j` of an axis of the ACTUAL
    tensor, the size found there, and an expected value different from it which is the value of that axis'
    dimension under the bindings established before it (or the earlier binding of the dimension's name);
    or it names a name that is not bound at that point -/
theorem axis_report_is_true (tn : Name) (ds : List DimExpr) (shape : List Nat) (σ : Scope) (r : Report)
    (h : assertDims tn 0 ds shape σ = .reject r) :
    ∃ j dj aj σj, ds[j]? = some dj ∧ shape[j]? = some aj ∧
      assertDims tn 0 (ds.take j) (shape.take j) σ = .ok σj ∧
      ((∃ v : Int, r = .shape tn j v (Int.ofNat aj) ∧ v ≠ Int.ofNat aj ∧
          (dj.evaluate σj = .val v ∨ (dj.evaluate σj = .val (Int.ofNat aj) ∧ σj.get? dj.identifier = some v))) ∨
       (∃ k, r = .invalidRef tn k σj.keys ∧ σj.get? k = none)) := by
  obtain ⟨j, dj, aj, σj, h1, h2, h3, h4⟩ := assertDims_reject tn 0 ds shape σ r h
  refine ⟨j, dj, aj, σj, h1, h2, h3, ?_⟩
  have := dimStep_reject tn (0 + j) dj aj σj r h4
  simpa using this

/-- **C08b** every error class of `_errors.py` derives from `DLTypeError`, which derives from `TypeError`
    (see `Properties/C08b.lean`, over the regenerated class table) -/
theorem every_rejection_is_a_report (acc : Acc) (st : CState) (es : List Entry) :
    (∃ st', runEntries acc st es = .ok st') ∨ (∃ r, runEntries acc st es = .reject r) ∨
    (∃ e, runEntries acc st es = .pyExc e) ∨ runEntries acc st es = .unmodelled := by
  cases runEntries acc st es with
  | ok s => exact Or.inl ⟨s, rfl⟩
  | reject r => exact Or.inr (Or.inl ⟨r, rfl⟩)
  | pyExc e => exact Or.inr (Or.inr (Or.inl ⟨e, rfl⟩))
  | unmodelled => exact Or.inr (Or.inr (Or.inr rfl))

/-- KNOWN FINDING F7 (negation of "nothing but DLTypeErrors", kernel-checked witness): a division by a
    zero-sized axis surfaces as ZeroDivisionError from the (faithful) checker model. -/
theorem full_statement_false :
    dimStep ['x'] 2 { identifier := "a/b".toList, post := [.str ['a'], .str ['b'], .op (.bin .div)] } 1
      [(['a'], 2), (['b'], 0)] matches .pyExc .zeroDivision := by decide

/-- non-vacuity: a context whose second tensor contradicts a binding of the first is rejected with the
    shape report of that axis -/
theorem example_reject :
    (match parseShape (some "a b".toList), parseShape (some "b".toList) with
     | .ok a1, .ok a2 =>
       (match runEntries (fun _ _ => true) {}
          [{ argIndex := 0, name := ['x'], tensor := { dt := ⟨0, 0⟩, shape := [2, 3] }, ann := a1 },
           { argIndex := 0, name := ['y'], tensor := { dt := ⟨0, 0⟩, shape := [5] }, ann := a2 }] with
        | .reject (.shape n i e a) => n == ['y'] && i == 0 && e == 3 && a == 5
        | _ => false)
     | _, _ => false) = true := by decide

end Dltype.C08
