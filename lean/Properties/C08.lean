import DltypeModel
namespace Dltype.C08
open Dltype

/-- KNOWN FINDING F7 (negation of "nothing but DLTypeErrors", kernel-checked witness): a division by a
    zero-sized axis surfaces as ZeroDivisionError from the (faithful) checker model. -/
theorem full_statement_false :
    dimStep ['x'] 2 { identifier := "a/b".toList, post := [.str ['a'], .str ['b'], .op (.bin .div)] } 1
      [(['a'], 2), (['b'], 0)] matches .pyExc .zeroDivision := by decide

end Dltype.C08
