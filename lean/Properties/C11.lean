import DltypeModel
namespace Dltype.C11
open Dltype

/-- a tuple hint of any length (one included) is unpacked as a tuple -/
theorem tuple_hint_is_tuple (elems : List Hint) (opt : Bool) (r : HintAnns)
    (h : fromHint (.tuple elems) opt = .ok r) : r.isTuple = true := by
  simp only [fromHint] at h
  cases hf : fromHints elems with
  | error e => simp [hf, Except.map] at h
  | ok l => simp [hf, Except.map] at h; rw [← h]

/-- the flattened annotations of a tuple hint are those of its elements, in order -/
theorem tuple_annotations_in_order (h : Hint) (hs : List Hint) (x : HintAnns) (ys : List (Option Ann))
    (h1 : fromHint h false = .ok x) (h2 : fromHints hs = .ok ys) :
    fromHints (h :: hs) = .ok (x.anns ++ ys) := by
  simp [fromHints, h1, h2]

/-- entries queued for a tuple of tensors: one per annotated position, in order, carrying its position -/
def entriesFrom (name : Name) : Nat → List (Option Ann) → List Tensor → List Entry
  | _, [], _ => []
  | _, _, [] => []
  | i, none :: as, _ :: ts => entriesFrom name (i + 1) as ts
  | i, some a :: as, t :: ts => { argIndex := i, name, tensor := t, ann := a } :: entriesFrom name (i + 1) as ts

/-- C11: for a tuple of arrays of the declared length, exactly the annotated positions are queued, in
    order, each with its own index (display name `p`, `p[1]`, …); positions without a dltype annotation
    contribute nothing -/
theorem tuple_elements_queued (name : Name) (as : List (Option Ann)) (ts : List Tensor) (i : Nat)
    (hlen : as.length = ts.length) :
    addGo name i as (ts.map Value.tensor) = .ok (entriesFrom name i as ts) := by
  induction as generalizing ts i with
  | nil =>
    cases ts with
    | nil => simp [addGo, entriesFrom]
    | cons t ts => simp at hlen
  | cons a as ih =>
    cases ts with
    | nil => simp at hlen
    | cons t ts =>
      have hl : as.length = ts.length := by simpa using hlen
      cases a with
      | none => simp [addGo, entriesFrom, ih ts (i + 1) hl]
      | some a => simp [addGo, entriesFrom, ih ts (i + 1) hl]

/-- the display name of element `i > 0` is `p[i]`, of element 0 it is `p` -/
theorem display_names (e : Entry) :
    e.displayName = if e.argIndex > 0 then e.name ++ ['['] ++ natStr e.argIndex ++ [']'] else e.name := rfl

/-- a tuple of the wrong length is not silently accepted -/
theorem wrong_length (name : Name) (i : Nat) (t : Tensor) :
    addGo name i [] [.tensor t] = .pyExc .valueError := by simp [addGo]

/-- a position of the tuple hint without a dltype annotation holds ONE value of the tuple, whatever that value is — None, an int, a
    tuple or list of arrays (`Value.tup`): it is skipped as a whole, the later elements keep their positions (nothing is flattened) -/
theorem plain_position_holds_anything (name : Name) (i : Nat) (as : List (Option Ann)) (v : Value) (vs : List Value) :
    addGo name i (none :: as) (v :: vs) = addGo name (i + 1) as vs := by
  cases v <;> rfl

/-- … and the value of a tuple-hinted position is walked element by element whether it is an exact tuple, a list or an instance of a
    tuple subclass: all three reach the model as `Value.tup` (what `zip` sees), so `addHinted` cannot tell them apart -/
example (name : Name) (h : HintAnns) (vs : List Value) (as : List (Option Ann)) (hr : resolveTypes h.anns = some as) (ht : h.isTuple = true) :
    addHinted name (.tup vs) h = addGo name 0 as vs := by
  simp [addHinted, hr, ht]

end Dltype.C11
