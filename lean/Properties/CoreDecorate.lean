import DltypeModel
import DltypeModel.Generated.Decorate
import Properties.C12
import Properties.C13
/-!
# The translator tie for the decoration-time part of `dltyped`.

`Generated/Decorate.lean` is regenerated on every run from `_inner_dltyped` (`harness/translate_core.py: gen_decorate`): the
order of its statements up to the definition of the wrapper — the disabled / scripting guard first, the `"self"`-needs-a-method
test, the translation of every hint (`_maybe_get_type_hints`, whose text is pinned), the "no dltype hint anywhere" test that hands
the function back, the decorators of the wrapper.  It is proved equal to the model's `decorate` for an enabled decorator outside
scripting, and to be the identity otherwise, *before anything else is looked at*.
-/
namespace Dltype.CoreDecorate
open Dltype

/-- **the decoration-time part of `dltyped` in the source IS the model's `decorate`** (enabled, not scripting) -/
theorem decorate_is_source (selfProvider isMethod : Bool) (params : List (Name × Hint)) (ret : Option Hint) :
    Gen.decorate false true selfProvider isMethod params ret = decorate selfProvider isMethod params ret := by
  unfold Gen.decorate decorate
  simp only [Bool.false_or, Bool.not_true, Bool.false_eq_true, if_false, Bool.true_and]
  cases (selfProvider && !isMethod) with
  | true => rfl
  | false =>
    simp only [Bool.false_eq_true, if_false]
    cases hintsOf params with
    | error e => rfl
    | ok ps =>
      cases ret with
      | none => rfl
      | some h => cases fromHint h false <;> rfl

/-- **C13 about the source**: a disabled decorator (or one applied while TorchScript is scripting) hands the function back
    whatever its hints and its provider argument are — nothing is inspected, nothing can be refused -/
theorem source_disabled_is_identity (scripting enabled selfProvider isMethod : Bool) (params : List (Name × Hint)) (ret : Option Hint)
    (h : (scripting || !enabled) = true) : Gen.decorate scripting enabled selfProvider isMethod params ret = .identity := by
  unfold Gen.decorate
  simp [h]

/-- **C12 about the source**: `"self"` on a function without `self` / `cls` is refused at decoration, before any hint is read -/
theorem source_self_needs_method (params : List (Name × Hint)) (ret : Option Hint) :
    Gen.decorate false true true false params ret = .error .typeError := by
  unfold Gen.decorate
  simp

/-- non-vacuity: a function whose only hint is a general Union is refused when enabled and handed back when disabled -/
theorem example_decorate :
    Gen.decorate false true false false [(['x'], .union [.plain, .annotated true none])] none = .error .typeError ∧
    Gen.decorate false false false false [(['x'], .union [.plain, .annotated true none])] none = .identity := by
  constructor <;> rfl

end Dltype.CoreDecorate
