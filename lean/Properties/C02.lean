import DltypeModel
namespace Dltype.C02
open Dltype

theorem returnPhase_value (acc : Acc) (d : FuncDecl) (st : CState) (v w : Value)
    (h : returnPhase acc d st v = .returned w) : w = v := by
  unfold returnPhase at h
  repeat' split at h
  all_goals simp_all

/-- C02b (trace): whenever a call through the wrapper returns normally, the body was executed exactly
    once, after the argument checks had passed, and the caller receives the very value the body
    returned (the completeness theorem w.r.t. `Conforms` is `Dltype.C02.complete`). -/
theorem returned_is_body_value (acc : Acc) (d : FuncDecl) (p : Provider) (args : List (Name × Value))
    (b : BodyResult) (v : Value) (h : (callWrapped acc d p args b).result = .returned v) :
    b = .returns v ∧ (callWrapped acc d p args b).bodyCalls = 1 ∧
      (callWrapped acc d p args b).argsCheckedBeforeBody = true := by
  unfold callWrapped at h ⊢
  cases hp : providerScope p with
  | error e =>
    simp only [hp] at h
    cases p with
    | absent => simp [providerScope] at hp
    | self s => cases s <;> simp [providerScope] at hp <;> simp_all
    | obj s => cases s <;> simp [providerScope] at hp <;> simp_all
  | ok σ =>
    simp only [hp] at h ⊢
    cases ha : argsPhase acc d σ args with
    | ok st =>
      simp only [ha] at h ⊢
      cases b with
      | raises => simp at h
      | returns w =>
        simp only at h ⊢
        have := returnPhase_value acc d st w v h
        subst this
        simp
    | reject r => simp [ha] at h
    | pyExc e => simp [ha] at h
    | unmodelled => simp [ha] at h

end Dltype.C02
