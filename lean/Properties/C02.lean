import DltypeModel
import Spec
import Proofs.Complete
import Properties.C01
namespace Dltype.C02
open Dltype Dltype.Spec Dltype.Proofs

theorem returnPhase_value (acc : Acc) (d : FuncDecl) (st : CState) (v w : Value)
    (h : returnPhase acc d st v = .returned w) : w = v := by
  unfold returnPhase at h
  repeat' split at h
  all_goals simp_all

/-- C02b (trace): whenever a call through the wrapper returns normally, the body was executed exactly
    once, after the argument checks had passed, and the caller receives the very value the body
    returned (the completeness theorem w.r.t. `Conforms` is `Dltype.C02.complete`). -/
theorem returned_is_body_value (acc : Acc) (d : FuncDecl) (p : Provider) (args : List (Name × Value))
    (b : BodyResult) (v : Value) (h : (callWrapped acc d p args b).result = .returned v) :
    b = .returns v ∧ (callWrapped acc d p args b).bodyCalls = 1 ∧
      (callWrapped acc d p args b).argsCheckedBeforeBody = true := by
  unfold callWrapped at h ⊢
  cases hp : providerScope p with
  | error e =>
    simp only [hp] at h
    cases p with
    | absent => simp [providerScope] at hp
    | self s => cases s <;> simp [providerScope] at hp <;> simp_all
    | obj s => cases s <;> simp [providerScope] at hp <;> simp_all
  | ok σ =>
    simp only [hp] at h ⊢
    cases ha : argsPhase acc d σ args with
    | ok st =>
      simp only [ha] at h ⊢
      cases b with
      | raises => simp at h
      | returns w =>
        simp only at h ⊢
        have := returnPhase_value acc d st w v h
        subst this
        simp
    | reject r => simp [ha] at h
    | pyExc e => simp [ha] at h
    | unmodelled => simp [ha] at h

theorem keys_has (σ : Scope) (x : Name) (hx : x ∈ σ.keys) : σ.has x = true := by
  induction σ with
  | nil => simp [Scope.keys] at hx
  | cons p ps ih =>
    obtain ⟨k, v⟩ := p
    simp only [Scope.keys, List.map_cons, List.mem_cons] at hx
    by_cases hk : k = x
    · simp [Scope.has, Scope.get?, hk]
    · rcases hx with rfl | hx
      · exact absurd rfl hk
      · have := ih hx
        simpa [Scope.has, Scope.get?, hk] using this

/-- C02a (context level): if every annotated tensor of a context conforms to one common assignment `σ`
    that contains the provider's bindings `σ₀` (rank, dtype and literal axes pass the standalone check; every
    non-anonymous axis has the size `σ` gives its dimension's identifier; every literal / expression /
    `name=…` dimension evaluates to the size of its axis under `σ`; a `*name` group absorbs the number of
    axes `σ` records), display names are distinct, and every name used inside an expression is bound by an
    earlier dimension in source order or by the provider, then the context is accepted: no rejection and no
    other exception comes out of the checker, and the final bindings are part of `σ`. -/
theorem complete (acc : Acc) (σ₀ σ : Scope) (es : List Entry)
    (hle : ScopeLe σ₀ σ) (hs : ∀ e ∈ es, EntryStrong acc σ e) (hfresh : NamesFresh [] es)
    (hr : RefsOrdered σ₀.keys es) :
    ∃ st', runEntries acc { σ := σ₀ } es = .ok st' ∧ ScopeLe st'.σ σ := by
  exact runEntries_complete acc { σ := σ₀ } es σ σ₀.keys hle (fun x hx => keys_has σ₀ x hx) hs hfresh hr

/-- **C02 (call level)** a call whose annotated arguments and return value conform (fully) to one assignment
    containing the provider's bindings, with fresh display names and ordered references, returns normally:
    the body is executed exactly once and the caller receives the very value the body returned. -/
theorem conforming_call_returns (acc : Acc) (d : FuncDecl) (p : Provider) (args : List (Name × Value))
    (v : Value) (σ₀ σ : Scope) (es esr : List Entry) (isT : Bool) (as : List (Option Ann))
    (hp : providerScope p = .ok σ₀) (ha : addParams args d.params = .ok es)
    (hret : d.ret.bind (fun h => (resolveTypes h.anns).map (fun as => (h.isTuple, as))) = some (isT, as))
    (hadd : addReturn isT as v = .ok esr)
    (hle : ScopeLe σ₀ σ) (hs : ∀ e ∈ es ++ esr, EntryStrong acc σ e) (hfresh : NamesFresh [] (es ++ esr))
    (hr : RefsOrdered σ₀.keys (es ++ esr)) :
    (callWrapped acc d p args (.returns v)).result = .returned v ∧
    (callWrapped acc d p args (.returns v)).bodyCalls = 1 := by
  obtain ⟨st', hrun, _⟩ := complete acc σ₀ σ (es ++ esr) hle hs hfresh hr
  rw [C01.runEntries_append] at hrun
  cases h1 : runEntries acc { σ := σ₀ } es with
  | ok st1 =>
    simp only [h1] at hrun
    have hargs : argsPhase acc d σ₀ args = .ok st1 := by simp [argsPhase, ha, h1]
    unfold callWrapped
    simp only [hp, hargs]
    unfold returnPhase
    simp [hret, hadd, hrun]
  | reject r => simp [h1] at hrun
  | pyExc e => simp [h1] at hrun
  | unmodelled => simp [h1] at hrun

end Dltype.C02
