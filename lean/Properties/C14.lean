import DltypeModel
namespace Dltype.C14
open Dltype

def toEntry (f : Name × Ann × Tensor) : Entry := { argIndex := 0, name := f.1, tensor := f.2.2, ann := f.2.1 }

theorem displayName_zero (n : Name) (t : Tensor) (a : Ann) :
    ({ argIndex := 0, name := n, tensor := t, ann := a } : Entry).displayName = n := by
  simp [Entry.displayName]

theorem runEntries_singleton (acc : Acc) (st : CState) (e : Entry) :
    runEntries acc st [e] = tensorStep acc st e := by
  simp only [runEntries]
  cases tensorStep acc st e <;> rfl

theorem tensorStep_check_error (acc : Acc) (st : CState) (e : Entry) (r : Report)
    (h : check acc e.ann e.tensor e.displayName = .error r) : tensorStep acc st e = .reject r := by
  unfold tensorStep
  simp [h]

/-- one pydantic validator call (check; add; assert on the shared context) is one step of the batch loop -/
theorem pydanticField_eq_tensorStep (acc : Acc) (st : CState) (n : Name) (a : Ann) (t : Tensor) :
    pydanticField acc st n a t = tensorStep acc st (toEntry (n, a, t)) := by
  unfold pydanticField
  cases hc : check acc a t n with
  | error r =>
    have : check acc (toEntry (n, a, t)).ann (toEntry (n, a, t)).tensor (toEntry (n, a, t)).displayName = .error r := by
      simpa [toEntry, displayName_zero] using hc
    simp [tensorStep_check_error acc st _ r this]
  | ok u => simp [runEntries_singleton, toEntry]

/-- C14: validating the fields one after the other on a shared context (pydantic) gives the same verdict,
    report and final bindings as one batch run over the same fields (functions, NamedTuples, dataclasses) -/
theorem incremental_eq_batch (acc : Acc) (st : CState) (fs : List (Name × Ann × Tensor)) :
    validateIncremental acc st fs = runEntries acc st (fs.map toEntry) := by
  induction fs generalizing st with
  | nil => rfl
  | cons f fs ih =>
    obtain ⟨n, a, t⟩ := f
    simp only [validateIncremental, List.map, runEntries, pydanticField_eq_tensorStep]
    cases h : tensorStep acc st (toEntry (n, a, t)) with
    | ok st' => simp only [ih]
    | reject r => rfl
    | pyExc e => rfl
    | unmodelled => rfl

end Dltype.C14
