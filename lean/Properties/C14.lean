import DltypeModel
import Properties.C16
namespace Dltype.C14
open Dltype

def toEntry (f : Name × Ann × Tensor) : Entry := { argIndex := 0, name := f.1, tensor := f.2.2, ann := f.2.1 }

theorem displayName_zero (n : Name) (t : Tensor) (a : Ann) :
    ({ argIndex := 0, name := n, tensor := t, ann := a } : Entry).displayName = n := by
  simp [Entry.displayName]

theorem runEntries_singleton (acc : Acc) (st : CState) (e : Entry) :
    runEntries acc st [e] = tensorStep acc st e := by
  simp only [runEntries]
  cases tensorStep acc st e <;> rfl

theorem tensorStep_check_error (acc : Acc) (st : CState) (e : Entry) (r : Report)
    (h : check acc e.ann e.tensor e.displayName = .error r) : tensorStep acc st e = .reject r := by
  unfold tensorStep
  simp [h]

/-- one pydantic validator call (check; add; assert on the shared context) is one step of the batch loop -/
theorem pydanticField_eq_tensorStep (acc : Acc) (st : CState) (n : Name) (a : Ann) (t : Tensor) :
    pydanticField acc st n a t = tensorStep acc st (toEntry (n, a, t)) := by
  unfold pydanticField
  cases hc : check acc a t n with
  | error r =>
    have : check acc (toEntry (n, a, t)).ann (toEntry (n, a, t)).tensor (toEntry (n, a, t)).displayName = .error r := by
      simpa [toEntry, displayName_zero] using hc
    simp [tensorStep_check_error acc st _ r this]
  | ok u => simp [runEntries_singleton, toEntry]

/-- C14: validating the fields one after the other on a shared context (pydantic) gives the same verdict,
    report and final bindings as one batch run over the same fields (functions, NamedTuples, dataclasses) -/
theorem incremental_eq_batch (acc : Acc) (st : CState) (fs : List (Name × Ann × Tensor)) :
    validateIncremental acc st fs = runEntries acc st (fs.map toEntry) := by
  induction fs generalizing st with
  | nil => rfl
  | cons f fs ih =>
    obtain ⟨n, a, t⟩ := f
    simp only [validateIncremental, List.map, runEntries, pydanticField_eq_tensorStep]
    cases h : tensorStep acc st (toEntry (n, a, t)) with
    | ok st' => simp only [ih]
    | reject r => rfl
    | pyExc e => rfl
    | unmodelled => rfl

/-- the argument phase of a dltyped function and the construction check of a dltyped NamedTuple / dataclass
    queue the same entries for the same ordered (name, annotation, value) triples … -/
theorem addParams_eq_addAll (vals : List (Name × Value)) (fields : List (Name × HintAnns))
    (hn : ∀ f ∈ fields, f.1 ≠ kwSelf ∧ f.1 ≠ kwCls ∧ f.2.anns.isEmpty = false)
    (hv : ∀ f ∈ fields, (lookupArg vals f.1).isSome) :
    addParams vals fields = constructBatch.addAll vals fields := by
  induction fields with
  | nil => rfl
  | cons f fs ih =>
    obtain ⟨n, a⟩ := f
    have h1 := hn (n, a) (by simp)
    have hl := hv (n, a) (by simp)
    simp only [Option.isSome_iff_exists] at hl
    obtain ⟨v, hv1⟩ := hl
    simp only [addParams, constructBatch.addAll, hv1]
    have e1 : (n = kwSelf || n = kwCls) = false := by simp [h1.1, h1.2.1]
    simp only [e1, Bool.false_eq_true, if_false, h1.2.2]
    rw [ih (fun x hx => hn x (by simp [hx])) (fun x hx => hv x (by simp [hx]))]

/-- … hence the function form and the class forms give the same verdict, report and bindings
    (with `incremental_eq_batch` for the pydantic form this is C14 for all four entry points) -/
theorem function_eq_class (acc : Acc) (d : FuncDecl) (vals : List (Name × Value))
    (hn : ∀ f ∈ d.params, f.1 ≠ kwSelf ∧ f.1 ≠ kwCls ∧ f.2.anns.isEmpty = false)
    (hv : ∀ f ∈ d.params, (lookupArg vals f.1).isSome) :
    argsPhase acc d [] vals = constructBatch acc d.params vals := by
  unfold argsPhase constructBatch
  rw [addParams_eq_addAll vals d.params hn hv]

/-- the entries a NamedTuple / dataclass construction queues depend on the given values only through the value of each field name … -/
theorem addAll_perm {vals vals' : List (Name × Value)} (hp : vals.Perm vals') (hn : (vals.map Prod.fst).Nodup)
    (fields : List (Name × HintAnns)) : constructBatch.addAll vals fields = constructBatch.addAll vals' fields := by
  induction fields with
  | nil => rfl
  | cons f fs ih =>
    obtain ⟨n, a⟩ := f
    simp only [constructBatch.addAll, C16.lookupArg_perm hp hn n, ih]

/-- … hence **the order in which the fields are written in the constructor call does not matter** (positional, by keyword, keywords
    in any order): same verdict, report and bindings — the fields are checked in declaration order -/
theorem construction_order_does_not_matter (acc : Acc) (fields : List (Name × HintAnns)) {vals vals' : List (Name × Value)}
    (hp : vals.Perm vals') (hn : (vals.map Prod.fst).Nodup) :
    constructBatch acc fields vals = constructBatch acc fields vals' := by
  unfold constructBatch
  rw [addAll_perm hp hn]

end Dltype.C14
