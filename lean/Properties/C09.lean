import DltypeModel
namespace Dltype.C09
open Dltype

/-- SHARED-STATE AUDIT (regenerated from the source on every run): every store whose target is not a
    local created by the running call, every cache and every module-level mutable of the checker's
    modules.  Each entry is accounted for:
    * `ctx.tensor_shape_map`, `self.tensor_shape_map[]`, `self.registered_tensor_dtypes[]` — the context
      object created by the running call / construction (`CState`);
    * `nonlocal dltype_hints`, `nonlocal signature` — lazily resolved closures of one decorated function,
      written once with a value that is a function of the declaration (`GState.funcs`);
    * `cls.__init__`, `dltype_fields[]` — decoration time;
    * `dltype_hint.optional` — written on a private copy of the annotation (`from_hint`);
    * `info.data[]` — the data map of the running pydantic validation (`validateIncremental`; F13 for assignment);
    * the caches are pure functions of their keys; `_op_precedence` is never written.
    A new entry means a state component the model does not have: this theorem stops compiling. -/
theorem state_components_modelled :
    Gen.stores =
      ["_core.py:_inner_dltyped:ctx.tensor_shape_map", "_core.py:_inner_dltyped:nonlocal dltype_hints",
       "_core.py:_inner_dltyped:nonlocal signature", "_core.py:_inner_dltyped_dataclass:cls.__init__",
       "_core.py:_inner_dltyped_namedtuple:dltype_fields[]", "_core.py:dltyped:ctx.tensor_shape_map",
       "_core.py:dltyped:nonlocal dltype_hints", "_core.py:dltyped:nonlocal signature",
       "_core.py:dltyped_dataclass:cls.__init__", "_core.py:dltyped_namedtuple:dltype_fields[]",
       "_core.py:from_hint:dltype_hint.optional", "_core.py:wrapper:ctx.tensor_shape_map",
       "_core.py:wrapper:nonlocal dltype_hints", "_core.py:wrapper:nonlocal signature",
       "_dltype_context.py:_assert_tensor_shape:self.tensor_shape_map[]",
       "_dltype_context.py:assert_context:self.registered_tensor_dtypes[]",
       "_tensor_type_base.py:__get_pydantic_core_schema__:info.data[]",
       "_tensor_type_base.py:validate_tensor:info.data[]"] ∧
    Gen.caches =
      ["_core.py:_maybe_get_signature:lru_cache", "_core.py:_resolve_types:lru_cache",
       "_dependency_utilities.py:is_jax_available:cache", "_dependency_utilities.py:is_np_float128_available:cache",
       "_dependency_utilities.py:is_np_longdouble_available:cache", "_dependency_utilities.py:is_numpy_available:cache",
       "_dependency_utilities.py:is_torch_available:cache"] ∧
    Gen.moduleLevelMutables = ["_parser.py:_op_precedence"] := by
  decide

/-- C09c (model): a call does not change the state — providers, declarations — whatever its verdict -/
theorem call_leaves_state (acc : Acc) (s : GState) (f : Ident) (args : List (Name × Value)) (b : BodyResult) :
    (step acc s (.call f args b)).1 = s := rfl

/-- C09a (model): after any history, the verdict of a call is the fresh verdict computed from the
    declarations and the providers' current mappings — it does not depend on which calls were made
    before (accepted or rejected), only on decorations and provider updates. -/
theorem verdict_is_fresh (acc : Acc) (s : GState) (f : Ident) (args : List (Name × Value)) (b : BodyResult) :
    (step acc s (.call f args b)).2 = freshVerdict acc s 3 f args b := rfl

/-- calls can be deleted from a history without changing the state it leads to -/
theorem calls_do_not_matter (acc : Acc) (s : GState) (h : List HOp) :
    (exec acc s h).1 = (exec acc s (h.filter fun op => match op with | .call .. => false | _ => true)).1 := by
  induction h generalizing s with
  | nil => rfl
  | cons op ops ih =>
    cases op with
    | call f args b =>
      simp only [exec, List.filter]
      have : (step acc s (.call f args b)).1 = s := rfl
      rw [show (exec acc (step acc s (.call f args b)).1 ops).1 = (exec acc s ops).1 from by rw [this]]
      exact ih s
    | setProvider p i σ => simp only [exec, List.filter]; exact ih _
    | setScope p σ => simp only [exec, List.filter]; exact ih _
    | decorate g d => simp only [exec, List.filter]; exact ih _

/-- a batch of calls (one per thread, say), executed in any order from a state, gives every call the fresh
    verdict at that state and leaves the state unchanged … -/
theorem calls_batch (acc : Acc) (s : GState) (cs : List (Ident × List (Name × Value) × BodyResult)) :
    exec acc s (cs.map fun c => HOp.call c.1 c.2.1 c.2.2) =
      (s, cs.map fun c => freshVerdict acc s 3 c.1 c.2.1 c.2.2) := by
  induction cs with
  | nil => rfl
  | cons c cs ih =>
    simp only [List.map_cons, exec]
    have : (step acc s (HOp.call c.1 c.2.1 c.2.2)) = (s, freshVerdict acc s 3 c.1 c.2.1 c.2.2) := rfl
    rw [this]
    simp only [ih]

/-- **C09b (model)** … hence for every interleaving of concurrent checked calls (any permutation of the
    batch) each call's verdict is the verdict it would get alone: schedule independence at the granularity
    of whole calls.  (What the model cannot exhibit is preemption *inside* a call; that the context of a call
    is local to it is the shared-state audit `state_components_modelled`, and is exercised with threads.) -/
theorem schedule_independent (acc : Acc) (s : GState) (cs cs' : List (Ident × List (Name × Value) × BodyResult))
    (c : Ident × List (Name × Value) × BodyResult) (hc : c ∈ cs) (hc' : c ∈ cs') :
    freshVerdict acc s 3 c.1 c.2.1 c.2.2 ∈ (exec acc s (cs.map fun c => HOp.call c.1 c.2.1 c.2.2)).2 ∧
    freshVerdict acc s 3 c.1 c.2.1 c.2.2 ∈ (exec acc s (cs'.map fun c => HOp.call c.1 c.2.1 c.2.2)).2 := by
  rw [calls_batch, calls_batch]
  exact ⟨List.mem_map.mpr ⟨c, hc, rfl⟩, List.mem_map.mpr ⟨c, hc', rfl⟩⟩

end Dltype.C09
