import DltypeModel
import DltypeModel.Generated.TokLoop
/-!
# The translator tie for the tokenizer and its validity pre-check.

`Generated/TokLoop.lean` is regenerated on every run from `_tokenize_string_expr` and `_assert_token_list_valid`
(`harness/translate_core.py`): the special cases before the counting loop, the `if/elif` chain of the loop with the increments
of the two counters, the final comparison; the space test, the token / span branches of the character loop, the final flush and
the call of the validity check.  It is proved equal to the model (`DltypeModel/Tokenizer.lean`) that the theorems of C05 and C06
are about.
-/
namespace Dltype.CoreTok
open Dltype

theorem countStep_eq (tok : Tok) (a b : Nat) :
    Gen.countStep tok a b = if tok = .eq then .error .syntax else .ok (a + tok.expArgs, b + tok.actArgs) := by
  cases tok with
  | int n => simp [Gen.countStep, Gen.tokIn, Gen.tokOpName, Tok.isStrOrInt, Tok.expArgs, Tok.actArgs]
  | str s => simp [Gen.countStep, Gen.tokIn, Gen.tokOpName, Tok.isStrOrInt, Tok.expArgs, Tok.actArgs]
  | bin o => cases o <;> simp [Gen.countStep, Gen.tokIn, Gen.tokOpName, Gen.unaryFunctions, Gen.binaryFunctions, Gen.infixOperators, Tok.expArgs, Tok.actArgs]
  | fn f => cases f <;> simp [Gen.countStep, Gen.tokIn, Gen.tokOpName, Gen.unaryFunctions, Gen.binaryFunctions, Gen.infixOperators, Tok.expArgs, Tok.actArgs]
  | lp => simp [Gen.countStep, Gen.tokIn, Gen.tokOpName, Tok.isStrOrInt, Tok.isGroup, Tok.expArgs, Tok.actArgs]
  | rp => simp [Gen.countStep, Gen.tokIn, Gen.tokOpName, Tok.isStrOrInt, Tok.isGroup, Tok.expArgs, Tok.actArgs]
  | comma => simp [Gen.countStep, Gen.tokIn, Gen.tokOpName, Tok.isStrOrInt, Tok.isGroup, Tok.expArgs, Tok.actArgs]
  | eq => simp [Gen.countStep, Gen.tokIn, Gen.tokOpName, Tok.isStrOrInt, Tok.isGroup]

theorem countLoop_eq (ts : List Tok) (a b : Nat) :
    Gen.countLoop ts a b =
      if ts.contains .eq then .error .syntax else .ok (a + sumMap Tok.expArgs ts, b + sumMap Tok.actArgs ts) := by
  induction ts generalizing a b with
  | nil => simp [Gen.countLoop, sumMap]
  | cons t ts ih =>
    simp only [Gen.countLoop, countStep_eq]
    by_cases ht : t = .eq
    · subst ht; simp
    · have hne : (t == Tok.eq) = false := by simpa using ht
      have hne' : (Tok.eq == t) = false := by
        cases h : (Tok.eq == t) with
        | false => rfl
        | true => exact absurd (by simpa using h : Tok.eq = t).symm ht
      simp only [ht, if_false, ih, List.contains_cons, hne', Bool.false_or, sumMap]
      by_cases hc : ts.contains Tok.eq = true
      · simp only [hc, if_true]
      · simp only [hc, Bool.false_eq_true, if_false, Nat.add_assoc]

/-- the counting loop and the final comparison, read as the model reads them -/
theorem count_general (ts : List Tok) :
    Gen.countResult (if ts.contains Tok.eq then (Except.error ParseErr.syntax : Except ParseErr (Nat × Nat))
            else .ok (1 + sumMap Tok.expArgs ts, 0 + sumMap Tok.actArgs ts))
      = (!ts.contains Tok.eq && (1 + sumMap Tok.expArgs ts == sumMap Tok.actArgs ts)) := by
  generalize ts.contains Tok.eq = c
  cases c <;> simp [Gen.countResult]

/-- **`_assert_token_list_valid` in the source IS the model's `tokensValid`** -/
theorem tokensValid_is_source (ts : List Tok) : Gen.tokensValid ts = tokensValid ts := by
  unfold Gen.tokensValid
  rw [countLoop_eq, count_general]
  match ts with
  | [] => rfl
  | [t] =>
    cases t with
    | int n => rfl
    | str s => rfl
    | bin o => cases o <;> rfl
    | fn f => cases f <;> rfl
    | lp => rfl
    | rp => rfl
    | comma => rfl
    | eq => rfl
  | [a, b] =>
    cases a with
    | bin o =>
      cases o with
      | mul => cases b <;> rfl
      | add => rfl
      | sub => rfl
      | exp => rfl
      | div => rfl
    | int n => rfl
    | str s => rfl
    | fn f => rfl
    | lp => rfl
    | rp => rfl
    | comma => rfl
    | eq => rfl
  | a :: b :: c :: rest =>
    cases a with
    | bin o => cases o <;> first | rfl | (cases b <;> rfl)
    | int n => rfl
    | str s => rfl
    | fn f => rfl
    | lp => rfl
    | rp => rfl
    | comma => rfl
    | eq => rfl

/-! ## `_span_to_tok`, `_span_to_str_or_int` -/

/-- `_span_to_tok(character)` over the value tables of the three enums IS the model's `charTok` -/
theorem spanToTok_char (c : Char) : Gen.spanToTok [c] = charTok c := by
  unfold charTok
  by_cases h1 : c = '+'
  · subst h1; rfl
  by_cases h2 : c = '-'
  · subst h2; rfl
  by_cases h3 : c = '*'
  · subst h3; rfl
  by_cases h4 : c = '^'
  · subst h4; rfl
  by_cases h5 : c = '/'
  · subst h5; rfl
  by_cases h6 : c = '='
  · subst h6; rfl
  by_cases h7 : c = '('
  · subst h7; rfl
  by_cases h8 : c = ')'
  · subst h8; rfl
  by_cases h9 : c = ','
  · subst h9; rfl
  simp only [h1, h2, h3, h4, h5, h6, h7, h8, h9, if_false]
  have e : ∀ d : Char, c ≠ d → (d == c) = false := by
    intro d hd; simp [Ne.symm hd]
  simp [Gen.spanToTok, Gen.memberOf, Gen.operatorValues, Gen.specifierValues, Gen.groupValues, List.find?,
    e _ h1, e _ h2, e _ h3, e _ h4, e _ h5, e _ h6, e _ h7, e _ h8, e _ h9]

/-- `_span_to_tok(span) or _span_to_str_or_int(span)` IS the model's `spanTok` on a span without token characters -/
theorem spanFlush_eq (span : List Char) (hinv : ∀ c ∈ span, charTok c = none) : Gen.spanFlush span = spanTok span := by
  unfold spanTok
  by_cases k1 : span = kwMin
  · subst k1; rfl
  by_cases k2 : span = kwMax
  · subst k2; rfl
  by_cases k3 : span = kwIsqrt
  · subst k3; rfl
  have ne : ∀ d : Char, charTok d ≠ none → span ≠ [d] := by
    intro d hd h
    exact hd (hinv d (by simp [h]))
  have e : ∀ l : List Char, span ≠ l → (l == span) = false := by
    intro l hl; simp [Ne.symm hl]
  have k1' : (['m', 'i', 'n'] == span) = false := e kwMin k1
  have k2' : (['m', 'a', 'x'] == span) = false := e kwMax k2
  have k3' : (['i', 's', 'q', 'r', 't'] == span) = false := e kwIsqrt k3
  have hnone : Gen.spanToTok span = none := by
    simp [Gen.spanToTok, Gen.memberOf, Gen.operatorValues, Gen.specifierValues, Gen.groupValues, List.find?,
      e _ (ne '+' (by decide)), e _ (ne '-' (by decide)), e _ (ne '*' (by decide)), e _ (ne '^' (by decide)), e _ (ne '/' (by decide)),
      e _ (ne '=' (by decide)), e _ (ne '(' (by decide)), e _ (ne ')' (by decide)), e _ (ne ',' (by decide)),
      k1', k2', k3']
  simp only [Gen.spanFlush, hnone, Gen.spanToStrOrInt, k1, k2, k3, if_false]

/-- what the character loop leaves, with the final flush the statements after the loop perform -/
def finishTok : Except ParseErr (List Tok × List Char) → Except ParseErr (List Tok)
  | .error e => .error e
  | .ok (l, span) => .ok (if !span.isEmpty then l ++ [Gen.spanFlush span] else l)

theorem flush_eq (l : List Tok) (span : List Char) (hinv : ∀ c ∈ span, charTok c = none) :
    (if !span.isEmpty then l ++ [Gen.spanFlush span] else l) = l ++ flushSpan span := by
  unfold flushSpan
  rw [spanFlush_eq span hinv]
  cases h : span.isEmpty <;> simp [h]

/-- the character loop of `_tokenize_string_expr` in the source IS the model's `tokenizeAux` (tokens found so far in front);
    invariant: the current span holds no token character -/
theorem tokLoop_is_source (cs : List Char) (l : List Tok) (span : List Char) (hinv : ∀ c ∈ span, charTok c = none) :
    finishTok (Gen.tokLoop cs l span) = (tokenizeAux cs span).map (fun r => l ++ r) := by
  induction cs generalizing l span with
  | nil => simp only [Gen.tokLoop, finishTok, tokenizeAux, flush_eq l span hinv, Except.map]
  | cons c cs ih =>
    simp only [Gen.tokLoop, Gen.tokStep, tokenizeAux, spanToTok_char]
    by_cases hsp : c = ' '
    · simp [hsp, finishTok, Except.map]
    · simp only [hsp, if_false]
      cases hct : charTok c with
      | none =>
        simp only
        exact ih l (span ++ [c]) (by
          intro d hd
          rcases List.mem_append.mp hd with h | h
          · exact hinv d h
          · simp at h; subst h; exact hct)
      | some t =>
        simp only
        rw [ih _ _ (by intro d hd; simp at hd)]
        rw [flush_eq l span hinv]
        cases tokenizeAux cs [] with
        | error e => simp [Except.map]
        | ok r => simp [Except.map, List.append_assoc]

/-- **`_tokenize_string_expr` in the source IS the model's `tokenize`** -/
theorem tokenize_is_source (s : List Char) : Gen.tokenize s = tokenize s := by
  unfold Gen.tokenize tokenize tokenizeRaw
  have := tokLoop_is_source s [] [] (by intro d hd; simp at hd)
  cases hl : Gen.tokLoop s [] [] with
  | error e =>
    rw [hl] at this
    simp only [finishTok] at this
    cases ha : tokenizeAux s [] with
    | error e' => rw [ha] at this; simp [Except.map] at this; subst this; rfl
    | ok r => rw [ha] at this; simp [Except.map] at this
  | ok p =>
    obtain ⟨l, span⟩ := p
    rw [hl] at this
    simp only [finishTok] at this
    cases ha : tokenizeAux s [] with
    | error e' => rw [ha] at this; simp [Except.map] at this
    | ok r =>
      rw [ha] at this
      simp only [Except.map, List.nil_append, Except.ok.injEq] at this
      simp only [this, tokensValid_is_source]

end Dltype.CoreTok
