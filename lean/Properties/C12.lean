import DltypeModel
namespace Dltype.C12
open Dltype

/-- provider resolution: a provider object (or the bound instance for "self") that implements the
    protocol yields its mapping; one that does not yields the provider error; no provider = empty scope -/
theorem provider_resolution (σ : Scope) :
    providerScope .absent = .ok [] ∧ providerScope (.obj (some σ)) = .ok σ ∧
    providerScope (.self (some σ)) = .ok σ ∧
    providerScope (.obj none) = .error (.rejected .scopeProvider) ∧
    providerScope (.self none) = .error (.rejected .scopeProvider) := by
  simp [providerScope]

/-- "self" on a function without self/cls is refused at decoration -/
theorem self_needs_method (params : List (Name × Hint)) (ret : Option Hint) :
    decorate true false params ret = .error .typeError := by simp [decorate]

/-- the provider's mapping is the initial binding table of exactly this call's context -/
theorem provider_scope_is_initial (acc : Acc) (d : FuncDecl) (σ : Scope) (args : List (Name × Value)) :
    argsPhase acc d σ args =
      (match addParams args d.params with
       | .ok es => runEntries acc { σ := σ, registered := [] } es
       | .reject r => .reject r | .pyExc e => .pyExc e | .unmodelled => .unmodelled) := rfl

/-- the provider is consulted at every call: after the provider changes what it returns, the next
    call's verdict is the fresh verdict under the new mapping -/
theorem provider_update_takes_effect (acc : Acc) (s : GState) (p : Ident) (σ : Scope) (f : Ident)
    (args : List (Name × Value)) (b : BodyResult) :
    (exec acc s [.setScope p σ, .call f args b]).2 =
      [Out.none, freshVerdict acc (step acc s (.setScope p σ)).1 3 f args b] := rfl

end Dltype.C12
