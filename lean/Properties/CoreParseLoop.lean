import DltypeModel
import DltypeModel.Generated.ParseLoop
import Properties.CoreParse
import Properties.CoreTok
import Proofs.ParseTop
namespace Dltype.CoreParse
open Dltype Dltype.Proofs

/-! ## what the model's loop puts into a program: only legal identifiers -/

def StrsOk (l : List PItem) : Prop := ∀ x, PItem.str x ∈ l → isIdent x = true

theorem strsOk_append {a b : List PItem} (ha : StrsOk a) (hb : StrsOk b) : StrsOk (a ++ b) := by
  intro x hx
  rcases List.mem_append.mp hx with h | h
  · exact ha x h
  · exact hb x h

theorem strsOk_ops (st : List Op) : StrsOk (st.map PItem.op) := by
  intro x hx
  obtain ⟨o, _, ho⟩ := List.mem_map.mp hx
  cases ho

theorem flush_strs (p : Nat) (st : List Op) (out : List PItem) (h : StrsOk out) : StrsOk (flush p st out).2 := by
  induction st generalizing out with
  | nil => simpa [flush] using h
  | cons s st ih =>
    simp only [flush]
    split
    · exact ih _ (strsOk_append h (by intro x hx; simp at hx))
    · exact h

theorem mapArgs_strs (f : List Tok → Except ParseErr (List PItem)) (hf : ∀ s c, f s = .ok c → StrsOk c)
    (ss : List (List Tok)) (code : List PItem) (h : mapArgs f ss = .ok code) : StrsOk code := by
  induction ss generalizing code with
  | nil => simp [mapArgs] at h; subst h; intro x hx; cases hx
  | cons s more ih =>
    simp only [mapArgs] at h
    cases hs : f s with
    | error e => simp [hs] at h
    | ok c =>
      simp only [hs] at h
      cases hm : mapArgs f more with
      | error e => simp [hm] at h
      | ok r =>
        simp only [hm, Except.ok.injEq] at h
        subst h
        exact strsOk_append (hf s c hs) (ih r hm)

theorem innerWith_strs (rec : List Tok → Except ParseErr (List PItem)) (hrec : ∀ s c, rec s = .ok c → StrsOk c)
    (s : List Tok) (c : List PItem) (h : innerWith rec s = .ok c) : StrsOk c := by
  unfold innerWith at h
  split at h
  · cases h
  · split at h
    · cases h; intro x hx; cases hx
    · exact hrec _ _ h
  · split at h
    · rename_i n hn
      cases h
      intro x hx
      simp only [List.mem_singleton, PItem.str.injEq] at hx
      subst hx; exact hn
    · cases h
  · exact hrec _ _ h

theorem loop_strs (fuel : Nat) : ∀ (ts : List Tok) (st : List Op) (out post : List PItem),
    loop fuel ts st out = .ok post → StrsOk out → StrsOk post := by
  induction fuel with
  | zero => intro ts st out post h; simp [loop] at h
  | succ fuel ih =>
    intro ts st out post h hout
    cases ts with
    | nil =>
      simp only [loop, Except.ok.injEq] at h
      subst h
      exact strsOk_append hout (strsOk_ops st)
    | cons t rest =>
      have hgroup : ∀ (pend : Option Fn),
          (let (st', out') := flush (pendPrec pend) st out
           match groupIndices (t :: rest) with
           | none => (Except.error ParseErr.syntax : Except ParseErr (List PItem))
           | some (l, cs, r) =>
             if !arityOk pend cs.length then .error .syntax else
             match mapArgs (innerWith (fun s => loop fuel s [] [])) (argSlices (t :: rest) l (cs ++ [r])) with
             | .error e => .error e
             | .ok code => loop fuel ((t :: rest).drop (r + 1)) (pushPend pend st') (out' ++ code)) = .ok post → StrsOk post := by
        intro pend hg
        simp only at hg
        cases hgi : groupIndices (t :: rest) with
        | none => simp [hgi] at hg
        | some p =>
          obtain ⟨l, cs, r⟩ := p
          simp only [hgi] at hg
          split at hg
          · cases hg
          · cases hma : mapArgs (innerWith (fun s => loop fuel s [] [])) (argSlices (t :: rest) l (cs ++ [r])) with
            | error e => simp [hma] at hg
            | ok code =>
              simp only [hma] at hg
              have hcode : StrsOk code :=
                mapArgs_strs _ (fun s c hc => innerWith_strs _ (fun s' c' hc' => ih s' [] [] c' hc' (by intro x hx; cases hx)) s c hc) _ _ hma
              exact ih _ _ _ _ hg (strsOk_append (flush_strs _ st out hout) hcode)
      cases t with
      | int n =>
        simp only [loop] at h
        exact ih _ _ _ _ h (strsOk_append hout (by intro x hx; simp at hx))
      | bin o =>
        simp only [loop] at h
        exact ih _ _ _ _ h (flush_strs _ st out hout)
      | fn f => simp only [loop] at h; exact hgroup (some f) h
      | lp => simp only [loop] at h; exact hgroup none h
      | str s =>
        simp only [loop] at h
        split at h
        · rename_i hs
          exact ih _ _ _ _ h (strsOk_append hout (by intro x hx; simp at hx; subst hx; exact hs))
        · cases h
      | rp => simp [loop] at h
      | comma => simp [loop] at h
      | eq => simp [loop] at h

/-! ## the recursive calls on the arguments -/

theorem not_ident_of_bracket (id' : Name) (h : '[' ∈ id') : isIdent id' = false := by
  cases hi : isIdent id' with
  | false => rfl
  | true =>
    have := isIdent_all id' hi '[' h
    revert this; decide

theorem mkDimGen_inner (id' : Name) (post : List PItem) (hb : '[' ∈ id') (hp : StrsOk post) :
    Gen.mkDimGen id' post = .ok { identifier := id', post := post } := by
  have hnc : post.contains (PItem.str id') = false := by
    cases hc : post.contains (PItem.str id') with
    | false => rfl
    | true =>
      have hm : PItem.str id' ∈ post := by simpa using hc
      have := hp id' hm
      rw [not_ident_of_bracket id' hb] at this
      cases this
  have hnm : PItem.str id' ∉ post := by
    intro hm; have := hp id' hm; rw [not_ident_of_bracket id' hb] at this; cases this
  simp [Gen.mkDimGen, Gen.selfRef, hnm]

/-- an argument of a function / a parenthesised group: the source's recursive call (with the identifier `name[k]`) yields the
    program the model's `innerWith` yields -/
theorem inner_eq (fuel : Nat)
    (ihL : ∀ (id : Name) (s : List Tok), Gen.pfiLoop fuel id s 0 [] [] = loop fuel s [] [])
    (id' : Name) (hb : '[' ∈ id') (s : List Tok) :
    (Gen.pfiWith (fun id s => Gen.pfiLoop fuel id s 0 [] []) id' s).map (·.post) = innerWith (fun s => loop fuel s [] []) s := by
  have general : ∀ s : List Tok, s.isEmpty = false → Gen.maybeMultiaxis id' s = .ok none →
      (Gen.pfiWith (fun id s => Gen.pfiLoop fuel id s 0 [] []) id' s).map (·.post) = loop fuel s [] [] := by
    intro s hne hmm
    simp only [Gen.pfiWith, hne, Bool.false_eq_true, if_false, hmm, ihL]
    cases hl : loop fuel s [] [] with
    | error e => rfl
    | ok post =>
      simp only
      rw [mkDimGen_inner id' post hb (loop_strs fuel s [] [] post hl (by intro x hx; cases hx))]
      rfl
  match s with
  | [] => rfl
  | [t] =>
    cases t with
    | str x =>
      by_cases hx : x = kwEllipsis
      · subst hx; simp [Gen.pfiWith, Gen.maybeMultiaxis, innerWith, Except.map]
      · rw [general _ rfl (by simp [Gen.maybeMultiaxis, hx])]
        simp [innerWith, hx]
    | int n => rw [general _ rfl rfl]; rfl
    | bin o => cases o <;> (rw [general _ rfl rfl]; rfl)
    | fn f => rw [general _ rfl rfl]; rfl
    | lp => rw [general _ rfl rfl]; rfl
    | rp => rw [general _ rfl rfl]; rfl
    | comma => rw [general _ rfl rfl]; rfl
    | eq => rw [general _ rfl rfl]; rfl
  | [a, b] =>
    cases a with
    | bin o =>
      cases o with
      | mul =>
        cases b with
        | str n =>
          by_cases hn : isIdent n = true
          · simp [Gen.pfiWith, Gen.maybeMultiaxis, innerWith, hn, Except.map]
          · have hn' : isIdent n = false := by simpa using hn
            simp [Gen.pfiWith, Gen.maybeMultiaxis, innerWith, hn', Except.map]
        | int n => rw [general _ rfl rfl]; rfl
        | bin o => rw [general _ rfl rfl]; rfl
        | fn f => rw [general _ rfl rfl]; rfl
        | lp => rw [general _ rfl rfl]; rfl
        | rp => rw [general _ rfl rfl]; rfl
        | comma => rw [general _ rfl rfl]; rfl
        | eq => rw [general _ rfl rfl]; rfl
      | add => rw [general _ rfl rfl]; rfl
      | sub => rw [general _ rfl rfl]; rfl
      | exp => rw [general _ rfl rfl]; rfl
      | div => rw [general _ rfl rfl]; rfl
    | int n => rw [general _ rfl rfl]; rfl
    | str x => rw [general _ rfl rfl]; rfl
    | fn f => rw [general _ rfl rfl]; rfl
    | lp => rw [general _ rfl rfl]; rfl
    | rp => rw [general _ rfl rfl]; rfl
    | comma => rw [general _ rfl rfl]; rfl
    | eq => rw [general _ rfl rfl]; rfl
  | a :: b :: c :: rest =>
    have hmm : Gen.maybeMultiaxis id' (a :: b :: c :: rest) = .ok none := by
      cases a with
      | bin o => cases o <;> first | rfl | (cases b <;> rfl)
      | int n => rfl
      | str x => rfl
      | fn f => rfl
      | lp => rfl
      | rp => rfl
      | comma => rfl
      | eq => rfl
    rw [general _ rfl hmm]
    cases a with
    | bin o => cases o <;> first | rfl | (cases b <;> rfl)
    | int n => rfl
    | str x => rfl
    | fn f => rfl
    | lp => rfl
    | rp => rfl
    | comma => rfl
    | eq => rfl

theorem bracket_mem (identifier : Name) (k : Nat) : '[' ∈ identifier ++ ['['] ++ natStr k ++ [']'] := by simp

theorem slice_shift (expr : List Tok) (idx lhs a : Nat) :
    Gen.slice expr (lhs + idx + 1) (a + idx) = ((expr.drop idx).drop (lhs + 1)).take (a - (lhs + 1)) := by
  unfold Gen.slice
  rw [List.drop_drop]
  have e1 : idx + (lhs + 1) = lhs + idx + 1 := by omega
  have e2 : a + idx - (lhs + idx + 1) = a - (lhs + 1) := by omega
  rw [e1, e2]

/-- the loop over the arguments: absolute stops in the source, slice-relative stops in the model -/
theorem argLoop_eq (inner : Name → List Tok → Except ParseErr DimExpr) (f : List Tok → Except ParseErr (List PItem))
    (hin : ∀ id' s, '[' ∈ id' → (inner id' s).map (·.post) = f s)
    (identifier : Name) (expr : List Tok) (idx : Nat) (stops : List Nat) (lhs : Nat) (out : List PItem) :
    Gen.argLoop inner identifier expr (lhs + idx) (stops.map (· + idx)) out =
      (mapArgs f (argSlices (expr.drop idx) lhs stops)).map (fun code => out ++ code) := by
  induction stops generalizing lhs out with
  | nil => simp [Gen.argLoop, argSlices, mapArgs, Except.map]
  | cons a more ih =>
    simp only [List.map_cons, Gen.argLoop, argSlices, mapArgs, slice_shift]
    have := hin (identifier ++ ['['] ++ natStr (a + idx) ++ [']']) (((expr.drop idx).drop (lhs + 1)).take (a - (lhs + 1)))
      (bracket_mem identifier (a + idx))
    cases hi : inner (identifier ++ ['['] ++ natStr (a + idx) ++ [']']) (((expr.drop idx).drop (lhs + 1)).take (a - (lhs + 1))) with
    | error e =>
      rw [hi] at this
      simp only [Except.map] at this
      rw [← this]
      rfl
    | ok d =>
      rw [hi] at this
      simp only [Except.map] at this
      rw [← this]
      simp only
      rw [ih a (out ++ d.post)]
      cases mapArgs f (argSlices (expr.drop idx) a more) with
      | error e => rfl
      | ok rest => simp [Except.map, List.append_assoc]

/-! ## the main loop -/

theorem ifchain3 {α} (A B C : Bool) (e x : α) :
    (if A then e else if B then e else if C then e else x) = (if (A || B || C) then e else x) := by
  cases A <;> cases B <;> cases C <;> rfl

theorem tokInSet_bin (o : BinOp) : Gen.tokInSet Gen.infixOperators (.bin o) = true := by cases o <;> rfl
theorem tokInSet_fn_infix (f : Fn) : Gen.tokInSet Gen.infixOperators (.fn f) = false := by cases f <;> rfl
theorem tokInSet_fn_functional (f : Fn) : Gen.tokInSet Gen.functionalOperators (.fn f) = true := by cases f <;> rfl

theorem drop_succ_of_get (expr : List Tok) (idx : Nat) (t : Tok) (h : expr[idx]? = some t) :
    expr.drop idx = t :: expr.drop (idx + 1) := by
  have hlt : idx < expr.length := by
    rcases List.getElem?_eq_some_iff.mp h with ⟨hl, _⟩; exact hl
  rw [List.drop_eq_getElem_cons hlt]
  rcases List.getElem?_eq_some_iff.mp h with ⟨_, he⟩
  rw [he]

/-- **the main loop of `_postfix_from_infix` in the source (cursor into the token list) IS the model's `loop` (on the remaining
    tokens)**, for every amount of fuel, every cursor position, operator stack and output -/
theorem pfiLoop_is_source (fuel : Nat) : ∀ (identifier : Name) (expr : List Tok) (idx : Nat) (st : List Op) (out : List PItem),
    Gen.pfiLoop fuel identifier expr idx st out = loop fuel (expr.drop idx) st out := by
  induction fuel with
  | zero => intro identifier expr idx st out; simp [Gen.pfiLoop, loop]
  | succ fuel ih =>
    intro identifier expr idx st out
    have ih0 : ∀ (id : Name) (s : List Tok), Gen.pfiLoop fuel id s 0 [] [] = loop fuel s [] [] := by
      intro id s; simpa using ih id s 0 [] []
    by_cases hlt : idx < expr.length
    · have hget : expr[idx]? = some expr[idx] := by simp [hlt]
      have hdrop := drop_succ_of_get expr idx expr[idx] hget
      have hdrop1 : ∀ r, expr.drop (r + idx + 1) = (expr.drop idx).drop (r + 1) := by
        intro r; rw [List.drop_drop]; congr 1; omega
      -- the group / function branch, for both kinds of opener
      have group : ∀ (tok : Tok) (pend : Option Fn), True →
          Gen.tokPName tok = (match pend with | some f => Gen.opNameP (.fn f) | none => "LPAREN") →
          (∀ n : Nat, ((Gen.tokInSet Gen.binaryFunctions tok && decide (n ≠ 1)) || (Gen.tokInSet Gen.unaryFunctions tok && decide (n ≠ 0)) ||
              (tok == Tok.lp && decide (n ≠ 0))) = !arityOk pend n) →
          (∀ stk : List Op, (if Gen.tokInSet Gen.functionalOperators tok then (match Gen.tokOp tok with | some op => op :: stk | none => stk) else stk) = pushPend pend stk) →
          (let (stack, out1) := Gen.flushLoop (Gen.tokPName tok) st out
           match Gen.groupIndices (expr.drop idx) idx with
           | none => (Except.error ParseErr.syntax : Except ParseErr (List PItem))
           | some (lparen, comma_indices, rparen) =>
             if (Gen.tokInSet Gen.binaryFunctions tok && decide (comma_indices.length ≠ 1)) then .error .syntax else
             if (Gen.tokInSet Gen.unaryFunctions tok && decide (comma_indices.length ≠ 0)) then .error .syntax else
             if (tok == Tok.lp && decide (comma_indices.length ≠ 0)) then .error .syntax else
             (match Gen.argLoop (Gen.pfiWith (fun id s => Gen.pfiLoop fuel id s 0 [] [])) identifier expr lparen (comma_indices ++ [rparen]) out1 with
              | .error e => .error e
              | .ok out2 =>
                Gen.pfiLoop fuel identifier expr (rparen + 1)
                  (if Gen.tokInSet Gen.functionalOperators tok then (match Gen.tokOp tok with | some op => op :: stack | none => stack) else stack) out2)) =
          (let (st', out') := flush (pendPrec pend) st out
           match groupIndices (expr.drop idx) with
           | none => (Except.error ParseErr.syntax : Except ParseErr (List PItem))
           | some (l, cs, r) =>
             if !arityOk pend cs.length then .error .syntax else
             match mapArgs (innerWith (fun s => loop fuel s [] [])) (argSlices (expr.drop idx) l (cs ++ [r])) with
             | .error e => .error e
             | .ok code => loop fuel ((expr.drop idx).drop (r + 1)) (pushPend pend st') (out' ++ code)) := by
        intro tok pend _ hname harity hpush
        have hfl : Gen.flushLoop (Gen.tokPName tok) st out = flush (pendPrec pend) st out := by
          apply flush_is_source
          rw [hname]
          cases pend with
          | none => rfl
          | some f => exact precOf_op (.fn f)
        simp only [hfl, groupIndices_is_source]
        cases hgi : groupIndices (expr.drop idx) with
        | none => rfl
        | some p =>
          obtain ⟨l, cs, r⟩ := p
          simp only [Option.map_some, List.length_map]
          have har := harity cs.length
          rw [ifchain3, har]
          by_cases hA : arityOk pend cs.length = true
          · simp only [hA, Bool.not_true, Bool.false_eq_true, if_false]
            have hstops : cs.map (· + idx) ++ [r + idx] = (cs ++ [r]).map (· + idx) := by simp
            rw [hstops, argLoop_eq (Gen.pfiWith (fun id s => Gen.pfiLoop fuel id s 0 [] [])) (innerWith (fun s => loop fuel s [] []))
              (fun id' s hb => inner_eq fuel ih0 id' hb s) identifier expr idx (cs ++ [r]) l]
            cases mapArgs (innerWith (fun s => loop fuel s [] [])) (argSlices (expr.drop idx) l (cs ++ [r])) with
            | error e => rfl
            | ok code =>
              simp only [Except.map]
              rw [ih, hdrop1 r, hpush]
          · have hA' : arityOk pend cs.length = false := by simpa using hA
            simp only [hA', Bool.not_false, if_true]
      have hne_lp : ∀ f : Fn, (Tok.fn f == Tok.lp) = false := by intro f; cases f <;> rfl
      generalize expr[idx] = tok at hget hdrop group
      cases tok with
      | int n =>
        simp only [Gen.pfiLoop, hlt, decide_true, if_true, hget]
        rw [hdrop]
        simp only [loop]
        exact ih identifier expr (idx + 1) st (out ++ [.int n])
      | bin o =>
        simp only [Gen.pfiLoop, hlt, decide_true, if_true, hget, tokInSet_bin, Gen.tokOp, Gen.tokPName]
        rw [hdrop]
        simp only [loop]
        rw [flush_is_source (Gen.opNameP (.bin o)) o.prec (precOf_op (.bin o))]
        exact ih identifier expr (idx + 1) _ _
      | fn f =>
        simp only [Gen.pfiLoop, hlt, decide_true, if_true, hget, tokInSet_fn_infix, Bool.false_eq_true, if_false,
          tokInSet_fn_functional, Bool.true_or]
        have hg := group (.fn f) (some f) trivial rfl
          (by
            intro n
            cases f with
            | min =>
              have : Gen.tokInSet Gen.binaryFunctions (.fn .min) = true := rfl
              have h2 : Gen.tokInSet Gen.unaryFunctions (.fn .min) = false := rfl
              simp only [this, h2, hne_lp, Bool.true_and, Bool.false_and, Bool.or_false, arityOk]
              by_cases hn : n = 1 <;> simp [hn]
            | max =>
              have : Gen.tokInSet Gen.binaryFunctions (.fn .max) = true := rfl
              have h2 : Gen.tokInSet Gen.unaryFunctions (.fn .max) = false := rfl
              simp only [this, h2, hne_lp, Bool.true_and, Bool.false_and, Bool.or_false, arityOk]
              by_cases hn : n = 1 <;> simp [hn]
            | isqrt =>
              have : Gen.tokInSet Gen.binaryFunctions (.fn .isqrt) = false := rfl
              have h2 : Gen.tokInSet Gen.unaryFunctions (.fn .isqrt) = true := rfl
              simp only [this, h2, hne_lp, Bool.true_and, Bool.false_and, Bool.or_false, Bool.false_or, arityOk]
              by_cases hn : n = 0 <;> simp [hn])
          (by intro stk; simp only [tokInSet_fn_functional, if_true, Gen.tokOp, pushPend])
        simp only [tokInSet_fn_functional, if_true, Gen.tokOp] at hg
        rw [hdrop]
        simp only [loop]
        rw [← hdrop]
        exact hg
      | lp =>
        have h1 : Gen.tokInSet Gen.infixOperators Tok.lp = false := rfl
        have h2 : Gen.tokInSet Gen.functionalOperators Tok.lp = false := rfl
        simp only [Gen.pfiLoop, hlt, decide_true, if_true, hget, h1, Bool.false_eq_true, if_false, h2, Bool.false_or, beq_self_eq_true]
        have hg := group .lp none trivial rfl
          (by
            intro n
            have hb : Gen.tokInSet Gen.binaryFunctions Tok.lp = false := rfl
            have hu : Gen.tokInSet Gen.unaryFunctions Tok.lp = false := rfl
            simp only [hb, hu, Bool.false_and, Bool.false_or, beq_self_eq_true, Bool.true_and, arityOk]
            by_cases hn : n = 0 <;> simp [hn])
          (by intro stk; simp only [h2, Bool.false_eq_true, if_false, pushPend])
        simp only [h2, Bool.false_eq_true, if_false] at hg
        rw [hdrop]
        simp only [loop]
        rw [← hdrop]
        exact hg
      | str s =>
        have h1 : Gen.tokInSet Gen.infixOperators (Tok.str s) = false := rfl
        have h2 : Gen.tokInSet Gen.functionalOperators (Tok.str s) = false := rfl
        have h3 : (Tok.str s == Tok.lp) = false := rfl
        simp only [Gen.pfiLoop, hlt, decide_true, if_true, hget, h1, h2, h3, Bool.false_eq_true, if_false, Bool.or_self]
        rw [hdrop]
        simp only [loop]
        by_cases hs : isIdent s = true
        · simp only [hs, if_true]
          exact ih identifier expr (idx + 1) st (out ++ [.str s])
        · simp [hs]
      | rp =>
        simp only [Gen.pfiLoop, hlt, decide_true, if_true, hget]
        rw [hdrop]
        simp [loop, Gen.tokInSet]
      | comma =>
        simp only [Gen.pfiLoop, hlt, decide_true, if_true, hget]
        rw [hdrop]
        simp [loop, Gen.tokInSet]
      | eq =>
        simp only [Gen.pfiLoop, hlt, decide_true, if_true, hget]
        rw [hdrop]
        simp [loop, Gen.tokInSet]
    · have hnil : expr.drop idx = [] := List.drop_eq_nil_of_le (by omega)
      simp [Gen.pfiLoop, hlt, hnil, loop]

theorem mkDimGen_eq (identifier : Name) (post : List PItem) : Gen.mkDimGen identifier post = mkDim identifier post := rfl

/-- **`_postfix_from_infix(identifier, tokens)` in the source IS the model's `pfiTop`** -/
theorem pfiTop_is_source (identifier : Name) (ts : List Tok) : Gen.pfiTop identifier ts = pfiTop identifier ts := by
  have general : ∀ ts : List Tok, ts.isEmpty = false → Gen.maybeMultiaxis identifier ts = .ok none →
      Gen.pfiTop identifier ts = (loop (ts.length + 1) ts [] []).bind (mkDim identifier) := by
    intro ts hne hmm
    have hl := pfiLoop_is_source (ts.length + 1) identifier ts 0 [] []
    simp only [List.drop_zero] at hl
    simp only [Gen.pfiTop, Gen.pfiWith, hne, Bool.false_eq_true, if_false, hmm, hl]
    cases loop (ts.length + 1) ts [] [] with
    | error e => rfl
    | ok post => rfl
  match ts with
  | [] => rfl
  | [t] =>
    cases t with
    | str x =>
      by_cases hx : x = kwEllipsis
      · subst hx; simp [Gen.pfiTop, Gen.pfiWith, Gen.maybeMultiaxis, pfiTop]
      · rw [general _ rfl (by simp [Gen.maybeMultiaxis, hx])]
        simp [pfiTop, hx]
    | int n => rw [general _ rfl rfl]; rfl
    | bin o => cases o <;> (rw [general _ rfl rfl]; rfl)
    | fn f => rw [general _ rfl rfl]; rfl
    | lp => rw [general _ rfl rfl]; rfl
    | rp => rw [general _ rfl rfl]; rfl
    | comma => rw [general _ rfl rfl]; rfl
    | eq => rw [general _ rfl rfl]; rfl
  | [a, b] =>
    cases a with
    | bin o =>
      cases o with
      | mul =>
        cases b with
        | str n =>
          by_cases hn : isIdent n = true
          · simp [Gen.pfiTop, Gen.pfiWith, Gen.maybeMultiaxis, pfiTop, hn]
          · have hn' : isIdent n = false := by simpa using hn
            simp [Gen.pfiTop, Gen.pfiWith, Gen.maybeMultiaxis, pfiTop, hn']
        | int n => rw [general _ rfl rfl]; rfl
        | bin o => rw [general _ rfl rfl]; rfl
        | fn f => rw [general _ rfl rfl]; rfl
        | lp => rw [general _ rfl rfl]; rfl
        | rp => rw [general _ rfl rfl]; rfl
        | comma => rw [general _ rfl rfl]; rfl
        | eq => rw [general _ rfl rfl]; rfl
      | add => rw [general _ rfl rfl]; rfl
      | sub => rw [general _ rfl rfl]; rfl
      | exp => rw [general _ rfl rfl]; rfl
      | div => rw [general _ rfl rfl]; rfl
    | int n => rw [general _ rfl rfl]; rfl
    | str x => rw [general _ rfl rfl]; rfl
    | fn f => rw [general _ rfl rfl]; rfl
    | lp => rw [general _ rfl rfl]; rfl
    | rp => rw [general _ rfl rfl]; rfl
    | comma => rw [general _ rfl rfl]; rfl
    | eq => rw [general _ rfl rfl]; rfl
  | a :: b :: c :: rest =>
    have hmm : Gen.maybeMultiaxis identifier (a :: b :: c :: rest) = .ok none := by
      cases a with
      | bin o => cases o <;> first | rfl | (cases b <;> rfl)
      | int n => rfl
      | str x => rfl
      | fn f => rfl
      | lp => rfl
      | rp => rfl
      | comma => rfl
      | eq => rfl
    rw [general _ rfl hmm]
    cases a with
    | bin o => cases o <;> first | rfl | (cases b <;> rfl)
    | int n => rfl
    | str x => rfl
    | fn f => rfl
    | lp => rfl
    | rp => rfl
    | comma => rfl
    | eq => rfl

/-- **`expression_from_string` in the source IS the model's `parseDim`**: with the tokenizer, the validity pre-check, the helpers,
    the main loop and the constructor's self-reference test all regenerated, the whole path from a dimension string to its
    compiled program is the source's -/
theorem parseDim_is_source (s : List Char) : Gen.parseDimGen s = parseDim s := by
  unfold Gen.parseDimGen parseDim splitEq Gen.splitFirstEq
  by_cases he : s.isEmpty = true
  · simp [he]
  · simp only [he, Bool.false_eq_true, if_false]
    by_cases hc : s.contains '=' = true
    · simp only [hc, if_true, CoreTok.tokenize_is_source, pfiTop_is_source]
      cases tokenize (List.drop 1 (List.dropWhile (fun x => decide (x ≠ '=')) s)) <;> rfl
    · simp only [hc, Bool.false_eq_true, if_false, CoreTok.tokenize_is_source, pfiTop_is_source]
      cases tokenize s <;> rfl

end Dltype.CoreParse
