import DltypeModel
import DltypeModel.Generated.ShapeLoop
import Proofs.Shape
import Properties.C03p
/-!
# The translator tie for the annotation constructor.

`Generated/ShapeLoop.lean` is regenerated on every run from `TensorTypeBase.__init__` and `_parse_shape_string`
(`harness/translate_core.py`): the loop over the whitespace-separated dimensions (which attributes a marker dimension sets, in
which order; the `|=` on the anonymous flag), the test on the number of markers, the filter of the `_literal_dims`
comprehension.  It is proved equal to the model `parseShape` (`DltypeModel/Shape.lean`).
-/
namespace Dltype.CoreShape
open Dltype Dltype.Proofs

/-- the loop state after the dimensions `ds` (at positions `k, k+1, …`) -/
def stepAll : List DimExpr → Nat → Gen.ShapeState → Gen.ShapeState
  | [], _, st => st
  | d :: ds, k, st => stepAll ds (k + 1) (Gen.shapeStep k d st)

theorem shapeLoop_eq (parts : List (List Char)) (i : Nat) (st : Gen.ShapeState) (acc : List DimExpr) :
    Gen.shapeLoop parts i st acc =
      (match parseDims parts with
       | .error e => .error e
       | .ok ds => .ok (stepAll ds i st, acc ++ ds)) := by
  induction parts generalizing i st acc with
  | nil => simp [Gen.shapeLoop, parseDims, stepAll]
  | cons s rest ih =>
    simp only [Gen.shapeLoop, parseDims]
    cases parseDim s with
    | error e => rfl
    | ok d =>
      simp only [ih]
      cases parseDims rest with
      | error e => rfl
      | ok ds => simp [stepAll]

def nameOf (d : DimExpr) : Option Name := if d.isNamedMultiaxis then some d.identifier else none

theorem getLast?_cons_of_some {α} (a : α) (l : List α) (x : α) (h : l.getLast? = some x) : (a :: l).getLast? = some x := by
  cases l with
  | nil => simp at h
  | cons b r => simpa [List.getLast?_cons_cons] using h

theorem stepAll_spec (ds : List DimExpr) (k : Nat) (st : Gen.ShapeState) (hfresh : ∀ x ∈ st.parsed, x < k) :
    (stepAll ds k st).parsed = st.parsed ++ markerIdxs ds k ∧
    (stepAll ds k st).multiIdx = (match (markerIdxs ds k).getLast? with | some i => some i | none => st.multiIdx) ∧
    (stepAll ds k st).multiName =
      (match (markerIdxs ds k).getLast? with
       | some i => (match ds[i - k]? with | some d => nameOf d | none => none)
       | none => st.multiName) ∧
    (stepAll ds k st).anon = (st.anon || ds.any (·.isAnonymous)) := by
  induction ds generalizing k st with
  | nil => simp [stepAll, markerIdxs]
  | cons d rest ih =>
    have hnc : st.parsed.contains k = false := by
      cases h : st.parsed.contains k with
      | false => rfl
      | true =>
        have := hfresh k (by simpa using h)
        omega
    by_cases hm : d.isMarker = true
    · have hm' : (d.isNamedMultiaxis || d.isAnonymous) = true := by simpa [DimExpr.isMarker] using hm
      have hst : Gen.shapeStep k d st =
          { parsed := st.parsed ++ [k], multiName := nameOf d, multiIdx := some k, anon := st.anon || d.isAnonymous } := by
        have hnm : k ∉ st.parsed := by simpa using hnc
        simp [Gen.shapeStep, hm', hnm, nameOf]
      have hf' : ∀ x ∈ (Gen.shapeStep k d st).parsed, x < k + 1 := by
        rw [hst]; intro x hx
        rcases List.mem_append.mp hx with h | h
        · have := hfresh x h; omega
        · simp at h; omega
      obtain ⟨p1, p2, p3, p4⟩ := ih (k + 1) (Gen.shapeStep k d st) hf'
      simp only [stepAll, markerIdxs, hm, if_true]
      refine ⟨?_, ?_, ?_, ?_⟩
      · rw [p1, hst]; simp
      · rw [p2, hst]
        cases hl : (markerIdxs rest (k + 1)).getLast? with
        | none =>
          have : markerIdxs rest (k + 1) = [] := by simpa using hl
          simp [this]
        | some i => simp [getLast?_cons_of_some k _ i hl]
      · rw [p3, hst]
        cases hl : (markerIdxs rest (k + 1)).getLast? with
        | none =>
          have : markerIdxs rest (k + 1) = [] := by simpa using hl
          simp [this]
        | some i =>
          have hi := (markerIdxs_range rest (k + 1) i (getLast?_mem _ _ hl)).1
          simp only [getLast?_cons_of_some k _ i hl]
          have : i - k = (i - (k + 1)) + 1 := by omega
          rw [this, List.getElem?_cons_succ]
      · rw [p4, hst]; simp [Bool.or_assoc]
    · have hm' : (d.isNamedMultiaxis || d.isAnonymous) = false := by simpa [DimExpr.isMarker] using hm
      have hanon : d.isAnonymous = false := by
        cases h : d.isAnonymous with
        | false => rfl
        | true => simp [h] at hm'
      have hnamed : d.isNamedMultiaxis = false := by
        cases h : d.isNamedMultiaxis with
        | false => rfl
        | true => simp [h] at hm'
      have hst : Gen.shapeStep k d st = st := by
        simp [Gen.shapeStep, hnamed, hanon]
      have hf' : ∀ x ∈ (Gen.shapeStep k d st).parsed, x < k + 1 := by
        rw [hst]; intro x hx; have := hfresh x hx; omega
      obtain ⟨p1, p2, p3, p4⟩ := ih (k + 1) (Gen.shapeStep k d st) hf'
      have hmf : d.isMarker = false := by simpa using hm
      simp only [stepAll, markerIdxs, hmf, Bool.false_eq_true, if_false]
      refine ⟨?_, ?_, ?_, ?_⟩
      · rw [p1, hst]
      · rw [p2, hst]
      · rw [p3, hst]
        cases hl : (markerIdxs rest (k + 1)).getLast? with
        | none => rfl
        | some i =>
          have hi := (markerIdxs_range rest (k + 1) i (getLast?_mem _ _ hl)).1
          simp only
          have : i - k = (i - (k + 1)) + 1 := by omega
          rw [this, List.getElem?_cons_succ]
      · rw [p4, hst]; simp [hanon]

theorem literalDims_eq (ds : List DimExpr) (i : Nat) (mi : Option Nat) :
    Gen.literalDims ds i mi =
      (match literalDimsRaise ds i mi with
       | some e => .error e
       | none => .ok (literalDimsOf ds i mi)) := by
  induction ds generalizing i with
  | nil => simp [Gen.literalDims, literalDimsRaise, literalDimsOf]
  | cons d rest ih =>
    simp only [Gen.literalDims, Gen.literalKept, literalDimsRaise, literalDimsOf]
    by_cases hk : (d.isLiteral && decide (mi ≠ some i)) = true
    · have hk' : (d.isLiteral && mi ≠ some i) = true := by simpa using hk
      simp only [hk, if_true, hk']
      cases d.evaluate [] with
      | val v =>
        simp only [ih]
        cases literalDimsRaise rest (i + 1) mi <;> simp [Except.map]
      | pyExc e => rfl
      | keyError k => rfl
      | unmodelled => rfl
    · have hk1 : (d.isLiteral && decide (mi ≠ some i)) = false := by simpa using hk
      have hk' : (d.isLiteral && mi ≠ some i) = false := by simpa using hk
      simp only [hk1, Bool.false_eq_true, if_false, hk', ih]

/-- **the annotation constructor in the source IS the model's `parseShape`** -/
theorem construct_is_source (shape : Option (List Char)) (cls : Nat) (opt : Bool) :
    Gen.construct shape cls opt = parseShape shape cls opt := by
  cases shape with
  | none => rfl
  | some s =>
    simp only [Gen.construct, parseShape]
    by_cases he : (splitWs s []).isEmpty = true
    · simp [he]
    · simp only [he, Bool.false_eq_true, if_false, shapeLoop_eq]
      cases hp : parseDims (splitWs s []) with
      | error e => rfl
      | ok dims =>
        obtain ⟨p1, p2, p3, p4⟩ := stepAll_spec dims 0 {} (by intro x hx; simp at hx)
        simp only [List.nil_append, p1, p2, p3, p4]
        by_cases hl : (markerIdxs dims 0).length > 1
        · simp [hl]
        · simp only [hl, decide_false, Bool.false_eq_true, if_false, literalDims_eq]
          cases hg : (markerIdxs dims 0).getLast? with
          | none =>
            simp only
            cases literalDimsRaise dims 0 none <;> simp
          | some i =>
            simp only [Nat.sub_zero]
            cases literalDimsRaise dims 0 (some i) with
            | some e => rfl
            | none =>
              simp only [Except.ok.injEq]
              cases dims[i]? with
              | none => simp
              | some d => simp [nameOf]

/-- **C03 / C06 about the source**: every annotation the regenerated constructor builds satisfies the well-formedness premises of
    the standalone-check theorems (literal axes in range and never the marker, marker in range) -/
theorem source_annotations_are_wellformed (shape : Option (List Char)) (cls : Nat) (opt : Bool) (ann : Ann)
    (h : Gen.construct shape cls opt = .ok ann) : C03.WFAnn ann := by
  rw [construct_is_source] at h
  exact (C03p.parsed_annotations_are_wellformed shape cls opt ann h).1

end Dltype.CoreShape
