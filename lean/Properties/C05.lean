import DltypeModel
import Spec
namespace Dltype.C05
open Dltype Dltype.Spec

/-- non-vacuity: a concrete tree of the grammar, its string, its program and its value -/
theorem example_tree :
    let t : Tree := .bin .sub (.bin .sub (.var ['a']) (.var ['b'])) (.lit ['2'])
    t.WF = true ∧ t.str = "a-b-2".toList ∧
    (parseDim t.str).toOption.map (·.post) = some t.post ∧
    t.eval (Scope.get? [(['a'], 10), (['b'], 3)]) = some 5 := by
  decide

end Dltype.C05
