import DltypeModel
import Spec
import Proofs.ParseTop
import Proofs.Eval
import Proofs.Recogniser
import Proofs.RecogniserComplete
import Proofs.ShapeTop
namespace Dltype.C05
open Dltype Dltype.Spec Dltype.Proofs

/-- **C05a** every string of the documented grammar is accepted, and read as the tree it was written from:
    the parsed program is the tree's post-order and the identifier is the string itself.
    (`Tree.WF`: legal identifiers and numerals; an infix node's left operand binds at least as tightly and
    its right operand strictly tighter than the node — i.e. the string, without parentheses of its own,
    means this tree under "`^` above `* /` above `+ -`, left to right within a level"; functions and
    parentheses are atoms.) -/
theorem grammar_accepted_and_compiled (t : Tree) (hwf : t.WF = true) :
    parseDim t.str = .ok { identifier := t.str, post := t.post } :=
  parseDim_tree t hwf

/-- … and with an optional `name=` prefix (a legal name that does not occur in the expression) -/
theorem named_expression_accepted (x : Name) (t : Tree) (hx : isIdent x = true) (hwf : t.WF = true)
    (hnot : x ∉ t.vars) :
    parseDim (x ++ '=' :: t.str) = .ok { identifier := x, post := t.post } :=
  parseDim_named x t hx hwf hnot

/-- **C05b** the stack machine computes the arithmetic value of the tree: on the program of a tree it
    returns a value exactly when the tree has one (all names bound, no division by zero, no square root of
    a negative, no negative exponent), and then it is that value (floor division, floor square root). -/
theorem machine_computes_tree_value (t : Tree) (hwf : t.WF = true) (σ : Scope) (v : Int) :
    runPostfix t.post [] σ = .val v ↔ t.eval σ.get? = some v :=
  runPostfix_val_iff t (WF_FnOK t hwf) σ v

/-- **C05 (end to end)** parsing the string of a tree and evaluating it under a scope gives the tree's
    arithmetic value, for every tree of the grammar and every integer scope -/
theorem string_evaluates_to_arithmetic_value (t : Tree) (hwf : t.WF = true) (σ : Scope) (v : Int) :
    evalString t.str σ = some (.val v) ↔ t.eval σ.get? = some v := by
  unfold evalString
  rw [parseDim_tree t hwf]
  simp only [Option.some.injEq]
  unfold DimExpr.evaluate
  simp only [Bool.false_eq_true, if_false]
  by_cases hid : (({ identifier := t.str, post := t.post } : DimExpr).isIdentifier && σ.has t.str) = true
  · -- only a bare variable is its own identifier; the cached value is the scope's value for it
    simp only [hid, if_true]
    simp only [Bool.and_eq_true, DimExpr.isIdentifier, Bool.false_or, beq_iff_eq] at hid
    obtain ⟨hpost, hhas⟩ := hid
    simp only [Scope.has, Option.isSome_iff_exists] at hhas
    obtain ⟨w, hw⟩ := hhas
    have hrun : runPostfix t.post [] σ = .val w := by
      rw [hpost]; simp [runPostfix, hw]
    have := (machine_computes_tree_value t hwf σ w).mp hrun
    simp only [hw]
    constructor
    · intro h; cases h; exact this
    · intro h; rw [this] at h; cases h; rfl
  · simp only [hid, Bool.false_eq_true, if_false]
    exact machine_computes_tree_value t hwf σ v

/-- the value does not depend on scope entries for names that do not occur in the expression -/
theorem value_depends_only_on_own_names (t : Tree) (f g : Name → Option Int)
    (h : ∀ x ∈ t.vars, f x = g x) : t.eval f = t.eval g := by
  induction t with
  | lit ds => rfl
  | var x => simpa [Tree.eval] using h x (by simp [Tree.vars])
  | bin o l r ihl ihr =>
    simp only [Tree.eval]
    rw [ihl (fun x hx => h x (by simp [Tree.vars, hx])), ihr (fun x hx => h x (by simp [Tree.vars, hx]))]
  | fn2 fn a b iha ihb =>
    simp only [Tree.eval]
    rw [iha (fun x hx => h x (by simp [Tree.vars, hx])), ihb (fun x hx => h x (by simp [Tree.vars, hx]))]
  | isqrt a ih => simp only [Tree.eval]; rw [ih (fun x hx => h x (by simpa [Tree.vars] using hx))]
  | grp a ih => simp only [Tree.eval]; exact ih (fun x hx => h x (by simpa [Tree.vars] using hx))

/-- **C05d** the value the checker demands of an axis annotated with an expression of the grammar (a
    dimension that is neither a plain name nor a bare literal) is the arithmetic value of that expression
    under the context's assignment -/
theorem checker_demands_tree_value (t : Tree) (hwf : t.WF = true) (σ : Scope) (a : Nat)
    (hni : ({ identifier := t.str, post := t.post } : DimExpr).isIdentifier = false)
    (hnl : ({ identifier := t.str, post := t.post } : DimExpr).isLiteral = false)
    (h : DimConforms σ { identifier := t.str, post := t.post } a) : t.eval σ.get? = some (Int.ofNat a) := by
  rcases h with h | ⟨_, h⟩
  · simp at h
  · rcases h with h | h | h
    · rw [hni] at h; cases h
    · rw [hnl] at h; cases h
    · exact (machine_computes_tree_value t hwf σ _).mp h

/-- non-vacuity of C05d: `a+1` is neither a plain name nor a literal -/
theorem example_expression_dim :
    let t : Tree := .bin .add (.var ['a']) (.lit ['1'])
    t.WF = true ∧ ({ identifier := t.str, post := t.post } : DimExpr).isIdentifier = false ∧
    ({ identifier := t.str, post := t.post } : DimExpr).isLiteral = false := by decide

/-- … and so are a lone name in parentheses (`(a)`: an expression, not an identifier called "(a)") and an expression without any name
    (`3*2`, `isqrt(16)`: not a literal) — both are compared with their arithmetic value like any other expression -/
theorem example_group_and_constant_expression_dims :
    (let t : Tree := .grp (.var ['a'])
     t.WF = true ∧ ({ identifier := t.str, post := t.post } : DimExpr).isIdentifier = false ∧
     ({ identifier := t.str, post := t.post } : DimExpr).isLiteral = false) ∧
    (let t : Tree := .bin .mul (.lit ['3']) (.lit ['2'])
     t.WF = true ∧ ({ identifier := t.str, post := t.post } : DimExpr).isIdentifier = false ∧
     ({ identifier := t.str, post := t.post } : DimExpr).isLiteral = false) ∧
    (let t : Tree := .isqrt (.lit ['1', '6'])
     t.WF = true ∧ ({ identifier := t.str, post := t.post } : DimExpr).isIdentifier = false ∧
     ({ identifier := t.str, post := t.post } : DimExpr).isLiteral = false) := by decide

/-- the oracle used by the correspondence runs is sound: a string the independent recursive-descent
    recogniser accepts is the string of the well-formed tree it returns … -/
theorem recogniser_is_sound (s : List Char) (t : Tree) (h : recogniseExpr s = some t) :
    t.str = s ∧ t.WF = true :=
  recogniseExpr_sound s t h

/-- … hence, for EVERY string, whatever the recogniser accepts the model parser accepts, with the
    post-order of the recogniser's tree as its program and (by `string_evaluates_to_arithmetic_value`)
    the recogniser's arithmetic value as its value -/
theorem parser_accepts_what_recogniser_accepts (s : List Char) (t : Tree) (h : recogniseExpr s = some t) :
    parseDim s = .ok { identifier := s, post := t.post } :=
  recognised_is_parsed s t h

/-- … and complete: the string of every well-formed tree is accepted with exactly that tree, so the oracle
    *decides* the documented grammar (`Proofs/RecogniserComplete.lean`: lexer completeness on separated token
    lists, fuel monotonicity, the level / chain / atom induction with an explicit fuel bound) -/
theorem recogniser_decides_grammar (s : List Char) (t : Tree) :
    recogniseExpr s = some t ↔ (t.str = s ∧ t.WF = true) :=
  recogniseExpr_iff s t

/-- the documented grammar is unambiguous: a string is written by at most one well-formed tree … -/
theorem grammar_is_unambiguous (t₁ t₂ : Tree) (h₁ : t₁.WF = true) (h₂ : t₂.WF = true) (h : t₁.str = t₂.str) :
    t₁ = t₂ :=
  grammar_unambiguous t₁ t₂ h₁ h₂ h

/-- … so "the arithmetic value of a dimension string" is well defined: any two readings of a string agree -/
theorem arithmetic_value_well_defined (s : List Char) (t₁ t₂ : Tree) (h₁ : t₁.WF = true) (h₂ : t₂.WF = true)
    (e₁ : t₁.str = s) (e₂ : t₂.str = s) (σ : Name → Option Int) : t₁.eval σ = t₂.eval σ := by
  rw [grammar_unambiguous t₁ t₂ h₁ h₂ (e₁.trans e₂.symm)]

/-- C05a at the level users write — a whole shape string: for EVERY non-empty list of well-formed expression trees, the
    string that writes them separated by single spaces is accepted by the annotation constructor (`parseShape`, the model of
    `TensorTypeBase.__init__`); the annotation has exactly those dimensions, in order, each compiled to the post-order of its
    tree, no multi-axis marker, and the literal axes the standalone check uses are the literal positions -/
theorem shape_string_accepted_and_compiled (ts : List Tree) (hne : ts ≠ []) (hwf : ∀ t ∈ ts, t.WF = true)
    (cls : Nat) (opt : Bool) :
    parseShape (some (joinWords (ts.map Tree.str))) cls opt =
      .ok { dims := ts.map dimOf, multiIdx := none, multiName := none, anonMulti := false,
            literalDims := literalDimsOf (ts.map dimOf) 0 none, cls := cls, optional := opt } :=
  parseShape_trees ts hne hwf cls opt

/-- non-vacuity: `"a a+1 3"` is such a shape string -/
theorem example_shape_string :
    let ts : List Tree := [.var ['a'], .bin .add (.var ['a']) (.lit ['1']), .lit ['3']]
    joinWords (ts.map Tree.str) = "a a+1 3".toList ∧ (∀ t ∈ ts, t.WF = true) := by decide

/-- non-vacuity: a concrete tree of the grammar, its string, its program and its value -/
theorem example_tree :
    let t : Tree := .bin .sub (.bin .sub (.var ['a']) (.var ['b'])) (.lit ['2'])
    t.WF = true ∧ t.str = "a-b-2".toList ∧
    (parseDim t.str).toOption.map (·.post) = some t.post ∧
    t.eval (Scope.get? [(['a'], 10), (['b'], 3)]) = some 5 := by
  decide

end Dltype.C05
