import DltypeModel
import DltypeModel.Generated.Classes
import Properties.C14
/-!
# The tie for the class entry points.

`Generated/Classes.lean` is re-emitted on every run after `harness/translate_core.py` has matched, statement by statement, the
bodies of `validated_new` (`dltyped_namedtuple`), `new_init` (`dltyped_dataclass`) and `validate_tensor` (the pydantic hook of
`TensorTypeBase`) against the shapes it reads: original constructor called with the caller's arguments on the class being
instantiated, a fresh context, every hinted field queued in declaration order, one `assert_context`, the instance / tensor
itself handed back.  The emitted functions are proved equal to the model (`constructBatch`, `pydanticField`) that C14 and C17
are about.
-/
namespace Dltype.CoreClasses
open Dltype

theorem ntLoop_is_addAll (vals : List (Name × Value)) (all fields : List (Name × HintAnns)) :
    Gen.ntLoop vals all fields = constructBatch.addAll vals fields := by
  induction fields with
  | nil => simp [Gen.ntLoop, constructBatch.addAll]
  | cons p ps ih =>
    obtain ⟨n, h⟩ := p
    simp only [Gen.ntLoop, Gen.ntFieldStep, constructBatch.addAll]
    cases lookupArg vals n with
    | none => rfl
    | some v =>
      simp only
      cases addHinted n v h with
      | ok es => simp only [ih]; cases constructBatch.addAll vals ps <;> rfl
      | reject r => rfl
      | pyExc e => rfl
      | unmodelled => rfl

/-- **`validated_new` (NamedTuple) in the source IS the model's batch construction** -/
theorem nt_is_source (acc : Acc) (fields : List (Name × HintAnns)) (vals : List (Name × Value)) :
    Gen.ntConstruct acc fields vals = constructBatch acc fields vals := by
  unfold Gen.ntConstruct constructBatch
  rw [ntLoop_is_addAll]
  cases constructBatch.addAll vals fields <;> rfl

theorem lookupField_mem (l : List (Name × HintAnns)) (k : Name) (h : HintAnns) (hm : (k, h) ∈ l)
    (hn : (l.map Prod.fst).Nodup) : Gen.lookupField l k = some h := by
  induction l with
  | nil => cases hm
  | cons x xs ih =>
    obtain ⟨k', h'⟩ := x
    simp only [List.map_cons, List.nodup_cons] at hn
    rcases List.mem_cons.mp hm with heq | hm'
    · cases heq; simp [Gen.lookupField]
    · have hne : k' ≠ k := by
        intro e; subst e
        exact hn.1 (List.mem_map.mpr ⟨(k', h), hm', rfl⟩)
      simp only [Gen.lookupField, hne, if_false]
      exact ih hm' hn.2

theorem dcLoop_is_addAll (vals : List (Name × Value)) (all fields : List (Name × HintAnns))
    (hl : ∀ p ∈ fields, Gen.lookupField all p.1 = some p.2) :
    Gen.fieldLoop (Gen.dcFieldStep vals all) fields = constructBatch.addAll vals fields := by
  induction fields with
  | nil => simp [Gen.fieldLoop, constructBatch.addAll]
  | cons p ps ih =>
    obtain ⟨n, h⟩ := p
    have ih' := ih (fun q hq => hl q (by simp [hq]))
    have hlk := hl (n, h) (by simp)
    simp only [Gen.fieldLoop, Gen.dcFieldStep, constructBatch.addAll, hlk]
    cases lookupArg vals n with
    | none => rfl
    | some v =>
      simp only
      cases addHinted n v h with
      | ok es => simp only [ih']; cases constructBatch.addAll vals ps <;> rfl
      | reject r => rfl
      | pyExc e => rfl
      | unmodelled => rfl

/-- **`new_init` (dataclass) in the source IS the model's batch construction** (field names are distinct: they are dict keys) -/
theorem dc_is_source (acc : Acc) (fields : List (Name × HintAnns)) (vals : List (Name × Value))
    (hn : (fields.map Prod.fst).Nodup) : Gen.dcConstruct acc fields vals = constructBatch acc fields vals := by
  unfold Gen.dcConstruct constructBatch
  rw [dcLoop_is_addAll vals fields fields (fun p hp => lookupField_mem fields p.1 p.2 (by simpa using hp) hn)]
  cases constructBatch.addAll vals fields <;> rfl

/-- **`validate_tensor` (pydantic) in the source IS the model's per-field step**; without a context in the validation's data it
    starts from the empty one -/
theorem pyd_is_source (acc : Acc) (st : CState) (name : Name) (ann : Ann) (t : Tensor) :
    Gen.pydField acc (some st) name ann t = pydanticField acc st name ann t ∧
    Gen.pydField acc none name ann t = pydanticField acc {} name ann t := by
  constructor <;>
  · unfold Gen.pydField pydanticField
    cases check acc ann t name with
    | error r => rfl
    | ok u => cases u; simp [addGo]

/-- **C14 about the source**: function-style batch construction (NamedTuple = dataclass) -/
theorem source_nt_eq_dc (acc : Acc) (fields : List (Name × HintAnns)) (vals : List (Name × Value))
    (hn : (fields.map Prod.fst).Nodup) : Gen.ntConstruct acc fields vals = Gen.dcConstruct acc fields vals := by
  rw [nt_is_source, dc_is_source acc fields vals hn]

/-- a whole pydantic validation as pydantic-core drives it: one `validate_tensor` call per annotated field, in declaration
    order, all sharing the validation's `info.data` (no context in it before the first field) -/
def pydValidation (acc : Acc) : Option CState → List (Name × Ann × Tensor) → Outcome CState
  | data, [] => .ok (data.getD {})
  | data, (n, a, t) :: rest =>
    match Gen.pydField acc data n a t with
    | .ok st => pydValidation acc (some st) rest
    | .reject r => .reject r
    | .pyExc e => .pyExc e
    | .unmodelled => .unmodelled

theorem pydValidation_some (acc : Acc) (st : CState) (fs : List (Name × Ann × Tensor)) :
    pydValidation acc (some st) fs = validateIncremental acc st fs := by
  induction fs generalizing st with
  | nil => rfl
  | cons f fs ih =>
    obtain ⟨n, a, t⟩ := f
    simp only [pydValidation, validateIncremental, (pyd_is_source acc st n a t).1]
    cases pydanticField acc st n a t with
    | ok st' => exact ih st'
    | reject r => rfl
    | pyExc e => rfl
    | unmodelled => rfl

/-- **C14 / C17 about the source**: a pydantic validation through the regenerated `validate_tensor` gives the verdict, report and
    bindings of ONE batch run over the same fields on an empty context — the same as the NamedTuple / dataclass constructors -/
theorem source_pydantic_eq_batch (acc : Acc) (fs : List (Name × Ann × Tensor)) :
    pydValidation acc none fs = runEntries acc {} (fs.map C14.toEntry) := by
  cases fs with
  | nil => rfl
  | cons f fs =>
    obtain ⟨n, a, t⟩ := f
    rw [← C14.incremental_eq_batch]
    simp only [pydValidation, validateIncremental, (pyd_is_source acc {} n a t).2]
    cases pydanticField acc {} n a t with
    | ok st' => exact pydValidation_some acc st' fs
    | reject r => rfl
    | pyExc e => rfl
    | unmodelled => rfl

end Dltype.CoreClasses
