import DltypeModel
namespace Dltype.C13
open Dltype

/-- what the decorator source says (regenerated on every run): the default of `enabled` is the negation
    of the environment switch, the first statement of each inner function returns the decorated object
    itself when `not enabled` (or, for functions and dataclasses, while torch is scripting). -/
theorem guards_are_modelled :
    Gen.decoratorGuards =
      [("dltyped", "not _constants.GLOBAL_DISABLE", "_dependency_utilities.is_torch_scripting() or not enabled", true),
       ("dltyped_namedtuple", "not _constants.GLOBAL_DISABLE", "not enabled", true),
       ("dltyped_dataclass", "not _constants.GLOBAL_DISABLE", "_dependency_utilities.is_torch_scripting() or not enabled", true)] := by
  decide

theorem env_is_modelled :
    Gen.envConfig = [("case_sensitive", "False"), ("env_prefix", "'DLTYPE_'"), ("frozen", "True")] ∧
    Gen.envFields = [("DISABLE", "bool", "False"), ("DEBUG_MODE", "bool", "False")] ∧
    Gen.constants = [("DEBUG_MODE", "__env.DEBUG_MODE"), ("GLOBAL_DISABLE", "__env.DISABLE"), ("PYDANTIC_INFO_KEY", "'__dltype__'")] ∧
    Gen.loggerBranches = [("_constants.GLOBAL_DISABLE", "DummyLogger()"), ("not _constants.DEBUG_MODE", "DummyLogger()")] := by
  decide

/-- the model of the switch: `enabledArg` is the explicit argument if given, `envDisable` the parsed
    DLTYPE_DISABLE, `scripting` = torch is scripting (functions and dataclasses only) -/
def returnsIdentity (kind : String) (enabledArg : Option Bool) (envDisable scripting : Bool) : Bool :=
  let enabled := enabledArg.getD (!envDisable)
  (kind != "dltyped_namedtuple" && scripting) || !enabled

/-- C13 (decision table): outside scripting each of the three decorators returns the decorated object
    itself exactly when the effective `enabled` is false; an explicit `enabled=True` overrides the
    environment switch; an explicit `enabled=False` always disables. -/
theorem disabled_means_identity :
    ∀ kind ∈ ["dltyped", "dltyped_namedtuple", "dltyped_dataclass"], ∀ envDisable : Bool,
      returnsIdentity kind none envDisable false = envDisable ∧
      returnsIdentity kind (some true) envDisable false = false ∧
      returnsIdentity kind (some false) envDisable false = true := by
  decide

end Dltype.C13
