import DltypeModel
import DltypeModel.Generated.PydHook
import Properties.C17
/-!
# The translator tie for the class-definition part of the pydantic hook.

`Generated/PydHook.lean` is regenerated on every run from `TensorTypeBase.__get_pydantic_core_schema__`
(`harness/translate_core.py: gen_pydhook`): the statements after the definition of the validator — the test that the base type is a
numpy array type (with the order of its two conjuncts: `np` is unbound when numpy is absent), the cross-check of the declared scalar
types against the class's `DTYPES`, the error it raises, the schema it returns.
-/
namespace Dltype.CorePyd
open Dltype

/-- acceptance of a dtype by a class, from its table: `not DTYPES or dtype in DTYPES` -/
def accOf (hasDtypes : Bool) (member : DT → Bool) (d : DT) : Bool := !hasDtypes || member d

/-- **the class-definition cross-check in the source IS the model's `classDefRejects`**: with numpy present, a numpy array base
    type is refused (DLTypeDtypeError) exactly when one of its declared scalar types is not accepted by the class -/
theorem schemaHook_is_source (hasDtypes : Bool) (member : DT → Bool) (declared : List DT) :
    Gen.schemaHook true true hasDtypes member declared =
      if classDefRejects (fun _ d => accOf hasDtypes member d) 0 declared then .rejectDtype else .schema true := by
  cases hasDtypes with
  | false =>
    have : (declared.any fun d => !accOf false member d) = false := by
      simp [accOf]
    simp [Gen.schemaHook, Gen.andS, classDefRejects, this]
  | true =>
    have : (declared.any fun d => !accOf true member d) = declared.any (fun d => !member d) := by
      simp [accOf]
    simp only [Gen.schemaHook, Gen.andS, classDefRejects, this, if_true]
    cases declared.any (fun d => !member d) <;> rfl

/-- a base type that is not a numpy array type (torch.Tensor, jax.Array, a plain class) is never cross-checked -/
theorem other_base_types_pass (numpyAvailable hasDtypes : Bool) (member : DT → Bool) (declared : List DT) :
    Gen.schemaHook numpyAvailable false hasDtypes member declared = .schema false := by
  cases numpyAvailable <;> rfl

/-- without numpy the hook never touches `np` (C20: the pydantic form works in every environment) -/
theorem no_numpy_no_nameError (isNdarray hasDtypes : Bool) (member : DT → Bool) (declared : List DT) :
    Gen.schemaHook false isNdarray hasDtypes member declared = .schema false := rfl

/-- non-vacuity: a class with a table that lacks one of two declared types refuses; with both it passes -/
theorem example_hook :
    Gen.schemaHook true true true (fun d => d.code == 3) [⟨0, 3⟩, ⟨0, 4⟩] = .rejectDtype ∧
    Gen.schemaHook true true true (fun d => d.code == 3 || d.code == 4) [⟨0, 3⟩, ⟨0, 4⟩] = .schema true := by
  constructor <;> rfl

/-! ## `_resolve_numpy_dtype` -/

open Gen in
/-- the three spellings of a numpy array base type: `np.ndarray[Any, np.dtype[A]]` / `npt.NDArray[A]` (one scalar type),
    `np.ndarray[Any, np.dtype[A | B | …]]` (a union of scalar types), `np.ndarray[Any, np.dtype[A] | np.dtype[B] | …]` (a union of
    dtype objects); `shapeArg` is whatever stands in the first position -/
def arrayOfScalar (shapeArg : TObj) (d : DT) : TObj := .node [shapeArg, .node [.leaf d]]
open Gen in
def arrayOfScalarUnion (shapeArg : TObj) (ds : List DT) : TObj := .node [shapeArg, .node [.node (ds.map .leaf)]]
open Gen in
def arrayOfDtypeUnion (shapeArg : TObj) (ds : List DT) : TObj := .node [shapeArg, .node (ds.map (fun d => .node [.leaf d]))]

/-- **`_resolve_numpy_dtype` in the source**: a single scalar type is itself the declared list -/
theorem resolveNumpyDtype_scalar (sh : Gen.TObj) (d : DT) :
    Gen.resolveNumpyDtype (arrayOfScalar sh d) = some [.leaf d] := rfl

/-- … a union of scalar types declares every member, in order (a union has at least two members, so it is never empty) -/
theorem resolveNumpyDtype_scalar_union (sh : Gen.TObj) (ds : List DT) (h : ds ≠ []) :
    Gen.resolveNumpyDtype (arrayOfScalarUnion sh ds) = some (ds.map .leaf) := by
  cases ds with
  | nil => exact absurd rfl h
  | cons d ds => simp [Gen.resolveNumpyDtype, arrayOfScalarUnion, Gen.TObj.getArgs, Gen.orSeq]

/-- … and so does a union of dtype objects: every member's scalar type, in order, none dropped -/
theorem resolveNumpyDtype_dtype_union (sh : Gen.TObj) (ds : List DT) :
    Gen.resolveNumpyDtype (arrayOfDtypeUnion sh ds) = some (ds.map .leaf) := by
  have key : ∀ ds : List DT, (ds.map (fun d => Gen.TObj.node [.leaf d])).flatMap
      (fun maybe_union => ((Gen.orSeq maybe_union.getArgs [maybe_union])).map (fun dtype => dtype)) = ds.map .leaf := by
    intro ds
    induction ds with
    | nil => rfl
    | cons d ds ih =>
      rw [List.map_cons, List.flatMap_cons, ih]
      rfl
  change some ((ds.map (fun d => Gen.TObj.node [.leaf d])).flatMap _) = _
  rw [key]

/-- an array type without a dtype argument (a bare `np.ndarray[Any]`) is an IndexError, not a silently empty declaration -/
theorem resolveNumpyDtype_needs_dtype_argument (sh : Gen.TObj) : Gen.resolveNumpyDtype (.node [sh]) = none := rfl

example : Gen.resolveNumpyDtype (arrayOfDtypeUnion (.node []) [⟨0, 1⟩, ⟨0, 2⟩]) = some [.leaf ⟨0, 1⟩, .leaf ⟨0, 2⟩] := rfl

/-! ## `unwrap_type_alias`

Regenerated statement by statement (`translate_core._gen_unwrap_alias`) over `Gen.AObj`, the picture of a `typing` object the function
inspects (`typing.get_origin`, `typing.get_args`, `__value__`). The result of subscripting an alias's value is left to `typing`
(`AObj.inst value args`): what is proved is *which* object is subscripted with *which* arguments. -/

open Gen in
/-- an object that is no alias and whose origin is no alias (`np.ndarray`, `torch.Tensor`, `np.ndarray[Any, np.dtype[np.float32]]`) -/
def NoAlias (tp : AObj) : Prop := tp.value? = none

open Gen in
/-- **a base type that involves no alias is handed on unchanged** -/
theorem unwrap_identity_without_alias (tp : AObj) (h : NoAlias tp) : unwrapTypeAlias tp = some (some tp) := by
  unfold NoAlias at h
  cases tp with
  | cls n => rfl
  | alias n v => simp [AObj.value?] at h
  | inst g as =>
    cases g with
    | sub o bs =>
      have ho : o.value? = none := by simpa [AObj.value?] using h
      simp [unwrapTypeAlias, pvOrigin, pvValue, AObj.getOrigin, AObj.value?, ho]
    | _ => rfl
  | sub o as =>
    have ho : o.value? = none := by simpa [AObj.value?] using h
    simp [unwrapTypeAlias, pvOrigin, pvValue, AObj.getOrigin, AObj.value?, ho]

open Gen in
theorem unwrap_plain_class (n : Nat) : unwrapTypeAlias (.cls n) = some (some (.cls n)) := rfl
open Gen in
theorem unwrap_subscripted_class (n : Nat) (args : List AObj) :
    unwrapTypeAlias (.sub (.cls n) args) = some (some (.sub (.cls n) args)) := rfl
open Gen in
/-- a bare alias (`type Arr = np.ndarray`) is replaced by what it stands for -/
theorem unwrap_bare_alias (n : Nat) (v : AObj) : unwrapTypeAlias (.alias n v) = some (some v) := rfl
open Gen in
/-- **a subscripted alias (`npt.NDArray[np.float32]`) is its value subscripted with exactly the arguments written** — not the
    unsubstituted value (which is what attribute access on the subscripted object would give), none dropped, none reordered -/
theorem unwrap_subscripted_alias (n : Nat) (v : AObj) (args : List AObj) :
    unwrapTypeAlias (.sub (.alias n v) args) = some (some (.inst v args)) := rfl

open Gen in
/-- the function never raises and never returns None, whatever typing object it is given -/
theorem unwrap_total (tp : AObj) : ∃ r, unwrapTypeAlias tp = some (some r) := by
  cases h : tp.value? with
  | none => exact ⟨tp, unwrap_identity_without_alias tp h⟩
  | some v =>
    cases tp with
    | cls n => simp [AObj.value?] at h
    | inst g as =>
      cases g with
      | sub o bs =>
        have ho : o.value? = some v := by simpa [AObj.value?] using h
        exact ⟨.inst v as, by simp [unwrapTypeAlias, pvOrigin, pvValue, pvArgs, AObj.getOrigin, AObj.getArgs, ho]⟩
      | _ => simp [AObj.value?] at h
    | alias n w => exact ⟨w, rfl⟩
    | sub o as =>
      have ho : o.value? = some v := by simpa [AObj.value?] using h
      exact ⟨.inst v as, by simp [unwrapTypeAlias, pvOrigin, pvValue, pvArgs, AObj.getOrigin, AObj.getArgs, ho]⟩

open Gen in
/-- what the hook then tests (`typing.get_origin(source_type) is np.ndarray`): a subscripted alias whose value is a subscripted array type
    (`npt.NDArray[np.float32]`, value `np.ndarray[shape, np.dtype[T]]`) is seen with the origin of that value — it is cross-checked as the
    array type it stands for -/
theorem unwrapped_alias_has_origin_of_value (n : Nat) (o : AObj) (vargs args : List AObj) :
    (unwrapTypeAlias (.sub (.alias n (.sub o vargs)) args)).map (fun r => r.bind AObj.getOrigin) = some (some o) := rfl
open Gen in
/-- … and is handed the arguments written by the user, from which `_resolve_numpy_dtype` reads the declared scalar types -/
theorem unwrapped_alias_has_written_args (n : Nat) (v : AObj) (args : List AObj) :
    (unwrapTypeAlias (.sub (.alias n v) args)).map (fun r => pvArgs r) = some args := rfl
open Gen in
/-- a bare alias of a bare class (`type Arr = np.ndarray`) has no origin afterwards: like `np.ndarray` itself it declares nothing to cross-check -/
theorem unwrapped_bare_alias_of_class (n c : Nat) :
    (unwrapTypeAlias (.alias n (.cls c))).map (fun r => r.bind AObj.getOrigin) = some none := rfl

open Gen in
/-- one level only: an alias of an alias is resolved to the inner alias (documented behaviour of the source, not a claim of the properties) -/
example : unwrapTypeAlias (.alias 0 (.alias 1 (.cls 2))) = some (some (.alias 1 (.cls 2))) := rfl
open Gen in
example : unwrapTypeAlias (.sub (.alias 0 (.sub (.cls 1) [.cls 9])) [.cls 5]) = some (some (.inst (.sub (.cls 1) [.cls 9]) [.cls 5])) := rfl

end Dltype.CorePyd
