import DltypeModel
import DltypeModel.Generated.PydHook
import Properties.C17
/-!
# The translator tie for the class-definition part of the pydantic hook.

`Generated/PydHook.lean` is regenerated on every run from `TensorTypeBase.__get_pydantic_core_schema__`
(`harness/translate_core.py: gen_pydhook`): the statements after the definition of the validator — the test that the base type is a
numpy array type (with the order of its two conjuncts: `np` is unbound when numpy is absent), the cross-check of the declared scalar
types against the class's `DTYPES`, the error it raises, the schema it returns.
-/
namespace Dltype.CorePyd
open Dltype

/-- acceptance of a dtype by a class, from its table: `not DTYPES or dtype in DTYPES` -/
def accOf (hasDtypes : Bool) (member : DT → Bool) (d : DT) : Bool := !hasDtypes || member d

/-- **the class-definition cross-check in the source IS the model's `classDefRejects`**: with numpy present, a numpy array base
    type is refused (DLTypeDtypeError) exactly when one of its declared scalar types is not accepted by the class -/
theorem schemaHook_is_source (hasDtypes : Bool) (member : DT → Bool) (declared : List DT) :
    Gen.schemaHook true true hasDtypes member declared =
      if classDefRejects (fun _ d => accOf hasDtypes member d) 0 declared then .rejectDtype else .schema true := by
  cases hasDtypes with
  | false =>
    have : (declared.any fun d => !accOf false member d) = false := by
      simp [accOf]
    simp [Gen.schemaHook, Gen.andS, classDefRejects, this]
  | true =>
    have : (declared.any fun d => !accOf true member d) = declared.any (fun d => !member d) := by
      simp [accOf]
    simp only [Gen.schemaHook, Gen.andS, classDefRejects, this, if_true]
    cases declared.any (fun d => !member d) <;> rfl

/-- a base type that is not a numpy array type (torch.Tensor, jax.Array, a plain class) is never cross-checked -/
theorem other_base_types_pass (numpyAvailable hasDtypes : Bool) (member : DT → Bool) (declared : List DT) :
    Gen.schemaHook numpyAvailable false hasDtypes member declared = .schema false := by
  cases numpyAvailable <;> rfl

/-- without numpy the hook never touches `np` (C20: the pydantic form works in every environment) -/
theorem no_numpy_no_nameError (isNdarray hasDtypes : Bool) (member : DT → Bool) (declared : List DT) :
    Gen.schemaHook false isNdarray hasDtypes member declared = .schema false := rfl

/-- non-vacuity: a class with a table that lacks one of two declared types refuses; with both it passes -/
theorem example_hook :
    Gen.schemaHook true true true (fun d => d.code == 3) [⟨0, 3⟩, ⟨0, 4⟩] = .rejectDtype ∧
    Gen.schemaHook true true true (fun d => d.code == 3 || d.code == 4) [⟨0, 3⟩, ⟨0, 4⟩] = .schema true := by
  constructor <;> rfl

/-! ## `_resolve_numpy_dtype` -/

open Gen in
/-- the three spellings of a numpy array base type: `np.ndarray[Any, np.dtype[A]]` / `npt.NDArray[A]` (one scalar type),
    `np.ndarray[Any, np.dtype[A | B | …]]` (a union of scalar types), `np.ndarray[Any, np.dtype[A] | np.dtype[B] | …]` (a union of
    dtype objects); `shapeArg` is whatever stands in the first position -/
def arrayOfScalar (shapeArg : TObj) (d : DT) : TObj := .node [shapeArg, .node [.leaf d]]
open Gen in
def arrayOfScalarUnion (shapeArg : TObj) (ds : List DT) : TObj := .node [shapeArg, .node [.node (ds.map .leaf)]]
open Gen in
def arrayOfDtypeUnion (shapeArg : TObj) (ds : List DT) : TObj := .node [shapeArg, .node (ds.map (fun d => .node [.leaf d]))]

/-- **`_resolve_numpy_dtype` in the source**: a single scalar type is itself the declared list -/
theorem resolveNumpyDtype_scalar (sh : Gen.TObj) (d : DT) :
    Gen.resolveNumpyDtype (arrayOfScalar sh d) = some [.leaf d] := rfl

/-- … a union of scalar types declares every member, in order (a union has at least two members, so it is never empty) -/
theorem resolveNumpyDtype_scalar_union (sh : Gen.TObj) (ds : List DT) (h : ds ≠ []) :
    Gen.resolveNumpyDtype (arrayOfScalarUnion sh ds) = some (ds.map .leaf) := by
  cases ds with
  | nil => exact absurd rfl h
  | cons d ds => simp [Gen.resolveNumpyDtype, arrayOfScalarUnion, Gen.TObj.getArgs, Gen.orSeq]

/-- … and so does a union of dtype objects: every member's scalar type, in order, none dropped -/
theorem resolveNumpyDtype_dtype_union (sh : Gen.TObj) (ds : List DT) :
    Gen.resolveNumpyDtype (arrayOfDtypeUnion sh ds) = some (ds.map .leaf) := by
  have key : ∀ ds : List DT, (ds.map (fun d => Gen.TObj.node [.leaf d])).flatMap
      (fun maybe_union => ((Gen.orSeq maybe_union.getArgs [maybe_union])).map (fun dtype => dtype)) = ds.map .leaf := by
    intro ds
    induction ds with
    | nil => rfl
    | cons d ds ih =>
      rw [List.map_cons, List.flatMap_cons, ih]
      rfl
  change some ((ds.map (fun d => Gen.TObj.node [.leaf d])).flatMap _) = _
  rw [key]

/-- an array type without a dtype argument (a bare `np.ndarray[Any]`) is an IndexError, not a silently empty declaration -/
theorem resolveNumpyDtype_needs_dtype_argument (sh : Gen.TObj) : Gen.resolveNumpyDtype (.node [sh]) = none := rfl

example : Gen.resolveNumpyDtype (arrayOfDtypeUnion (.node []) [⟨0, 1⟩, ⟨0, 2⟩]) = some [.leaf ⟨0, 1⟩, .leaf ⟨0, 2⟩] := rfl

end Dltype.CorePyd
