import warnings; warnings.simplefilter("ignore")
import itertools, subprocess, sys, time
from dltype._lib import _parser
ALPHA=["a","b","1","2","+","-","*","/","^","(",")",",","min","isqrt","=","...","max","x_1","07"," ","?"]
N=int(sys.argv[1]); alpha=ALPHA[:int(sys.argv[2])]
strings=["".join(c) for n in range(1,N+1) for c in itertools.product(alpha,repeat=n)]
t0=time.time()
open("strings.txt","w").write("\n".join(strings)+"\n")
def show(x):
    if isinstance(x,int): return str(x)
    if isinstance(x,str): return f"'{x}'"
    return repr(x)
impl=[]
for s in strings:
    try:
        d=_parser.expression_from_string(s)
        impl.append(f"ok {d.identifier} [{', '.join(show(t) for t in d.parsed_expression)}]"+(" anon" if d.is_anonymous else "")+(" multi" if d.is_named_multiaxis else ""))
    except SyntaxError: impl.append("err")
    except Exception as e: impl.append("exc:"+type(e).__name__)
t1=time.time()
out=subprocess.run(["lake","env","lean","--run","ParserModel.lean"],stdin=open("strings.txt"),capture_output=True,text=True).stdout.splitlines()
t2=time.time()
assert len(out)==len(strings),(len(out),len(strings))
bad=[(s,a,b) for s,a,b in zip(strings,impl,out) if a!=b]
print(f"strings={len(strings)} accepted={sum(1 for a in impl if a.startswith('ok'))} disagreements={len(bad)} impl={t1-t0:.1f}s model={t2-t1:.1f}s")
for s,a,b in bad[:15]: print(repr(s),"| impl:",a,"| model:",b)
