/-! FEASIBILITY PROTOTYPE (design evidence, not part of the framework). Checked with `lean SY.lean` (Lean 4.33.0, core only).
    Shunting-yard as in dltype/_lib/_parser.py on one parenthesis level: `loop_correct` (C05 core) and `loop_alt` (C06 core). -/

inductive BinOp | add | sub | mul | div | exp
  deriving DecidableEq, Repr

inductive Fn | min | max | isqrt
  deriving DecidableEq, Repr

/-- stack / postfix operator items -/
inductive Op | bin (o : BinOp) | fn (f : Fn)
  deriving DecidableEq, Repr

def BinOp.prec : BinOp → Nat
  | .add => 1 | .sub => 1 | .mul => 2 | .div => 2 | .exp => 3

def Fn.prec : Fn → Nat
  | .min => 4 | .max => 4 | .isqrt => 5

def Op.prec : Op → Nat
  | .bin o => o.prec | .fn f => f.prec

inductive PItem | lit (n : Nat) | var (x : String) | op (o : Op)
  deriving DecidableEq, Repr

/-- one paren level, already "atomised": each atom carries the postfix code the recursive
    call produced for it and, for function atoms, the function that gets pushed on the stack. -/
inductive Item
  | atom (code : List PItem) (pending : Option Fn)
  | infix (o : BinOp)

/-- `_flush_op_by_precedence` -/
def flush (p : Nat) : List Op → List PItem → List Op × List PItem
  | [], out => ([], out)
  | s :: st, out => if s.prec ≥ p then flush p st (out ++ [.op s]) else (s :: st, out)

def popAll : List Op → List PItem → List PItem
  | [], out => out
  | s :: st, out => popAll st (out ++ [.op s])

/-- the main loop, over atomised items -/
def loop : List Item → List Op → List PItem → List PItem
  | [], st, out => popAll st out
  | .atom code pend :: rest, st, out =>
      -- flush with the precedence of the group / function token; then emit code; then push fn
      let p := match pend with | none => 6 | some f => f.prec
      let (st', out') := flush p st out
      match pend with
      | none => loop rest st' (out' ++ code)
      | some f => loop rest (.fn f :: st') (out' ++ code)
  | .infix o :: rest, st, out =>
      let (st', out') := flush o.prec st out
      loop rest (.bin o :: st') out'

/-- trees -/
inductive T
  | atom (code : List PItem) (pending : Option Fn)
  | bin (o : BinOp) (l r : T)

def T.prec : T → Nat
  | .atom _ _ => 100
  | .bin o _ _ => o.prec

def T.WF : T → Prop
  | .atom _ _ => True
  | .bin o l r => l.WF ∧ r.WF ∧ o.prec ≤ l.prec ∧ o.prec < r.prec

def T.items : T → List Item
  | .atom c p => [.atom c p]
  | .bin o l r => l.items ++ [.infix o] ++ r.items

def T.post : T → List PItem
  | .atom c none => c
  | .atom c (some f) => c ++ [.op (.fn f)]
  | .bin o l r => l.post ++ r.post ++ [.op (.bin o)]

/-- ops left on the stack after the tree has been consumed (top first) -/
def T.spine : T → List Op
  | .atom _ none => []
  | .atom _ (some f) => [.fn f]
  | .bin o _ r => r.spine ++ [.bin o]

def T.body : T → List PItem
  | .atom c _ => c
  | .bin _ l r => l.post ++ r.body

theorem popAll_eq (st : List Op) (out : List PItem) :
    popAll st out = out ++ st.map PItem.op := by
  induction st generalizing out with
  | nil => simp [popAll]
  | cons s st ih => simp [popAll, ih]

theorem body_spine (t : T) : t.body ++ t.spine.map PItem.op = t.post := by
  induction t with
  | atom c p => cases p <;> simp [T.body, T.spine, T.post]
  | bin o l r ihl ihr => simp [T.body, T.spine, T.post, ← ihr]

theorem flush_all (p : Nat) (xs st : List Op) (out : List PItem)
    (hx : ∀ x ∈ xs, p ≤ x.prec) (hs : ∀ s ∈ st, s.prec < p) :
    flush p (xs ++ st) out = (st, out ++ xs.map PItem.op) := by
  induction xs generalizing out with
  | nil =>
    cases st with
    | nil => simp [flush]
    | cons s st =>
      have := hs s (by simp)
      simp [flush]; omega
  | cons x xs ih =>
    have hx' := hx x (by simp)
    simp [flush, hx']
    rw [ih]
    · simp
    · intro y hy; exact hx y (by simp [hy])

theorem spine_prec (t : T) (h : t.WF) : ∀ x ∈ t.spine, t.prec ≤ x.prec ∨ (t.prec = 100 ∧ 4 ≤ x.prec) := by
  induction t with
  | atom c p =>
    cases p with
    | none => simp [T.spine]
    | some f => intro x hx; simp [T.spine] at hx; subst hx; right; cases f <;> simp [T.prec, Op.prec, Fn.prec]
  | bin o l r _ ihr =>
    intro x hx
    obtain ⟨_, hr, _, hlt⟩ := h
    simp [T.spine] at hx
    rcases hx with hx | hx
    · rcases ihr hr x hx with h1 | ⟨_, h2⟩
      · left; simp [T.prec]; omega
      · left; simp [T.prec]; cases o <;> simp [BinOp.prec] <;> omega
    · subst hx; left; simp [T.prec, Op.prec]

theorem loop_tree (t : T) (h : t.WF) (rest : List Item) (st : List Op) (out : List PItem)
    (hst : ∀ s ∈ st, s.prec < t.prec ∧ s.prec < 4) :
    loop (t.items ++ rest) st out = loop rest (t.spine ++ st) (out ++ t.body) := by
  induction t generalizing rest st out with
  | atom c p =>
    have hfl : ∀ q, 4 ≤ q → flush q st out = (st, out) := by
      intro q hq
      have := flush_all q [] st out (by simp) (by intro s hs; have := (hst s hs).2; omega)
      simpa using this
    cases p with
    | none => simp [T.items, loop, hfl 6 (by omega), T.spine, T.body]
    | some f =>
      have : 4 ≤ f.prec := by cases f <;> simp [Fn.prec]
      simp [T.items, loop, hfl f.prec this, T.spine, T.body]
  | bin o l r ihl ihr =>
    obtain ⟨hl, hr, hle, hlt⟩ := h
    simp only [T.items, List.append_assoc]
    rw [ihl hl]
    · simp only [List.cons_append, List.nil_append, loop]
      have hfl : flush o.prec (l.spine ++ st) (out ++ l.body) = (st, out ++ l.body ++ l.spine.map PItem.op) := by
        apply flush_all
        · intro x hx
          rcases spine_prec l hl x hx with h1 | ⟨_, h2⟩
          · omega
          · cases o <;> simp [BinOp.prec] <;> omega
        · intro s hs; have := (hst s hs).1; simpa [T.prec] using this
      rw [hfl]
      simp only []
      rw [ihr hr]
      · simp [T.spine, T.body, List.append_assoc, ← body_spine l]
      · intro s hs
        simp at hs
        rcases hs with hs | hs
        · subst hs; simp [Op.prec]; refine ⟨hlt, ?_⟩; cases o <;> simp [BinOp.prec]
        · have := hst s hs; simp [T.prec] at this; omega
    · intro s hs; have := hst s hs; simp [T.prec] at this; omega

theorem loop_correct (t : T) (h : t.WF) : loop t.items [] [] = t.post := by
  have := loop_tree t h [] [] [] (by simp)
  simp at this
  rw [this]
  simp [loop, popAll_eq, body_spine]


/-! ### every alternating sequence is the item list of exactly the tree built by right-spine insertion -/

def T.insert (o : BinOp) (c : List PItem) (p : Option Fn) : T → T
  | .atom c' p' => .bin o (.atom c' p') (.atom c p)
  | .bin o' l r => if o'.prec < o.prec then .bin o' l (T.insert o c p r) else .bin o (.bin o' l r) (.atom c p)

theorem insert_items (o : BinOp) (c : List PItem) (p : Option Fn) (t : T) :
    (T.insert o c p t).items = t.items ++ [.infix o, .atom c p] := by
  induction t with
  | atom c' p' => simp [T.insert, T.items]
  | bin o' l r _ ihr =>
    simp only [T.insert]
    split
    · simp [T.items, ihr]
    · simp [T.items]

theorem binop_prec_lt (o : BinOp) : o.prec < 100 := by cases o <;> simp [BinOp.prec]

theorem insert_prec (o : BinOp) (c : List PItem) (p : Option Fn) (t : T) :
    (T.insert o c p t).prec = min t.prec o.prec := by
  cases t with
  | atom c' p' => simp [T.insert, T.prec]; have := binop_prec_lt o; omega
  | bin o' l r =>
    simp only [T.insert]
    split
    · simp [T.prec]; omega
    · simp [T.prec]; omega

theorem insert_wf (o : BinOp) (c : List PItem) (p : Option Fn) (t : T) (h : t.WF) :
    (T.insert o c p t).WF := by
  induction t with
  | atom c' p' => simp [T.insert, T.WF, T.prec]; have := binop_prec_lt o; omega
  | bin o' l r _ ihr =>
    obtain ⟨hl, hr, hle, hlt⟩ := h
    simp only [T.insert]
    split
    · rename_i hlt'
      refine ⟨hl, ihr hr, hle, ?_⟩
      rw [insert_prec]; omega
    · rename_i hge
      refine ⟨⟨hl, hr, hle, hlt⟩, trivial, ?_, ?_⟩
      · simp [T.prec]; omega
      · simp [T.prec]; exact binop_prec_lt o

/-- build the tree of an alternating sequence -/
def build (c₀ : List PItem) (p₀ : Option Fn) : List (BinOp × List PItem × Option Fn) → T
  | [] => .atom c₀ p₀
  | xs => xs.foldl (fun t x => T.insert x.1 x.2.1 x.2.2 t) (.atom c₀ p₀)

def altItems (c₀ : List PItem) (p₀ : Option Fn) (xs : List (BinOp × List PItem × Option Fn)) : List Item :=
  .atom c₀ p₀ :: xs.flatMap (fun x => [.infix x.1, .atom x.2.1 x.2.2])

theorem foldl_insert (t : T) (h : t.WF) (xs : List (BinOp × List PItem × Option Fn)) :
    let t' := xs.foldl (fun t x => T.insert x.1 x.2.1 x.2.2 t) t
    t'.WF ∧ t'.items = t.items ++ xs.flatMap (fun x => [.infix x.1, .atom x.2.1 x.2.2]) := by
  induction xs generalizing t with
  | nil => simp [h]
  | cons x xs ih =>
    have := ih (T.insert x.1 x.2.1 x.2.2 t) (insert_wf _ _ _ t h)
    simp only [List.foldl_cons, List.flatMap_cons]
    refine ⟨this.1, ?_⟩
    rw [this.2, insert_items]; simp

/-- soundness at one level: whatever alternating sequence the loop is given, its output is the
    post-order of a precedence-respecting tree with exactly that item sequence -/
theorem loop_alt (c₀ : List PItem) (p₀ : Option Fn) (xs : List (BinOp × List PItem × Option Fn)) :
    ∃ t : T, t.WF ∧ t.items = altItems c₀ p₀ xs ∧ loop (altItems c₀ p₀ xs) [] [] = t.post := by
  have h := foldl_insert (.atom c₀ p₀) trivial xs
  refine ⟨xs.foldl (fun t x => T.insert x.1 x.2.1 x.2.2 t) (.atom c₀ p₀), h.1, ?_, ?_⟩
  · simpa [altItems, T.items] using h.2
  · have h2 : altItems c₀ p₀ xs = (xs.foldl (fun t x => T.insert x.1 x.2.1 x.2.2 t) (.atom c₀ p₀)).items := by
      simpa [altItems, T.items] using h.2.symm
    rw [h2]; exact loop_correct _ h.1

#print axioms loop_correct
#print axioms loop_alt
