/-! FEASIBILITY PROTOTYPE (design evidence, not part of the framework).
    Executable model of dltype/_lib/_parser.py at the pinned commit, quirks included, with a
    line-protocol driver:  lean --run ParserModel.lean < strings.txt
    String-based for brevity; the real model will use `List Char`. -/

inductive BinOp | add | sub | mul | exp | div
  deriving DecidableEq, Repr
inductive Fn | min | max | isqrt
  deriving DecidableEq, Repr

inductive Tok
  | int (n : Nat) | str (s : String) | bin (o : BinOp) | fn (f : Fn) | lp | rp | comma | eq
  deriving DecidableEq, Repr

inductive PItem | int (n : Nat) | str (s : String) | bin (o : BinOp) | fn (f : Fn)
  deriving DecidableEq, Repr

def BinOp.sym : BinOp → String
  | .add => "+" | .sub => "-" | .mul => "*" | .exp => "^" | .div => "/"
def Fn.sym : Fn → String
  | .min => "min" | .max => "max" | .isqrt => "isqrt"
def PItem.show : PItem → String
  | .int n => toString n | .str s => "'" ++ s ++ "'" | .bin o => o.sym | .fn f => f.sym

def BinOp.prec : BinOp → Nat
  | .add => 1 | .sub => 1 | .mul => 2 | .div => 2 | .exp => 3
def Fn.prec : Fn → Nat
  | .min => 4 | .max => 4 | .isqrt => 5

/-- operator-stack entries -/
inductive SOp | bin (o : BinOp) | fn (f : Fn)
def SOp.prec : SOp → Nat | .bin o => o.prec | .fn f => f.prec
def SOp.item : SOp → PItem | .bin o => .bin o | .fn f => .fn f

def charTok (c : Char) : Option Tok :=
  if c = '+' then some (.bin .add) else if c = '-' then some (.bin .sub)
  else if c = '*' then some (.bin .mul) else if c = '^' then some (.bin .exp)
  else if c = '/' then some (.bin .div) else if c = '=' then some .eq
  else if c = '(' then some .lp else if c = ')' then some .rp
  else if c = ',' then some .comma else none

def spanTok (s : String) : Tok :=
  if s = "min" then .fn .min else if s = "max" then .fn .max else if s = "isqrt" then .fn .isqrt
  else if s.length > 0 ∧ s.all Char.isDigit then .int s.toNat! else .str s

def isIdent (s : String) : Bool :=
  match s.toList with
  | [] => false
  | c :: cs => c.isAlpha && cs.all (fun d => d.isAlphanum || d = '_')

/-- `_assert_token_list_valid` -/
def tokensValid (ts : List Tok) : Bool :=
  match ts with
  | [] => false
  | [.str _] => true
  | [.int _] => true
  | [.bin .mul, .str _] => true
  | _ =>
    if ts.any (fun t => t = .eq) then false else
    let exp := ts.foldl (fun a t => match t with
      | .fn .isqrt => a + 1 | .fn _ => a + 2 | .bin _ => a + 2 | _ => a) 1
    let act := ts.foldl (fun a t => match t with
      | .fn _ => a + 1 | .bin _ => a + 1 | .str _ => a + 1 | .int _ => a + 1 | _ => a) 0
    exp == act

/-- `_tokenize_string_expr` (without the validity check) -/
def tokenizeRaw (s : String) : Option (List Tok) := do
  let mut out : Array Tok := #[]
  let mut span := ""
  for c in s.toList do
    if c = ' ' then none
    match charTok c with
    | some t =>
      if span ≠ "" then out := out.push (spanTok span)
      span := ""
      out := out.push t
    | none => span := span.push c
  if span ≠ "" then out := out.push (spanTok span)
  return out.toList

/-- `_get_group_indices`, indices relative to the slice, `offset` added by the caller -/
def groupIndices (ts : List Tok) : Option (Nat × List Nat × Nat) :=
  let rec go (rest : List Tok) (idx : Nat) (depth : Int) (lp : Option Nat) (cs : List Nat)
      (rp : Option Nat) : Option Nat × List Nat × Option Nat :=
    match rest with
    | [] => (lp, cs, rp)
    | t :: rest' =>
      let (depth', lp', cs', rp') :=
        match t with
        | .lp => (depth + 1, if depth + 1 = 1 then some idx else lp, cs, rp)
        | .comma => if depth = 1 then (depth, lp, cs ++ [idx], rp) else (depth, lp, cs, rp)
        | .rp => (depth - 1, lp, cs, if depth = 1 then some idx else rp)
        | _ => (depth, lp, cs, rp)
      match rp' with
      | some _ => (lp', cs', rp')       -- `if rparen_idx: break` (index is never 0 here)
      | none => go rest' (idx + 1) depth' lp' cs' rp'
  match go ts 0 0 none [] none with
  | (some l, cs, some r) =>
    if l > r ∨ cs.any (fun c => c < l ∨ c > r) then none else some (l, cs, r)
  | _ => none

structure DimExpr where
  identifier : String
  post : List PItem
  anonymous : Bool := false
  namedMulti : Bool := false

def flush (p : Nat) : List SOp → List PItem → List SOp × List PItem
  | [], out => ([], out)
  | s :: st, out => if s.prec ≥ p then flush p st (out ++ [s.item]) else (s :: st, out)

/-- `DLTypeDimensionExpression.__init__` self-reference check -/
def mkDim (identifier : String) (post : List PItem) : Option DimExpr :=
  let isLiteral := post.all (fun p => match p with | .int _ => true | _ => false)
  let isIdentifier := post == [.str identifier]
  let idIn := post.contains (.str identifier)
  let isExpression := !(isIdentifier && isLiteral) && (post.length > 1 || !idIn)
  if isExpression && idIn then none else some { identifier, post }

/-- `_postfix_from_infix` -/
partial def pfi (identifier : String) (ts : List Tok) : Option DimExpr :=
  match ts with
  | [] => none
  | [.str "..."] => some { identifier, post := [], anonymous := true }
  | [.bin .mul, .str n] =>
      if isIdent n then some { identifier := n, post := [.str n], namedMulti := true } else none
  | _ =>
    let arr := ts.toArray
    let rec loop (i : Nat) (st : List SOp) (out : List PItem) : Option (List PItem) :=
      if h : i < arr.size then
        match arr[i] with
        | .int n => loop (i + 1) st (out ++ [.int n])
        | .bin o =>
          let (st', out') := flush o.prec st out
          loop (i + 1) (.bin o :: st') out'
        | .str s => if isIdent s then loop (i + 1) st (out ++ [.str s]) else none
        | .rp => none | .comma => none | .eq => none
        | t =>   -- function or lparen
          let (p, isFn, f?) : Nat × Bool × Option Fn := match t with
            | .fn f => (f.prec, true, some f) | _ => (6, false, none)
          let (st', out') := flush p st out
          match groupIndices (ts.drop i) with
          | none => none
          | some (l, cs, r) =>
            let l := l + i; let cs := cs.map (· + i); let r := r + i
            let arityOk := match f? with
              | some .isqrt => cs.length == 0
              | some _ => cs.length == 1
              | none => cs.length == 0
            if !arityOk then none else
            let rec args (lhs : Nat) (stops : List Nat) (acc : List PItem) : Option (List PItem) :=
              match stops with
              | [] => some acc
              | a :: more =>
                match pfi (identifier ++ "[" ++ toString a ++ "]") ((ts.drop (lhs + 1)).take (a - (lhs + 1))) with
                | none => none
                | some d => args a more (acc ++ d.post)
            match args l (cs ++ [r]) out' with
            | none => none
            | some out'' =>
              let st'' := match f? with | some f => .fn f :: st' | none => st'
              let _ := isFn
              loop (r + 1) st'' out''
      else some (out ++ st.map SOp.item)
    match loop 0 [] [] with
    | none => none
    | some post => mkDim identifier post

/-- `expression_from_string` -/
def parseDim (s : String) : Option DimExpr :=
  if s = "" then none else
  let (identifier, expr) :=
    match s.splitOn "=" with
    | [_] => (s, s)
    | i :: rest => (i, "=".intercalate rest)
    | [] => (s, s)
  match tokenizeRaw expr with
  | none => none
  | some ts => if tokensValid ts then pfi identifier ts else none

def render (s : String) : String :=
  match parseDim s with
  | none => "err"
  | some d => "ok " ++ d.identifier ++ " [" ++ ", ".intercalate (d.post.map PItem.show) ++ "]"
      ++ (if d.anonymous then " anon" else "") ++ (if d.namedMulti then " multi" else "")

partial def mainLoop (h : IO.FS.Stream) : IO Unit := do
  let line ← h.getLine
  if line.isEmpty then return ()
  let s := if line.endsWith "\n" then (line.take (line.length - 1)).toString else line
  IO.println (render s)
  mainLoop h

def main : IO Unit := do mainLoop (← IO.getStdin)
