import sys, json, warnings; warnings.simplefilter("ignore")
import torch
blocked={"numpy","jax"}
for m in list(sys.modules):
    if m.split(".")[0] in blocked: del sys.modules[m]
class Blocker:
    def find_spec(self, name, path=None, target=None):
        if name.split(".")[0] in blocked: raise ImportError(f"blocked {name}")
        return None
sys.meta_path.insert(0, Blocker())
import dltype
from typing import Annotated
print(dltype.SUPPORTED_TENSOR_TYPES, dltype.BoolTensor.DTYPES, dltype.SignedIntTensor.DTYPES)
@dltype.dltyped()
def f(x: Annotated[torch.Tensor, dltype.FloatTensor["a a"]]): return None
print(f(torch.zeros(2,2)))
try: f(torch.zeros(2,3))
except Exception as e: print(type(e).__name__, e)
try: f(torch.zeros(2,2).int())
except Exception as e: print(type(e).__name__, e)
