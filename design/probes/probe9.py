import warnings; warnings.simplefilter("ignore")
from typing import Annotated, NamedTuple
from dataclasses import dataclass
import numpy as np, itertools, random
import dltype
F = dltype.TensorTypeBase
# C03 fuzz: reference standalone check
random.seed(3)
def ref(dims, shape):
    # dims: list of ('lit',n)|('name',)|('multi',)
    n=len(dims); mi=[i for i,d in enumerate(dims) if d[0]=='multi']
    if mi:
        if len(shape) < n-1: return ("ndims", n-1, len(shape))
    elif len(shape)!=n: return ("ndims", n, len(shape))
    for i,d in enumerate(dims):
        if d[0]=='lit':
            j = i if (not mi or i<mi[0]) else len(shape)-(n-i)
            if shape[j]!=d[1]: return ("shape", j, d[1], shape[j])
    return ("ok",)
bad=0; tot=0
for _ in range(20000):
    n=random.randint(1,4)
    dims=[random.choice([('lit',random.choice([0,1,2,3])),('name',),('namedlit',random.choice([1,2]))]) for _ in range(n)]
    if random.random()<0.6:
        dims[random.randrange(n)] = ('multi', random.random()<0.5)
    s=[]
    for k,d in enumerate(dims):
        if d[0]=='lit': s.append(str(d[1]))
        elif d[0]=='name': s.append(f"n{k}")
        elif d[0]=='namedlit': s.append(f"m{k}={d[1]}")
        else: s.append("..." if d[1] else "*g")
    dims2=[('lit',d[1]) if d[0] in('lit','namedlit') else d for d in dims]
    shape=tuple(random.choice([0,1,2,3]) for _ in range(random.randint(0,5)))
    t=F[" ".join(s)]
    try: t.check(np.zeros(shape)); got=("ok",)
    except dltype.DLTypeNDimsError as e: got=("ndims", e._expected, e._actual)
    except dltype.DLTypeShapeError as e: got=("shape", e._index, e._expected, e._actual)
    except Exception as e: got=("EXC", repr(e))
    tot+=1
    if got!=ref(dims2,shape):
        bad+=1
        if bad<8: print("C03 MISMATCH", s, shape, got, ref(dims2,shape))
print("C03 fuzz", tot, "bad", bad)
# rank-0 with marker only
print("marker only rank0:", end=" ")
try: F["..."].check(np.zeros(())); print("ok")
except Exception as e: print(type(e).__name__, e)
# C14 quick: 4 entry points on same fields
from pydantic import BaseModel, ConfigDict
A=np.ndarray
def four(anns, vals):
    names=[f"f{i}" for i in range(len(anns))]
    out={}
    ns={"Annotated":Annotated,"A":A,"F":F,"dltype":dltype,"NamedTuple":NamedTuple,"dataclass":dataclass,"BaseModel":BaseModel,"ConfigDict":ConfigDict}
    params=", ".join(f"{n}: Annotated[A, F[{a!r}]]" for n,a in zip(names,anns))
    exec(f"@dltype.dltyped()\ndef fn({params}): return None", ns)
    body="\n".join(f"    {n}: Annotated[A, F[{a!r}]]" for n,a in zip(names,anns))
    exec(f"@dltype.dltyped_namedtuple()\nclass NT(NamedTuple):\n{body}", ns)
    exec(f"@dltype.dltyped_dataclass()\n@dataclass\nclass DC:\n{body}", ns)
    bodyp="\n".join(f"    {n}: Annotated[A, F({a!r})]" for n,a in zip(names,anns))
    exec(f"class PM(BaseModel):\n    model_config=ConfigDict(arbitrary_types_allowed=True)\n{bodyp}", ns)
    for k in ["fn","NT","DC","PM"]:
        try:
            if k=="PM": ns[k](**dict(zip(names,vals)))
            else: ns[k](*vals)
            out[k]="ok"
        except Exception as e: out[k]=f"{type(e).__name__}:{e}"
    return out
z=lambda *s: np.zeros(s,dtype=np.float32)
for anns,vals in [(["a b","b c=a+b"],[z(1,2),z(2,3)]),(["a b","b c=a+b"],[z(1,2),z(2,4)]),(["*g a","*g a"],[z(2,3,4),z(2,3,5)]),(["a","a+q"],[z(1),z(2)]),(["a 2","a"],[z(1,3),z(2)])]:
    r=four(anns,vals); print(anns, [v.shape for v in vals], "SAME" if len(set(r.values()))==1 else "DIFF", r["fn"][:70])
    if len(set(r.values()))!=1: print("   ", r)
