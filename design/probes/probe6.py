import warnings; warnings.simplefilter("ignore")
import dltype
from dltype import VariableAxis as V, Shape, Group, Min, Max, ISqrt, LiteralAxis as L, ConstantAxis, AnonymousAxis
from dltype._lib import _parser
a,b,c = V("a"),V("b"),V("c")
sc = {"a":7,"b":3,"c":2}
import math
cases = {
 "(a+b)*c": ((a+b)*c, (7+3)*2),
 "a-(b-c)": (a-(b-c), 7-(3-2)),
 "a*(b+c)": (a*(b+c), 7*(3+2)),
 "a//(b*c)": (a//(b*c), 7//(3*2)),
 "a**b**c": (a**b**c, 7**3**2),
 "(a**b)**c": ((a**b)**c, (7**3)**2),
 "a-b-c": (a-b-c, 2),
 "2*(a+1)": (2*(a+1), 16),
 "(a+1)*2": ((a+1)*2, 16),
 "Group(a+b)*c": (Group(a+b)*c, 20),
 "ISqrt(a+b)*c": (ISqrt(a+b)*c, 6),
 "Min(a,b)-c": (Min(a,b)-c, 1),
 "c-Min(a,b)": (c-Min(a,b), -1),
 "a+ConstantAxis": (None, None),
}
for k,(e,exp) in cases.items():
    if e is None: continue
    s = str(Shape[e])
    try:
        v = _parser.expression_from_string(s).evaluate(dict(sc))
    except Exception as ex: v = repr(ex)
    print(f"{k:16s} printed={s:16s} parsed-value={v} python-value={exp} {'OK' if v==exp else 'MISMATCH'}")
for lbl, f in [("a+ConstantAxis", lambda: a+ConstantAxis("k",3)), ("ConstantAxis+a", lambda: ConstantAxis("k",3)+a), ("a*Anon", lambda: a*AnonymousAxis("q")), ("Min(a,Const)", lambda: Min(a, ConstantAxis("k",3))), ("ISqrt(Anon)", lambda: ISqrt(AnonymousAxis("q"))), ("L(2)**-1", lambda: str(L(2)**L(-1))), ("L(1)//L(0)", lambda: str(L(1)//L(0))), ("ISqrt(-1)", lambda: str(ISqrt(-1))), ("Shape[a, 3-5]", lambda: str(Shape[a, 3-L(5)]))]:
    try: print(lbl, "->", str(f()))
    except Exception as ex: print(lbl, "->", type(ex).__name__, ex)
