import warnings; warnings.simplefilter("ignore")
from typing import Annotated
import numpy as np, dltype
F=dltype.TensorTypeBase
for s in ["isqrt+(4)2", "min(...,a)", "isqrt(...)", "x=...", "a=a", "isqrt(2)isqrt(3)+", "a b=", "min=3", "min+1", "_x", "a__b", "a=3=", "(a)", "((a))", "a^-1", "-a", "a--b"]:
    try:
        t=F[s]; desc=[(d.identifier,d.parsed_expression,'anon' if d.is_anonymous else '') for d in t.expected_shape]
    except BaseException as e:
        print(f"{s!r}: construct {type(e).__name__}: {str(e)[:80]}"); continue
    @dltype.dltyped()
    def f(x: Annotated[np.ndarray, t]): return None
    try:
        f(np.zeros((2,)*len(t.expected_shape))); r="call ok"
    except BaseException as e: r=f"call {type(e).__name__}: {str(e)[:60]}"
    print(f"{s!r}: accepted {desc} -> {r}")
