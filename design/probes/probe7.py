import warnings; warnings.simplefilter("ignore")
import random, math
from dltype._lib import _parser
random.seed(1)
names = ["a","b","c","x1","w_h","Z"]
def gen(d):
    r = random.random()
    if d<=0 or r<0.3:
        if random.random()<0.5: 
            n=random.choice([0,1,2,3,7,10,12,100]); return (str(n), ("lit",n))
        v=random.choice(names); return (v,("var",v))
    if r<0.75:
        op=random.choice("+-*/^")
        l=gen(d-1); rr=gen(d-1)
        return (None, ("bin",op,l,rr))
    if r<0.85:
        f=random.choice(["min","max"]); l=gen(d-1); rr=gen(d-1)
        return (None,("fn2",f,l,rr))
    if r<0.93:
        l=gen(d-1); return (None,("isqrt",l))
    l=gen(d-1); return (None,("grp",l))
PREC={"+":1,"-":1,"*":2,"/":2,"^":3}
def pr(node, ctx=0, right=False):
    s,t=node
    if t[0]=="lit": return str(t[1])
    if t[0]=="var": return t[1]
    if t[0]=="bin":
        op=t[1]; p=PREC[op]
        body=pr(t[2],p,False)+op+pr(t[3],p,True)
        # parenthesize if needed: lower prec than ctx, or equal prec on right side (left assoc)
        if p<ctx or (p==ctx and right): return "("+body+")"
        return body
    if t[0]=="fn2": return f"{t[1]}({pr(t[2])},{pr(t[3])})"
    if t[0]=="isqrt": return f"isqrt({pr(t[1])})"
    if t[0]=="grp": return "("+pr(t[1])+")"
class Undef(Exception): pass
def ev(node, sc):
    s,t=node
    if t[0]=="lit": return t[1]
    if t[0]=="var": return sc[t[1]]
    if t[0]=="bin":
        a=ev(t[2],sc); b=ev(t[3],sc); op=t[1]
        if op=="+": return a+b
        if op=="-": return a-b
        if op=="*": return a*b
        if op=="/":
            if b==0: raise Undef()
            return a//b
        if op=="^":
            if b<0 or b>64 or abs(a)>10**6: raise Undef()
            return a**b
    if t[0]=="fn2":
        a=ev(t[2],sc); b=ev(t[3],sc); return min(a,b) if t[1]=="min" else max(a,b)
    if t[0]=="isqrt":
        a=ev(t[1],sc)
        if a<0: raise Undef()
        return math.isqrt(a)
    if t[0]=="grp": return ev(t[1],sc)
n=0; bad=0; undef=0
for i in range(40000):
    node=gen(random.randint(1,5)); s=pr(node)
    sc={k:random.choice([0,1,2,3,5,8,13]) for k in names}
    try: exp=ev(node,sc)
    except Undef: undef+=1; continue
    try:
        e=_parser.expression_from_string(s); got=e.evaluate(dict(sc))
    except Exception as ex: got=repr(ex)
    n+=1
    if got!=exp:
        bad+=1
        if bad<15: print("MISMATCH", s, sc, "got",got,"exp",exp)
print("checked",n,"undef",undef,"bad",bad)
