import warnings; warnings.simplefilter("ignore")
import itertools, re, sys, time
from dltype._lib import _parser
ALPHA=["a","b","1","2","+","-","*","/","^","(",")",",","min","isqrt","=","..."]
IDRX=re.compile(r"^[a-zA-Z][a-zA-Z0-9_]*$")
RES={"min","max","isqrt"}
def tokenize(s):
    out=[];cur=""
    for ch in s:
        if ch in "+-*/^=(),":
            if cur: out.append(cur); cur=""
            out.append(ch)
        else: cur+=ch
    if cur: out.append(cur)
    return out
def parseE(t,i):
    i=parseT(t,i)
    if i is None: return None
    while i<len(t) and t[i] in "+-*/^" and len(t[i])==1:
        i=parseT(t,i+1)
        if i is None: return None
    return i
def parseT(t,i):
    if i>=len(t): return None
    x=t[i]
    if x.isdigit(): return i+1
    if x=="(":
        j=parseE(t,i+1)
        return j+1 if j is not None and j<len(t) and t[j]==")" else None
    if x=="isqrt":
        if i+1<len(t) and t[i+1]=="(":
            j=parseE(t,i+2); return j+1 if j is not None and j<len(t) and t[j]==")" else None
        return None
    if x in("min","max"):
        if i+1<len(t) and t[i+1]=="(":
            j=parseE(t,i+2)
            if j is None or j>=len(t) or t[j]!=",": return None
            k=parseE(t,j+1); return k+1 if k is not None and k<len(t) and t[k]==")" else None
        return None
    if IDRX.match(x) and x not in RES: return i+1
    return None
def in_grammar(s):
    if s=="...": return True
    if s.startswith("*") and IDRX.match(s[1:]): return True   # note: *min etc allowed as names? keep
    name=None
    if "=" in s:
        name,s=s.split("=",1)
        if not IDRX.match(name): return False
    if " " in s or not s: return False
    t=tokenize(s)
    if "=" in t: return False
    j=parseE(t,0)
    if j!=len(t): return False
    if name is not None:
        # self reference
        if name in t: return False
    return True
N=int(sys.argv[1]); bad_acc=0; bad_rej=0; tot=0; acc=0; other=0; t0=time.time()
for n in range(1,N+1):
    for combo in itertools.product(ALPHA,repeat=n):
        s="".join(combo); tot+=1
        try:
            _parser.expression_from_string(s); ok=True
        except SyntaxError: ok=False
        except Exception as e:
            other+=1; ok=None
            if other<5: print("OTHER EXC", s, type(e).__name__, e)
        g=in_grammar(s)
        if ok: acc+=1
        if ok and not g:
            bad_acc+=1
            if bad_acc<25: print("ACCEPTED-NOT-GRAMMAR", repr(s))
        if ok is False and g:
            bad_rej+=1
            if bad_rej<25: print("REJECTED-IN-GRAMMAR", repr(s))
print(f"n<={N} total={tot} accepted={acc} accepted-not-grammar={bad_acc} rejected-in-grammar={bad_rej} other-exc={other} {time.time()-t0:.1f}s")
