import warnings; warnings.simplefilter("ignore")
from typing import Annotated, NamedTuple, Optional
from dataclasses import dataclass
import numpy as np, pickle
import torch
import dltype
from pydantic import BaseModel, ConfigDict

def run(label, f):
    try:
        r = f()
        print(f"{label}: OK -> {r!r}")
    except BaseException as e:
        print(f"{label}: {type(e).__name__}: {e}")

A = np.ndarray
F = dltype.TensorTypeBase
z = lambda *s: np.zeros(s, dtype=np.float32)

# C08: non-DLType errors from expression evaluation
@dltype.dltyped()
def e1(x: Annotated[A, F["a b a/b"]]): return None
run("C08 div by zero", lambda: e1(z(2,0,5)))
@dltype.dltyped()
def e2(x: Annotated[A, F["a b isqrt(a-b)"]]): return None
run("C08 isqrt neg", lambda: e2(z(2,3,5)))
@dltype.dltyped()
def e3(x: Annotated[A, F["a b 2^(a-b)"]]): return None
run("C08 neg exp", lambda: e3(z(2,3,0)))
run("C08 neg exp accept?", lambda: e3(z(2,3,1)))
@dltype.dltyped()
def e4(x: Annotated[A, F["a b a^(a-b)"]]): return None
run("C08 0^-1", lambda: e4(z(0,1,0)))
# tuple param with non-tuple value
@dltype.dltyped()
def e5(t: tuple[Annotated[A, F["a"]], Annotated[A, F["a"]]]): return None
run("C08 tuple param given int", lambda: e5(5))
run("C08 tuple param given 3-tuple", lambda: e5((z(1),z(1),z(1))))
run("C08 tuple param given array", lambda: e5(z(2,3)))
# non-array
@dltype.dltyped()
def e6(x: Annotated[A, F["a"]]): return None
run("C08 non-array list", lambda: e6([1,2]))
run("C08 None non-optional", lambda: e6(None))
# error name for tuple elements
run("C08 tuple elt name", lambda: e5((z(1), z(2))))
# unbound reference
@dltype.dltyped()
def e7(x: Annotated[A, F["a+q"]]): return None
run("C08 unbound ref", lambda: e7(z(2)))
# message context
# C12
run("C12 bad provider", lambda: dltype.dltyped(object())(e6.__wrapped__)(z(1)))
def mkself():
    @dltype.dltyped("self")
    def nf(x: Annotated[A, F["a"]]): return None
run("C12 self on non-method", mkself)
class NotProv:
    @dltype.dltyped("self")
    def m(self, x: Annotated[A, F["a"]]): return None
run("C12 self not implementing protocol", lambda: NotProv().m(z(1)))
class Prov:
    def __init__(s): s.v = 3
    def get_dltype_scope(s): return {"k": s.v}
    @dltype.dltyped("self")
    def m(self, x: Annotated[A, F["a k=3 k+1"]]): return None
pp = Prov()
run("C12 self ok", lambda: pp.m(z(1,3,4)))
pp.v = 4
run("C12 self changed conflict literal", lambda: pp.m(z(1,3,5)))
run("C12 self changed", lambda: pp.m(z(1,4,5)))

# C16 pickling etc
@dltype.dltyped_namedtuple()
class NT(NamedTuple):
    a: Annotated[A, F["n"]]
    b: int = 3
nt = NT(z(2), 4)
run("C16 NT pickle", lambda: pickle.loads(pickle.dumps(nt)))
run("C16 NT repr", lambda: repr(NT(z(1))))
print("NT module/qualname", NT.__module__, NT.__qualname__, NT.__mro__)
run("C16 NT _replace", lambda: nt._replace(b=5))
run("C16 NT _make", lambda: NT._make([z(1), 2]))
run("C16 NT eq", lambda: NT(z(1),1)[1:] == (1,))

@dltype.dltyped_dataclass()
@dataclass(frozen=True)
class DC:
    a: Annotated[A, F["n"]]
    b: int = 3
run("C16 DC pickle", lambda: pickle.loads(pickle.dumps(DC(z(2)))))
print("DC init name/doc/sig", DC.__init__.__name__, DC.__init__.__doc__)
import inspect
run("C16 DC signature", lambda: str(inspect.signature(DC)))
run("C16 DC bad", lambda: DC(z(2,2)))

# function metadata
@dltype.dltyped()
def meta(x: Annotated[A, F["a"]], *, k: int = 2) -> None:
    "docstring"
    raise KeyError("boom")
print(meta.__name__, meta.__doc__, inspect.signature(meta))
run("C16 body exc", lambda: meta(z(1)))
