import warnings; warnings.simplefilter("ignore")
import os, subprocess, sys, json
code = r'''
import warnings; warnings.simplefilter("ignore")
from typing import Annotated, NamedTuple
from dataclasses import dataclass
import numpy as np, dltype, json
F=dltype.TensorTypeBase
def f(x: Annotated[np.ndarray, F["a a"]]): return 1
g = dltype.dltyped()(f)
ge = dltype.dltyped(enabled=True)(f)
gd = dltype.dltyped(enabled=False)(f)
def v(fn):
    try: fn(np.zeros((1,2))); return "acc"
    except Exception as e: return type(e).__name__
print(json.dumps({"default_is_f": g is f, "en_is_f": ge is f, "dis_is_f": gd is f, "default": v(g), "en": v(ge), "dis": v(gd), "DEBUG": dltype.DEBUG_MODE}))
'''
for env in [{}, {"DLTYPE_DISABLE":"1"}, {"DLTYPE_DISABLE":"0"}, {"DLTYPE_DISABLE":"true"}, {"DLTYPE_DISABLE":"false"}, {"dltype_disable":"1"}, {"DLTYPE_DISABLE":"yes"}, {"DLTYPE_DISABLE":""}, {"DLTYPE_DISABLE":"maybe"}, {"DLTYPE_DEBUG_MODE":"1"}, {"DLTYPE_DEBUG_MODE":"1","DLTYPE_DISABLE":"1"}]:
    e = {k:v for k,v in os.environ.items() if not k.upper().startswith("DLTYPE_")}; e.update(env)
    r = subprocess.run([sys.executable, "-c", code], env=e, capture_output=True, text=True)
    print(env, "->", r.stdout.strip() or r.stderr.strip().splitlines()[-1][:200])
