import subprocess, sys, json, itertools, time
code = r'''
import sys, json, warnings; warnings.simplefilter("ignore")
blocked = set(sys.argv[1].split(",")) - {""}
class Blocker:
    def find_spec(self, name, path=None, target=None):
        if name.split(".")[0] in blocked: raise ImportError(f"blocked {name}")
        return None
sys.meta_path.insert(0, Blocker())
out = {}
try:
    import dltype
    out["import"]="ok"
    out["supported"]=sorted(f"{t.__module__}.{t.__qualname__}" for t in dltype.SUPPORTED_TENSOR_TYPES)
    out["bf16"]= None if dltype.BFloat16Tensor is None else [str(d) for d in dltype.BFloat16Tensor.DTYPES]
    out["bool"]=[str(d) for d in dltype.BoolTensor.DTYPES]
    out["sint"]=[str(d) for d in dltype.SignedIntTensor.DTYPES]
    out["float"]=[str(d) for d in dltype.FloatTensor.DTYPES]
except ImportError as e:
    out["import"]="ImportError: "+str(e)[:80]
except Exception as e:
    out["import"]=type(e).__name__+": "+str(e)[:80]
print(json.dumps(out))
'''
for combo in itertools.product([0,1],repeat=3):
    np_,t_,j_=combo
    blocked=",".join(n for n,k in zip(["numpy","torch","jax"],combo) if not k)
    t=time.time()
    r=subprocess.run([sys.executable,"-c",code,blocked],capture_output=True,text=True)
    print(dict(numpy=np_,torch=t_,jax=j_), f"{time.time()-t:.1f}s", r.stdout.strip()[:600] or r.stderr.strip()[-300:])
