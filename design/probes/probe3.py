import warnings; warnings.simplefilter("ignore")
from typing import Annotated, NamedTuple, Optional
import numpy as np
import torch
import dltype
from pydantic import BaseModel, ConfigDict

def run(label, f):
    try:
        r = f()
        print(f"{label}: OK -> {r!r}")
    except BaseException as e:
        print(f"{label}: {type(e).__name__}: {str(e)[:300]}")

A = np.ndarray
F = dltype.TensorTypeBase
z = lambda *s: np.zeros(s, dtype=np.float32)

class M(BaseModel):
    model_config = ConfigDict(arbitrary_types_allowed=True)
    x: Annotated[A, F("a b")]
    y: Annotated[A, F("b c")]
    n: int = 0
run("C17 ok", lambda: M(x=z(1,2), y=z(2,3)))
run("C17 kw order reversed", lambda: M(y=z(2,3), x=z(1,2)))
run("C17 bad", lambda: M(x=z(1,2), y=z(3,3)))
m = M(x=z(1,2), y=z(2,3))
print("dump keys", list(m.model_dump().keys()), "dict", list(dict(m).keys()), "fields_set", m.model_fields_set, "__dict__", list(m.__dict__.keys()))
print(repr(m)[:200])
run("C17 validate twice", lambda: (M.model_validate({"x": z(1,2), "y": z(2,3)}), M.model_validate({"x": z(5,6), "y": z(6,3)})) and "ok")
d = {"x": z(1,2), "y": z(2,3)}
run("C17 validate dict", lambda: M.model_validate(d) and list(d.keys()))
run("C17 validate dict again (same dict)", lambda: M.model_validate(d) and list(d.keys()))

class MA(BaseModel):
    model_config = ConfigDict(arbitrary_types_allowed=True, validate_assignment=True)
    x: Annotated[A, F("a b")]
    y: Annotated[A, F("b c")]
ma = MA(x=z(1,2), y=z(2,3))
def assign(attr, v):
    setattr(ma, attr, v); return "assigned"
run("C17 assign conforming x", lambda: assign("x", z(4,2)))
run("C17 assign conforming y", lambda: assign("y", z(2,9)))
run("C17 assign nonconforming y (b mismatch)", lambda: assign("y", z(3,9)))
run("C17 assign bad rank", lambda: assign("y", z(3)))
print("ma dict", list(ma.__dict__.keys()), list(ma.model_dump().keys()))

class MO(BaseModel):
    model_config = ConfigDict(arbitrary_types_allowed=True)
    x: Annotated[A, F("a b")] | None
    y: Annotated[A, F("b c")]
run("C17 optional None", lambda: MO(x=None, y=z(2,3)) and "ok")
run("C17 optional present bad", lambda: MO(x=z(1,2), y=z(3,3)) and "ok")

class Inner(BaseModel):
    model_config = ConfigDict(arbitrary_types_allowed=True)
    x: Annotated[A, F("a")]
class Outer(BaseModel):
    model_config = ConfigDict(arbitrary_types_allowed=True)
    x: Annotated[A, F("a")]
    inner: Inner
    w: Annotated[A, F("a")]
run("C17 nested different a", lambda: Outer(x=z(2), inner=Inner(x=z(5)), w=z(2)) and "ok")
run("C17 nested dict different a", lambda: Outer.model_validate({"x": z(2), "inner": {"x": z(5)}, "w": z(2)}) and "ok")
run("C17 nested bad w", lambda: Outer.model_validate({"x": z(2), "inner": {"x": z(5)}, "w": z(5)}) and "ok")
# same field names in nested
# numpy generic alias dtype cross-check
def mk_bad():
    class Bad(BaseModel):
        t: Annotated[np.ndarray[tuple[int, ...], np.dtype[np.float32]], dltype.IntTensor["a"]]
    return Bad
run("C17 dtype cross-check", mk_bad)
def mk_good():
    class Good(BaseModel):
        t: Annotated[np.ndarray[tuple[int, ...], np.dtype[np.int32]], dltype.IntTensor["a"]]
    return Good(t=np.zeros(3, dtype=np.int32)) and "ok"
run("C17 dtype good", mk_good)
def mk_torch():
    class T(BaseModel):
        t: Annotated[torch.Tensor, dltype.FloatTensor["a"]]
    return T(t=torch.zeros(3)) and "ok"
run("C17 torch", mk_torch)
import jax
def mk_jax():
    class T(BaseModel):
        t: Annotated[jax.Array, dltype.FloatTensor["a"]]
    return T(t=jax.numpy.zeros(3)) and "ok"
run("C17 jax", mk_jax)
def mk_wrongtype():
    class T(BaseModel):
        t: Annotated[torch.Tensor, dltype.FloatTensor["a"]]
    return T(t=np.zeros(3))
run("C17 wrong lib", mk_wrongtype)
