import warnings; warnings.simplefilter("ignore")
from typing import Annotated, NamedTuple, Optional
import numpy as np, traceback
import dltype
from dltype._lib import _parser

def run(label, f):
    try:
        r = f()
        print(f"{label}: OK -> {r!r}")
    except BaseException as e:
        print(f"{label}: {type(e).__name__}: {e}")

A = np.ndarray
F = dltype.TensorTypeBase
z = lambda *s: np.zeros(s, dtype=np.float32)

# C01: c=3 then c
@dltype.dltyped()
def f1(x: Annotated[A, F["c=3"]], y: Annotated[A, F["c"]]): return None
run("C01 c=3 then c (3,),(5,)", lambda: f1(z(3), z(5)))

# C01: name=expr with name already bound
@dltype.dltyped()
def f2(x: Annotated[A, F["c"]], y: Annotated[A, F["a b c=a+b"]]): return None
run("C01 c bound then c=a+b mismatch", lambda: f2(z(5), z(2,2,5)))

# C01: *b groups of different lengths
@dltype.dltyped()
def f3(x: Annotated[A, F["*b c"]], y: Annotated[A, F["*b c"]]): return None
run("C01 *b len 2 vs 1", lambda: f3(z(2,3,4), z(2,4)))
run("C01 *b len 1 vs 2", lambda: f3(z(2,4), z(2,3,4)))
run("C01 *b len 0 vs 1", lambda: f3(z(4), z(2,4)))

# C10: optional in tuple followed by violating sibling
@dltype.dltyped()
def f4(t: tuple[Annotated[A, F["a"]] | None, Annotated[A, F["1"]]]): return None
run("C10 tuple (None, bad)", lambda: f4((None, z(7))))
run("C10 tuple (ok, bad)", lambda: f4((z(2), z(7))))

# C11: one-element tuple
@dltype.dltyped()
def f5(t: tuple[Annotated[A, F["a"]]]): return None
run("C11 1-tuple", lambda: f5((z(2),)))
@dltype.dltyped()
def f5b() -> tuple[Annotated[A, F["a"]]]: return (z(2),)
run("C11 1-tuple return", lambda: f5b())

# C02/C16: unhashable default
@dltype.dltyped()
def f6(x: Annotated[A, F["a"]], opts=[]): return 1
run("C16 unhashable default", lambda: f6(z(2)))

# C09: shared alias optional flag
T = Annotated[A, F["a"]]
@dltype.dltyped()
def g1(x: T | None): return None
run("C09 g1(None) before", lambda: g1(None))
@dltype.dltyped()
def g2(x: T): return None
run("C09 g1(None) after decorating g2", lambda: g1(None))
@dltype.dltyped()
def g3(x: T | None): return None
run("C09 g2(None) after decorating g3", lambda: g2(None))

# C09/C12: provider dict pollution
class P:
    def __init__(self): self.d = {"k": 3}
    def get_dltype_scope(self): return self.d
p = P()
@dltype.dltyped(p)
def h(x: Annotated[A, F["n k"]]): return None
run("C12 h (2,3)", lambda: h(z(2,3)))
print("provider dict after:", p.d)
run("C12 h (5,3) second call", lambda: h(z(5,3)))

# C06: malformed strings accepted
for s in ["a(b)+", "isqrt(2)b+", "a b", "(a)(b)+", "1=2", "a+b=3", "=3", "a=", "3a", "a..", "min(a,b)c*", "()", "(a", "a)", "a+(b", "2(3)*", "a=*b", "*b=3", ")a(", "a,b", "(a,b)", "min(a,(b,c))", "+a b"]:
    def mk(s=s):
        t = F[s]
        return [ (d.identifier, d.parsed_expression) for d in t.expected_shape]
    run(f"C06 {s!r}", mk)
