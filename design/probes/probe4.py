import warnings; warnings.simplefilter("ignore")
from typing import Annotated
import torch, time
import dltype

def run(label, f):
    t=time.time()
    try:
        r = f()
        print(f"{label}: OK -> {str(r)[:100]!r} ({time.time()-t:.1f}s)")
    except BaseException as e:
        print(f"{label}: {type(e).__name__}: {str(e)[:300]} ({time.time()-t:.1f}s)")

class Dec(torch.nn.Module):
    @dltype.dltyped()
    def forward(self, x: Annotated[torch.Tensor, dltype.FloatTensor["b c"]]) -> Annotated[torch.Tensor, dltype.FloatTensor["b c"]]:
        return torch.multiply(x, 2)
class Und(torch.nn.Module):
    def forward(self, x: torch.Tensor) -> torch.Tensor:
        return torch.multiply(x, 2)
good = torch.rand(2,3); bad = torch.rand(2,3,4)
run("eager good", lambda: torch.equal(Dec()(good), Und()(good)))
run("eager bad", lambda: Dec()(bad))
run("trace", lambda: torch.equal(torch.jit.trace(Dec(), good)(good), Und()(good)))
def traced_bad():
    m = torch.jit.trace(Dec(), good); return m(bad).shape
run("trace then bad", traced_bad)
def scripted():
    m = torch.jit.script(Dec()); return torch.equal(m(good), Und()(good)), m
run("script good", lambda: scripted()[0])
run("script bad", lambda: scripted()[1](bad).shape)
for backend in ["eager", "aot_eager", "inductor"]:
    def comp(backend=backend):
        torch._dynamo.reset()
        m = torch.compile(Dec(), backend=backend); return torch.equal(m(good), Und()(good)), m
    run(f"compile[{backend}] good", lambda: comp()[0])
    run(f"compile[{backend}] bad", lambda: comp()[1](bad).shape)
