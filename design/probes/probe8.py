import warnings; warnings.simplefilter("ignore")
import numpy as np, torch, jax, jax.numpy as jnp, ml_dtypes
import dltype
classes = ["TensorTypeBase","FloatTensor","Float16Tensor","IEEE754HalfFloatTensor","BFloat16Tensor","Float32Tensor","Float64Tensor","DoubleTensor","IntTensor","SignedIntTensor","UnsignedIntTensor","Int8Tensor","Int16Tensor","Int32Tensor","Int64Tensor","UInt8Tensor","UInt16Tensor","UInt32Tensor","UInt64Tensor","BoolTensor"]
def acc(c, arr):
    try: getattr(dltype,c)["..."].check(arr); return 1
    except dltype.DLTypeDtypeError: return 0
    except Exception as e: return type(e).__name__
np_dts = ["bool","int8","int16","int32","int64","uint8","uint16","uint32","uint64","float16","float32","float64","longdouble","complex64","complex128","clongdouble","S1","U1","O","M8[s]","m8[s]",">f4",">i4","intc","longlong","ulonglong","intp"]
np_dts_ml = ["bfloat16","float8_e4m3fn","float8_e5m2","int4","uint4"]
print("== numpy")
for d in np_dts+np_dts_ml:
    dt = np.dtype(getattr(ml_dtypes,d)) if d in np_dts_ml else np.dtype(d)
    a = np.zeros((0,), dtype=dt)
    print(f"{d:16s}", "".join(str(acc(c,a)) for c in classes))
print("== torch")
tds = [n for n in dir(torch) if isinstance(getattr(torch,n), torch.dtype)]
seen=set()
for n in sorted(tds):
    dt=getattr(torch,n)
    if dt in seen: continue
    seen.add(dt)
    try: a=torch.empty((0,),dtype=dt)
    except Exception as e: print(n,"cannot create",type(e).__name__); continue
    print(f"{str(dt):24s}", "".join(str(acc(c,a)) for c in classes))
print("== jax")
jax.config.update("jax_enable_x64", True)
for d in ["bool","int8","int16","int32","int64","uint8","uint16","uint32","uint64","float16","bfloat16","float32","float64","complex64","complex128","float8_e4m3fn","float8_e5m2","int4","uint4"]:
    try: a=jnp.zeros((0,),dtype=d)
    except Exception as e: print(d,"cannot create",type(e).__name__, e); continue
    print(f"{d:16s} {str(a.dtype):14s}", "".join(str(acc(c,a)) for c in classes))
print(classes)
