"""PYD operations on the real code: a pydantic model built from the line, then constructions / assignments.

 PYD \t config(va=1,ctx=1,al=1: identical annotation specs share one annotation object) \t F|name|base|spec ... \t N|order|v;v;v \t S|field|value
   base: nd | nd=0:float32+0:int8 (np.ndarray[Any, np.dtype[A | B]]) | ndu=... (np.ndarray[Any, np.dtype[A] | np.dtype[B]]) | npt=0:float32 (npt.NDArray[...]) | torch | jax | int
   spec: cls,opt,shape | -            (opt 1 = `| None`)
   N: construct with keywords in the order given by the permutation `2.0.1`
"""
from __future__ import annotations

import typing

import impl
import impl_call
from impl import dltype, show_report


def _np_scalar(code: str):
    import numpy as np

    lib, nm = code.split(":")
    if "[" in nm:
        # an abstract scalar class parametrised with Any (`np.floating[Any]`, `np.complexfloating[Any, Any]`): what static typing of
        # "any float array" looks like; it names no dtype of any class
        import typing

        base, args = nm[:-1].split("[")
        return getattr(np, base)[tuple(typing.Any for _ in args.split(","))]
    return getattr(np, {"bool": "bool_"}.get(nm, nm))


def _base_src(base: str, ns: dict) -> str:
    import numpy as np
    import numpy.typing as npt

    ns["np"], ns["npt"] = np, npt
    kind, _, arg = base.partition("=")
    if kind == "nd":
        if not arg:
            return "np.ndarray"
        ts = [_np_scalar(c) for c in arg.split("+")]
        for i, t in enumerate(ts):
            ns[f"ST_{id(t)}"] = t
        inner = " | ".join(f"ST_{id(t)}" for t in ts)
        return f"np.ndarray[typing.Any, np.dtype[{inner}]]"
    if kind == "ndu":
        # the union written one level up: np.ndarray[Any, np.dtype[A] | np.dtype[B]]
        ts = [_np_scalar(c) for c in arg.split("+")]
        for t in ts:
            ns[f"ST_{id(t)}"] = t
        return "np.ndarray[typing.Any, " + " | ".join(f"np.dtype[ST_{id(t)}]" for t in ts) + "]"
    if kind == "npt":
        t = _np_scalar(arg)
        ns[f"ST_{id(t)}"] = t
        return f"npt.NDArray[ST_{id(t)}]"
    if kind == "torch":
        return "torch.Tensor"
    if kind == "jax":
        return "jax.Array"
    return "int"


def op_pyd(config: str, *steps: str) -> str:
    import pydantic

    b = impl_call.Built()
    ns = b.ns
    ns["pydantic"] = pydantic
    fields = []  # (name, src)
    outs = []
    inst = None
    cls = None
    cfg = dict(kv.split("=") for kv in config.split(",") if "=" in kv)
    shared: dict = {}

    def define():
        nonlocal cls
        body = "".join(f"    {n}: {s}\n" for n, s in fields) or "    pass\n"
        cf = "    model_config = pydantic.ConfigDict(validate_assignment=True, arbitrary_types_allowed=True)\n" if cfg.get("va") == "1" else ""
        src = f"class M(pydantic.BaseModel):\n{cf}{body}"
        exec(compile(src, "<pyd>", "exec"), ns)  # noqa: S102
        cls = ns["M"]

    for st in steps:
        f = st.split("|")
        if f[0] == "F":
            name, base, spec = f[1], f[2], f[3]
            try:
                bsrc = _base_src(base, ns)
                if spec == "-":
                    fields.append((name, bsrc))
                else:
                    c, opt, shape = spec.split(",", 2)
                    if cfg.get("al") == "1" and (c, shape) in shared:
                        nm = shared[(c, shape)]   # a type alias: one annotation object behind several fields
                    else:
                        ann = impl.class_by_name(c)(impl.opt_shape(shape))
                        nm = f"A{len(fields)}"
                        ns[nm] = ann
                        shared[(c, shape)] = nm
                    h = f"Annotated[{bsrc}, {nm}]"
                    if opt == "1":
                        h += " | None"
                    fields.append((name, h))
            except SyntaxError:
                return "classdef err SyntaxError"
            continue
        if cls is None:
            try:
                define()
            except dltype.DLTypeError as e:
                return "classdef " + show_report(e)
            except Exception as e:  # noqa: BLE001
                return "classdef pyexc " + type(e).__name__
        if f[0] == "N":
            order = [int(i) for i in f[1].split(".")] if f[1] else list(range(len(fields)))
            vals = [impl.parse_value(v) for v in impl.split_semi(f[2])]
            kw = {fields[i][0]: vals[i] for i in order}
            try:
                if cfg.get("ctx") == "1":
                    # the caller supplies ONE validation-context dict and reuses it for every validation of the line
                    m = cls.model_validate(kw, context=ns.setdefault("CALLER_CONTEXT", {"caller": "data"}))
                else:
                    m = cls(**kw)
            except Exception as e:  # noqa: BLE001
                outs.append("pyd-validation" if type(e).__name__ == "ValidationError" else show_report(e))
                continue
            inst = m
            names = [n for n, _ in fields]
            clean = (
                list(m.model_dump().keys()) == names
                and [k for k, _ in m] == names
                and "__dltype__" not in repr(m)
                and set(m.model_fields_set) == set(names)
                and all(getattr(m, n) is kw[n] for n in names)
            )
            outs.append(f"ok clean={1 if clean else 0}")
        elif f[0] == "S":
            if inst is None:
                outs.append("no-instance")
                continue
            v = impl.parse_value(f[2])
            try:
                setattr(inst, f[1], v)
            except Exception as e:  # noqa: BLE001
                outs.append("pyd-validation" if type(e).__name__ == "ValidationError" else show_report(e))
                continue
            outs.append("ok" if cfg.get("va") == "1" else "ok unvalidated")
        else:
            outs.append("bad-op")
    if cls is None:
        try:
            define()
        except dltype.DLTypeError as e:
            return "classdef " + show_report(e)
        except Exception as e:  # noqa: BLE001
            return "classdef pyexc " + type(e).__name__
    return " ## ".join(outs)


impl.HANDLERS["PYD"] = op_pyd
