"""seed_round.py <nworkers> <wt-prefix> <id-offset> <prop>... : confirm and evaluate candidate seeded changes of a later round.

For every <prop> and n in (1, 2): the candidate lives in <wt-prefix><prop>/_mut/<n> (written by an independent sub-agent in
its own worktree).  Steps: (1) seed_verify.sh inside that worktree (demo passes clean, fails mutated, suite passes mutated);
(2) copy to /verif/seeded/<prop>-<n+offset>/; (3) run the target check against a worker copy of the repository with the
patch applied (never /repo itself), record the result in meta.json.
"""
import concurrent.futures as cf
import json
import os
import shutil
import subprocess
import sys
import time

VERIF = "/verif"
SCRATCH = "/root/scratch"


def sh(cmd, **kw):
    return subprocess.run(cmd, shell=True, text=True, capture_output=True, **kw)


def setup(k):
    w = f"{SCRATCH}/sr{k}"
    sh(f"git -C /repo worktree remove --force {w}/repo; rm -rf {w}; mkdir -p {w}")
    sh(f"rsync -a --exclude .git --exclude .work {VERIF}/ {w}/verif/")
    sh(f"git -C /repo worktree add -f --detach {w}/repo HEAD")
    return w


def run_check(w, patch, c):
    repo, verif = f"{w}/repo", f"{w}/verif"
    sh(f"git -C {repo} checkout -q -- .")
    r = sh(f"git -C {repo} apply {patch}")
    if r.returncode != 0:
        return {"apply_failed": r.stderr[:300]}
    env = dict(os.environ, DLTYPE_VERIF_REPO=repo)
    t0 = time.time()
    r = subprocess.run(f"cd {verif} && timeout 1500 ./check {c} --tier quick", shell=True, text=True, capture_output=True, env=env)
    sh(f"git -C {repo} checkout -q -- .")
    lines = [l for l in r.stdout.splitlines() if l.startswith("VIOLATION") or l.startswith("  - ")]
    return {
        "exit": r.returncode,
        "caught": r.returncode == 1,
        "violation_line": next((l for l in lines if l.startswith("VIOLATION")), None),
        "first_finding": next((l.strip()[:400] for l in lines if l.startswith("  - ")), None),
        "wall_s": round(time.time() - t0, 1),
    }


def do_prop(w, prefix, off, prop, extra_checks=()):
    wt = f"{prefix}{prop}"
    for n in (1, 2):
        src = f"{wt}/_mut/{n}"
        if not os.path.exists(f"{src}/patch.diff"):
            print(f"{prop} candidate {n}: missing", flush=True)
            continue
        v = sh(f"sh {VERIF}/harness/seed_verify.sh {wt} {n}").stdout.strip()
        ok = "demo_clean_exit=0" in v and "demo_mutated_exit=0" not in v and "demo_mutated_exit=" in v and " passed" in v and "failed" not in v
        mid = f"{prop}-{n + off}"
        if not ok:
            print(f"{mid}: NOT CONFIRMED: {v}", flush=True)
            continue
        dst = f"{VERIF}/seeded/{mid}"
        os.makedirs(dst, exist_ok=True)
        for f in ("patch.diff", "demo.py", "meta.json"):
            if os.path.exists(f"{src}/{f}"):
                shutil.copy(f"{src}/{f}", f"{dst}/{f}")
        try:
            meta = json.load(open(f"{dst}/meta.json"))
        except Exception:
            meta = {}
        meta["property"] = prop
        meta["round"] = off // 2 + 1
        results = {}
        for c in (prop,) + tuple(extra_checks):
            results[c] = run_check(w, f"{dst}/patch.diff", c)
            print(f"{mid} check {c}: exit={results[c].get('exit')} {results[c].get('first_finding') or ''}"[:330], flush=True)
        meta["checks"] = results
        meta["confirmed"] = v
        meta["what_i_ran"] = ("harness/seed_verify.sh (in the sub-agent's worktree: demo passes clean, fails with the patch, the existing suite passes with the patch); "
                              "harness/seed_round.py (patch applied to a scratch worktree of /repo, DLTYPE_VERIF_REPO pointing at it, ./check <id> --tier quick in a scratch copy of /verif)")
        json.dump(meta, open(f"{dst}/meta.json", "w"), indent=1)


def main():
    n, prefix, off = int(sys.argv[1]), sys.argv[2], int(sys.argv[3])
    props = sys.argv[4:]
    workers = [setup(k) for k in range(n)]

    def run_worker(k):
        for p in props[k::n]:
            do_prop(workers[k], prefix, off, p)
    with cf.ThreadPoolExecutor(max_workers=n) as ex:
        list(ex.map(run_worker, range(n)))
    for k in range(n):
        sh(f"git -C /repo worktree remove --force {workers[k]}/repo")
        sh(f"rm -rf {workers[k]}")
    sh("git -C /repo worktree prune")


if __name__ == "__main__":
    main()
