"""seed_eval.py <prop> <n> [checks...] : apply a confirmed seeded change to /repo, run checks, undo, record.

Stores /verif/seeded/<prop>-<n>/{patch.diff,demo.py,meta.json} with the results of the runs.
"""
import json
import os
import shutil
import subprocess
import sys
import time

VERIF = os.path.dirname(os.path.dirname(os.path.abspath(__file__)))


def sh(cmd, **kw):
    return subprocess.run(cmd, shell=True, text=True, capture_output=True, **kw)


def main():
    prop, n = sys.argv[1], sys.argv[2]
    checks = sys.argv[3:] or [prop]
    src = f"/tmp/wt_{prop}/_mut/{n}"
    dst = os.path.join(VERIF, "seeded", f"{prop}-{n}")
    os.makedirs(dst, exist_ok=True)
    for f in ("patch.diff", "demo.py", "meta.json", "verify.txt"):
        if os.path.exists(os.path.join(src, f)):
            shutil.copy(os.path.join(src, f), os.path.join(dst, f))
    meta = json.load(open(os.path.join(dst, "meta.json")))
    assert sh("git -C /repo status --porcelain").stdout.strip() == "", "/repo not clean"
    r = sh(f"git -C /repo apply {dst}/patch.diff")
    if r.returncode != 0:
        print("APPLY FAILED", r.stderr)
        return 2
    results = meta.get("checks", {})
    try:
        for c in checks:
            t0 = time.time()
            r = sh(f"cd {VERIF} && timeout 1500 ./check {c} --tier quick")
            lines = [l for l in r.stdout.splitlines() if l.startswith("VIOLATION") or l.startswith("  - ")]
            results[c] = {
                "exit": r.returncode,
                "caught": r.returncode == 1,
                "violation_line": next((l for l in lines if l.startswith("VIOLATION")), None),
                "first_finding": next((l.strip()[:400] for l in lines if l.startswith("  - ")), None),
                "wall_s": round(time.time() - t0, 1),
            }
            print(f"{prop}-{n} check {c}: exit={r.returncode} {results[c]['first_finding'] or ''}"[:330])
    finally:
        sh("git -C /repo checkout -- .")
    meta["checks"] = results
    meta["confirmed"] = open(os.path.join(dst, "verify.txt")).read().strip() if os.path.exists(os.path.join(dst, "verify.txt")) else ""
    meta["what_i_ran"] = "harness/seed_verify.sh (worktree: demo passes clean, fails mutated, 179 tests pass mutated); harness/seed_eval.py (git -C /repo apply; ./check <id> --tier quick; git -C /repo checkout -- .)"
    json.dump(meta, open(os.path.join(dst, "meta.json"), "w"), indent=1)
    return 0


if __name__ == "__main__":
    sys.exit(main())
