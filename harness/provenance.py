"""Provenance of the hand-written model: the (normalised) statements of every function the model was written against.

`Generated/Src<Group>.lean` is regenerated on every run; `Properties/Prov/<Group>.lean` (written once by
`python harness/provenance.py --snapshot`, committed) states that each group equals the statements the model was written
against.  A function that `translate_core.py` compiles into Lean is tied much more strongly (its *meaning* is regenerated and
proved equal to the model); this file covers the rest — the functions whose model is tied by correspondence only — so that any
edit of them is at least a broken tie (the check then searches for a failing input) instead of going unnoticed when the
generators do not happen to reach it.

Normalisation (so that cosmetic edits do not break the tie): docstrings, comments, blank lines, `_logger.*` calls,
`__tracebackhide__` assignments, type annotations of parameters / returns / annotated assignments and `typing.cast` wrappers are
dropped; everything else is `ast.unparse` of each top-level statement of the function.
"""
from __future__ import annotations

import ast
import os
import sys

GROUPS = {
    # group: (file, [qualified names]); a name `A.b` = method b of class A, `f.g` = inner function g of f, `@X` = module-level assignment X
    "Parser": ("_parser.py", ["_span_to_tok", "_span_to_str_or_int", "DLTypeDimensionExpression.from_multiaxis_literal", "@_VALID_IDENTIFIER_RX"]),
    "Shape": ("_tensor_type_base.py", ["TensorTypeBase.__class_getitem__"]),
    "Expand": ("_dltype_context.py", ["_ConcreteType.tensor_arg_name", "DLTypeContext.__init__"]),
    "Hints": ("_core.py", ["_resolve_types", "_resolve_value", "_maybe_get_type_hints", "_maybe_get_signature"]),
    "Decorate": ("_core.py", ["dltyped", "dltyped_namedtuple", "dltyped_dataclass"]),
    "Pydantic": ("_tensor_type_base.py", ["TensorTypeBase.__get_pydantic_core_schema__", "unwrap_type_alias", "_resolve_numpy_dtype"]),
    "Symbolic": ("_symbolic_expressions.py", ["*"]),
    "Errors": ("_errors.py", ["*"]),
    "Deps": ("_dependency_utilities.py", ["*"]),
    "Logs": ("_log_utils.py", ["*"]),
    "Constants": ("_constants.py", ["*"]),
    # every logging call of the checker (they are dropped from the other groups): in debug mode they run, and must not change a verdict
    "LogCalls": ("<logger calls>", ["_dltype_context.py", "_core.py", "_parser.py", "_tensor_type_base.py"]),
    # the object protocol of every class of the checker: its bases, class decorators, the special methods (`__eq__`, `__hash__`, `__bool__`,
    # `__len__`, `__getattr__`, `__slots__`, ...) and the names assigned in the class body.  A special method added to a class changes how
    # Python itself treats its instances (what a cache or a dict keyed by them tells apart, what `if x:` means) without touching any function
    # that is modelled; ordinary helper methods are NOT listed, adding one breaks nothing
    "Surface": ("<class surface>", ["_core.py", "_dltype_context.py", "_tensor_type_base.py", "_parser.py", "_errors.py", "_symbolic_expressions.py", "_log_utils.py"]),
}
# inner functions that translate_core.py compiles (their statements are not part of the snapshot of the enclosing function)
COMPILED_INNER = {"dltyped": ["wrapper"], "dltyped_namedtuple": ["validated_new"], "dltyped_dataclass": ["new_init"],
                  "__get_pydantic_core_schema__": ["validate_tensor"]}


class Norm(ast.NodeTransformer):
    def __init__(self, drop_inner=()):
        self.drop_inner = set(drop_inner)

    def _body(self, body):
        out = []
        for s in body:
            if isinstance(s, ast.Expr) and isinstance(s.value, ast.Constant) and isinstance(s.value.value, str):
                continue
            if isinstance(s, ast.Expr) and isinstance(s.value, ast.Call) and ast.unparse(s.value.func).startswith("_logger."):
                continue
            if isinstance(s, ast.Assign) and ast.unparse(s.targets[0]) == "__tracebackhide__":
                continue
            if isinstance(s, ast.FunctionDef) and s.name in self.drop_inner:
                out.append(ast.Expr(ast.Constant(f"<{s.name}: compiled by translate_core.py>")))
                continue
            out.append(s)
        return out or [ast.Pass()]

    def visit_FunctionDef(self, n):
        self.generic_visit(n)
        n.returns = None
        for a in [*n.args.posonlyargs, *n.args.args, *n.args.kwonlyargs, *([n.args.vararg] if n.args.vararg else []), *([n.args.kwarg] if n.args.kwarg else [])]:
            a.annotation = None
        n.body = self._body(n.body)
        return n

    def visit_AnnAssign(self, n):
        self.generic_visit(n)
        if n.value is None:
            return None
        return ast.Assign(targets=[n.target], value=n.value, lineno=0)

    def visit_Call(self, n):
        self.generic_visit(n)
        if ast.unparse(n.func) in ("typing.cast", "cast") and len(n.args) == 2:
            return n.args[1]
        return n

    def generic_visit(self, node):
        super().generic_visit(node)
        for f in ("body", "orelse", "finalbody"):
            if isinstance(getattr(node, f, None), list) and not isinstance(node, ast.FunctionDef):
                setattr(node, f, self._body(getattr(node, f)) if getattr(node, f) else [])
        return node


def _find(mod: ast.Module, qual: str):
    parts = qual.split(".")
    nodes = mod.body
    cur = None
    for p in parts:
        cur = next((n for n in nodes if isinstance(n, (ast.FunctionDef, ast.ClassDef)) and n.name == p), None)
        if cur is None:
            return None
        nodes = cur.body
    return cur


def statements(lib_dir: str, group: str) -> list[tuple[str, list[str]]]:
    fname, names = GROUPS[group]
    if fname == "<logger calls>":
        out = []
        for f in names:
            with open(os.path.join(lib_dir, f)) as fh:
                mod = ast.parse(fh.read(), filename=f)
            calls = [ast.unparse(n) for n in ast.walk(mod) if isinstance(n, ast.Call) and ast.unparse(n.func).startswith("_logger.")]
            out.append((f, calls))
        return out
    if fname == "<class surface>":
        out = []
        for f in names:
            with open(os.path.join(lib_dir, f)) as fh:
                mod = ast.parse(fh.read(), filename=f)
            for c in [n for n in ast.walk(mod) if isinstance(n, ast.ClassDef)]:
                items = []
                for m in c.body:
                    if isinstance(m, (ast.FunctionDef, ast.AsyncFunctionDef)) and m.name.startswith("__") and m.name.endswith("__"):
                        items.append("def " + m.name + "".join(" @" + ast.unparse(d) for d in m.decorator_list))
                    elif isinstance(m, ast.Assign):
                        items += ["= " + ast.unparse(t) for t in m.targets]
                    elif isinstance(m, ast.AnnAssign) and m.value is not None:
                        items.append("= " + ast.unparse(m.target))
                head = f"{f}: class {c.name}({', '.join(ast.unparse(b) for b in c.bases)})" + "".join(" @" + ast.unparse(d) for d in c.decorator_list)
                out.append((head, sorted(items)))
        return out
    with open(os.path.join(lib_dir, fname)) as fh:
        mod = ast.parse(fh.read(), filename=fname)
    out = []
    if names == ["*"]:
        names = []
        for n in mod.body:
            if isinstance(n, ast.FunctionDef):
                names.append(n.name)
            elif isinstance(n, ast.ClassDef):
                bases = ", ".join(ast.unparse(b) for b in n.bases)
                out.append((f"class {n.name}", [bases]))
                names += [f"{n.name}.{m.name}" for m in n.body if isinstance(m, ast.FunctionDef)]
            elif isinstance(n, (ast.Assign, ast.AnnAssign)) and not isinstance(n, ast.Import):
                out.append(("@" + ast.unparse(n.targets[0] if isinstance(n, ast.Assign) else n.target), [ast.unparse(n.value) if n.value is not None else ""]))
    for q in names:
        if q.startswith("@"):
            v = next((n for n in mod.body if isinstance(n, (ast.Assign, ast.AnnAssign)) and ast.unparse(n.targets[0] if isinstance(n, ast.Assign) else n.target) == q[1:]), None)
            out.append((q, ["<missing>"] if v is None else [ast.unparse(v.value)]))
            continue
        f = _find(mod, q)
        if f is None:
            out.append((q, ["<missing>"]))
            continue
        drop = COMPILED_INNER.get(q.split(".")[-1], [])
        f2 = Norm(drop).visit(ast.fix_missing_locations(ast.parse(ast.unparse(f)).body[0]))
        ast.fix_missing_locations(f2)
        decs = [ast.unparse(d) for d in f2.decorator_list]
        out.append((q, [f"def({ast.unparse(f2.args)})" + ("".join(" @" + d for d in decs))] + [ast.unparse(s) for s in f2.body]))
    return out


def _lean_str(s: str) -> str:
    return '"' + s.replace("\\", "\\\\").replace('"', '\\"').replace("\n", "\\n") + '"'


def lean_value(items) -> str:
    rows = []
    for q, sts in items:
        rows.append("  (" + _lean_str(q) + ", [" + ", ".join(_lean_str(x) for x in sts) + "])")
    return "[\n" + ",\n".join(rows) + "]"


def gen(lib_dir: str, group: str, header: str) -> str:
    return (header + "namespace Dltype.Gen.Src\n\n"
            + f"/-- normalised statements of the functions of group {group} as they are in the tree under test -/\n"
            + f"def src{group} : List (String × List String) := " + lean_value(statements(lib_dir, group)) + "\n\nend Dltype.Gen.Src\n")


SNAP = os.path.join(os.path.dirname(os.path.abspath(__file__)), "provenance_snapshot.json")


def diff_against_snapshot(group: str) -> str:
    """which functions of the group differ from the statements the model was written against"""
    import json

    import translate

    snap = {k: v for k, v in json.load(open(SNAP))[group]}
    cur = {k: v for k, v in statements(translate.LIB, group)}
    out = []
    for k in sorted(set(snap) | set(cur)):
        a, b = snap.get(k), cur.get(k)
        if a == b:
            continue
        if a is None or b is None:
            out.append(f"{k}: {'added' if a is None else 'removed'}")
            continue
        i = next((j for j, (x, y) in enumerate(zip(a, b)) if x != y), min(len(a), len(b)))
        was = a[i] if i < len(a) else "<end>"
        now = b[i] if i < len(b) else "<end>"
        out.append(f"{k} statement {i}: was `{was[:160]}` now `{now[:160]}`")
    return "source changed in " + "; ".join(out)[:1200] if out else "no difference found"


def snapshot(lib_dir: str, lean_dir: str):
    import json

    json.dump({g: statements(lib_dir, g) for g in GROUPS}, open(SNAP, "w"), indent=0)
    os.makedirs(os.path.join(lean_dir, "Properties", "Prov"), exist_ok=True)
    for g in GROUPS:
        text = (f"import DltypeModel.Generated.Src{g}\n/-!\n# Provenance: the functions of group {g} are, statement for statement, the ones the hand-written model was written against\n"
                "(written by `harness/provenance.py --snapshot`; re-run it only after the model has been brought up to date with an intended change of the source).\n-/\n"
                f"namespace Dltype.Prov\n\ntheorem {g.lower()}_is_the_modelled_source : Gen.Src.src{g} = "
                + lean_value(statements(lib_dir, g)) + " := by\n  rfl\n\nend Dltype.Prov\n")
        with open(os.path.join(lean_dir, "Properties", "Prov", g + ".lean"), "w") as fh:
            fh.write(text)


if __name__ == "__main__":
    sys.path.insert(0, os.path.dirname(os.path.abspath(__file__)))
    import translate

    if "--snapshot" in sys.argv:
        snapshot(translate.LIB, translate.LEAN_DIR)
        print("snapshot written")
    else:
        for g in GROUPS:
            print(gen(translate.LIB, g, "")[:400])
