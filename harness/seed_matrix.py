"""seed_matrix.py <nworkers> [--target-only] : run EVERY quick check (or, with --target-only, the check of the change's own
property; the clean tree always gets all twenty) against EVERY seeded change, in parallel worker copies.

Each worker has its own copy of /verif (so generated Lean files, evidence and work files do not collide) and its own
copy of the repository (DLTYPE_VERIF_REPO).  Results: /verif/seeded/matrix.json  {mutation: {check: exit code}}.
Also runs the clean tree once per worker as a control.
"""
import concurrent.futures as cf
import json
import os
import subprocess
import sys
import time

VERIF = "/verif"
SCRATCH = "/root/scratch"
PROPS = [f"C{i:02d}" for i in range(1, 21)]


def sh(cmd, **kw):
    return subprocess.run(cmd, shell=True, text=True, capture_output=True, **kw)


def setup(k):
    w = f"{SCRATCH}/w{k}"
    sh(f"rm -rf {w}; mkdir -p {w}")
    sh(f"rsync -a --exclude .git --exclude .work {VERIF}/ {w}/verif/")
    sh(f"git -C /repo worktree add -f --detach {w}/repo HEAD")
    return w


def job(args):
    w, mut = args
    repo, verif = f"{w}/repo", f"{w}/verif"
    res = {}
    sh(f"git -C {repo} checkout -q -- .")
    if mut != "clean":
        r = sh(f"git -C {repo} apply {VERIF}/seeded/{mut}/patch.diff")
        if r.returncode != 0:
            return mut, {"apply": r.stderr[:200]}
    env = dict(os.environ, DLTYPE_VERIF_REPO=repo)
    for c in (PROPS if (mut == "clean" or not TARGET_ONLY) else [mut[:3]]):
        t0 = time.time()
        r = subprocess.run(f"cd {verif} && timeout 1500 ./check {c} --tier quick", shell=True, text=True, capture_output=True, env=env)
        first = next((l.strip()[:220] for l in r.stdout.splitlines() if l.startswith("  - ")), "")
        tail = "nfif" if "no-failing-input-found" in r.stdout else ""
        res[c] = [r.returncode, tail, first, round(time.time() - t0)]
    sh(f"git -C {repo} checkout -q -- .")
    return mut, res


TARGET_ONLY = "--target-only" in sys.argv


def main():
    n = int(sys.argv[1])
    muts = sorted(d for d in os.listdir(f"{VERIF}/seeded") if os.path.isdir(f"{VERIF}/seeded/{d}"))
    workers = [setup(k) for k in range(n)]
    queue = ["clean"] + muts
    out = {}
    path = f"{VERIF}/seeded/matrix.json" if TARGET_ONLY else f"{VERIF}/seeded/matrix_cross.json"
    if "--only" in sys.argv:
        # re-run a subset (ids or id prefixes after --only) and merge the results into the existing file
        want = sys.argv[sys.argv.index("--only") + 1:]
        queue = [m for m in queue if any(m == w or m.startswith(w) for w in want)]
        out = json.load(open(path))
    # static round-robin assignment, one thread per worker
    def run_worker(k):
        for m in queue[k::n]:
            mut, res = job((workers[k], m))
            out[mut] = res
            json.dump(out, open(path, "w"), indent=1)
            caught = [c for c, v in res.items() if isinstance(v, list) and v[0] == 1]
            print(mut, "caught by", caught, flush=True)
    with cf.ThreadPoolExecutor(max_workers=n) as ex:
        list(ex.map(run_worker, range(n)))
    for k in range(n):
        sh(f"git -C /repo worktree remove --force {workers[k]}/repo")
        sh(f"rm -rf {workers[k]}")
    sh("git -C /repo worktree prune")


if __name__ == "__main__":
    main()
