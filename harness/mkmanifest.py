"""Regenerate MANIFEST.json from the table below (keeps it valid and in one place)."""
import json
import os

VERIF = os.path.dirname(os.path.dirname(os.path.abspath(__file__)))
BASE = "cd /repo && /venv/bin/python -m pytest -ra -q -p no:cacheprovider --timeout=900 --continue-on-collection-errors --no-cov"

T = 'Trusted: Lean 4.33 kernel (axioms of every theorem audited ⊆ {propext, Classical.choice, Quot.sound}; no sorry/native_decide); the translators (tables and conditions; the statement-level Python-to-Lean compiler for the core loops, the evaluator, the wrapper of dltyped and the class entry points, with its fixed loop skeletons and leaf tables; the provenance lists of the remaining hand-modelled functions); correspondence harness; CPython int semantics as stated in PyPrims.lean. '

def C(technique, text, note, ref, modules):
    return dict(technique=technique, text=text, note=T + note, ref=ref)

CORE = "core loops / evaluator / wrapper regenerated from the source by a statement-level translator and proved equal to the hand-written model (Properties/Core*.lean); "
CORR = "hand-written executable Lean model tied to the code by a differential correspondence run (same operation lines on the real code and on the compiled model) with an independent oracle"
CHECKS = {
    "C01": C("Lean 4 proof (invariant by induction over the context queue: monotone bindings => soundness w.r.t. Conforms); " + CORE + CORR,
             "Theorems about the Lean model of DLTypeContext (add / assert_context / _assert_tensor_shape / get_expected_shape); the model is tied to the code by seeded and corpus differential runs (25k contexts quick), and an independent Python oracle (first-occurrence assignment, reference evaluator) judges every accepted context. The bodies of _assert_tensor_shape, assert_context and TensorTypeBase.check are regenerated from the source on every run by a statement-level translator (harness/translate_core.py) and proved equal to the model for all inputs (Properties/Core.lean), so these theorems are re-checked against what the code says now.",
             "Negative exponents (float path) are not modelled. The soundness theorem is about the model; equality of model and code is proved for the translated loop bodies (trusting the translator and three fixed loop skeletons) and sampled for get_expected_shape, add and the expression parser/evaluator.", "DESIGN.md §4 C01", []),
    "C02": C("Lean 4 proof (completeness w.r.t. Conforms; trace theorem: body once, result handed through); " + CORE + CORR,
             "Trace theorem about the wrapper model (returned => body ran exactly once after the argument checks and its value is what the caller gets) and completeness of the context model; tied by differential runs through generated dltyped functions (all call styles, defaulted parameters of unhashable types) with identity of arguments/result observed. The bodies of _assert_tensor_shape, assert_context and TensorTypeBase.check are regenerated from the source on every run by a statement-level translator (harness/translate_core.py) and proved equal to the model for all inputs (Properties/Core.lean), so these theorems are re-checked against what the code says now.",
             "inspect.Signature.bind/apply_defaults is not modelled (the harness hands the model the bound arguments).", "DESIGN.md §4 C02", []),
    "C03": C("Lean 4 proof (iff characterisation of check(): rank, dtype, aligned literal axes; order and truth of the reported error); " + CORE + CORR,
             "check_ok_iff / rank_error_first / dtype_error_second / shape_error_is_true over the Lean model of TensorTypeBase.check, for every annotation the shape parser can produce; exhaustive-small differential run (all shape strings <=4 dims with the marker in every position x ranks 0..5) judged by an independent oracle. The bodies of _assert_tensor_shape, assert_context and TensorTypeBase.check are regenerated from the source on every run by a statement-level translator (harness/translate_core.py) and proved equal to the model for all inputs (Properties/Core.lean), so these theorems are re-checked against what the code says now.",
             "", "DESIGN.md §4 C03", []),
    "C04": C("Lean 4 proof by kernel evaluation (decide +kernel) over the complete, regenerated class x dtype acceptance table",
             "The acceptance table is re-observed from the real classes on every run for every dtype numpy(+ml_dtypes)/torch/jax can construct and written into Generated/DtypeTables.lean; table_is_documented, membership_is_check and superset_relations are decided by the kernel over the whole table (a finite domain enumerated completely). The bodies of _assert_tensor_shape, assert_context and TensorTypeBase.check are regenerated from the source on every run by a statement-level translator (harness/translate_core.py) and proved equal to the model for all inputs (Properties/Core.lean), so these theorems are re-checked against what the code says now.",
             "Completeness of the dtype enumeration for the installed libraries; bfloat16 outside torch and non-native byte orders are outside the claim.", "DESIGN.md §4 C04", []),
    "C05": C("Lean 4 proof (shunting-yard compiler correctness; stack machine = tree evaluator; recogniser decides the grammar, grammar unambiguous) over a model tied to the source by translators (precedence table, operator sets, operator bodies, the evaluate loop compiled and proved equal to the model) + " + CORR,
             "Kernel-checked theorems about the Lean model of the tokenizer/parser/evaluator; precedence table, operator sets and operator bodies are regenerated from _parser.py on every run and proved equal to the model's; exhaustive-small and seeded differential runs with an independent recursive-descent grammar oracle (Spec/Grammar.lean).",
             "Negative exponents (float path) and non-ASCII input are not modelled.", "DESIGN.md §4 C05", []),
    "C06": C("Lean 4 proof (partial: error classes of the parser model; negation of the full statement with kernel-checked witnesses) + exhaustive differential run against an independent grammar recogniser",
             "The full statement (accept => grammatical) is FALSE of the current code (known finding F6, witnesses proved in Lean); the check enumerates every string of <=4 tokens over a 21-symbol alphabet plus mutations, compares code and faithful model, judges acceptance against the Lean recogniser, and USES every accepted string in a call.",
             "F6 is an open known finding: inside its region (model accepts a string outside the grammar) the code must still equal the model.", "DESIGN.md §4 C06, §5 F6", []),
    "C07": C("Lean 4 proof (decision logic on the wrapper's event trace); " + CORE + CORR,
             "args_rejected_no_body / return_rejected_body_once / return_hint_not_in_args_phase over the wrapper model; differential runs with a body that logs its side effects and a logged assert_context, one violation placed per argument position / tuple element / return.",
             "", "DESIGN.md §4 C07", []),
    "C08": C("Lean 4 proof (error-class table by decide over the regenerated _errors.py; report lemmas of check()) + " + CORR + " judging every report's fields",
             "Every error class derives from DLTypeError <= TypeError (generated table); reports (tensor name, axis, expected, actual) of every rejection are judged by an independent oracle from both the exception attributes and the message; the full statement 'nothing but DLTypeErrors' is false (known finding F7, Lean witness). The bodies of _assert_tensor_shape, assert_context and TensorTypeBase.check are regenerated from the source on every run by a statement-level translator (harness/translate_core.py) and proved equal to the model for all inputs (Properties/Core.lean), so these theorems are re-checked against what the code says now.",
             "F7 (evaluation / zip errors are not converted) is an open known finding.", "DESIGN.md §4 C08, §5 F7", []),
    "C09": C("Lean 4 proof (state machine over histories: calls leave the state unchanged, verdict = fresh verdict; shared-state audit regenerated from the AST) + " + CORR + " on histories and threads",
             "call_leaves_state / verdict_is_fresh / calls_do_not_matter over the history model; state_components_modelled proves the list of non-local stores, caches and module-level mutables found in the source equal to the list the model accounts for; random histories (shared aliases, providers, nesting) and 8-thread runs compared with fresh verdicts; provider mappings and annotation objects snapshotted.",
             "Bytecode-level preemption is not exhibited by the model; the audit's classification of each store is an argument in a comment, not a proof.", "DESIGN.md §4 C09", []),
    "C10": C("Lean 4 proof (from_hint on unions; None-skip lemmas of add) + " + CORR,
             "optional_union / general_union_refused / none_skipped / none_rejected / tensor_same_as_plain / check_ignores_optional; exhaustive None/ok/bad patterns over parameter, tuple-element, field and return positions through functions, NamedTuples and dataclasses.",
             "", "DESIGN.md §4 C10", []),
    "C11": C("Lean 4 proof (flattening lemma for tuple hints of any length) + " + CORR,
             "tuple_hint_is_tuple / tuple_elements_queued (exactly the annotated positions, in order, with their index) / display_names; exhaustive tuple hints of length 1..4 with annotated/plain mixes as parameter and return.",
             "", "DESIGN.md §4 C11", []),
    "C12": C("Lean 4 proof (provider resolution and its place in the call; history lemma) + " + CORR + " on histories with provider updates",
             "provider_resolution / self_needs_method / provider_scope_is_initial / provider_update_takes_effect; histories with fresh and long-lived provider dicts changed between calls, non-protocol objects, 'self' with and without a method. The bodies of _assert_tensor_shape, assert_context and TensorTypeBase.check are regenerated from the source on every run by a statement-level translator (harness/translate_core.py) and proved equal to the model for all inputs (Properties/Core.lean), so these theorems are re-checked against what the code says now.",
             "", "DESIGN.md §4 C12", []),
    "C13": C("Lean 4 proof (decision table by decide over the regenerated decorator guards) + exhaustive subprocess matrix",
             "guards_are_modelled / env_is_modelled tie the three decorators' `enabled` default and first guard, the env prefix/fields and the logger branches to the source; disabled_means_identity decides the table; 23 fresh interpreters cover DLTYPE_DISABLE x DLTYPE_DEBUG_MODE x logging x decorator x enabled with a 29-call verdict corpus.",
             "Environment parsing is pydantic-settings' (observed, not modelled).", "DESIGN.md §4 C13", []),
    "C14": C("Lean 4 proof (incremental = batch, by induction over the field list) + " + CORR + " in all four forms",
             "incremental_eq_batch: the pydantic fold (check; add; assert per field) equals one batch run; every generated field list is presented as function, dataclass, NamedTuple and pydantic model and the four verdicts/reports must coincide.",
             "", "DESIGN.md §4 C14", []),
    "C15": C("Lean 4 proof (congruence of the checker under equal shapes and equal acceptance; library independence of the shared categories by decide +kernel over the table) + " + CORR + " under all 3^n library assignments",
             "runEntries_congr + shared_categories_library_independent; every generated context is re-run under all assignments of numpy/torch/jax to its arrays. The bodies of _assert_tensor_shape, assert_context and TensorTypeBase.check are regenerated from the source on every run by a statement-level translator (harness/translate_core.py) and proved equal to the model for all inputs (Properties/Core.lean), so these theorems are re-checked against what the code says now.",
             "", "DESIGN.md §4 C15", []),
    "C16": C("Lean 4 proof (partial: call-transparency trace theorems) + observation against an undecorated twin",
             "body_exception_propagates / bodyRaised_only_from_body / no_hints_identity (+ C02b); name/doc/signature, argument passing for every parameter kind/default/binding, dataclass and NamedTuple behaviour (eq, repr, isinstance, immutability, pickle) are observed against undecorated twins (3.3k cases quick).",
             "The metadata / equality / pickling clauses are CPython, dataclass and NamedTuple behaviour: observed only, not proved.", "DESIGN.md §4 C16", []),
    "C17": C("Lean 4 proof (partial: per-validation freshness, fold order via C14) + " + CORR + " on pydantic models",
             "validation_starts_empty + C14; PYD protocol: generated models (base types np.ndarray / np.ndarray[..] / npt.NDArray[..] / torch / jax, optional and plain fields, validate_assignment) with constructions in shuffled keyword order and assignments; clean public data observed. The class-definition part of the schema hook, _resolve_numpy_dtype and unwrap_type_alias are regenerated from the source on every run and proved about (Properties/CorePyd.lean); the regenerated unwrap_type_alias is also run against the real one on real typing objects (bare / subscripted type aliases of typing, typing_extensions, numpy).",
             "pydantic-core's scheduling of validators is trusted; what typing does when the value of an alias is subscripted (parameter substitution) is left uninterpreted in the model. F13 (assignment under validate_assignment) is an open known finding.", "DESIGN.md §4 C17, §5 F13", []),
    "C18": C("Lean 4 proof (partial: printer model with folding; negation of the full statement with a kernel-checked witness; the symbolic classes regenerated from the source by the statement-level translator and proved equal to the model, Properties/CoreSym.lean) + " + CORR + " against Python's own evaluation",
             "The printer model (Symbolic.lean) is compared with str(Shape[...]) on exhaustive-small and random trees; parse(print s) is compared with Python's evaluation of the operator expression; the full statement is false (known finding F12: no parentheses are inserted; negative folded literals).",
             "F12/F12n are open known findings; outside their region the printed string must evaluate to Python's value.", "DESIGN.md §4 C18, §5 F12", []),
    "C19": C("Lean 4 proof (partial: eager transparency, scripting guard) + observation of generated torch modules under trace / script / compile against undecorated twins",
             "eager_transparent, scripting_returns_function_itself; 17 generated modules x {eager, jit.trace (positional and keyword example inputs), jit.script, torch.compile(eager)} x conforming / non-conforming inputs.",
             "TorchScript, the tracer and dynamo are not modelled at all: capture modes are observed only.", "DESIGN.md §4 C19", []),
    "C20": C("Lean 4 proof (decision tables by decide over the regenerated selection logic, all 8 environments) + 8 fresh interpreters",
             "import_outcome / supported_types / exports / universal_dtypes_are_union over the if/elif chains of _dtypes.py and __init__.py and the DTYPES expressions of _universal_tensors.py rendered by the translator; each of the 8 availability combinations is realised in a fresh interpreter and compared.",
             "jax without numpy is not realisable and collapses to 'jax absent'.", "DESIGN.md §4 C20", []),
}

NOT_YET = {}


def main():
    props = [json.loads(l)["id"] for l in open(os.path.join(VERIF, "properties.jsonl"))]
    checks = []
    for pid in props:
        c = CHECKS.get(pid)
        if not c:
            continue
        checks.append(
            {
                "property_id": pid,
                "quick_cmd": f"./check {pid} --tier quick",
                "thorough_cmd": f"./check {pid} --tier thorough",
                "evidence_file": f"/verif/evidence/{pid}.json",
                "replay_cmd_template": f"./check {pid} --replay {{path}}",
                "engine": "lean4-model",
                "level_claimed": {"category": c.get("category", "proof"), "text": c["text"], "design_ref": c["ref"]},
                "level_note": c["note"],
                "technique": c["technique"],
            }
        )
    na = [
        {"property_id": pid, "reason": NOT_YET.get(pid, "check under construction in this round (see DESIGN.md §8 order of construction); not claimed until it runs")}
        for pid in props
        if pid not in CHECKS
    ]
    man = {
        "version": 1,
        "setup_cmd": "cd /verif && /venv/bin/python harness/translate.py >/dev/null && cd lean && lake build",
        "hooks": {
            "guard": "DLTYPE_VERIF",
            "enable": "no source hooks are needed: every observable is reached through the public API, exception attributes, an instrumented wrapped body and subprocess configuration; checks import dltype from /repo's working tree",
            "baseline_off_cmd": BASE,
            "source_commits": [],
            "add_only": True,
        },
        "engines": [
            {
                "name": "lean4-model",
                "path": "/verif/lean",
                "serves_properties": sorted(CHECKS),
                "kind_free_text": "Lean 4 model (DltypeModel), specifications (Spec), proofs (Proofs, Properties), compiled line-protocol driver; Python harness (translator, generators, correspondence, search) under /verif/harness",
            }
        ],
        "checks": checks,
        "not_applicable": na,
        "notes": "See DESIGN.md. Exit 0 held / 1 VIOLATION / 2 infrastructure failure. known_findings.json lists recorded genuine defects.",
    }
    with open(os.path.join(VERIF, "MANIFEST.json"), "w") as fh:
        json.dump(man, fh, indent=1)
        fh.write("\n")


if __name__ == "__main__":
    main()
