"""Regenerate MANIFEST.json from the table below (keeps it valid and in one place)."""
import json
import os

VERIF = os.path.dirname(os.path.dirname(os.path.abspath(__file__)))
BASE = "cd /repo && /venv/bin/python -m pytest -ra -q -p no:cacheprovider --timeout=900 --continue-on-collection-errors --no-cov"

CHECKS = {
    "C05": dict(
        technique="Lean 4 theorems (shunting-yard compiler correctness, stack machine = tree evaluator) over a model tied to the source by a translator (tables, operator bodies) and a differential correspondence run",
        text="Kernel-checked theorems about the Lean model of the tokenizer/parser/evaluator; precedence table, operator sets and operator bodies are regenerated from _parser.py on every run and proved equal to the model's; the algorithmic model is tied to the code by exhaustive-small and seeded differential runs with an independent grammar oracle.",
        note="Trusted: Lean kernel; translator; correspondence harness; CPython int semantics as stated in PyPrims.lean. Negative exponents (float path) and non-ASCII input are not modelled.",
        ref="DESIGN.md §4 C05",
    ),
}

NOT_YET = {}


def main():
    props = [json.loads(l)["id"] for l in open(os.path.join(VERIF, "properties.jsonl"))]
    checks = []
    for pid in props:
        c = CHECKS.get(pid)
        if not c:
            continue
        checks.append(
            {
                "property_id": pid,
                "quick_cmd": f"./check {pid} --tier quick",
                "thorough_cmd": f"./check {pid} --tier thorough",
                "evidence_file": f"/verif/evidence/{pid}.json",
                "replay_cmd_template": f"./check {pid} --replay {{path}}",
                "engine": "lean4-model",
                "level_claimed": {"category": c.get("category", "proof"), "text": c["text"], "design_ref": c["ref"]},
                "level_note": c["note"],
                "technique": c["technique"],
            }
        )
    na = [
        {"property_id": pid, "reason": NOT_YET.get(pid, "check under construction in this round (see DESIGN.md §8 order of construction); not claimed until it runs")}
        for pid in props
        if pid not in CHECKS
    ]
    man = {
        "version": 1,
        "setup_cmd": "cd /verif && /venv/bin/python harness/translate.py >/dev/null && cd lean && lake build",
        "hooks": {
            "guard": "DLTYPE_VERIF",
            "enable": "no source hooks are needed: every observable is reached through the public API, exception attributes, an instrumented wrapped body and subprocess configuration; checks import dltype from /repo's working tree",
            "baseline_off_cmd": BASE,
            "source_commits": [],
            "add_only": True,
        },
        "engines": [
            {
                "name": "lean4-model",
                "path": "/verif/lean",
                "serves_properties": sorted(CHECKS),
                "kind_free_text": "Lean 4 model (DltypeModel), specifications (Spec), proofs (Proofs, Properties), compiled line-protocol driver; Python harness (translator, generators, correspondence, search) under /verif/harness",
            }
        ],
        "checks": checks,
        "not_applicable": na,
        "notes": "See DESIGN.md. Exit 0 held / 1 VIOLATION / 2 infrastructure failure. known_findings.json lists recorded genuine defects.",
    }
    with open(os.path.join(VERIF, "MANIFEST.json"), "w") as fh:
        json.dump(man, fh, indent=1)
        fh.write("\n")


if __name__ == "__main__":
    main()
