"""Random histories over a family of functions sharing annotation aliases and providers."""
from __future__ import annotations

import gen_ctx

ALIAS_SHAPES = ["a b", "a", "n k", "*g a", "a c=a+b", "2 a", "b a+1", "... k", "m=3 a"]
# a second annotation that LOOKS like another one — same class, same axis names, a different expression behind a named axis — is an
# annotation of its own: whatever is keyed by annotations (typing's cache of Annotated[...], an lru_cache) must keep them apart
LOOKALIKE = {"a c=a+b": "a c=a*b", "m=3 a": "m=4 a"}


def tensor_val(rng, shape, lib=None):
    lib = rng.choice([0, 1, 2]) if lib is None else lib
    return f"T,{gen_ctx.dt(lib, 'float32')},{'.'.join(map(str, shape))}"


def conform(rng, shape_s: str, sig: dict):
    dims = shape_s.split()
    groups = {"g": sig["_g"]}
    s = gen_ctx.conforming_shape(rng, dims, {k: v for k, v in sig.items() if not k.startswith("_")}, groups)
    return s


def gen_hist(rng, length: int) -> str:
    steps = []
    n_alias = rng.randint(2, 3)
    shapes = rng.sample(ALIAS_SHAPES, n_alias)
    if rng.random() < 0.4:
        twins = [LOOKALIKE[x] for x in shapes if x in LOOKALIKE]
        shapes.append(rng.choice(twins) if twins else rng.choice(shapes))   # (or the very same string once more: an equal-looking, distinct object)
        n_alias += 1
    for i, sh in enumerate(shapes):
        # (the constructor flag optional=True on a shared annotation object: only the hint decides, and the object
        #  must come out of every decoration unchanged)
        steps.append(f"A|T{i}|FloatTensor,{1 if rng.random() < 0.3 else 0},{sh}")
    provs = {}
    # (p1 / p3 may be two objects of ONE type, only one of which carries the method: `inst` / `instbad`; a class object with a classmethod;
    #  a provider that hands out one long-lived mapping object that is no dict)
    for pid, kind in (("p1", rng.choice(["fresh", "fresh", "inst", "cls"])), ("p2", rng.choice(["long", "long", "mapobj"])), ("p3", rng.choice(["bad", "instbad", "instbad"]))):
        if rng.random() < 0.8:
            sc = rng.choice(["", "k:3", "a:2", "k:3;a:2", "n:4"])
            steps.append(f"V|{pid}|{kind}|{sc}")
            provs[pid] = kind
    funcs = {}
    nested_targets = set()
    setters = set()

    def define(fid):
        pid = rng.choice(["-", "-", *provs.keys(), *[f"self:{p}" for p in provs if provs[p] not in ("bad", "instbad")]])
        ps = []
        # (a function that another body calls keeps its parameter names when it is defined again: the nested call
        #  passes exactly those)
        npar = len(funcs[fid]["ps"]) if fid in funcs and fid in nested_targets else rng.randint(1, 2)
        for name in ("x", "y")[:npar]:
            if rng.random() < 0.15:
                k = rng.randint(1, 2)
                inner = "+".join(f"T{rng.randrange(n_alias)}:{rng.choice(['0', '0', '1'])}" for _ in range(k))
                ps.append((name, f"({inner})"))
            else:
                ps.append((name, f"T{rng.randrange(n_alias)}:{rng.choice(['0', '0', '0', '0', '1', '1', '1', '4', '5', '7'] + (['2', '3', '6'] if rng.random() < 0.15 else []))}"))
        ret = "-" if rng.random() < 0.6 else f"T{rng.randrange(n_alias)}:{rng.choice(['0', '1'])}"
        if ret != "-" and rng.random() < 0.25:
            ret = "(" + "+".join(f"T{rng.randrange(n_alias)}:0" for _ in range(rng.randint(1, 2))) + ")"
        # (a function whose body updates a provider is never the target of a nested call: the model applies such an update for
        #  top-level calls only)
        same = [g for g, v in funcs.items() if [n for n, _ in v["ps"]] == [n for n, _ in ps] and g not in setters]
        nested = rng.choice(same + [fid]) if (rng.random() < 0.2) else "-"
        if nested != "-":
            nested_targets.add(nested)
        elif ret != "-" and rng.random() < 0.2 and fid not in nested_targets and any(k not in ("bad", "instbad") for k in provs.values()):
            setters.add(fid)
            # the body updates a provider while the call is running (in place for the long-lived dict): the return value is judged under
            # the mapping the call started with
            nested = f"set:{rng.choice([p for p, k in provs.items() if k not in ('bad', 'instbad')])}={rng.choice(['k:3', 'k:5', 'a:2', 'a:3,k:3', 'n:4,k:3'])}"
        funcs[fid] = {"ps": ps, "ret": ret, "pid": pid}
        return f"D|{fid}|{pid}|{';'.join(f'{n}={h}' for n, h in ps)}|{ret}|{nested}"

    def value_for(hint: str, sig, conforming: bool):
        def one(h):
            if h == "-":
                return "X"
            al, opt = h.split(":")
            if opt in ("1", "4") and rng.random() < 0.35:
                return "N"
            if rng.random() < 0.06:
                return rng.choice(["N", "X"])
            sh = shapes[int(al[1:])]
            s = conform(rng, sh, sig)
            if s is None or not conforming:
                s = tuple(rng.choice([1, 2, 3, 4]) for _ in sh.split() if _ not in ("...",)) if rng.random() < 0.8 else (2,)
            return tensor_val(rng, s)

        if hint.startswith("("):
            inner = hint[1:-1].split("+")
            return "U:" + "+".join(one(h) for h in inner)
        return one(hint)

    nf = 0
    for _ in range(length):
        r = rng.random()
        if r < 0.25 or not funcs:
            nf += 1
            steps.append(define(f"f{nf % 6}"))
        elif r < 0.35 and provs:
            pid = rng.choice(list(provs))
            steps.append(f"S|{pid}|{rng.choice(['', 'k:3', 'k:5', 'a:2', 'a:3;k:3', 'n:4;k:3'])}")
        else:
            fid = rng.choice(list(funcs))
            fd = funcs[fid]
            sig = {"a": rng.choice([1, 2, 3]), "b": rng.choice([1, 2, 3]), "n": rng.choice([2, 4, 5]), "k": rng.choice([3, 3, 5]), "_g": tuple(rng.choice([1, 2]) for _ in range(rng.randint(0, 2)))}
            sig["c"] = sig["a"] + sig["b"]
            conforming = rng.random() < 0.7
            vals = [value_for(h, sig, conforming) for _, h in fd["ps"]]
            ret = "-" if fd["ret"] == "-" and rng.random() < 0.7 else (value_for(fd["ret"], sig, rng.random() < 0.8) if fd["ret"] != "-" else rng.choice(["-", "!"]))
            if rng.random() < 0.05:
                ret = "!"
            steps.append(f"C|{fid}|{';'.join(n for n, _ in fd['ps'])}|{';'.join(vals)}|{ret}")
    return "HIST\t" + "\t".join(steps)
