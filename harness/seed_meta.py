"""Fold seeded/matrix.json into every seeded/<id>/meta.json: `checks` = which quick checks catch the change now (final harness),
`first_run` = what the target check said the first time the change was run (kept from the original evaluation)."""
import json
import os

V = os.path.dirname(os.path.dirname(os.path.abspath(__file__)))
m = json.load(open(os.path.join(V, "seeded", "matrix.json")))
try:
    cross = json.load(open(os.path.join(V, "seeded", "matrix_cross.json")))
except OSError:
    cross = {}
n = 0
for mut, res in sorted(m.items()):
    if mut == "clean":
        continue
    p = os.path.join(V, "seeded", mut, "meta.json")
    meta = json.load(open(p))
    tgt = mut[:3]
    if "first_run" not in meta:
        meta["first_run"] = {tgt: meta.get("checks", {}).get(tgt)}
    meta["checks"] = {
        c: {"exit": v[0], "caught": v[0] == 1, "with_failing_input": v[0] == 1 and v[1] != "nfif", "first_finding": v[2], "wall_s": v[3]}
        for c, v in res.items() if isinstance(v, list) and (v[0] != 0 or c == tgt)
    }
    meta["caught_by"] = sorted(set(c for c, v in res.items() if isinstance(v, list) and v[0] == 1)
                               | set(c for c, v in cross.get(mut, {}).items() if isinstance(v, list) and v[0] == 1))
    json.dump(meta, open(p, "w"), indent=1)
    n += 1
print(n, "meta files updated")
