"""CALL operations on the real code: build the function / NamedTuple / dataclass / pydantic model from the
operation line (generated source, exec'd), decorate it with the real decorators, call it, observe.

Line:  CALL \t kind[:style] \t provider \t scope \t item...
  item  P|name|S|spec|value          single hint
        P|name|T|spec;spec;..|value  tuple hint   (TO: Optional[tuple[...]])
        R|S/T/-|specs|value          return hint (or '-') and what the body returns ('!' = raises)
        PD|..  the same with the value as DEFAULT that the caller leaves out;  PE|..  default = value, passed explicitly
        AL                           identical annotation specs share one annotation object (a type alias)
  value N | X | T,lib:dtype,d1.d2 | U:v;v;v (a tuple; L: a list, S: an instance of a tuple subclass)
"""
from __future__ import annotations

import dataclasses
import typing

import impl
from impl import dltype, parse_scope, show_report

EVENTS: list = []
_PATCHED = False


class BodyError(Exception):
    pass


def _patch_events():
    """log every assert_context into EVENTS (harness-side instrumentation, no source hook needed)"""
    global _PATCHED
    if _PATCHED:
        return
    from dltype._lib import _dltype_context

    orig = _dltype_context.DLTypeContext.assert_context

    def logged(self):
        EVENTS.append("assert")
        return orig(self)

    _dltype_context.DLTypeContext.assert_context = logged
    _PATCHED = True


SEQ = ("U:", "L:", "S:")


class TupleSub(tuple):
    """a tuple subclass: what a NamedTuple or a torch.return_types value is to `tuple[...]`-hinted code"""


def parse_value_u(s: str):
    if s[:2] in SEQ:
        body = s[2:]
        vals = [impl.parse_value(v) for v in impl.split_semi(body)]
        # U: an exact tuple; L: a list; S: an instance of a tuple subclass (as a NamedTuple or torch.return_types value is)
        return tuple(vals) if s[0] == "U" else (vals if s[0] == "L" else TupleSub(vals))
    return impl.parse_value(s)


def _base_for(val_s: str):
    import numpy as np

    if val_s.startswith("T,"):
        lib = int(val_s.split(",")[1].split(":")[0])
        if lib == 1:
            import torch

            return torch.Tensor, "torch.Tensor"
        if lib == 2:
            import jax

            return jax.Array, "jax.Array"
    return np.ndarray, "np.ndarray"


class Built:
    """namespace + source fragments for one CALL line"""

    def __init__(self):
        import numpy as np

        import sys
        import types

        mod = sys.modules.get("verif_gen")
        if mod is None:
            mod = types.ModuleType("verif_gen")
            sys.modules["verif_gen"] = mod
        mod.__dict__.clear()
        mod.__dict__["__name__"] = "verif_gen"
        self.ns: dict = mod.__dict__
        self.ns.update({"typing": typing, "Annotated": typing.Annotated, "np": np, "dltype": dltype,
                        "dataclasses": dataclasses, "BodyError": BodyError, "EVENTS": EVENTS})
        try:
            import torch

            self.ns["torch"] = torch
        except ImportError:
            pass
        try:
            import jax

            self.ns["jax"] = jax
        except ImportError:
            pass
        self.n = 0
        self.alias = False
        self.shared: dict = {}

    def hint_src(self, mode: str, specs: str, val_s: str) -> str:
        """source text of the type hint; annotation objects are created here (may raise SyntaxError)"""
        sp = impl.split_semi(specs) if mode in ("T", "TO") else [specs]
        if mode in ("T", "TO"):
            vals = impl.split_semi(val_s[2:]) if val_s[:2] in SEQ else []
        else:
            vals = [val_s]
        parts = []
        for i, s in enumerate(sp):
            if s == "-":
                parts.append("int")
                continue
            if s in ("-n", "-v", "-s"):
                # a plain position spelled with a typing OBJECT that is neither a class nor a subscripted generic
                import typing as _t

                self.ns.setdefault("PLAIN_NEWTYPE", _t.NewType("UserId", int))
                self.ns.setdefault("PLAIN_TYPEVAR", _t.TypeVar("PlainT"))
                parts.append({"-n": "PLAIN_NEWTYPE", "-v": "PLAIN_TYPEVAR", "-s": "typing.LiteralString"}[s])
                continue
            if s == "-u":
                parts.append("int | str")          # a PEP 604 union of plain types (no tensor in it: nothing for the checker)
                continue
            if s == "-o":
                parts.append("int | None")
                continue
            if s == "-a":
                # a plain position spelled with Annotated and metadata that is no dltype annotation
                parts.append("Annotated[int, 'count']")
                continue
            cls, opt, shape = s.split(",", 2)
            if self.alias and (cls, shape) in self.shared:
                nm = self.shared[(cls, shape)]   # a type alias: one annotation object behind several hints
            else:
                ann = impl.class_by_name(cls)(impl.opt_shape(shape))
                nm = f"A{self.n}"
                self.n += 1
                self.ns[nm] = ann
                self.shared[(cls, shape)] = nm
            _b, bsrc = _base_for(vals[i] if i < len(vals) else "")
            h = f"Annotated[{bsrc}, {nm}]"
            h = {"0": h, "1": h + " | None", "2": h + " | int", "3": h + " | int | None", "4": f"typing.Optional[{h}]",
                 "5": "None | " + h, "6": f"Annotated[int, {nm}]", "7": f"typing.Optional[typing.Optional[{h}]]",
                 "8": f"typing.Union[int, {h}]", "9": f"typing.Union[None, float, {h}]",
                 # further metadata after the dltype annotation (a doc string, a pydantic Field, ...): still the same hint
                 "A": f"Annotated[{bsrc}, {nm}, 'unit: px']"}[opt]
            parts.append(h)
        if mode == "TO":
            return "typing.Optional[tuple[" + ", ".join(parts) + "]]"
        if mode == "T":
            return "tuple[" + ", ".join(parts) + "]" if parts else "tuple[()]"
        return parts[0]


def op_call(kindstyle: str, prov: str, scope: str, *items: str) -> str:
    _patch_events()
    kind, _, style = kindstyle.partition(":")
    b = Built()
    params = []  # (name, hint_src, value)
    defaults = []  # (name, python literal source)
    varargs = None  # (name, extra positional values)
    varkw = None  # (name, extra keyword arguments)
    ret_src = None
    body_ret = None
    body_raises = False
    b.alias = "AL" in items
    items = tuple(it for it in items if it != "AL")
    try:
        for it in items:
            f = it.split("|")
            if f[0] == "P":
                params.append((f[1], b.hint_src(f[2], f[3], f[4]), parse_value_u(f[4])))
            elif f[0] == "PD":
                # a hinted parameter with a default value that the caller omits
                params.append((f[1], b.hint_src(f[2], f[3], f[4]), parse_value_u(f[4]), "omit"))
            elif f[0] == "PE":
                # a hinted parameter whose default value is its value, passed EXPLICITLY all the same
                params.append((f[1], b.hint_src(f[2], f[3], f[4]), parse_value_u(f[4]), "explicit"))
            elif f[0] == "VA":
                varargs = (f[1], [impl.parse_value(v) for v in impl.split_semi(f[2])])
            elif f[0] == "VK":
                varkw = (f[1], {kv.split("=")[0]: int(kv.split("=")[1]) for kv in impl.split_semi(f[2])})
            elif f[0] == "D":
                defaults.append((f[1], f[2]))
            elif f[0] == "R":
                if f[3] == "!":
                    body_raises = True
                else:
                    body_ret = parse_value_u(f[3])
                if f[1] != "-":
                    ret_src = b.hint_src(f[1], f[2], f[3])
            else:
                return "bad-op"
    except SyntaxError:
        return "decor err SyntaxError"
    except Exception as e:  # noqa: BLE001
        return "decor pyexc " + type(e).__name__
    ns = b.ns
    ns["RET"] = body_ret
    sc = parse_scope(scope)
    if kind in ("func", "method"):
        return _call_function(kind, style, prov, sc, params, ret_src, body_raises, ns, defaults, varargs, varkw)
    if kind in ("nt", "dc", "pyd"):
        return _construct(kind, style, params, ns)
    return "bad-op"


def _provider_src(prov: str, sc: dict, ns: dict) -> str:
    if prov == "-":
        return ""
    if prov in ("self", "selfbad"):
        # (built at run time: equal to "self" but not the interned literal — as a value read from a configuration file is)
        return '"".join(("se", "lf"))'
    if prov == "bad":
        ns["PROV"] = object()
        return "PROV"

    class Prov:
        def __init__(self, d, long):
            self.d, self.long = d, long

        def get_dltype_scope(self):
            return self.d if self.long else dict(self.d)

    ns["PROV"] = Prov(dict(sc), prov == "objlong")
    return "PROV"


def _late_names(src: str) -> str:
    import re

    return re.sub(r"\bA(\d+)\b", r"LATE_A\1", src)


def _call_function(kind, style, prov, sc, params, ret_src, body_raises, ns, defaults=(), varargs=None, varkw=None) -> str:
    names = [p[0] for p in params]
    omitted = {p[0] for p in params if len(p) > 3 and p[3] == "omit"}
    defaulted = {p[0] for p in params if len(p) > 3}
    parts = []
    for p in params:
        n, h = p[0], p[1]
        if n in defaulted:
            ns[f"DEF_{n}"] = p[2]
            parts.append(f"{n}: {h} = DEF_{n}")
        else:
            parts.append(f"{n}: {h}")
    # parameters without default first, then *args, then defaulted ones as keyword-only if *args is present
    plain = [x for x in parts if " = DEF_" not in x]
    dflt = [x for x in parts if " = DEF_" in x] + [f"{n}={lit}" for n, lit in defaults]
    fwd = style in ("fwd", "fwdpos")   # (fwdpos: forward references AND a positional-only first half of the parameters)
    if fwd:
        # forward references: annotations are strings naming objects that do not exist yet at decoration time
        def late(x):
            if ": " not in x:
                return x
            n, rest = x.split(": ", 1)
            hint, eq, d = rest.partition(" = ")
            return f"{n}: {_late_names(hint)!r}" + (f" = {d}" if eq else "")
        plain, dflt = [late(x) for x in plain], [late(x) for x in dflt]
    va = [f"*{varargs[0]}"] if varargs else []
    vk = [f"**{varkw[0]}"] if varkw else []
    nplain = len(plain)
    kpos = nplain // 2
    if varargs:
        sig = ", ".join(plain + va + dflt + vk)
    elif style == "kwonly" and nplain:
        # the second half of the hinted parameters is keyword-only (after a bare `*`)
        sig = ", ".join(plain[:kpos] + ["*"] + plain[kpos:] + dflt + vk)
    elif style in ("posonly", "fwdpos") and nplain:
        # the first half (at least one) is positional-only
        kpos = max(1, kpos)
        sig = ", ".join(plain[:kpos] + ["/"] + plain[kpos:] + dflt + vk)
    else:
        sig = ", ".join(plain + dflt + vk)
    rets = f" -> {ret_src}" if ret_src is not None else ""
    if fwd and ret_src is not None:
        rets = f" -> {_late_names(ret_src)!r}"
    body = "    EVENTS.append(('body', (" + "".join(n + ", " for n in names) + ")))\n"
    body += "    raise BodyError()\n" if body_raises else "    return RET\n"
    psrc = _provider_src(prov, sc, ns)
    if kind == "method":
        src = "class K:\n"
        if prov == "self":
            src += "    def get_dltype_scope(self):\n        return dict(SC)\n"
        src += f"    @dltype.dltyped({psrc})\n    def f(self{', ' if sig else ''}{sig}){rets}:\n"
        src += "".join("    " + l + "\n" for l in body.splitlines())
        src += "INST = K()\nF = INST.f\nRAW = K.f\n"
    else:
        src = f"@dltype.dltyped({psrc})\ndef f({sig}){rets}:\n{body}F = f\nRAW = f\n"
    ns["SC"] = sc
    try:
        exec(compile(src, "<call>", "exec"), ns)  # noqa: S102
    except SyntaxError:
        return "decor err SyntaxError"
    except Exception as e:  # noqa: BLE001
        return "decor pyexc " + type(e).__name__
    if fwd:
        for k in [k for k in ns if k.startswith("A") and k[1:].isdigit()]:
            ns["LATE_" + k] = ns[k]
    F = ns["F"]
    identity = not hasattr(ns["RAW"], "__wrapped__")
    # parameters that have a default and are passed all the same go by keyword (they may follow an omitted one)
    explicit = {p[0]: p[2] for p in params if len(p) > 3 and p[3] == "explicit"}
    passed = [(p[0], p[2]) for p in params if p[0] not in defaulted]
    pn, pv = [n for n, _ in passed], [v for _, v in passed]
    if varargs:
        args, kwargs = tuple(pv) + tuple(varargs[1]), {}
    elif style == "kwself" and kind == "method":
        # the method called through the class, every argument — the receiver included — by keyword
        F = ns["K"].f
        args, kwargs = (), {"self": ns["INST"], **dict(zip(pn, pv))}
    elif style in ("kwonly", "posonly", "fwdpos") and pn:
        args, kwargs = tuple(pv[:kpos]), dict(zip(pn[kpos:], pv[kpos:]))
    elif style == "kw":
        args, kwargs = (), dict(zip(pn, pv))
    elif style == "kwrev":
        # every argument by keyword, written in the REVERSE of the declaration order: the order of checking is the signature's
        args, kwargs = (), dict(reversed(list(zip(pn, pv))))
    elif style == "mixed" and len(pv) > 1:
        k = len(pv) // 2
        args, kwargs = tuple(pv[:k]), dict(zip(pn[k:], pv[k:]))
    else:
        args, kwargs = tuple(pv), {}
    kwargs = {**kwargs, **explicit}
    if varkw:
        kwargs = {**kwargs, **varkw[1]}
    vals = [p[2] for p in params]
    del EVENTS[:]
    try:
        out = F(*args, **kwargs)
        end = "ok"
        if out is not ns["RET"]:
            end = "ok-different-object"
    except BodyError:
        end = "bodyraised"
    except Exception as e:  # noqa: BLE001
        end = show_report(e)
    bodies = [e for e in EVENTS if isinstance(e, tuple)]
    calls = len(bodies)
    for _tag, got in bodies:
        if len(got) != len(vals) or any(a is not v for a, v in zip(got, vals)):
            end += " args-differ"
    pre = 0
    if bodies:
        i = next(i for i, e in enumerate(EVENTS) if isinstance(e, tuple))
        pre = 1 if "assert" in EVENTS[:i] else 0
    if identity:
        return f"identity calls={calls} {end}"
    return f"calls={calls} pre={pre} {end}"


def _construct(kind, style, params, ns) -> str:
    names = [p[0] for p in params]
    vals = [p[2] for p in params]
    omitted = {p[0] for p in params if len(p) > 3 and p[3] == "omit"}
    defaulted = {p[0] for p in params if len(p) > 3}
    params = [p[:3] for p in params]
    for n, _h, v in params:
        if n in defaulted:
            ns[f"DEF_{n}"] = v
    if kind == "dc":
        # (a mutable default needs a factory in a dataclass)
        fields = "".join(f"    {n}: {h}" + (f" = dataclasses.field(default_factory=lambda: DEF_{n})" if n in defaulted else "") + "\n" for n, h, _ in params) or "    pass\n"
    else:
        fields = "".join(f"    {n}: {h}" + (f" = DEF_{n}" if n in defaulted else "") + "\n" for n, h, _ in params) or "    pass\n"
    if kind == "nt":
        src = f"@dltype.dltyped_namedtuple()\nclass C(typing.NamedTuple):\n{fields}"
    elif kind == "dc" and style in ("inherit", "inherit2") and len(params) >= 2 and not defaulted:
        # the field list presented through inheritance: the first fields on a base dataclass (plain, or decorated as well), the
        # rest on the decorated subclass
        k = len(params) // 2
        flines = [f"    {n}: {h}\n" for n, h, _ in params]
        base_dec = "@dltype.dltyped_dataclass()\n" if style == "inherit2" else ""
        src = f"{base_dec}@dataclasses.dataclass\nclass B:\n{''.join(flines[:k])}@dltype.dltyped_dataclass()\n@dataclasses.dataclass\nclass C(B):\n{''.join(flines[k:])}"
    elif kind == "dc":
        src = f"@dltype.dltyped_dataclass()\n@dataclasses.dataclass\nclass C:\n{fields}"
    else:
        import pydantic

        ns["pydantic"] = pydantic
        src = f"class C(pydantic.BaseModel):\n{fields}"
    try:
        exec(compile(src, "<construct>", "exec"), ns)  # noqa: S102
    except SyntaxError:
        return "decor err SyntaxError"
    except Exception as e:  # noqa: BLE001
        return "decor pyexc " + type(e).__name__
    C = ns["C"]
    passed = [i for i in range(len(names)) if names[i] not in omitted]
    if kind == "pyd" or style == "kw" or (omitted and style != "kwrev"):
        order = list(passed)
        if style == "kwrev":
            order.reverse()
        args, kwargs = (), {names[i]: vals[i] for i in order}
    elif style == "kwrev":
        args, kwargs = (), {names[i]: vals[i] for i in reversed(passed)}
    else:
        args, kwargs = tuple(vals), {}
    try:
        inst = C(*args, **kwargs)
    except Exception as e:  # noqa: BLE001
        if type(e).__name__ == "ValidationError":
            return "pyd-validation"
        return show_report(e)
    for n, v in zip(names, vals):
        got = getattr(inst, n)
        if got is not v:
            return "ok-field-differs"
    return "ok"


impl.HANDLERS["CALL"] = op_call
