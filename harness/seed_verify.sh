#!/bin/sh
# seed_verify.sh <wt> <n> : confirm a candidate seeded change inside its own worktree.
#   with the patch: the whole existing suite passes and the demo fails; without it the demo passes.
wt="$1"; n="$2"; d="$wt/_mut/$n"
cd "$wt" || exit 2
git checkout -q -- dltype 2>/dev/null
out="$d/verify.txt"; : > "$out"
PYTHONPATH="$wt" /venv/bin/python "$d/demo.py" >/dev/null 2>&1; echo "demo_clean_exit=$?" >> "$out"
git apply "$d/patch.diff" 2>>"$out" || { echo "apply_failed=1" >> "$out"; exit 1; }
PYTHONPATH="$wt" /venv/bin/python "$d/demo.py" >/dev/null 2>&1; echo "demo_mutated_exit=$?" >> "$out"
/venv/bin/python -m pytest -q -p no:cacheprovider --no-cov dltype/tests 2>&1 | tail -1 >> "$out"
git checkout -q -- dltype
cat "$out" | tr '\n' ' '; echo
