"""Append the table of seeded changes to DESIGN.md.

`seeded/matrix.json`       : every change against the quick check of its own property, and the clean tree against all twenty —
                             run with the final harness (`seed_matrix.py <n> --target-only`);
`seeded/matrix_cross.json` : the full cross table (every quick check against every change) from the last complete cross run,
                             made with an earlier state of the harness (it lists which OTHER checks notice a change).
"""
import json
import os

V = os.path.dirname(os.path.dirname(os.path.abspath(__file__)))
m = json.load(open(os.path.join(V, "seeded", "matrix.json")))
try:
    x = json.load(open(os.path.join(V, "seeded", "matrix_cross.json")))
except OSError:
    x = {}
props = [f"C{i:02d}" for i in range(1, 21)]
rows = ["| change | what it needs to manifest | own check (final harness) | other checks that notice it (cross run; * = with a concrete failing input) |", "|---|---|---|---|"]


def key(k):
    a, b = k.split("-")
    return (a, int(b))


n_in = n_tie = n_miss = 0
for mut in sorted((k for k in m if k != "clean"), key=key):
    meta = json.load(open(os.path.join(V, "seeded", mut, "meta.json")))
    t = mut[:3]
    v = m[mut].get(t)
    if isinstance(v, list) and v[0] == 1:
        own = "failing input" if v[1] != "nfif" else "broken tie only (no-failing-input-found)"
        n_in += v[1] != "nfif"
        n_tie += v[1] == "nfif"
    else:
        own = "**missed**"
        n_miss += 1
    others = []
    for c in props:
        w = x.get(mut, {}).get(c)
        if c != t and isinstance(w, list) and w[0] == 1:
            others.append(c + ("" if w[1] == "nfif" else "*"))
    needs = meta.get("needs", "")[:230].replace("|", "/").replace("\n", " ")
    rows.append(f"| {mut} | {needs} | {own} | {', '.join(others) or ('—' if mut in x else '(not in the cross run)')} |")
clean = m.get("clean", {})
alarms = [c for c, v in clean.items() if isinstance(v, list) and v[0] != 0]
rows.append("")
rows.append(f"Own check, final harness: {n_in} changes caught with a concrete failing input, {n_tie} only by a broken tie, {n_miss} missed. "
            f"Control: on the clean tree {len(clean)} quick checks ran in the same worker copies; alarms raised: {alarms or 'none'}.")
text = open(os.path.join(V, "DESIGN.md")).read()
a = text.index("<!-- SEED-TABLE -->")
b = text.index("---------", a)
text = text[:a] + "<!-- SEED-TABLE -->\n" + "\n".join(rows) + "\n\n" + text[b:]
open(os.path.join(V, "DESIGN.md"), "w").write(text)
print(len(rows) - 4, "changes tabulated;", n_in, "failing input,", n_tie, "tie only,", n_miss, "missed")
