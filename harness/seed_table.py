"""Append the cross table (which quick check catches which seeded change) to DESIGN.md from seeded/matrix.json."""
import json
import os

V = os.path.dirname(os.path.dirname(os.path.abspath(__file__)))
m = json.load(open(os.path.join(V, "seeded", "matrix.json")))
props = [f"C{i:02d}" for i in range(1, 21)]
rows = ["| change | what it needs to manifest | caught by (quick tier; * = with a concrete failing input) |", "|---|---|---|"]
for mut in sorted(k for k in m if k != "clean"):
    meta = json.load(open(os.path.join(V, "seeded", mut, "meta.json")))
    res = m[mut]
    caught = []
    for c in props:
        v = res.get(c)
        if isinstance(v, list) and v[0] == 1:
            caught.append(c + ("" if v[1] == "nfif" else "*"))
    needs = meta.get("needs", "")[:230].replace("|", "/").replace("\n", " ")
    rows.append(f"| {mut} | {needs} | {', '.join(caught) or '**missed**'} |")
clean = m.get("clean", {})
alarms = [c for c, v in clean.items() if isinstance(v, list) and v[0] != 0]
rows.append("")
rows.append(f"Control: on the clean tree {len(clean)} quick checks ran in the same worker copies; alarms raised: {alarms or 'none'}.")
text = open(os.path.join(V, "DESIGN.md")).read()
a = text.index("<!-- SEED-TABLE -->")
b = text.index("---------", a)
text = text[:a] + "<!-- SEED-TABLE -->\n" + "\n".join(rows) + "\n\n" + text[b:]
open(os.path.join(V, "DESIGN.md"), "w").write(text)
print(len(rows) - 4, "changes tabulated")
