"""Generator of checked contexts: pick an assignment, derive conforming arrays, perturb.

A `Ctx` can be rendered as a direct `CTX` operation line, as the parameters/fields of the four
entry points (`CALL`), and as the flattened entry list for the Python oracle.
"""
from __future__ import annotations

import json
from dataclasses import dataclass, field

import oracle
import pyref

_META = None


def meta():
    global _META
    if _META is None:
        import os

        from common import LEAN_DIR

        _META = json.load(open(os.path.join(LEAN_DIR, "DltypeModel", "Generated", "DtypeTables.json")))
        _META["code"] = {(l, n): i for i, (l, n, _c) in enumerate(_META["dtypes"])}
        _META["cls"] = {n: i for i, n in enumerate(_META["classes"])}
    return _META


def dt(lib: int, name: str) -> str:
    assert (lib, name) in meta()["code"], (lib, name)
    return f"{lib}:{name}"


def cls_idx(name: str) -> str:
    assert name in meta()["cls"]
    return name


# class name -> a dtype name it accepts / rejects (shared categories only)
CLASS_OK = {
    "TensorTypeBase": "float32", "FloatTensor": "float32", "Float32Tensor": "float32", "Float64Tensor": "float64",
    "IntTensor": "int32", "Int64Tensor": "int64", "UInt8Tensor": "uint8", "BoolTensor": "bool", "Float16Tensor": "float16",
    "SignedIntTensor": "int16", "UnsignedIntTensor": "uint32", "DoubleTensor": "float64",
}  # fmt: skip
# every shared-category dtype the class documents (the generator picks one at random)
CLASS_ALL = {
    "TensorTypeBase": ["float32", "int64", "bool", "uint8", "float16"], "FloatTensor": ["float16", "float32", "float64"],
    "Float32Tensor": ["float32"], "Float64Tensor": ["float64"], "DoubleTensor": ["float64"], "Float16Tensor": ["float16"],
    "IntTensor": ["int8", "int16", "int32", "int64", "uint8", "uint16", "uint32", "uint64"], "Int64Tensor": ["int64"], "UInt8Tensor": ["uint8"],
    "BoolTensor": ["bool"], "SignedIntTensor": ["int8", "int16", "int32", "int64"], "UnsignedIntTensor": ["uint8", "uint16", "uint32", "uint64"],
}  # fmt: skip
CLASS_BAD = {
    "FloatTensor": "int32", "Float32Tensor": "float64", "Float64Tensor": "float32", "IntTensor": "float32",
    "Int64Tensor": "int32", "UInt8Tensor": "int8", "BoolTensor": "uint8", "Float16Tensor": "float32",
    "SignedIntTensor": "uint16", "UnsignedIntTensor": "int32", "DoubleTensor": "float16",
}  # fmt: skip


@dataclass
class Slot:
    cls: str | None  # class name; None = position without a dltype annotation
    shape: str | None = None  # None = Class[None] (scalar)
    optional: bool = False
    value: tuple = ("N",)  # ("N",) | ("X",) | ("T", dtcode, dims)
    meta: bool = False  # a non-optional HINT carries further metadata after the dltype annotation
    pspell: str = "-"  # how a PLAIN position is written in a signature: `-` int, `-a` Annotated[int, 'count'], `-u` `int | str`, `-o` `int | None`
    spell: str = "1"  # how an optional HINT is written in a signature: 1 `T | None`, 4 Optional[T], 5 `None | T`, 7 Optional[Optional[T]]

    def spec(self, hint: bool = False) -> str:
        """`hint` = the spec is rendered as a type hint of a signature (CALL lines), not as an annotation object (CTX lines)"""
        if self.cls is None:
            return self.pspell if hint else "-"
        plain = "A" if (hint and self.meta) else 0   # A = `Annotated[base, ann, 'unit: px']` (further metadata after the annotation)
        return f"{self.cls},{(self.spell if hint else 1) if self.optional else plain},{'<None>' if self.shape is None else self.shape}"

    def val(self) -> str:
        v = self.value
        if v[0] == "T":
            return f"T,{v[1]},{'.'.join(map(str, v[2]))}"
        return v[0]


@dataclass
class Param:
    name: str
    slots: list[Slot]
    is_tuple: bool = False
    seq: str = "U"  # the value of a tuple-hinted position: U an exact tuple, L a list, S an instance of a tuple subclass


@dataclass
class Ctx:
    scope: dict = field(default_factory=dict)
    params: list[Param] = field(default_factory=list)
    ret: Param | None = None
    tags: list[str] = field(default_factory=list)
    npkeys: set = field(default_factory=set)  # provider names whose size is a numpy integer, not a Python int
    alias: bool = False  # positions with identical (class, shape) share ONE annotation object (a type alias) in CALL lines

    def scope_str(self) -> str:
        return ";".join(f"{k}:{v}{'n' if k in self.npkeys else ''}" for k, v in self.scope.items())

    def ctx_line(self) -> str:
        cmds = [f"A|{p.name}|{';'.join(s.spec() for s in p.slots)}|{';'.join(s.val() for s in p.slots)}" for p in self.params]
        cmds.append("V")
        if self.ret is not None:
            p = self.ret
            cmds.append(f"A|{p.name}|{';'.join(s.spec() for s in p.slots)}|{';'.join(s.val() for s in p.slots)}")
            cmds.append("V")
        return "CTX\t" + self.scope_str() + "\t" + "\t".join(cmds)

    def call_line(self, kind: str = "func", style: str = "pos", prov: str | None = None, omit: int = 0, explicit: bool = False) -> str:
        """the same context presented through an entry point"""
        if prov is None:
            prov = "obj" if self.scope else "-"
        items = []
        for p in self.params:
            if p.is_tuple:
                items.append(f"P|{p.name}|T|{';'.join(s.spec(True) for s in p.slots)}|{p.seq}:{';'.join(s.val() for s in p.slots)}")
            else:
                items.append(f"P|{p.name}|S|{p.slots[0].spec(True)}|{p.slots[0].val()}")
        if self.ret is not None and kind in ("func", "method"):
            p = self.ret
            if p.is_tuple:
                items.append(f"R|T|{';'.join(s.spec(True) for s in p.slots)}|{p.seq}:{';'.join(s.val() for s in p.slots)}")
            else:
                items.append(f"R|S|{p.slots[0].spec(True)}|{p.slots[0].val()}")
        if omit and kind in ("func", "method", "nt", "dc"):
            # the last `omit` parameters have their value as DEFAULT and the caller leaves them out
            idx = [i for i, it in enumerate(items) if it.startswith("P|")]
            for j, i in enumerate(idx[len(idx) - min(omit, len(idx)):]):
                # (every other one of them is passed explicitly although it has the default: `PE`)
                items[i] = ("PE|" if explicit and j % 2 == 1 else "PD|") + items[i][2:]
        if self.alias:
            items.append("AL")
        return "\t".join(["CALL", f"{kind}:{style}", prov, self.scope_str(), *items])

    def rand_call(self, rng, kind: str | None = None, styles=("pos", "kw", "kwrev", "mixed", "fwd", "fwdpos", "kwonly", "posonly"), omit_p: float = 0.3) -> str:
        """the context as a call with every feature of the call protocol drawn at random: function or method (whose instance is
        the scope provider: "self"), call style (a method also through the class with the receiver by keyword), trailing
        parameters left at their default value or passed although they have one"""
        if kind is None:
            kind = "method" if rng.random() < 0.25 else "func"
        prov = None
        if kind == "method":
            styles = (*styles, "kwself", "kwself")
            prov = "self" if self.scope else "-"
        return self.call_line(kind, rng.choice(list(styles)), prov=prov, omit=(rng.randint(1, 3) if rng.random() < omit_p else 0), explicit=rng.random() < 0.5)

    def entries(self) -> list[oracle.Ent] | None:
        """flattened annotated non-None tensors in source order; None if a value is not checkable (X, or None under a non-optional hint)"""
        out = []
        for p in [*self.params, *([self.ret] if self.ret else [])]:
            for i, s in enumerate(p.slots):
                if s.cls is None:
                    continue
                if s.value[0] == "N" and s.optional:
                    continue
                if s.value[0] != "T":
                    return None
                nm = f"{p.name}[{i}]" if i > 0 else p.name
                out.append(oracle.Ent(nm, s.cls, s.shape, s.value[1], tuple(s.value[2])))
        return out


DIM_ALPHA = ["2", "3", "a", "b", "d", "c=2", "c=a+b", "a+1", "a*b", "b/2", "...", "*g", "*h", "min(a,b)", "n=3", "isqrt(a)", "a^2", "c", "max(a,d)-1", "e=a*b+d", "0", "e",
             "a-b+d", "a*b/2",  # (chains of equal precedence: the grouping matters)
             "g", "g+1"]  # (a plain name that is also the name of a group: `*g` and `g` are different things)
DIM_WEIGHTS = [3, 2, 6, 5, 2, 2, 3, 2, 2, 1, 2, 3, 1, 2, 1, 1, 1, 2, 1, 1, 1, 1, 1, 1, 1, 1]
SIZES = [0, 1, 2, 3, 4, 5]


_NEEDS: dict = {}


def needs(d: str) -> tuple[set, str | None]:
    """(names an alphabet dimension refers to inside an expression, name it binds)"""
    if d not in _NEEDS:
        c = oracle.classify_dim(d)
        if c is None or c[0] in ("anon", "multi", "lit"):
            _NEEDS[d] = (set(), None)
        elif c[0] == "name":
            _NEEDS[d] = (set(), c[1])
        elif c[0] == "namedlit":
            _NEEDS[d] = (set(), c[1])
        elif c[0] == "namedexpr":
            _NEEDS[d] = (set(oracle.tree_vars(c[2])), c[1])
        else:
            _NEEDS[d] = (set(oracle.tree_vars(c[2])), None)
    return _NEEDS[d]


def rand_ann(rng, maxd=4, bound: set | None = None, ordered_p: float = 0.9) -> list[str]:
    """0..maxd dims; with probability ordered_p a dimension whose expression uses unbound names is re-drawn"""
    bound = set() if bound is None else bound
    nd = rng.choice([0, 1, 1, 2, 2, 2, 3, 3, 4][: 2 * maxd + 1])
    dims = []
    marker = False
    tries = 0
    while len(dims) < nd:
        tries += 1
        d = rng.choices(DIM_ALPHA, DIM_WEIGHTS)[0]
        if d in ("...", "*g", "*h"):
            if marker:
                continue
            marker = True
        need, binds = needs(d)
        if not need <= bound and rng.random() < ordered_p and tries < 40:
            if d in ("...", "*g", "*h"):
                marker = False
            continue
        if binds:
            bound.add(binds)
        dims.append(d)
    return dims


def derived(sig: dict) -> dict:
    s = dict(sig)
    s["c"] = s["a"] + s["b"]
    s["e"] = s["a"] * s["b"] + s["d"]
    s["n"] = 3
    s.setdefault("g", 2)
    return s


def conforming_shape(rng, dims: list[str], sig: dict, groups: dict) -> tuple[int, ...] | None:
    """a shape that conforms to the dims under assignment sig/groups; None if impossible (negative value, c=2 vs c=a+b clash...)"""
    out = []
    for d in dims:
        if d == "...":
            out += [rng.choice(SIZES) for _ in range(rng.choice([0, 1, 1, 2]))]
        elif d.startswith("*"):
            out += list(groups[d[1:]])
        else:
            c = oracle.classify_dim(d)
            if c[0] == "lit":
                out.append(c[1])
            elif c[0] == "name":
                out.append(sig[c[1]])
            elif c[0] == "namedlit":
                out.append(c[2])
            else:
                try:
                    v = pyref.ev(c[2], sig)
                except (pyref.Undefined, pyref.TooBig):
                    return None
                if v < 0 or v > 40:
                    return None
                out.append(v)
    return tuple(out)


def gen_ctx(rng, max_tensors=4, tuple_p=0.2, ret_p=0.3, provider_p=0.3, libs=(0, 1, 2), perturb=(0, 0, 1, 1, 2), alias_p=0.12) -> Ctx:
    sig = {"a": rng.choice(SIZES[1:]), "b": rng.choice(SIZES), "d": rng.choice(SIZES), "g": rng.choice(SIZES)}
    sig = derived(sig)
    groups = {"g": tuple(rng.choice(SIZES) for _ in range(rng.choice([0, 1, 2, 2, 3]))), "h": tuple(rng.choice(SIZES) for _ in range(rng.choice([0, 1, 2])))}
    ctx = Ctx()
    if rng.random() < provider_p:
        for k in rng.sample(["a", "b", "d", "k"], rng.randint(1, 2)):
            ctx.scope[k] = sig.get(k, 7)
            if rng.random() < 0.25:
                ctx.npkeys.add(k)
        ctx.tags.append("provider")
    nt = rng.randint(1, max_tensors)
    names = ["x", "y", "z", "w", "v"]

    bound = set(ctx.scope)

    def mk_slot():
        cname = rng.choice(list(CLASS_OK))
        dims = rand_ann(rng, bound=bound)
        if "c=2" in dims and ("c=a+b" in dims or "c" in dims):
            dims = [("c" if x == "c=2" else x) for x in dims]
        shape = conforming_shape(rng, dims, sig, groups)
        if shape is None:
            shape = tuple(rng.choice(SIZES) for _ in dims)
        lib = rng.choice(libs)
        return Slot(cls_idx(cname), " ".join(dims) if dims else None, rng.random() < 0.15, ("T", dt(lib, rng.choice(CLASS_ALL[cname])), shape),
                    spell=rng.choice(["1", "1", "4", "5", "7"]), meta=rng.random() < 0.15), cname

    all_slots = []
    def mk_tuple(name):
        k = rng.randint(2, 3)
        slots = []
        for _ in range(k):
            if rng.random() < 0.2:
                slots.append(Slot(None, None, False, rng.choice([("X",), ("N",), ("T", dt(0, "float32"), (1, 2)), ("XT",), ("XA",), ("XE",)]), pspell=rng.choice(["-", "-", "-a", "-u", "-o"])))
            else:
                s, cn = mk_slot()
                slots.append(s)
                all_slots.append((s, cn))
        if all(s.cls is None for s in slots):
            s, cn = mk_slot()
            slots[0] = s
            all_slots.append((s, cn))
        ctx.tags.append("tuple")
        # (the value of a tuple-hinted position need not be an exact tuple: a list, a NamedTuple / torch.return_types instance)
        return Param(name, slots, True, seq=rng.choice(["U", "U", "U", "L", "S"]))

    for i in range(nt):
        if rng.random() < tuple_p:
            ctx.params.append(mk_tuple(names[i]))
        else:
            s, cn = mk_slot()
            all_slots.append((s, cn))
            ctx.params.append(Param(names[i], [s], False))
    if rng.random() < ret_p:
        if rng.random() < tuple_p:
            ctx.ret = mk_tuple("return")
        else:
            s, cn = mk_slot()
            all_slots.append((s, cn))
            ctx.ret = Param("return", [s], False)
        ctx.tags.append("ret")
    # a type alias: one position takes over class and shape (and the conforming value) of another; in CALL lines the two then share
    # one annotation object, each with its own `| None`
    if alias_p and len(all_slots) >= 2 and rng.random() < alias_p:
        (sa, ca), (sb, _cb) = rng.sample(all_slots, 2)
        j = next(i for i, (x, _) in enumerate(all_slots) if x is sb)
        sb.cls, sb.shape, sb.value = sa.cls, sa.shape, sa.value
        all_slots[j] = (sb, ca)
        ctx.alias = True
        ctx.tags.append("alias")
    # optional None values
    for s, _ in all_slots:
        if s.optional and rng.random() < 0.4:
            s.value = ("N",)
            ctx.tags.append("optnone")
    # perturbations
    for _ in range(rng.choice(perturb)):
        s, cn = rng.choice(all_slots)
        kind = rng.choice(["axis", "axis", "axis", "axis", "axis", "ins", "drop", "dtype", "dtype", "none", "other", "prov", "prov", "dup"])
        if s.value[0] != "T":
            continue
        code, shape = s.value[1], list(s.value[2])
        if kind == "dup":
            # the very same array object at two positions (impl.make_tensor hands out one object per dtype and shape)
            others = [o for o, _ in all_slots if o is not s and o.value[0] == "T"]
            if others:
                s.value = rng.choice(others).value
                ctx.tags.append("p-dup")
            continue
        if kind == "axis" and shape:
            i = rng.randrange(len(shape))
            shape[i] = max(0, shape[i] + rng.choice([-1, 1, 1, 2]))
        elif kind == "ins":
            shape.insert(rng.randint(0, len(shape)), rng.choice(SIZES))
        elif kind == "drop" and shape:
            shape.pop(rng.randrange(len(shape)))
        elif kind == "dtype" and cn in CLASS_BAD:
            lib = int(code.split(":")[0])
            code = dt(lib, CLASS_BAD[cn])
        elif kind == "none":
            s.value = ("N",)
            ctx.tags.append("p-none")
            continue
        elif kind == "other":
            s.value = ("X",)
            ctx.tags.append("p-other")
            continue
        elif kind == "prov" and ctx.scope:
            k = rng.choice(list(ctx.scope))
            ctx.scope[k] += rng.choice([-1, 1])
        s.value = ("T", code, tuple(shape))
        ctx.tags.append("p-" + kind)
    return ctx


def rebinding_contexts(with_provider: bool = True) -> list[Ctx]:
    """Exhaustive small family: a name `n` is bound first in one way (plain axis, named literal, named expression, scope provider)
    to 0, 1 or 3 — zero being a size like any other — and then met again in another way (plain, named literal, named expression,
    inside an expression) with a size that agrees or not.  The oracle decides each of them."""
    out = []
    f32 = dt(0, "float32")
    binders = []
    for v1 in (0, 1, 3):
        binders.append(("plain", {}, "n c", (v1, 3)))
        binders.append(("namedlit", {}, f"c n={v1}", (3, v1)))
        binders.append(("namedexpr", {}, f"c n=c-{3 - v1}", (3, v1)))
        if with_provider:
            binders.append(("provider", {"n": v1}, "c", (3,)))
    for bk, scope, bshape, bval in binders:
        for v2 in (0, 1, 3, 4):
            users = [("plain", "n", (v2,)), ("namedlit", f"n={v2}", (v2,)), ("namedexpr", f"c n=c+{v2 - 3}" if v2 >= 3 else f"c n=c-{3 - v2}", (3, v2)),
                     ("inexpr", "n+1 c", (v2 + 1, 3))]
            for uk, ushape, uval in users:
                c = Ctx(scope=dict(scope))
                c.params.append(Param("x", [Slot("FloatTensor", bshape, False, ("T", f32, bval))], False))
                c.params.append(Param("y", [Slot("FloatTensor", ushape, False, ("T", f32, uval))], False))
                c.tags += ["rebind", bk, uk]
                out.append(c)
    return out


def group_contexts() -> list[Ctx]:
    """Exhaustive small family: the named group `*g` in two (or three) tensors, covering 0, 1 or 2 axes in each, at the front, in the
    middle or at the end; the axes they have in common agree or differ in one place.  A group stands for ONE tuple of sizes."""
    out = []
    f32 = dt(0, "float32")
    sizes = [3, 4]
    for k1 in (0, 1, 2):
        for k2 in (0, 1, 2):
            for place1, place2 in (("*g c", "*g c"), ("*g c", "c *g"), ("c *g d", "*g"), ("*g", "d *g c")):
                for differ in (False, True):
                    g1 = tuple(sizes[:k1])
                    g2 = list(sizes[:k2])
                    if differ:
                        if not g2:
                            continue
                        g2[-1] += 1
                    fix = {"c": 2, "d": 5}

                    def shape(place, g):
                        sh = []
                        for d in place.split():
                            sh += list(g) if d == "*g" else [fix[d]]
                        return tuple(sh)

                    c = Ctx()
                    c.params.append(Param("x", [Slot("FloatTensor", place1, False, ("T", f32, shape(place1, g1)))], False))
                    c.params.append(Param("y", [Slot("FloatTensor", place2, False, ("T", f32, shape(place2, g2)))], False))
                    if k1 == k2 and not differ:
                        c.params.append(Param("z", [Slot("FloatTensor", "*g", False, ("T", f32, g1))], False))
                    c.tags += ["group", f"{k1}:{k2}"]
                    out.append(c)
    return out
