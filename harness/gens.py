"""Structured generators. Every random choice derives from the rng handed in (seeded from VERIF_SEED)."""
from __future__ import annotations

import itertools

INFIX = ["+", "-", "*", "/", "^"]
ATOMS = ["a", "b", "2", "3"]


def exprs_exact(k: int, atoms=ATOMS, memo=None) -> list[str]:
    """All grammar strings with exactly k operator / function / group nodes."""
    memo = {} if memo is None else memo
    if k in memo:
        return memo[k]
    if k == 0:
        memo[0] = list(atoms)
        return memo[0]
    out = []
    for i in range(k):
        ls, rs = exprs_exact(i, atoms, memo), exprs_exact(k - 1 - i, atoms, memo)
        for l in ls:
            for r in rs:
                for o in INFIX:
                    out.append(f"{l}{o}{r}")
                out.append(f"min({l},{r})")
                out.append(f"max({l},{r})")
    for e in exprs_exact(k - 1, atoms, memo):
        out.append(f"isqrt({e})")
        out.append(f"({e})")
    memo[k] = sorted(set(out))
    return memo[k]


def rand_expr(rng, size: int, atoms) -> str:
    """random grammar string with `size` nodes, biased to chains and nesting"""
    if size <= 0:
        return rng.choice(atoms)
    r = rng.random()
    if r < 0.62:
        k = rng.randint(0, size - 1)
        return rand_expr(rng, k, atoms) + rng.choice(INFIX) + rand_expr(rng, size - 1 - k, atoms)
    if r < 0.76:
        k = rng.randint(0, size - 1)
        return f"{rng.choice(['min', 'max'])}({rand_expr(rng, k, atoms)},{rand_expr(rng, size - 1 - k, atoms)})"
    if r < 0.86:
        return f"isqrt({rand_expr(rng, size - 1, atoms)})"
    return f"({rand_expr(rng, size - 1, atoms)})"


def chain(rng, n: int, atoms, ops=None) -> str:
    """same-level chains such as a-b-c, a/b/c, a-b+c, a^b^c"""
    ops = ops or INFIX
    s = rng.choice(atoms)
    for _ in range(n):
        s += rng.choice(ops) + rng.choice(atoms)
    return s


SCOPES = [
    "a:3;b:5",
    "a:0;b:1",
    "a:7;b:2;c:4;x_1:9;dim:6",
    "a:1000000000000;b:3",
    "a:13;b:13",
    "a:2;b:0",
    "a:1;b:-4",
]


def token_strings(alpha: list[str], n: int):
    for k in range(1, n + 1):
        for c in itertools.product(alpha, repeat=k):
            yield "".join(c)


ALPHA21 = ["a", "b", "1", "2", "+", "-", "*", "/", "^", "(", ")", ",", "min", "isqrt", "=", "...", "max", "x_1", "07", " ", "?"]


def mutate(rng, s: str, toks=ALPHA21) -> str:
    """one grammar-directed mutation of a valid string: delete / duplicate / swap / insert / noise"""
    if not s:
        return rng.choice(toks)
    k = rng.randrange(5)
    i = rng.randrange(len(s))
    if k == 0:
        return s[:i] + s[i + 1 :]
    if k == 1:
        return s[:i] + s[i] + s[i:]
    if k == 2 and len(s) > 1:
        j = rng.randrange(len(s))
        l = list(s)
        l[i], l[j] = l[j], l[i]
        return "".join(l)
    if k == 3:
        return s[:i] + rng.choice(toks) + s[i:]
    return s[:i] + chr(rng.randint(0x21, 0x7E)) + s[i + 1 :]
