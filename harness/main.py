"""Entry point behind ./check :  main.py <PROP> --tier quick|thorough   |   main.py <PROP> --replay FILE"""
from __future__ import annotations

import argparse
import importlib
import json
import os
import re
import sys
import traceback

sys.path.insert(0, os.path.dirname(os.path.abspath(__file__)))

import common  # noqa: E402
import framework  # noqa: E402
from framework import Case, Finding, Run  # noqa: E402


def theorems_of(modules: list[str]) -> list[str]:
    """every `theorem` stated in the property files of this check (fully qualified)"""
    out = []
    for m in modules:
        p = os.path.join(common.LEAN_DIR, *m.split(".")) + ".lean"
        if not os.path.exists(p):
            continue
        ns = []
        for line in framework._strip_comments(open(p).read()).splitlines():
            mm = re.match(r"\s*namespace\s+(\S+)", line)
            if mm:
                ns.append(mm.group(1))
            mm = re.match(r"\s*end\s+(\S+)", line)
            if mm and ns and ns[-1].endswith(mm.group(1)):
                ns.pop()
            mm = re.match(r"\s*(?:@\[[^\]]*\]\s*)?theorem\s+(\S+)", line)
            if mm:
                out.append(".".join([*ns, mm.group(1)]))
    return out


def corpus_lines(prop: str) -> list[str]:
    p = os.path.join(common.CORPUS, f"{prop}.txt")
    if not os.path.exists(p):
        return []
    return [l.rstrip("\n") for l in open(p) if l.strip() and not l.startswith("#")]


TRUSTED = [
    "Lean 4.33.0 kernel; axioms of every property theorem audited to be within {propext, Classical.choice, Quot.sound}",
    "translator harness/translate.py (reading of constants, conditions, operator bodies; completeness of the dtype enumeration)",
    "correspondence harness (generators, canonicalisation) ties the hand-written model to the code by differential runs, not by proof",
    "DltypeModel/PyPrims.lean: statement of CPython int semantics (+,-,*,//,** with exponent >= 0, min, max, math.isqrt)",
]


def run_standard(mod, tier: str) -> int:
    run = Run(mod.PROP, tier)
    run.corpus_lines = lambda: corpus_lines(mod.PROP)
    modules = list(getattr(mod, "LEAN_MODULES", []))
    modules = [m for m in modules if os.path.exists(os.path.join(common.LEAN_DIR, *m.split(".")) + ".lean")]
    theorems = theorems_of(modules)
    run.prep = framework.prepare(modules, theorems, with_dtypes=getattr(mod, "NEEDS_DTYPES", True))
    run.check_obligations(modules, theorems, getattr(mod, "GENERATED", None))
    if hasattr(mod, "custom"):
        try:
            mod.custom(run, tier)
        except Exception as e:  # noqa: BLE001
            # An observation family stopped with an exception it did not expect.  If the exception was raised INSIDE the package under
            # test (a frame of the traceback lies in it) the family's input is a failing input: on the unchanged tree every family runs
            # to its end.  Anything else is a defect of the harness and must stay one (exit 2).
            import traceback

            import impl as impl_mod

            pkg = os.path.dirname(os.path.abspath(impl_mod.dltype.__file__))
            frames = traceback.extract_tb(e.__traceback__)
            inside = [f for f in frames if os.path.abspath(f.filename).startswith(pkg + os.sep)]
            if not inside:
                raise
            outer = [f for f in frames if not os.path.abspath(f.filename).startswith(pkg + os.sep)][-1]
            where = f"{os.path.relpath(inside[-1].filename, os.path.dirname(pkg))}:{inside[-1].lineno}"
            run.n_cases += 1
            run.findings.append(Finding(
                "failing-input",
                f"an observation family of this check stopped: {type(e).__name__}: {str(e)[:160]} raised inside the package at {where} "
                f"({inside[-1].line}); the harness statement that reached it: {os.path.basename(outer.filename)}:{outer.lineno} `{outer.line}` "
                "(on the unchanged tree every family runs to its end)",
                framework.Case(f"FAMILY\t{os.path.basename(outer.filename)}:{outer.lineno}\t{outer.line}", "family-stopped"),
                f"{type(e).__name__}: {str(e)[:200]}", "", "no exception"))
    if hasattr(mod, "cases"):
        cs = mod.cases(tier, run.rng, run)
        impl_out, _ = run.differential(cs, mod.judge, getattr(mod, "nontrivial", None), known_region=getattr(mod, "known_region", None),
                                       impl_fn=getattr(mod, "impl_fn", None))
        if hasattr(mod, "second_pass"):
            cs2 = mod.second_pass(run, cs, impl_out)
            if cs2:
                run.differential(cs2, mod.judge, getattr(mod, "nontrivial", None), known_region=getattr(mod, "known_region", None),
                                 impl_fn=getattr(mod, "impl_fn", None))
    broken = [f for f in run.findings if f.kind != "failing-input"]
    if broken and not any(f.kind == "failing-input" for f in run.findings) and hasattr(mod, "search"):
        # a proof obligation, the translator or the correspondence broke: look for a concrete failing input
        run.notes.append("tie broken: running failing-input search")
        mod.search(run, tier)
    if tier == "thorough" and modules and all(run.prep.build_ok.get(m) for m in modules):
        ok, log = framework.leanchecker(modules)
        run.coverage["leanchecker"] = "ok" if ok else log[-500:]
        if not ok:
            run.findings.append(Finding("broken-proof", "leanchecker rejects the compiled property modules: " + log[-300:]))
    return run.finish(
        level=getattr(mod, "LEVEL", "proof"),
        trusted_base=TRUSTED + list(getattr(mod, "TRUSTED_EXTRA", [])),
        rule=getattr(mod, "RULE", ""),
        extra=getattr(mod, "extra_coverage", lambda r: {})(run),
    )


def replay(mod, path: str) -> int:
    data = json.load(open(path))
    ops = [data.get("operation")] + [o.get("operation") for o in data.get("others", [])]
    ops = [o for o in ops if o]
    if not ops:
        print(f"replay file names no operation (kind={data.get('kind')}): {data.get('what')}")
        # re-run the obligations
        return run_standard(mod, data.get("tier", "quick"))
    import impl as impl_mod

    for m in ("impl_call", "impl_hist", "impl_pyd", "impl_sym"):
        try:
            importlib.import_module(m)
        except Exception:  # noqa: BLE001
            pass
    if ops[0].split("\t")[0] not in impl_mod.HANDLERS or not hasattr(mod, "judge"):
        # the finding comes from an observation pass of the check (fresh interpreters, twins, capture modes, table cells):
        # those are deterministic functions of the tree under test and the seed, so the replay is the pass itself
        print(f"replaying the observation pass that produced: {ops[0]!r}")
        os.environ["VERIF_SEED"] = str(data.get("seed", 0))
        common.SEED = int(data.get("seed", 0))
        return mod.main(data.get("tier", "quick")) if hasattr(mod, "main") else run_standard(mod, data.get("tier", "quick"))
    run = Run(mod.PROP, "quick")
    run.prep = framework.prepare([], [], with_dtypes=getattr(mod, "NEEDS_DTYPES", True))
    cases = [Case(o, "replay") for o in ops[:1]]
    impl_out, model_raw = run.differential(cases, mod.judge, None, known_region=None, impl_fn=getattr(mod, "impl_fn", None))
    for c, io, mr in zip(cases, impl_out, model_raw):
        print(f"op    : {c.line!r}\nimpl  : {io}\nmodel : {mr}")
    if run.findings:
        f = run.findings[0]
        print(f"VIOLATION property={mod.PROP} replay={path}" + ("" if f.kind == "failing-input" else " no-failing-input-found"))
        print(f"  - {f.kind}: {f.what}")
        return 1
    print("replay: property holds on this input now")
    return 0


def supervise(a) -> int:
    """Run the check in a child process and watch its heartbeat: when ONE operation on the real code makes no
    progress for DLTYPE_VERIF_OP_TIMEOUT seconds (default 180) the child is killed and that operation is reported
    as the failing input — every generated operation has a small documented result, so not finishing is a
    violation of the property under test, and the check must not hang on whatever the tree under test does."""
    import struct
    import subprocess
    import time

    wd = framework.workdir(a.prop)
    hb, lp = os.path.join(wd, f"heartbeat_{os.getpid()}.bin"), os.path.join(wd, f"impl_lines_{os.getpid()}.txt")
    with open(hb, "wb") as f:
        f.write(struct.pack("<qq", 0, 0))
    env = dict(os.environ, DLTYPE_VERIF_CHILD="1", DLTYPE_VERIF_HEARTBEAT=hb, DLTYPE_VERIF_IMPL_LINES=lp)
    limit = float(os.environ.get("DLTYPE_VERIF_OP_TIMEOUT", "180"))
    p = subprocess.Popen([sys.executable, os.path.abspath(__file__), *sys.argv[1:]], env=env)

    def _stop(signum, _frame):
        # the caller gave up (timeout / interrupt): do not leave the child behind
        try:
            p.kill()
        finally:
            os._exit(2)

    import signal

    for sg in (signal.SIGTERM, signal.SIGINT, signal.SIGHUP):
        try:
            signal.signal(sg, _stop)
        except Exception:  # noqa: BLE001
            pass
    last, since = None, time.time()
    while True:
        try:
            rc = p.wait(timeout=2)
            for f in (hb, lp):
                if os.path.exists(f):
                    os.remove(f)
            return rc if rc >= 0 else 2
        except subprocess.TimeoutExpired:
            pass
        try:
            with open(hb, "rb") as f:
                state, idx = struct.unpack("<qq", f.read(16))
        except Exception:  # noqa: BLE001
            continue
        now = time.time()
        if state != 1 or idx != last:
            last, since = (idx if state == 1 else None), now
            continue
        if now - since > limit:
            p.kill()
            p.wait()
            try:
                line = open(lp).read().split("\n")[idx]
            except Exception:  # noqa: BLE001
                line = None
            seed = int(os.environ.get("VERIF_SEED", "0"))
            what = (f"the implementation did not finish this operation within {int(limit)} s (every generated operation has a small "
                    "documented result; the model and the reference evaluator finish it in microseconds)")
            path = os.path.join(wd, f"replay_{a.tier}_{seed}.json")
            framework.write_json(path, {"property": a.prop, "kind": "failing-input", "what": what, "operation": line, "impl": "did-not-finish",
                                        "model": "", "spec": "", "seed": seed, "tier": a.tier, "repo": common.REPO,
                                        "replay_cmd": f"./check {a.prop} --replay <this file>", "others": [], "n_findings": 1})
            framework.write_json(os.path.join(common.EVIDENCE, f"{a.prop}.json"), {
                "property_id": a.prop, "tier": a.tier, "seed": seed, "level": "proof",
                "coverage": {"obligations": 0, "discharged": 0, "evaluations": idx + 1, "distinct_nontrivial": 0,
                             "checker_cmd": f"./check {a.prop} --tier {a.tier}", "trusted_base": TRUSTED, "samples": [line],
                             "rule": "interrupted by the supervisor: one operation on the real code did not finish", "notes": [what, repr(line)]},
                "assumptions": [], "wall_s": round(now - since, 1), "violations": 1})
            print(f"VIOLATION property={a.prop} replay={path}")
            print(f"  - failing-input: {what} :: {line!r}")
            return 1


def main() -> int:
    ap = argparse.ArgumentParser()
    ap.add_argument("prop")
    ap.add_argument("--tier", default=os.environ.get("VERIF_TIER", "quick"), choices=["quick", "thorough"])
    ap.add_argument("--replay")
    a = ap.parse_args()
    if not a.replay and os.environ.get("DLTYPE_VERIF_CHILD") != "1" and os.environ.get("DLTYPE_VERIF_NO_SUPERVISOR") != "1":
        return supervise(a)
    try:
        mod = importlib.import_module(f"checks.{a.prop.lower()}")
    except ModuleNotFoundError:
        print(f"no check for {a.prop}")
        return 2
    try:
        if a.replay:
            return replay(mod, a.replay)
        if hasattr(mod, "main"):
            return mod.main(a.tier)
        return run_standard(mod, a.tier)
    except Exception:  # noqa: BLE001
        traceback.print_exc()
        return 2


if __name__ == "__main__":
    sys.exit(main())
