"""Shared plumbing for the dltype verification harness (paths, model driver, build lock, evidence)."""
from __future__ import annotations

import contextlib
import fcntl
import json
import os
import subprocess
import sys
import time
import warnings

VERIF = os.path.dirname(os.path.dirname(os.path.abspath(__file__)))
REPO = os.environ.get("DLTYPE_VERIF_REPO", "/repo")
LEAN_DIR = os.path.join(VERIF, "lean")
WORK = os.path.join(VERIF, ".work")
EVIDENCE = os.path.join(VERIF, "evidence")
CORPUS = os.path.join(VERIF, "corpus")
DRIVER = os.path.join(LEAN_DIR, ".lake", "build", "bin", "driver")
SEED = int(os.environ.get("VERIF_SEED", "0") or 0)


def import_repo():
    """Make `import dltype` resolve to the tree under test (REPO), whatever is installed."""
    if REPO not in sys.path:
        sys.path.insert(0, REPO)
    warnings.simplefilter("ignore")
    import dltype  # noqa: F401

    got = os.path.dirname(os.path.dirname(os.path.abspath(dltype.__file__)))
    if os.path.realpath(got) != os.path.realpath(REPO):
        raise RuntimeError(f"dltype imported from {got}, expected {REPO}")
    return dltype


def workdir(prop: str) -> str:
    d = os.path.join(WORK, prop)
    os.makedirs(d, exist_ok=True)
    return d


@contextlib.contextmanager
def build_lock():
    os.makedirs(WORK, exist_ok=True)
    with open(os.path.join(WORK, "build.lock"), "w") as fh:
        fcntl.flock(fh, fcntl.LOCK_EX)
        try:
            yield
        finally:
            fcntl.flock(fh, fcntl.LOCK_UN)


def run(cmd, **kw):
    env = dict(os.environ)
    env.setdefault("LEAN_NUM_THREADS", "8")
    return subprocess.run(cmd, text=True, capture_output=True, env=env, **kw)


def run_model(lines: list[str], shards: int = 8) -> list[str]:
    """Pipe operation lines through the compiled Lean driver (sharded over processes)."""
    if not lines:
        return []
    if not os.path.exists(DRIVER):
        raise RuntimeError("model driver not built")
    n = len(lines)
    shards = max(1, min(shards, n // 20000 + 1))
    chunk = (n + shards - 1) // shards
    procs = []
    for i in range(shards):
        part = lines[i * chunk : (i + 1) * chunk]
        p = subprocess.Popen([DRIVER], stdin=subprocess.PIPE, stdout=subprocess.PIPE, text=True)
        procs.append((p, part))
    import threading

    outs: list[list[str]] = [[] for _ in procs]

    def feed(idx):
        p, part = procs[idx]
        o, _ = p.communicate("\n".join(part) + "\n")
        outs[idx] = o.splitlines()

    ths = [threading.Thread(target=feed, args=(i,)) for i in range(len(procs))]
    for t in ths:
        t.start()
    for t in ths:
        t.join()
    res: list[str] = []
    for (p, part), o in zip(procs, outs):
        if p.returncode != 0 or len(o) != len(part):
            raise RuntimeError(f"driver failed rc={p.returncode} got {len(o)} lines for {len(part)}")
        res.extend(o)
    return res


class Timer:
    def __init__(self):
        self.t0 = time.time()

    def s(self) -> float:
        return round(time.time() - self.t0, 2)


def write_json(path: str, obj) -> None:
    os.makedirs(os.path.dirname(path), exist_ok=True)
    tmp = path + ".tmp"
    with open(tmp, "w") as fh:
        json.dump(obj, fh, indent=1, sort_keys=False, default=str)
        fh.write("\n")
    os.replace(tmp, path)
