"""Check framework: translate -> build -> audit -> correspondence -> decide -> evidence.

A check module (harness/checks/cXX.py) provides

    PROP = "C05"
    THEOREMS = ["Dltype.C05.eval_postorder", ...]          # kernel-checked obligations
    LEAN_MODULES = ["Properties.C05"]                      # what must build
    def cases(tier, rng, fw) -> list[Case]                 # operation lines (corpus first)
    def judge(case, impl_out, model_out, spec_out) -> None | str   # spec verdict on the impl's result

and the framework does the rest.
"""
from __future__ import annotations

import json
import os
import random
import re
import sys
import time
from collections import Counter
from dataclasses import dataclass, field

import common
from common import LEAN_DIR, VERIF, build_lock, run, workdir, write_json

ALLOWED_AXIOMS = {"propext", "Classical.choice", "Quot.sound"}
FORBIDDEN_RX = re.compile(r"\b(sorry|admit|native_decide|bv_decide|implemented_by|unsafe)\b|^\s*axiom\s|maxHeartbeats\s+0")


@dataclass
class Prep:
    translate_errors: dict = field(default_factory=dict)
    changed: list = field(default_factory=list)
    driver_ok: bool = False
    build_ok: dict = field(default_factory=dict)  # module -> bool
    build_log: dict = field(default_factory=dict)
    audit_hits: list = field(default_factory=list)
    axioms: dict = field(default_factory=dict)  # theorem -> [axioms] | None (missing)
    wall: dict = field(default_factory=dict)


def _strip_comments(text: str) -> str:
    # remove /- ... -/ (nested not handled beyond one level, fine for our files) and -- comments
    text = re.sub(r"/-.*?-/", lambda m: "\n" * m.group(0).count("\n"), text, flags=re.S)
    return "\n".join(l.split("--")[0] for l in text.splitlines())


def source_audit() -> list[str]:
    hits = []
    for root, _d, files in os.walk(LEAN_DIR):
        if ".lake" in root:
            continue
        for f in files:
            if not f.endswith(".lean"):
                continue
            p = os.path.join(root, f)
            body = _strip_comments(open(p).read())
            for i, line in enumerate(body.splitlines(), 1):
                if FORBIDDEN_RX.search(line):
                    hits.append(f"{os.path.relpath(p, VERIF)}:{i}: {line.strip()[:100]}")
    return hits


def prepare(modules: list[str], theorems: list[str], with_dtypes: bool = True, which=None) -> Prep:
    """Regenerate the generated model parts from the tree under test, build, audit (under a lock)."""
    import translate

    p = Prep()
    with build_lock():
        t0 = time.time()
        tr = translate.translate(which=which, with_dtypes=with_dtypes)
        p.translate_errors = tr["errors"]
        p.changed = tr["changed"]
        p.wall["translate"] = round(time.time() - t0, 2)
        t0 = time.time()
        r = run(["lake", "build", "DltypeModel", "driver"], cwd=LEAN_DIR)
        p.driver_ok = r.returncode == 0 and os.path.exists(common.DRIVER)
        if not p.driver_ok:
            p.build_log["driver"] = (r.stdout + r.stderr)[-4000:]
        for m in modules:
            r = run(["lake", "build", m], cwd=LEAN_DIR)
            p.build_ok[m] = r.returncode == 0
            if r.returncode != 0:
                p.build_log[m] = (r.stdout + r.stderr)[-6000:]
        p.wall["build"] = round(time.time() - t0, 2)
        t0 = time.time()
        p.audit_hits = source_audit()
        if theorems and all(p.build_ok.values()):
            p.axioms = print_axioms(modules, theorems)
        else:
            p.axioms = {t: None for t in theorems}
        p.wall["audit"] = round(time.time() - t0, 2)
    return p


def print_axioms(modules: list[str], theorems: list[str]) -> dict:
    d = workdir("_audit")
    path = os.path.join(d, f"audit_{os.getpid()}.lean")
    with open(path, "w") as fh:
        for m in modules:
            fh.write(f"import {m}\n")
        for t in theorems:
            fh.write(f"#print axioms {t}\n")
    r = run(["lake", "env", "lean", path], cwd=LEAN_DIR)
    os.unlink(path)
    out = r.stdout + r.stderr
    res: dict = {t: None for t in theorems}
    # "'X' depends on axioms: [a, b]"  |  "'X' does not depend on any axioms"
    for m in re.finditer(r"'([^']+)' depends on axioms: \[([^\]]*)\]", out, flags=re.S):
        res[m.group(1)] = [a.strip() for a in m.group(2).replace("\n", " ").split(",") if a.strip()]
    for m in re.finditer(r"'([^']+)' does not depend on any axioms", out):
        res[m.group(1)] = []
    return res


def leanchecker(modules: list[str]) -> tuple[bool, str]:
    r = run(["lake", "env", "leanchecker", *modules], cwd=LEAN_DIR)
    return r.returncode == 0, (r.stdout + r.stderr)[-2000:]


# ---------------------------------------------------------------------------------------------


@dataclass
class Case:
    line: str  # operation line
    tag: str = ""  # generator / stratum (for the distribution in the evidence)
    meta: dict = field(default_factory=dict)


@dataclass
class Finding:
    kind: str  # failing-input | broken-proof | broken-correspondence | broken-translation
    what: str
    case: Case | None = None
    impl: str = ""
    model: str = ""
    spec: str = ""
    known: str | None = None  # id of the known finding this belongs to


def load_known_findings(prop: str) -> list[dict]:
    p = os.path.join(VERIF, "known_findings.json")
    if not os.path.exists(p):
        return []
    data = json.load(open(p))
    return [f for f in data.get("findings", []) if prop in f.get("properties", [f.get("property")])]


def split_model(out: str) -> tuple[str, str]:
    """driver prints `<model result>\\t<spec info>`"""
    if "\t" in out:
        a, b = out.split("\t", 1)
        return a, b
    return out, ""


class Run:
    """One run of one check."""

    def __init__(self, prop: str, tier: str):
        self.prop = prop
        self.tier = tier
        self.seed = common.SEED
        self.rng = random.Random((hash(prop) & 0xFFFF) * 1000003 + self.seed)
        self.rng = random.Random(f"{prop}/{self.seed}")
        self.timer = common.Timer()
        self.findings: list[Finding] = []
        self.known_lines: dict[str, str] = {}
        self.coverage: dict = {}
        self.dist: Counter = Counter()
        self.samples: list = []
        self.n_cases = 0
        self.n_distinct_nontrivial = 0
        self.assumptions: list[str] = []
        self.prep: Prep | None = None
        self.notes: list[str] = []

    # -- differential --------------------------------------------------------------------------
    def differential(self, cases: list[Case], judge, nontrivial=None, impl_fn=None, known_region=None):
        """Run the cases on the implementation and on the model, compare, and judge the impl against the spec.

        judge(case, impl_out, spec_info) -> None | str   (str = how the impl violates the property)
        known_region(case, impl_out, model_out, spec_info) -> None | known-finding id
        """
        import impl as impl_mod

        lines = [c.line for c in cases]
        t0 = time.time()
        impl_out = (impl_fn or impl_mod.run_impl)(lines)
        t1 = time.time()
        model_raw = common.run_model(lines) if (self.prep is None or self.prep.driver_ok) else [""] * len(lines)
        t2 = time.time()
        self.coverage.setdefault("impl_s", 0)
        self.coverage["impl_s"] = round(self.coverage["impl_s"] + t1 - t0, 2)
        self.coverage["model_s"] = round(self.coverage.get("model_s", 0) + t2 - t1, 2)
        seen = set()
        for c, io, mr in zip(cases, impl_out, model_raw):
            mo, spec = split_model(mr)
            self.n_cases += 1
            self.dist[c.tag + ":" + io.split(" ")[0] + ("-" + io.split(" ")[1] if io.startswith(("reject", "pyexc", "err")) and len(io.split(" ")) > 1 else "")] += 1
            verdict = judge(c, io, spec) if judge else None
            if c.line not in seen:
                seen.add(c.line)
                if nontrivial is None or nontrivial(c, io):
                    self.n_distinct_nontrivial += 1
            agree = io == mo
            if not agree and " ## " in mo:
                ip, mp = io.split(" ## "), mo.split(" ## ")
                if len(ip) == len(mp) and any(m.endswith("unmodelled") for m in mp):
                    # step-wise comparison; steps the model declines are skipped
                    agree = all(a == m or m.endswith("unmodelled") for a, m in zip(ip, mp))
                    self.coverage["unmodelled_skipped"] = self.coverage.get("unmodelled_skipped", 0) + sum(1 for m in mp if m.endswith("unmodelled"))
            if mo == "unmodelled" or mo.endswith(" unmodelled"):
                # negative exponent: Python goes through floating point, the model declines (DESIGN §3 L3)
                self.coverage["unmodelled_skipped"] = self.coverage.get("unmodelled_skipped", 0) + 1
                agree = True
            kid = known_region(c, io, mo, spec) if known_region else None
            if kid is not None:
                # inside the region of a known finding the implementation is judged against the spec only
                if verdict is None:
                    continue
                if agree:
                    self.known_lines.setdefault(kid, f"{verdict} :: {c.line!r} -> {io}")
                    continue
                self.findings.append(Finding("failing-input", verdict, c, io, mo, spec))
                continue
            if verdict is not None:
                self.findings.append(Finding("failing-input", verdict, c, io, mo, spec))
            elif not agree:
                self.findings.append(Finding("broken-correspondence", "model and implementation disagree", c, io, mo, spec))
        if len(self.samples) < 12:
            step = max(1, len(cases) // 6)
            for c, io in list(zip(cases, impl_out))[::step][:6]:
                self.samples.append({"op": c.line, "impl": io, "tag": c.tag})
        return impl_out, model_raw

    # -- plain observation against an expectation -------------------------------------------------
    def observe(self, cases: list[Case], observe_fn, expect_fn, what: str, nontrivial=None, known_region=None):
        """observe_fn(case) -> str ; expect_fn(case, observed) -> None | str (how the property is violated)"""
        seen = set()
        for c in cases:
            try:
                got = observe_fn(c)
            except Exception as e:  # noqa: BLE001
                got = "harness-error " + type(e).__name__ + ": " + str(e)[:120]
            self.n_cases += 1
            self.dist[c.tag + ":" + got.split(" ")[0]] += 1
            verdict = expect_fn(c, got)
            if c.line not in seen:
                seen.add(c.line)
                if nontrivial is None or nontrivial(c, got):
                    self.n_distinct_nontrivial += 1
            if len(self.samples) < 12 and self.n_cases % max(1, len(cases) // 8) == 0:
                self.samples.append({"op": c.line, "observed": got, "tag": c.tag})
            if verdict is None:
                continue
            kid = known_region(c, got) if known_region else None
            if kid is not None:
                self.known_lines.setdefault(kid, f"{verdict} :: {c.line!r} -> {got}")
                continue
            self.findings.append(Finding("failing-input", f"{what}: {verdict}", c, got, "", ""))

    # -- obligations ------------------------------------------------------------------------------
    def check_obligations(self, modules, theorems, generated=None):
        p = self.prep
        assert p is not None
        for name, msg in p.translate_errors.items():
            if generated is not None and name not in generated:
                self.notes.append(f"translator could not read {name} (not part of this check's tie): {msg}")
                continue
            self.findings.append(Finding("broken-translation", f"translator could not read {name}: {msg}"))
        for m in modules:
            if not p.build_ok.get(m, False):
                log = p.build_log.get(m, "")
                errs = [l for l in log.splitlines() if "error" in l][:6]
                what = f"lake build {m} failed: " + " | ".join(errs)[:900]
                if m.startswith("Properties.Prov."):
                    try:
                        import provenance

                        what = f"{m}: " + provenance.diff_against_snapshot(m.rsplit(".", 1)[1]) + " — the hand-written model was written against the earlier statements and is no longer known to describe this code"
                    except Exception as e:  # noqa: BLE001
                        what += f" (no diff: {e})"
                self.findings.append(Finding("broken-proof", what))
        if not p.driver_ok:
            self.findings.append(Finding("broken-proof", "model driver does not build: " + p.build_log.get("driver", "")[-600:]))
        for h in p.audit_hits:
            self.findings.append(Finding("broken-proof", f"forbidden construct in Lean sources: {h}"))
        discharged = 0
        if all(p.build_ok.get(m, False) for m in modules):
            for t in theorems:
                ax = p.axioms.get(t)
                if ax is None:
                    self.findings.append(Finding("broken-proof", f"theorem {t} not found after build"))
                elif not set(ax) <= ALLOWED_AXIOMS:
                    self.findings.append(Finding("broken-proof", f"theorem {t} depends on axioms {ax}"))
                else:
                    discharged += 1
        self.coverage["obligations"] = len(theorems)
        self.coverage["discharged"] = discharged
        self.coverage["theorems"] = {t: p.axioms.get(t) for t in theorems}

    # -- finish --------------------------------------------------------------------------------------
    def finish(self, level="proof", checker_cmd="", trusted_base=None, rule="", extra=None) -> int:
        wd = workdir(self.prop)
        real = [f for f in self.findings]
        # order: concrete failing inputs first
        real.sort(key=lambda f: 0 if f.kind == "failing-input" else 1)
        has_input = any(f.kind == "failing-input" for f in real)
        exit_code = 0
        for kid, what in sorted(self.known_lines.items()):
            print(f"KNOWN-FINDING: property={self.prop} [{kid}] {what}")
        if real:
            exit_code = 1
            f0 = real[0]
            replay = {
                "property": self.prop,
                "kind": f0.kind,
                "what": f0.what,
                "operation": f0.case.line if f0.case else None,
                "impl": f0.impl,
                "model": f0.model,
                "spec": f0.spec,
                "seed": self.seed,
                "tier": self.tier,
                "repo": common.REPO,
                "replay_cmd": f"./check {self.prop} --replay <this file>",
                "others": [
                    {"kind": f.kind, "what": f.what, "operation": f.case.line if f.case else None, "impl": f.impl, "model": f.model, "spec": f.spec}
                    for f in real[1:25]
                ],
                "n_findings": len(real),
            }
            path = os.path.join(wd, f"replay_{self.tier}_{self.seed}.json")
            write_json(path, replay)
            tail = "" if has_input else " no-failing-input-found"
            print(f"VIOLATION property={self.prop} replay={path}{tail}")
            for f in real[:5]:
                print(f"  - {f.kind}: {f.what[:300]}" + (f" :: {f.case.line!r} impl={f.impl!r} model={f.model!r} spec={f.spec!r}" if f.case else ""))
        cov = dict(self.coverage)
        cov.setdefault("obligations", 0)
        cov.setdefault("discharged", 0)
        cov["checker_cmd"] = checker_cmd or f"cd lean && lake build && lake env lean <#print axioms audit>  (./check {self.prop} --tier {self.tier})"
        cov["trusted_base"] = trusted_base or []
        cov["evaluations"] = self.n_cases
        cov["distinct_nontrivial"] = self.n_distinct_nontrivial
        cov["rule"] = rule
        cov["samples"] = self.samples[:12]
        cov["distribution"] = dict(self.dist.most_common(40))
        cov["correspondence_disagreements"] = sum(1 for f in real if f.kind == "broken-correspondence")
        cov["spec_violations_by_impl"] = sum(1 for f in real if f.kind == "failing-input")
        cov["known_findings_seen"] = sorted(self.known_lines)
        if self.prep is not None:
            cov["generated_files_changed"] = self.prep.changed
            cov["phase_wall_s"] = self.prep.wall
        if extra:
            cov.update(extra)
        if self.notes:
            cov["notes"] = self.notes
        ev = {
            "property_id": self.prop,
            "tier": self.tier,
            "seed": self.seed,
            "level": level,
            "coverage": cov,
            "assumptions": self.assumptions,
            "wall_s": self.timer.s(),
            "violations": len(real),
        }
        write_json(os.path.join(common.EVIDENCE, f"{self.prop}.json"), ev)
        print(f"[{self.prop}] tier={self.tier} seed={self.seed} cases={self.n_cases} nontrivial={self.n_distinct_nontrivial} "
              f"obligations={cov['discharged']}/{cov['obligations']} violations={len(real)} known={len(self.known_lines)} wall={ev['wall_s']}s")
        return exit_code
