"""Translator for the checker's core: Python AST -> Lean definitions (`Generated/Core.lean`).

Translated on every run, from the tree under test:
  * the body of the loop of `DLTypeContext._assert_tensor_shape`            -> `Gen.dimStep`
  * `TensorTypeBase.check`: everything before its loop                      -> `Gen.checkHead`
                            the body of its loop over the literal axes      -> `Gen.literalStep`
  * the body of the `while` loop of `DLTypeContext.assert_context`          -> `Gen.tensorBody`

The loop skeletons themselves (`for i, d in enumerate(xs)` = recursion over the list with a running index, `for idx, dim in
pairs` = recursion over the pairs, `while queue: popleft()` = recursion over the queue) are fixed text; `get_expected_shape`
and `DLTypeContext.add` stay hand-modelled (`expandDims`, `addGo`).  `Properties/Core.lean` proves each generated definition
equal to the hand-written model the property theorems are about, so a change of the Python source changes the generated
definition and breaks that proof (or, when the shape of the code is not one the translator reads, the translation).

The statement language read: docstrings / logging calls (skipped), `if/elif/else` (falling through or ending in
`continue` / `raise`), `raise _errors.X(keyword=...)`, assignments to locals, `+=` on locals, `d[key] = value`,
`x = d.setdefault(key, value)` (also inside an `if` test), the `try: x = dim.evaluate(scope) except KeyError` idiom, and the
calls `annotation.check(...)`, `get_expected_shape(...)`, `self._assert_tensor_shape(...)`, `queue.popleft()`.
Expressions: names, attribute chains of the objects involved, `len`, `tuple`, integer `+ -`, comparisons, `in / not in` on
the two dicts, `is (not) None`, `and / or / not`, f-string `f"*{name}"`, subscripts (`actual_shape[dim_idx]` inside the
enumerate loop is the parallel list element; any other subscript of a shape is Python indexing: negative wraps, out of range
raises IndexError).  Python ints are `Int` unless both operands are lengths / indices (`Nat`) and the operator is `+` or a
comparison.  Anything else raises `TranslationError` naming the construct.
"""
from __future__ import annotations

import ast
import copy
import os


class TErr(Exception):
    pass


class V:
    """a translated value: Lean text and its type"""

    def __init__(self, text, ty):
        self.text, self.ty = text, ty


class Obj:
    """a Python object whose attributes are read (kind decides the attribute table, base is the Lean term)"""

    def __init__(self, kind, base):
        self.kind, self.base = kind, base


def _src(node) -> str:
    try:
        return ast.unparse(node)
    except Exception:  # noqa: BLE001
        return type(node).__name__


PROP = "| .reject r => .reject r\n{ind}| .pyExc x => .pyExc x\n{ind}| .unmodelled => .unmodelled"


def P(text: str) -> str:
    """a multi-line sub-term is parenthesised (nested `match` / `if` must not capture the alternatives that follow)"""
    return "(" + text + ")" if "\n" in text else text


class Env:
    def __init__(self):
        self.vars: dict[str, V] = {}
        self.objs: dict[str, Obj] = {}
        self.some: dict[str, str] = {}  # Lean text of an Option value known to be `some x` -> x
        self.n = 0
        self.mode = ""

    def copy(self):
        e = copy.copy(self)
        e.vars, e.objs, e.some = dict(self.vars), dict(self.objs), dict(self.some)
        return e


class Comp:
    def __init__(self, loop_k):
        self.loop_k = loop_k  # what `continue` (= reaching the end of the loop body) produces
        self.fresh = 0

    # ---- types ----------------------------------------------------------------------------------
    def to_int(self, v: V) -> str:
        if v.ty == "Int":
            return v.text
        if v.ty == "Nat":
            return f"(Int.ofNat {v.text})"
        raise TErr(f"an integer is expected, got {v.ty}: {v.text}")

    def to_nat(self, v: V) -> str:
        if v.ty == "Nat":
            return v.text
        if v.ty == "Int":
            return f"(Int.toNat {v.text})"
        raise TErr(f"an index is expected, got {v.ty}: {v.text}")

    def to_bool(self, v: V) -> str:
        if v.ty != "Bool":
            raise TErr(f"a condition is expected, got {v.ty}: {v.text}")
        return v.text

    # ---- attributes -----------------------------------------------------------------------------
    def attr(self, o: Obj, name: str, env: Env, node):
        k, b = o.kind, o.base
        if k == "dim":
            t = {"is_anonymous": V(f"{b}.isAnonymous", "Bool"), "is_literal": V(f"{b}.isLiteral", "Bool"), "is_identifier": V(f"{b}.isIdentifier", "Bool"),
                 "identifier": V(f"{b}.identifier", "Name")}
        elif k == "ctx":
            t = {"tensor_shape_map": V("σ", "Scope"), "registered_tensor_dtypes": V("registered", "Reg"), "_hinted_tensors": Obj("queue", "queue")}
        elif k == "ann":
            t = {"multiaxis_index": V(f"{b}.multiIdx", "OptNat"), "multiaxis_name": V(f"{b}.multiName", "OptName"), "expected_shape": V(f"{b}.dims", "Dims"),
                 "_literal_dims": V(f"{b}.literalDims", "Pairs"), "DTYPES": V(f"{b}.cls", "DTYPES"), "optional": V(f"{b}.optional", "Bool"),
                 "anonymous_multiaxis": V(f"{b}.anonMulti", "Bool")}
        elif k == "tensor":
            t = {"shape": V(f"{b}.shape", "Shape"), "ndim": V(f"{b}.shape.length", "Nat"), "dtype": V(f"{b}.dt", "Dtype")}
        elif k == "entry":
            t = {"tensor": Obj("tensor", f"{b}.tensor"), "dltype_annotation": Obj("ann", f"{b}.ann"), "tensor_arg_name": V(f"{b}.displayName", "Name")}
        else:
            t = {}
        if name not in t:
            raise TErr(f"attribute `{_src(node)}` is not one the translator reads")
        return t[name]

    # ---- expressions ----------------------------------------------------------------------------
    def expr(self, e, env: Env, hoist: list):
        if isinstance(e, ast.Name):
            if e.id in env.vars:
                return env.vars[e.id]
            if e.id in env.objs:
                return env.objs[e.id]
            raise TErr(f"name `{e.id}` is not bound by anything the translator read")
        if isinstance(e, ast.Constant):
            if isinstance(e.value, bool):
                return V("true" if e.value else "false", "Bool")
            if isinstance(e.value, int):
                return V(str(e.value), "Nat") if e.value >= 0 else V(f"({e.value})", "Int")
            if e.value is None:
                return V("none", "None")
            raise TErr(f"constant `{_src(e)}`")
        if isinstance(e, ast.Attribute):
            base = self.expr(e.value, env, hoist)
            if not isinstance(base, Obj):
                raise TErr(f"attribute of a value: `{_src(e)}`")
            return self.attr(base, e.attr, env, e)
        if isinstance(e, ast.Call):
            if isinstance(e.func, ast.Name) and e.func.id == "len" and len(e.args) == 1 and not e.keywords:
                a = self.expr(e.args[0], env, hoist)
                if isinstance(a, V) and a.ty in ("Shape", "Dims"):
                    return V(f"{a.text}.length", "Nat")
                raise TErr(f"len of `{_src(e.args[0])}`")
            if isinstance(e.func, ast.Name) and e.func.id == "tuple" and len(e.args) == 1 and not e.keywords:
                return self.expr(e.args[0], env, hoist)
            if isinstance(e.func, ast.Attribute) and e.func.attr == "setdefault" and len(e.args) == 2 and not e.keywords:
                d = self.expr(e.func.value, env, hoist)
                if isinstance(d, V) and d.ty == "Scope":
                    k = self.expr(e.args[0], env, hoist)
                    v = self.expr(e.args[1], env, hoist)
                    if k.ty != "Name":
                        raise TErr(f"dict key `{_src(e.args[0])}`")
                    self.fresh += 1
                    nm = f"sd{self.fresh}"
                    hoist.append(("setdefault", k.text, self.to_int(v), nm))
                    return V(nm, "Int")
            raise TErr(f"call `{_src(e)}`")
        if isinstance(e, ast.Subscript):
            base = self.expr(e.value, env, hoist)
            idx = self.expr(e.slice, env, hoist)
            if isinstance(base, V) and base.ty == "Shape":
                if env.mode == "enumerate" and base.text == "ACTUAL" and isinstance(e.slice, ast.Name) and e.slice.id == env.enum_index:
                    return V("actual", "Nat")  # xs[i] inside `for i, _ in enumerate(ys)`: the parallel element
                if base.text == "ACTUAL":
                    raise TErr(f"`{_src(e)}`: the actual shape is indexed by something other than the loop index")
                self.fresh += 1
                nm = f"s{self.fresh}"
                key = ("index", base.text, self.to_int(idx))
                for h in hoist:
                    if h[:3] == key:
                        return V(h[3], "Nat")
                hoist.append((*key, nm))
                return V(nm, "Nat")
            if isinstance(base, V) and base.ty == "Scope":
                if idx.ty != "Name":
                    raise TErr(f"dict key `{_src(e.slice)}`")
                self.fresh += 1
                nm = f"g{self.fresh}"
                hoist.append(("get", idx.text, None, nm))
                return V(nm, "Int")
            raise TErr(f"subscript `{_src(e)}`")
        if isinstance(e, ast.JoinedStr):
            # f"*{name}"
            if len(e.values) == 2 and isinstance(e.values[0], ast.Constant) and e.values[0].value == "*" and isinstance(e.values[1], ast.FormattedValue) \
                    and e.values[1].conversion == -1 and e.values[1].format_spec is None:
                v = self.opt_value(self.expr(e.values[1].value, env, hoist), env, e)
                if v.ty == "Name":
                    return V(f"(lenKey {v.text})", "Name")
            # f"{name}[{i}]"  (str(None) is "None")
            if len(e.values) == 4 and isinstance(e.values[0], ast.FormattedValue) and isinstance(e.values[1], ast.Constant) and e.values[1].value == "[" \
                    and isinstance(e.values[2], ast.FormattedValue) and isinstance(e.values[3], ast.Constant) and e.values[3].value == "]":
                nm = self.expr(e.values[0].value, env, hoist)
                ix = self.expr(e.values[2].value, env, hoist)
                if isinstance(nm, V) and nm.ty == "OptName" and isinstance(ix, V) and ix.ty == "Nat":
                    return V(f"(grpKey ({nm.text}.getD noneName) {ix.text})", "Name")
            raise TErr(f"f-string `{_src(e)}`")
        if isinstance(e, ast.UnaryOp) and isinstance(e.op, ast.Not):
            return V(f"(!{self.to_bool(self.expr(e.operand, env, hoist))})", "Bool")
        if isinstance(e, ast.BoolOp):
            op = "&&" if isinstance(e.op, ast.And) else "||"
            if self.is_dtype_test(e):
                # `not DTYPES or dtype in DTYPES` is the acceptance function of the class (the regenerated dtype table)
                return V("(!(acc ann.cls t.dt))", "Bool")
            env2 = env.copy()
            parts = []
            for v in e.values:
                t = self.expr(v, env2, hoist)
                parts.append(self.to_bool(t))
                # `x is not None and ... x ...`: later conjuncts may use x
                if isinstance(e.op, ast.And) and isinstance(v, ast.Compare) and len(v.ops) == 1 and isinstance(v.ops[0], ast.IsNot):
                    o = self.expr(v.left, env2, hoist)
                    if isinstance(o, V) and o.ty in ("OptNat", "OptName"):
                        env2.some[o.text] = f"({o.text}.getD {'0' if o.ty == 'OptNat' else '[]'})"
            return V("(" + f" {op} ".join(parts) + ")", "Bool")
        if isinstance(e, ast.BinOp) and isinstance(e.op, (ast.Add, ast.Sub)):
            a = self.opt_value(self.expr(e.left, env, hoist), env, e.left)
            b = self.opt_value(self.expr(e.right, env, hoist), env, e.right)
            if isinstance(e.op, ast.Add) and a.ty == "Nat" and b.ty == "Nat":
                return V(f"({a.text} + {b.text})", "Nat")
            return V(f"({self.to_int(a)} {'+' if isinstance(e.op, ast.Add) else '-'} {self.to_int(b)})", "Int")
        if isinstance(e, ast.Compare) and len(e.ops) == 1:
            op, l, r = e.ops[0], e.left, e.comparators[0]
            if isinstance(op, (ast.In, ast.NotIn)):
                k = self.expr(l, env, hoist)
                d = self.expr(r, env, hoist)
                if isinstance(k, V) and k.ty == "Name" and isinstance(d, V) and d.ty == "Scope":
                    t = f"(σ.has {k.text})"
                elif isinstance(k, V) and k.ty == "Name" and isinstance(d, V) and d.ty == "Reg":
                    t = f"(registered.contains {k.text})"
                else:
                    raise TErr(f"membership test `{_src(e)}`")
                return V(t if isinstance(op, ast.In) else f"(!{t})", "Bool")
            if isinstance(op, (ast.Is, ast.IsNot)):
                a = self.expr(l, env, hoist)
                if isinstance(r, ast.Constant) and r.value is None and isinstance(a, Obj) and a.kind == "value":
                    return V(f"{a.base}.isNoneV" if isinstance(op, ast.Is) else f"(!{a.base}.isNoneV)", "Bool")
                if isinstance(r, ast.Constant) and r.value is None and isinstance(a, V) and a.ty in ("OptNat", "OptName"):
                    if a.text in env.some:
                        return V("true" if isinstance(op, ast.IsNot) else "false", "Bool")
                    return V(f"{a.text}.isSome" if isinstance(op, ast.IsNot) else f"{a.text}.isNone", "Bool")
                raise TErr(f"identity test `{_src(e)}`")
            sym = {ast.Lt: "<", ast.Gt: ">", ast.LtE: "≤", ast.GtE: "≥", ast.Eq: "=", ast.NotEq: "≠"}.get(type(op))
            if sym is None:
                raise TErr(f"comparison `{_src(e)}`")
            a = self.opt_value(self.expr(l, env, hoist), env, l)
            b = self.opt_value(self.expr(r, env, hoist), env, r)
            if a.ty == "Nat" and b.ty == "Nat":
                return V(f"decide ({a.text} {sym} {b.text})", "Bool")
            return V(f"decide ({self.to_int(a)} {sym} {self.to_int(b)})", "Bool")
        raise TErr(f"expression `{_src(e)}`")

    def opt_value(self, v, env: Env, node):
        """an Option used as a number / name is only readable where a test showed it is not None"""
        if isinstance(v, V) and v.ty in ("OptNat", "OptName"):
            if v.text in env.some:
                return V(env.some[v.text], "Nat" if v.ty == "OptNat" else "Name")
            raise TErr(f"`{_src(node)}` may be None here")
        if not isinstance(v, V):
            raise TErr(f"`{_src(node)}` is an object, not a value")
        return v

    @staticmethod
    def is_dtype_test(e) -> bool:
        """`self.DTYPES and tensor.dtype not in self.DTYPES`"""
        return (isinstance(e, ast.BoolOp) and isinstance(e.op, ast.And) and len(e.values) == 2 and _src(e.values[0]) == "self.DTYPES"
                and _src(e.values[1]) == "tensor.dtype not in self.DTYPES")

    # ---- hoisted partial operations ---------------------------------------------------------------
    def wrap(self, hoist: list, inner: str, ind: str) -> str:
        out = inner
        for h in reversed(hoist):
            kind = h[0]
            if kind == "index":
                _, base, idx, nm = h
                out = f"match pyIndex {base} {idx} with\n{ind}| none => .pyExc .indexError\n{ind}| some {nm} =>\n{ind}  " + P(out.replace("\n", "\n  "))
            elif kind == "setdefault":
                _, k, v, nm = h
                out = f"match Scope.setdefault σ {k} {v} with\n{ind}| ({nm}, σ) =>\n{ind}  " + P(out.replace("\n", "\n  "))
            elif kind == "get":
                _, k, _n, nm = h
                out = f"match σ.get? {k} with\n{ind}| none => .unmodelled\n{ind}| some {nm} =>\n{ind}  " + P(out.replace("\n", "\n  "))
        return out

    # ---- raise -------------------------------------------------------------------------------------
    def report(self, call, env: Env, hoist: list) -> str:
        if not (isinstance(call, ast.Call) and isinstance(call.func, ast.Attribute) and _src(call.func.value) == "_errors" and not call.args):
            raise TErr(f"raise of `{_src(call)}`")
        kw = {k.arg: k.value for k in call.keywords}
        cls = call.func.attr

        def need(*names):
            if set(kw) != set(names):
                raise TErr(f"{cls}: keywords {sorted(kw)} (expected {sorted(names)})")

        if cls == "DLTypeShapeError":
            need("tensor_name", "index", "expected_shape", "actual")
            n = self.expr(kw["tensor_name"], env, hoist)
            i = self.expr(kw["index"], env, hoist)
            x = self.expr(kw["expected_shape"], env, hoist)
            a = self.expr(kw["actual"], env, hoist)
            return f".reject (.shape {n.text} {self.to_nat(i)} {self.to_int(x)} {self.to_int(a)})"
        if cls == "DLTypeNDimsError":
            need("expected", "actual", "tensor_name")
            n = self.expr(kw["tensor_name"], env, hoist)
            x = self.expr(kw["expected"], env, hoist)
            a = self.expr(kw["actual"], env, hoist)
            return f".reject (.ndims {n.text} {self.to_int(x)} {self.to_nat(a)})"
        if cls == "DLTypeDtypeError":
            need("expected", "received", "tensor_name")
            if _src(kw["expected"]) != "self.DTYPES" or _src(kw["received"]) != "{tensor.dtype}":
                raise TErr(f"DLTypeDtypeError arguments `{_src(call)}`")
            return f".reject (.dtype {self.expr(kw['tensor_name'], env, hoist).text})"
        if cls == "DLTypeUnsupportedTensorTypeError":
            need("actual_type")
            return ".reject .unsupported"
        if cls == "DLTypeDuplicateError":
            need("tensor_name")
            return f".reject (.duplicate {self.expr(kw['tensor_name'], env, hoist).text})"
        if cls == "DLTypeInvalidReferenceError":
            need("tensor_name", "missing_ref", "current_context")
            n = self.expr(kw["tensor_name"], env, hoist)
            m = self.expr(kw["missing_ref"], env, hoist)
            c = self.expr(kw["current_context"], env, hoist)
            if m.ty != "Name" or c.ty != "Scope":
                raise TErr(f"DLTypeInvalidReferenceError arguments `{_src(call)}`")
            return f".reject (.invalidRef {n.text} {m.text} σ.keys)"
        raise TErr(f"raise of `{cls}`")

    # ---- statements --------------------------------------------------------------------------------
    def block(self, stmts, i, env: Env, kont, ind: str) -> str:
        if i == len(stmts):
            return kont(env, ind)
        s = stmts[i]

        def rest(env2, ind2=ind):
            return self.block(stmts, i + 1, env2, kont, ind2)

        if isinstance(s, ast.Expr) and isinstance(s.value, ast.Constant) and isinstance(s.value.value, str):
            return rest(env)
        if isinstance(s, ast.Expr) and isinstance(s.value, ast.Call) and _src(s.value.func).startswith("_logger."):
            return rest(env)
        if isinstance(s, ast.Assign) and len(s.targets) == 1 and isinstance(s.targets[0], ast.Name) and s.targets[0].id == "__tracebackhide__":
            return rest(env)
        if isinstance(s, ast.Continue):
            # `continue` = the end of the loop body (NOT the statements that follow the enclosing `if`)
            return self.loop_k(env, ind)
        if isinstance(s, ast.Raise):
            hoist: list = []
            r = self.report(s.exc, env, hoist)
            return self.wrap(hoist, r, ind)
        if isinstance(s, ast.If) and _src(s.test) == "not any((isinstance(tensor, T) for T in _dtypes.SUPPORTED_TENSOR_TYPES))" and not s.orelse \
                and isinstance(env.objs.get("tensor"), Obj) and env.objs["tensor"].kind == "value":
            # the value is one of the supported array types: from here on it is a tensor
            hoist = []
            b = self.block(s.body, 0, env.copy(), lambda e, i2: (_ for _ in ()).throw(TErr("the unsupported-type branch falls through")), ind + "  ")
            e1 = env.copy()
            e1.objs["tensor"] = Obj("tensor", "t")
            return f"match {env.objs['tensor'].base} with\n{ind}| .tensor t =>\n{ind}  {P(rest(e1, ind + '  '))}\n{ind}| _ =>\n{ind}  {P(b)}"
        if isinstance(s, ast.If) and isinstance(s.test, ast.Compare) and len(s.test.ops) == 1 and isinstance(s.test.ops[0], (ast.Is, ast.IsNot)) \
                and isinstance(s.test.comparators[0], ast.Constant) and s.test.comparators[0].value is None and isinstance(s.test.left, ast.Name) \
                and isinstance(env.objs.get(s.test.left.id), Obj) and env.objs[s.test.left.id].kind == "optann":
            # `if annotation is None:` on an optional annotation: the other branch knows the annotation
            nm = s.test.left.id
            o = env.objs[nm]
            e_some, e_none = env.copy(), env.copy()
            e_some.objs[nm] = Obj("ann", "ann")
            is_none = isinstance(s.test.ops[0], ast.Is)
            body_env, else_env = (e_none, e_some) if is_none else (e_some, e_none)
            b = self.block(s.body, 0, body_env, lambda e, i2: self.block(stmts, i + 1, e, kont, i2), ind + "  ")
            o2 = self.block(s.orelse, 0, else_env, lambda e, i2: self.block(stmts, i + 1, e, kont, i2), ind + "  ")
            none_t, some_t = (b, o2) if is_none else (o2, b)
            return f"match {o.base} with\n{ind}| none =>\n{ind}  {P(none_t)}\n{ind}| some ann =>\n{ind}  {P(some_t)}"
        if isinstance(s, ast.Expr) and isinstance(s.value, ast.Call) and _src(s.value.func) == "self._hinted_tensors.append" and len(s.value.args) == 1 \
                and isinstance(s.value.args[0], ast.Call) and _src(s.value.args[0].func) == "_ConcreteType" and len(s.value.args[0].args) == 4 and not s.value.args[0].keywords:
            a = [self.expr(x, env, []) for x in s.value.args[0].args]
            if not (isinstance(a[0], V) and a[0].ty == "Nat" and isinstance(a[1], V) and a[1].ty == "Name" and isinstance(a[2], Obj) and a[2].kind == "tensor"
                    and isinstance(a[3], Obj) and a[3].kind == "ann"):
                raise TErr(f"`{_src(s)}`: the queue entry is not (index, name, tensor, annotation)")
            return f"let appended := some {{ argIndex := {a[0].text}, name := {a[1].text}, tensor := {a[2].base}, ann := {a[3].base} }}\n{ind}" + rest(env)
        if isinstance(s, ast.If):
            # `if x is not None:` binds the value of x in the branch
            t = s.test
            if isinstance(t, ast.Compare) and len(t.ops) == 1 and isinstance(t.ops[0], ast.IsNot) and isinstance(t.comparators[0], ast.Constant) and t.comparators[0].value is None:
                o = self.expr(t.left, env, [])
                if isinstance(o, V) and o.ty in ("OptNat", "OptName") and o.text not in env.some:
                    self.fresh += 1
                    nm = f"v{self.fresh}"
                    e1, e2 = env.copy(), env.copy()
                    e1.some[o.text] = nm
                    b = self.block(s.body, 0, e1, lambda e, i2: self.block(stmts, i + 1, self.forget(e, o.text, env), kont, i2), ind + "  ")
                    o2 = self.block(s.orelse, 0, e2, lambda e, i2: self.block(stmts, i + 1, e, kont, i2), ind + "  ")
                    return f"match {o.text} with\n{ind}| some {nm} =>\n{ind}  {P(b)}\n{ind}| none =>\n{ind}  {P(o2)}"
            hoist = []
            c = self.to_bool(self.expr(t, env, hoist))
            b = self.block(s.body, 0, env.copy(), lambda e, i2: self.block(stmts, i + 1, e, kont, i2), ind + "  ")
            o2 = self.block(s.orelse, 0, env.copy(), lambda e, i2: self.block(stmts, i + 1, e, kont, i2), ind + "  ")
            return self.wrap(hoist, f"if {c} then\n{ind}  {P(b)}\n{ind}else\n{ind}  {P(o2)}", ind)
        if isinstance(s, ast.AugAssign) and isinstance(s.target, ast.Name) and isinstance(s.op, (ast.Add, ast.Sub)):
            hoist = []
            x = s.target.id
            cur = self.expr(s.target, env, hoist)
            val = self.opt_value(self.expr(s.value, env, hoist), env, s.value)
            if isinstance(s.op, ast.Add) and cur.ty == "Nat" and val.ty == "Nat":
                new = V(f"({cur.text} + {val.text})", "Nat")
            else:
                new = V(f"({self.to_int(cur)} {'+' if isinstance(s.op, ast.Add) else '-'} {self.to_int(val)})", "Int")
            env = env.copy()
            env.vars[x] = V(x, new.ty)
            return self.wrap(hoist, f"let {x} := {new.text}\n{ind}" + rest(env), ind)
        if isinstance(s, ast.Try):
            return self.try_evaluate(s, env, rest, ind)
        if isinstance(s, ast.Assign) and len(s.targets) == 1:
            tg, val = s.targets[0], s.value
            hoist = []
            if isinstance(tg, ast.Subscript):
                d = self.expr(tg.value, env, hoist)
                k = self.expr(tg.slice, env, hoist)
                if isinstance(d, V) and d.ty == "Scope" and isinstance(k, V) and k.ty == "Name":
                    v = self.opt_value(self.expr(val, env, hoist), env, val)
                    return self.wrap(hoist, f"let σ := σ.set {k.text} {self.to_int(v)}\n{ind}" + rest(env), ind)
                if isinstance(d, V) and d.ty == "Reg" and isinstance(k, V) and k.ty == "Name":
                    v = self.expr(val, env, hoist)
                    if not (isinstance(v, V) and v.ty == "Dtype"):
                        raise TErr(f"`{_src(s)}`: the registry of checked names stores the dtype")
                    return self.wrap(hoist, f"let registered := registered ++ [{k.text}]\n{ind}" + rest(env), ind)
                raise TErr(f"assignment `{_src(s)}`")
            if isinstance(tg, ast.Name):
                x = tg.id
                if isinstance(val, ast.Call) and _src(val.func).endswith("._hinted_tensors.popleft") and not val.args:
                    env = env.copy()
                    env.objs[x] = Obj("entry", "e")
                    return rest(env)
                if isinstance(val, ast.Call) and isinstance(val.func, ast.Attribute) and val.func.attr == "get_expected_shape" and len(val.args) == 1:
                    o = self.expr(val.func.value, env, hoist)
                    a = self.expr(val.args[0], env, hoist)
                    if isinstance(o, Obj) and o.kind == "entry" and isinstance(a, Obj) and a.kind == "tensor" and a.base == f"{o.base}.tensor":
                        env = env.copy()
                        env.vars[x] = V(x, "Dims")
                        return f"let {x} := expandDims {o.base}.ann {o.base}.tensor.shape\n{ind}" + rest(env)
                    raise TErr(f"`{_src(s)}`")
                v = self.expr(val, env, hoist)
                env = env.copy()
                if isinstance(v, Obj):
                    env.objs[x] = v
                    return self.wrap(hoist, rest(env), ind)
                if v.ty in ("OptNat", "OptName"):
                    v = self.opt_value(v, env, val)
                env.vars[x] = V(x, v.ty)
                return self.wrap(hoist, f"let {x} := {v.text}\n{ind}" + rest(env), ind)
        if isinstance(s, ast.Expr) and isinstance(s.value, ast.Call) and isinstance(s.value.func, ast.Attribute):
            c = s.value
            if c.func.attr == "check" and len(c.args) == 1 and [k.arg for k in c.keywords] == ["tensor_name"]:
                o = self.expr(c.func.value, env, [])
                a = self.expr(c.args[0], env, [])
                n = self.expr(c.keywords[0].value, env, [])
                if isinstance(o, Obj) and o.kind == "ann" and isinstance(a, Obj) and a.kind == "tensor" and isinstance(n, V) and n.ty == "Name":
                    return f"match check acc {o.base} {a.base} {n.text} with\n{ind}| .ok () =>\n{ind}  {P(rest(env, ind + '  '))}\n{ind}" + PROP.format(ind=ind)
            if c.func.attr == "_assert_tensor_shape" and len(c.args) == 3 and not c.keywords:
                n = self.expr(c.args[0], env, [])
                d = self.expr(c.args[1], env, [])
                a = self.expr(c.args[2], env, [])
                if isinstance(n, V) and n.ty == "Name" and isinstance(d, V) and d.ty == "Dims" and isinstance(a, Obj) and a.kind == "tensor":
                    return f"match assertDims {n.text} 0 {d.text} {a.base}.shape σ with\n{ind}| .ok σ =>\n{ind}  {P(rest(env, ind + '  '))}\n{ind}" + PROP.format(ind=ind)
        raise TErr(f"statement `{_src(s)[:120]}`")

    @staticmethod
    def forget(e: Env, key: str, outer: Env) -> Env:
        e2 = e.copy()
        if key not in outer.some:
            e2.some.pop(key, None)
        return e2

    def try_evaluate(self, s: ast.Try, env: Env, rest, ind: str) -> str:
        """try: x = dim.evaluate(scope)  except KeyError as e: missing = e.args[0]; raise InvalidReference(...) from e"""
        ok = (len(s.body) == 1 and isinstance(s.body[0], ast.Assign) and len(s.body[0].targets) == 1 and isinstance(s.body[0].targets[0], ast.Name)
              and isinstance(s.body[0].value, ast.Call) and isinstance(s.body[0].value.func, ast.Attribute) and s.body[0].value.func.attr == "evaluate"
              and len(s.body[0].value.args) == 1 and not s.orelse and not s.finalbody and len(s.handlers) == 1)
        if not ok:
            raise TErr(f"try statement `{_src(s)[:100]}`")
        call = s.body[0].value
        d = self.expr(call.func.value, env, [])
        sc = self.expr(call.args[0], env, [])
        h = s.handlers[0]
        if not (isinstance(d, Obj) and d.kind == "dim" and isinstance(sc, V) and sc.ty == "Scope" and isinstance(h.type, ast.Name) and h.type.id == "KeyError" and h.name):
            raise TErr(f"try statement `{_src(s)[:100]}`")
        x = s.body[0].targets[0].id
        henv = env.copy()
        body = list(h.body)
        # missing_ref = e.args[0]
        if body and isinstance(body[0], ast.Assign) and isinstance(body[0].targets[0], ast.Name) and _src(body[0].value) == f"{h.name}.args[0]":
            henv.vars[body[0].targets[0].id] = V("k", "Name")
            body = body[1:]
        if len(body) != 1 or not isinstance(body[0], ast.Raise):
            raise TErr(f"except handler `{_src(h)[:100]}`")
        hh: list = []
        rep = self.report(body[0].exc, henv, hh)
        if hh:
            raise TErr("partial operation inside an except handler")
        env2 = env.copy()
        env2.vars[x] = V(x, "Int")
        return (f"match {d.base}.evaluate σ with\n{ind}| .keyError k => {rep}\n{ind}| .pyExc x => .pyExc x\n{ind}| .unmodelled => .unmodelled\n"
                f"{ind}| .val {x} =>\n{ind}  {P(rest(env2, ind + '  '))}")


# ---- finding the functions -----------------------------------------------------------------------------


def _find_method(mod: ast.Module, cls: str, name: str) -> ast.FunctionDef:
    for n in mod.body:
        if isinstance(n, ast.ClassDef) and n.name == cls:
            for m in n.body:
                if isinstance(m, ast.FunctionDef) and m.name == name:
                    return m
    raise TErr(f"{cls}.{name} not found")


def _strip(stmts):
    return [s for s in stmts if not (isinstance(s, ast.Expr) and isinstance(s.value, ast.Constant) and isinstance(s.value.value, str))]


SKELETONS = """/-- loop skeleton (fixed text): `for idx, dim in self._literal_dims` -/
def checkLiterals (ann : Ann) (t : Tensor) (tname : Name) : List (Nat × Int) → Outcome Unit
  | [] => .ok ()
  | (idx, dim) :: rest =>
    match literalStep ann t tname idx dim with
    | .ok () => checkLiterals ann t tname rest
    | .reject r => .reject r
    | .pyExc x => .pyExc x
    | .unmodelled => .unmodelled

/-- `TensorTypeBase.check` = head, then the loop -/
def check (acc : Acc) (ann : Ann) (t : Tensor) (tname : Name) : Outcome Unit :=
  match checkHead acc ann t tname with
  | .ok () => checkLiterals ann t tname ann.literalDims
  | .reject r => .reject r
  | .pyExc x => .pyExc x
  | .unmodelled => .unmodelled

/-- loop skeleton (fixed text): `for dim_idx, dimension_expression in enumerate(expected_shape)` with `actual_shape[dim_idx]`
    read as the element of the actual shape at the same position -/
def assertDims (tname : Name) : Nat → List DimExpr → List Nat → Scope → Outcome Scope
  | _, [], _, σ => .ok σ
  | _, _ :: _, [], σ => .ok σ
  | idx, d :: ds, a :: as, σ =>
    match dimStep tname idx d a σ with
    | .ok σ' => assertDims tname (idx + 1) ds as σ'
    | .reject r => .reject r
    | .pyExc x => .pyExc x
    | .unmodelled => .unmodelled

"""


QUEUE_SKELETON = """/-- loop skeleton (fixed text): `while self._hinted_tensors: tensor_context = self._hinted_tensors.popleft(); ...` -/
def runEntries (acc : Acc) : CState → List Entry → Outcome CState
  | st, [] => .ok st
  | st, e :: es =>
    match tensorBody acc st.σ st.registered e with
    | .ok st' => runEntries acc st' es
    | .reject r => .reject r
    | .pyExc x => .pyExc x
    | .unmodelled => .unmodelled

"""


ADD_SKELETON = """/-- loop skeleton (fixed text): `for idx, (annotation, value) in enumerate(zip(annotations, values, strict=True))` — the zip is
    lazy: a length mismatch raises ValueError only when the shorter sequence runs out -/
def addGo (name : Name) : Nat → List (Option Ann) → List Value → Outcome (List Entry)
  | _, [], [] => .ok []
  | _, [], _ :: _ => .pyExc .valueError
  | _, _ :: _, [] => .pyExc .valueError
  | i, a :: as, v :: vs =>
    match addStep name i a v with
    | .ok none => addGo name (i + 1) as vs
    | .ok (some e) =>
      match addGo name (i + 1) as vs with
      | .ok es => .ok (e :: es)
      | r => r
    | .reject r => .reject r
    | .pyExc x => .pyExc x
    | .unmodelled => .unmodelled

"""


EXPAND_HELPERS = """/-- `list.insert(i, x)`: the index is clamped to the list (a negative index counts from the end) -/
def pyInsert {α} (l : List α) (i : Int) (x : α) : List α :=
  let k := if i < 0 then (Int.ofNat l.length + i).toNat else min i.toNat l.length
  l.take k ++ x :: l.drop k

/-- `list.pop(i)`: IndexError (`none`) when out of range -/
def pyPop {α} (l : List α) (i : Int) : Option (List α) :=
  if i < 0 then (if -i ≤ Int.ofNat l.length then some (l.eraseIdx (Int.ofNat l.length + i).toNat) else none)
  else (if i.toNat < l.length then some (l.eraseIdx i.toNat) else none)

"""

EXPAND_SKELETON = """/-- loop skeleton (fixed text): `for i in range(n)` -/
def expandLoop (e : Entry) (mi : Nat) : Nat → Nat → List DimExpr → Outcome (List DimExpr)
  | 0, _, l => .ok l
  | n + 1, i, l =>
    match expandStep e mi i l with
    | .ok l' => expandLoop e mi n (i + 1) l'
    | .reject r => .reject r
    | .pyExc x => .pyExc x
    | .unmodelled => .unmodelled

"""


def gen_core(lib_dir: str, header: str) -> str:
    def parse(f):
        with open(os.path.join(lib_dir, f)) as fh:
            return ast.parse(fh.read(), filename=f)

    ctx_mod, ttb_mod = parse("_dltype_context.py"), parse("_tensor_type_base.py")

    # 1. _assert_tensor_shape -----------------------------------------------------------------------
    f = _find_method(ctx_mod, "DLTypeContext", "_assert_tensor_shape")
    if [a.arg for a in f.args.args] != ["self", "tensor_arg_name", "expected_shape", "tensor"]:
        raise TErr("_assert_tensor_shape: parameters")
    body = _strip(f.body)
    pre, loop = body[:-1], body[-1]
    pre = [s for s in pre if not (isinstance(s, ast.Assign) and _src(s.targets[0]) == "__tracebackhide__")]
    if not (len(pre) == 1 and _src(pre[0]) == "actual_shape = tuple(tensor.shape)"):
        raise TErr("_assert_tensor_shape: statements before the loop: " + "; ".join(_src(s) for s in pre)[:120])
    if not (isinstance(loop, ast.For) and _src(loop.iter) == "enumerate(expected_shape)" and isinstance(loop.target, ast.Tuple) and len(loop.target.elts) == 2
            and all(isinstance(x, ast.Name) for x in loop.target.elts) and not loop.orelse):
        raise TErr("_assert_tensor_shape: the loop is not `for i, d in enumerate(expected_shape)`")
    c = Comp(lambda e, ind: ".ok σ")
    env = Env()
    env.mode, env.enum_index = "enumerate", loop.target.elts[0].id
    env.vars[loop.target.elts[0].id] = V("idx", "Nat")
    env.objs[loop.target.elts[1].id] = Obj("dim", "d")
    env.objs["self"] = Obj("ctx", "self")
    env.vars["tensor_arg_name"] = V("tname", "Name")
    env.vars["actual_shape"] = V("ACTUAL", "Shape")
    dim_step = c.block(loop.body, 0, env, lambda e, ind: ".ok σ", "  ")

    # 2. check ----------------------------------------------------------------------------------------
    f = _find_method(ttb_mod, "TensorTypeBase", "check")
    if [a.arg for a in f.args.args] != ["self", "tensor", "tensor_name"]:
        raise TErr("check: parameters")
    body = _strip(f.body)
    head, loop = body[:-1], body[-1]
    if not (isinstance(loop, ast.For) and _src(loop.iter) == "self._literal_dims" and isinstance(loop.target, ast.Tuple) and len(loop.target.elts) == 2
            and all(isinstance(x, ast.Name) for x in loop.target.elts) and not loop.orelse):
        raise TErr("check: the last statement is not `for idx, dim in self._literal_dims`")
    c = Comp(lambda e, ind: ".ok ()")
    env = Env()
    env.objs["self"] = Obj("ann", "ann")
    env.objs["tensor"] = Obj("tensor", "t")
    env.vars["tensor_name"] = V("tname", "Name")
    check_head = c.block(head, 0, env, lambda e, ind: ".ok ()", "  ")
    env2 = env.copy()
    env2.vars[loop.target.elts[0].id] = V("idx", "Nat")
    env2.vars[loop.target.elts[1].id] = V("dim", "Int")
    literal_step = c.block(loop.body, 0, env2, lambda e, ind: ".ok ()", "  ")

    # 3. assert_context -------------------------------------------------------------------------------
    f = _find_method(ctx_mod, "DLTypeContext", "assert_context")
    body = [s for s in _strip(f.body) if not (isinstance(s, ast.Assign) and _src(s.targets[0]) in ("__tracebackhide__", "start_t"))]
    if not (len(body) == 1 and isinstance(body[0], ast.Try) and len(body[0].body) == 1 and isinstance(body[0].body[0], ast.While)
            and _src(body[0].body[0].test) == "self._hinted_tensors" and not body[0].handlers):
        raise TErr("assert_context: expected `try: while self._hinted_tensors: ... finally: ...`")
    fin = body[0].finalbody
    for s in ast.walk(ast.Module(body=fin, type_ignores=[])):
        if isinstance(s, (ast.Return, ast.Break, ast.Continue)):
            raise TErr("assert_context: the `finally` block leaves with return / break / continue (it would swallow the error)")
    w = body[0].body[0]
    c = Comp(lambda e, ind: ".ok { σ := σ, registered := registered }")
    env = Env()
    env.objs["self"] = Obj("ctx", "self")
    tensor_body = c.block(w.body, 0, env, lambda e, ind: ".ok { σ := σ, registered := registered }", "  ")

    # 4. add ----------------------------------------------------------------------------------------------
    f = _find_method(ctx_mod, "DLTypeContext", "add")
    if [a.arg for a in f.args.args] != ["self", "name", "tensor_values", "dltype_annotation_tup"]:
        raise TErr("add: parameters")
    body = _strip(f.body)
    if not (len(body) == 2 and _src(body[0]) == "if dltype_annotation_tup is None:\n    return" and isinstance(body[1], ast.For)):
        raise TErr("add: expected `if dltype_annotation_tup is None: return` and one loop")
    loop = body[1]
    if _src(loop.iter) != "enumerate(zip(dltype_annotation_tup, tensor_values, strict=True))" or _src(loop.target) != "(idx, (dltype_annotation, tensor))" or loop.orelse:
        raise TErr("add: the loop is not `for idx, (annotation, tensor) in enumerate(zip(annotations, values, strict=True))`")
    c = Comp(lambda e, ind: ".ok appended")
    env = Env()
    env.objs["self"] = Obj("ctx", "self")
    env.vars["idx"] = V("idx", "Nat")
    env.vars["name"] = V("name", "Name")
    env.objs["dltype_annotation"] = Obj("optann", "a")
    env.objs["tensor"] = Obj("value", "v")
    add_step = c.block(loop.body, 0, env, lambda e, ind: ".ok appended", "  ")

    # 5. get_expected_shape ---------------------------------------------------------------------------------
    f = _find_method(ctx_mod, "_ConcreteType", "get_expected_shape")
    if [a.arg for a in f.args.args] != ["self", "tensor"]:
        raise TErr("get_expected_shape: parameters")
    body = [s for s in _strip(f.body)]
    if not (len(body) == 3 and _src(body[0]) == "expected_shape = list(self.dltype_annotation.expected_shape)" and isinstance(body[1], ast.If)
            and _src(body[1].test) == "self.dltype_annotation.multiaxis_index is not None" and not body[1].orelse and _src(body[2]) == "return tuple(expected_shape)"):
        raise TErr("get_expected_shape: expected `expected_shape = list(...)`, `if self.dltype_annotation.multiaxis_index is not None:`, `return tuple(expected_shape)`")
    inner = [s for s in body[1].body if not (isinstance(s, ast.Expr) and isinstance(s.value, ast.Call) and _src(s.value.func).startswith("_logger."))]
    if not (len(inner) == 4 and _src(inner[0]) == "actual_shape = tensor.shape" and isinstance(inner[1], ast.Assign) and isinstance(inner[1].targets[0], ast.Name)
            and isinstance(inner[2], ast.Expr) and _src(inner[2].value.func) == "expected_shape.pop" and len(inner[2].value.args) == 1 and isinstance(inner[3], ast.For)):
        raise TErr("get_expected_shape: the marker branch is not `actual_shape = tensor.shape; offset = ...; expected_shape.pop(i); for i in range(offset): ...`")
    c = Comp(None)
    env = Env()
    env.objs["self"] = Obj("entry", "e")
    env.objs["tensor"] = Obj("tensor", "e.tensor")
    env.vars["actual_shape"] = V("e.tensor.shape", "Shape")
    env.vars["expected_shape"] = V("e.ann.dims", "Dims")
    env.some["e.ann.multiIdx"] = "mi"
    offvar = inner[1].targets[0].id
    h: list = []
    off = c.expr(inner[1].value, env, h)
    popi = c.expr(inner[2].value.args[0], env, h)
    loop = inner[3]
    if not (isinstance(loop.target, ast.Name) and _src(loop.iter) == f"range({offvar})" and len(loop.body) == 1 and isinstance(loop.body[0], ast.Expr)
            and _src(loop.body[0].value.func) == "expected_shape.insert" and len(loop.body[0].value.args) == 2):
        raise TErr("get_expected_shape: the loop is not `for i in range(offset): expected_shape.insert(index, literal)`")
    env.vars[loop.target.id] = V("i", "Nat")
    ins_i = c.expr(loop.body[0].value.args[0], env, h)
    lit = loop.body[0].value.args[1]
    if not (isinstance(lit, ast.Call) and _src(lit.func) == "_parser.DLTypeDimensionExpression.from_multiaxis_literal" and len(lit.args) == 2
            and [k.arg for k in lit.keywords] == ["is_anonymous"]):
        raise TErr(f"get_expected_shape: inserted element `{_src(lit)[:100]}`")
    key = c.expr(lit.args[0], env, h)
    if h:
        raise TErr("get_expected_shape: partial operation outside the loop body")
    hh: list = []
    val = c.expr(lit.args[1], env, hh)
    anon = c.expr(lit.keywords[0].value, env, hh)
    if not (len(hh) == 1 and hh[0][0] == "index" and isinstance(key, V) and key.ty == "Name" and isinstance(anon, V) and anon.ty == "Bool" and val.ty == "Nat"):
        raise TErr("get_expected_shape: arguments of from_multiaxis_literal")
    expand_step = c.wrap(hh, f".ok (pyInsert l {c.to_int(c.opt_value(ins_i, env, lit))} (mkMultiLiteral {key.text} {val.text} {anon.text}))", "  ")
    expand_text = (f"  match e.ann.multiIdx with\n  | none => .ok e.ann.dims\n  | some mi =>\n    let {offvar} : Int := {c.to_int(off)}\n"
                   f"    match pyPop e.ann.dims {c.to_int(c.opt_value(popi, env, inner[2]))} with\n    | none => .pyExc .indexError\n"
                   f"    | some expected_shape => expandLoop e mi {offvar}.toNat 0 expected_shape\n")

    out = header
    out += "import DltypeModel.Context\nset_option linter.unusedVariables false\nnamespace Dltype.Gen\nopen Dltype\n\n"
    out += "/-- Python indexing of a shape: a negative index counts from the end, out of range is IndexError (`none`) -/\n"
    out += "def pyIndex (s : List Nat) (i : Int) : Option Nat :=\n  if i < 0 then (if -i ≤ Int.ofNat s.length then s[(Int.ofNat s.length + i).toNat]? else none) else s[i.toNat]?\n\n"
    out += "/-- `x = d.setdefault(k, v)`: the value now bound and the dict afterwards -/\n"
    out += "def _root_.Dltype.Scope.setdefault (σ : Scope) (k : Name) (v : Int) : Int × Scope :=\n  match σ.get? k with\n  | some b => (b, σ)\n  | none => (v, σ.set k v)\n\n"
    out += "/-- the body of the loop of `DLTypeContext._assert_tensor_shape` (one dimension of the expected shape against the axis at the same index) -/\n"
    out += "def dimStep (tname : Name) (idx : Nat) (d : DimExpr) (actual : Nat) (σ : Scope) : Outcome Scope :=\n  " + dim_step + "\n\n"
    out += "/-- `TensorTypeBase.check` up to its loop -/\n"
    out += "def checkHead (acc : Acc) (ann : Ann) (t : Tensor) (tname : Name) : Outcome Unit :=\n  " + check_head + "\n\n"
    out += "/-- the body of the loop of `TensorTypeBase.check` over the literal axes -/\n"
    out += "def literalStep (ann : Ann) (t : Tensor) (tname : Name) (idx : Nat) (dim : Int) : Outcome Unit :=\n  " + literal_step + "\n\n"
    out += SKELETONS
    out += "/-- the body of the `while` loop of `DLTypeContext.assert_context` for the queue entry `e` -/\n"
    out += "def tensorBody (acc : Acc) (σ : Scope) (registered : List Name) (e : Entry) : Outcome CState :=\n  " + tensor_body + "\n\n"
    out += QUEUE_SKELETON
    out += "/-- `value is None` -/\ndef _root_.Dltype.Value.isNoneV : Value → Bool\n  | .none => true\n  | _ => false\n\n"
    out += "/-- the body of the loop of `DLTypeContext.add`: what (if anything) is appended to the queue for position `idx` -/\n"
    out += "def addStep (name : Name) (idx : Nat) (a : Option Ann) (v : Value) : Outcome (Option Entry) :=\n  let appended : Option Entry := none\n  " + add_step + "\n\n"
    out += ADD_SKELETON
    out += EXPAND_HELPERS
    out += "/-- the body of the loop of `_ConcreteType.get_expected_shape`: insert the literal for position `i` of the marker -/\n"
    out += "def expandStep (e : Entry) (mi : Nat) (i : Nat) (l : List DimExpr) : Outcome (List DimExpr) :=\n  " + expand_step + "\n\n"
    out += EXPAND_SKELETON
    out += "/-- `_ConcreteType.get_expected_shape(tensor)` -/\ndef expand (e : Entry) : Outcome (List DimExpr) :=\n" + expand_text + "\n"
    out += "end Dltype.Gen\n"
    return out


# =====================================================================================================================
# DLTypeDimensionExpression.evaluate  ->  Generated/EvalLoop.lean
# =====================================================================================================================
#
# A Python list used as a stack is rendered with its top at the head of a Lean list:
#   stack.append(x) = x :: stack     x = stack.pop() = uncons (IndexError on [])     len(stack) = stack.length
#   stack[0] (the bottom) = stack.getLast?          (only read after `len(stack) != 1` was excluded)
# The result type of one loop iteration is `Except EvalResult (List Int)`: `.error r` = evaluation stops with r.

EVAL_SKELETON = """/-- loop skeleton (fixed text): `for token in self.parsed_expression` -/
def evalLoop : List PItem → List Int → Scope → Except EvalResult (List Int)
  | [], stack, _ => .ok stack
  | token :: rest, stack, σ =>
    match evalStep token stack σ with
    | .ok stack' => evalLoop rest stack' σ
    | .error r => .error r

"""

OPNAME = """/-- enum member name of a model operator (fixed text; the symbols are tied to the source by `Tables.operator_symbols`) -/
def opName : Op → String
  | .bin .add => "ADD" | .bin .sub => "SUB" | .bin .mul => "MUL" | .bin .exp => "EXP" | .bin .div => "DIV"
  | .fn .min => "MIN" | .fn .max => "MAX" | .fn .isqrt => "ISQRT"

/-- the value of an operator method: `none` = it fell through to `raise NotImplementedError` -/
def opResult : Option Py.R → EvalResult
  | some r => r
  | none => .unmodelled

"""


class EvalComp:
    def __init__(self):
        self.c = Comp(None)

    def cond(self, e, env) -> str:
        h: list = []
        t = self.c.to_bool(self.c.expr(e, env, h))
        if h:
            raise TErr(f"partial operation inside the condition `{_src(e)}`")
        return t

    def raise_text(self, s: ast.Raise) -> str:
        exc = s.exc
        name = exc.func.id if isinstance(exc, ast.Call) and isinstance(exc.func, ast.Name) else (exc.id if isinstance(exc, ast.Name) else None)
        m = {"ValueError": ".valueError", "TypeError": ".typeError", "IndexError": ".indexError", "ZeroDivisionError": ".zeroDivision"}
        if name not in m:
            raise TErr(f"raise of `{_src(exc)}`")
        return f".pyExc {m[name]}"

    def value(self, e, env, locs) -> tuple[str, str]:
        """an expression pushed on the stack: (kind, text); kind 'int' = a plain integer, 'res' = an EvalResult"""
        if isinstance(e, ast.Name) and e.id in locs:
            return "int", locs[e.id]
        if isinstance(e, ast.Subscript) and _src(e.value) == "scope" and isinstance(e.slice, ast.Name) and e.slice.id in locs and locs[e.slice.id].startswith("NAME:"):
            return "lookup", locs[e.slice.id][5:]
        if isinstance(e, ast.Call) and isinstance(e.func, ast.Attribute) and isinstance(e.func.value, ast.Name) and locs.get(e.func.value.id, "").startswith("OP:") and not e.keywords:
            o = locs[e.func.value.id][3:]
            args = []
            for a in e.args:
                k, t = self.value(a, env, locs)
                if k != "int":
                    raise TErr(f"operand `{_src(a)}`")
                args.append(t)
            if e.func.attr == "evaluate_unary" and len(args) == 1:
                return "res", f"opResult (evaluateUnary (opName {o}) {args[0]})"
            if e.func.attr == "evaluate" and len(args) == 2:
                return "res", f"opResult (evaluate (opName {o}) {args[0]} {args[1]})"
        raise TErr(f"pushed value `{_src(e)}`")

    def body(self, stmts, i, env, locs, ind) -> str:
        """statements of one loop iteration; falling off the end / `continue` = `.ok stack`"""
        if i == len(stmts):
            return ".ok stack"
        s = stmts[i]
        if isinstance(s, ast.Expr) and isinstance(s.value, ast.Constant):
            return self.body(stmts, i + 1, env, locs, ind)
        if isinstance(s, ast.Continue):
            return ".ok stack"
        if isinstance(s, ast.Raise):
            return f".error ({self.raise_text(s)})"
        if isinstance(s, ast.Assign) and len(s.targets) == 1 and isinstance(s.targets[0], ast.Name) and isinstance(s.value, ast.Constant) and isinstance(s.value.value, str):
            return self.body(stmts, i + 1, env, locs, ind)  # msg = "..."
        if isinstance(s, ast.Assign) and len(s.targets) == 1 and isinstance(s.targets[0], ast.Name) and isinstance(s.value, ast.JoinedStr):
            return self.body(stmts, i + 1, env, locs, ind)  # msg = f"..."
        if isinstance(s, ast.Assign) and len(s.targets) == 1 and isinstance(s.targets[0], ast.Name) and _src(s.value) == "stack.pop()":
            x = s.targets[0].id
            l2 = dict(locs)
            l2[x] = x
            return f"match stack with\n{ind}| [] => .error (.pyExc .indexError)\n{ind}| {x} :: stack =>\n{ind}  " + P(self.body(stmts, i + 1, env, l2, ind + "  "))
        if isinstance(s, ast.Expr) and isinstance(s.value, ast.Call) and _src(s.value.func) == "stack.append" and len(s.value.args) == 1:
            k, t = self.value(s.value.args[0], env, locs)
            rest = P(self.body(stmts, i + 1, env, locs, ind + "  "))
            if k == "int":
                return f"let stack := {t} :: stack\n{ind}" + self.body(stmts, i + 1, env, locs, ind)
            if k == "lookup":
                return f"match σ.get? {t} with\n{ind}| none => .error (.keyError {t})\n{ind}| some v =>\n{ind}  (let stack := v :: stack\n{ind}  " + self.body(stmts, i + 1, env, locs, ind + "  ") + ")"
            return f"match {t} with\n{ind}| .val v =>\n{ind}  (let stack := v :: stack\n{ind}  " + self.body(stmts, i + 1, env, locs, ind + "  ") + f")\n{ind}| r => .error r"
        if isinstance(s, ast.If):
            t = s.test
            # `token in _unary_functions`
            if isinstance(t, ast.Compare) and len(t.ops) == 1 and isinstance(t.ops[0], (ast.In, ast.NotIn)) and isinstance(t.left, ast.Name) and locs.get(t.left.id, "").startswith("OP:") \
                    and isinstance(t.comparators[0], ast.Name) and t.comparators[0].id in ("_unary_functions", "_binary_functions", "_functional_operators", "_infix_operators"):
                setname = {"_unary_functions": "unaryFunctions", "_binary_functions": "binaryFunctions", "_functional_operators": "functionalOperators", "_infix_operators": "infixOperators"}[t.comparators[0].id]
                c = f"{setname}.contains (opName {locs[t.left.id][3:]})"
                if isinstance(t.ops[0], ast.NotIn):
                    c = f"!({c})"
            else:
                raise TErr(f"condition `{_src(t)}` inside the evaluation loop")
            b = self.body(list(s.body) + stmts[i + 1:], 0, env, locs, ind + "  ") if not self.ends(s.body) else self.body(s.body, 0, env, locs, ind + "  ")
            o = self.body(list(s.orelse) + stmts[i + 1:], 0, env, locs, ind + "  ")
            return f"if {c} then\n{ind}  {P(b)}\n{ind}else\n{ind}  {P(o)}"
        raise TErr(f"statement `{_src(s)[:100]}` inside the evaluation loop")

    @staticmethod
    def ends(stmts) -> bool:
        return bool(stmts) and isinstance(stmts[-1], (ast.Continue, ast.Raise, ast.Return))


def gen_eval(lib_dir: str, header: str) -> str:
    with open(os.path.join(lib_dir, "_parser.py")) as fh:
        mod = ast.parse(fh.read(), filename="_parser.py")
    f = _find_method(mod, "DLTypeDimensionExpression", "evaluate")
    if [a.arg for a in f.args.args] != ["self", "scope"]:
        raise TErr("evaluate: parameters")
    body = [s for s in _strip(f.body) if not (isinstance(s, ast.Expr) and isinstance(s.value, ast.Call) and _src(s.value.func).startswith("_logger."))]
    ec = EvalComp()
    env = Env()
    env.objs["self"] = Obj("dim", "d")
    env.vars["scope"] = V("σ", "Scope")
    # prologue
    if not (body and isinstance(body[0], ast.AnnAssign) and _src(body[0].target) == "stack" and _src(body[0].value) == "[]"):
        raise TErr("evaluate: expected `stack: list[int] = []` first")
    loop_i = next((i for i, s in enumerate(body) if isinstance(s, ast.For)), None)
    if loop_i is None:
        raise TErr("evaluate: no loop")
    pro, loop, epi = body[1:loop_i], body[loop_i], body[loop_i + 1:]
    lines = []
    for s in pro:
        if not isinstance(s, ast.If) or s.orelse:
            raise TErr(f"evaluate: statement before the loop `{_src(s)[:80]}`")
        c = ec.cond(s.test, env)
        inner = [x for x in s.body if not (isinstance(x, ast.Assign) and isinstance(x.value, (ast.Constant, ast.JoinedStr)))]
        if len(inner) == 1 and isinstance(inner[0], ast.Raise):
            lines.append(f"if {c} then {ec.raise_text(inner[0])} else")
        elif len(inner) == 1 and isinstance(inner[0], ast.Return) and isinstance(inner[0].value, ast.Subscript) and _src(inner[0].value.value) == "scope":
            k = ec.c.expr(inner[0].value.slice, env, [])
            if not (isinstance(k, V) and k.ty == "Name"):
                raise TErr(f"evaluate: `{_src(inner[0])}`")
            lines.append(f"if {c} then (match σ.get? {k.text} with | some v => .val v | none => .keyError {k.text}) else")
        else:
            raise TErr(f"evaluate: statement before the loop `{_src(s)[:80]}`")
    if not (isinstance(loop.target, ast.Name) and _src(loop.iter) == "self.parsed_expression" and not loop.orelse):
        raise TErr("evaluate: the loop is not `for token in self.parsed_expression`")
    tok = loop.target.id
    # the isinstance chain
    chain = []
    node = loop.body
    while True:
        node = [x for x in node if not (isinstance(x, ast.Expr) and isinstance(x.value, ast.Constant))]
        if len(node) == 1 and isinstance(node[0], ast.If) and isinstance(node[0].test, ast.Call) and _src(node[0].test.func) == "isinstance" \
                and _src(node[0].test.args[0]) == tok:
            chain.append((_src(node[0].test.args[1]), node[0].body))
            node = node[0].orelse
        else:
            break
    if sorted(k for k, _ in chain) != ["_DLTypeOperator", "int", "str"]:
        raise TErr("evaluate: the loop body is not an isinstance chain over int / str / _DLTypeOperator: " + ", ".join(k for k, _ in chain))
    inner = [x for x in node if not (isinstance(x, ast.Assign) and isinstance(x.value, (ast.Constant, ast.JoinedStr)))]
    if not (len(inner) == 1 and isinstance(inner[0], ast.Raise)):
        raise TErr("evaluate: the final else of the isinstance chain does not raise")
    arms = {}
    for k, b in chain:
        if k == "int":
            arms["int"] = ec.body(b, 0, env, {tok: "(Int.ofNat n)"}, "    ")
        elif k == "str":
            arms["str"] = ec.body(b, 0, env, {tok: "NAME:x"}, "    ")
        else:
            arms["op"] = ec.body(b, 0, env, {tok: "OP:o"}, "    ")
    # epilogue
    epi = [s for s in epi]
    if not (len(epi) == 2 and isinstance(epi[0], ast.If) and not epi[0].orelse and isinstance(epi[1], ast.Return) and _src(epi[1].value) == "stack[0]"):
        raise TErr("evaluate: statements after the loop")
    t = epi[0].test
    if not (isinstance(t, ast.Compare) and _src(t.left) == "len(stack)" and len(t.ops) == 1 and isinstance(t.comparators[0], ast.Constant) and isinstance(t.comparators[0].value, int)):
        raise TErr(f"evaluate: `{_src(t)}`")
    sym = {ast.NotEq: "≠", ast.Eq: "=", ast.Lt: "<", ast.Gt: ">", ast.LtE: "≤", ast.GtE: "≥"}.get(type(t.ops[0]))
    inner = [x for x in epi[0].body if not (isinstance(x, ast.Assign) and isinstance(x.value, (ast.Constant, ast.JoinedStr)))]
    if sym is None or not (len(inner) == 1 and isinstance(inner[0], ast.Raise)):
        raise TErr("evaluate: the stack-size test")
    out = header
    out += "import DltypeModel.Eval\nimport DltypeModel.PyPrims\nimport DltypeModel.Generated.ParserTables\nimport DltypeModel.Generated.OpSemantics\nset_option linter.unusedVariables false\nnamespace Dltype.Gen\nopen Dltype\n\n"
    out += OPNAME
    out += "/-- one iteration of the loop of `DLTypeDimensionExpression.evaluate` (stack top at the head) -/\n"
    out += "def evalStep (token : PItem) (stack : List Int) (σ : Scope) : Except EvalResult (List Int) :=\n  match token with\n"
    out += f"  | .int n =>\n    {arms['int']}\n  | .str x =>\n    {arms['str']}\n  | .op o =>\n    {arms['op']}\n\n"
    out += EVAL_SKELETON
    out += "/-- `DLTypeDimensionExpression.evaluate(scope)` -/\n"
    out += "def evaluateDim (d : DimExpr) (σ : Scope) : EvalResult :=\n"
    for l in lines:
        out += "  " + l + "\n"
    out += "  match evalLoop d.post [] σ with\n  | .error r => r\n  | .ok stack =>\n"
    out += f"    if decide (stack.length {sym} {t.comparators[0].value}) then {ec.raise_text(inner[0])} else\n"
    out += "    match stack.getLast? with\n    | some v => .val v\n    | none => .pyExc .indexError\n\n"
    out += "end Dltype.Gen\n"
    return out


# =====================================================================================================================
# the wrapper of `dltyped`  ->  Generated/Wrapper.lean
# =====================================================================================================================
#
# State threaded through the statements: σ (ctx.tensor_shape_map), registered (keys of ctx.registered_tensor_dtypes),
# queue (ctx._hinted_tensors), calls (how often the wrapped function was invoked), checked (an `assert_context` had
# completed when it was invoked).  A call through the wrapper ends in a `CallTrace`.
# Leaf expressions are read through a table (`LEAVES`): the objects of the wrapper (the provider argument, the bound
# arguments, the resolved hints) are the abstract `Provider`, `args`, `allHints d` of the model.

LEAVES = {
    "scope_provider == 'self'": "prov.isSelf",
    "isinstance(actual_args[str(scope_provider)], DLTypeScopeProvider)": "prov.selfImplements",
    "scope_provider is not None": "prov.given",
    "isinstance(scope_provider, DLTypeScopeProvider)": "prov.objImplements",
    "name == return_key": "decide (name = kwReturn)",
    "name in {'self', 'cls'}": "(decide (name = kwSelf) || decide (name = kwCls))",
}
SCOPES = {
    "dict(actual_args[str(scope_provider)].get_dltype_scope())": "prov.selfScope",
    "dict(scope_provider.get_dltype_scope())": "prov.objScope",
}

WRAP_HEADER = """/-- the resolved hints in the order of `typing.get_type_hints`: parameters, then `return` -/
def retHints (d : FuncDecl) : List (Name × HintAnns) :=
  match d.ret with | some h => [(kwReturn, h)] | none => []

def allHints (d : FuncDecl) : List (Name × HintAnns) := d.params ++ retHints d

/-- `dltype_hints.get(name)` -/
def lookupHint : List (Name × HintAnns) → Name → Option HintAnns
  | [], _ => none
  | (k, h) :: rest, n => if k = n then some h else lookupHint rest n

def _root_.Dltype.Provider.isSelf : Provider → Bool | .self _ => true | _ => false
def _root_.Dltype.Provider.given : Provider → Bool | .absent => false | _ => true
def _root_.Dltype.Provider.selfImplements : Provider → Bool | .self (some _) => true | _ => false
def _root_.Dltype.Provider.objImplements : Provider → Bool | .obj (some _) => true | _ => false
def _root_.Dltype.Provider.selfScope : Provider → Scope | .self (some σ) => σ | _ => []
def _root_.Dltype.Provider.objScope : Provider → Scope | .obj (some σ) => σ | _ => []

/-- how a failed check ends the call (the `except DLTypeError as e: e.set_context(...); raise` handler re-raises the same error) -/
def failEnd (calls : Nat) (checked : Bool) : Outcome CState → CallTrace
  | .ok _ => { bodyCalls := calls, argsCheckedBeforeBody := checked, result := .unmodelled }
  | .reject r => { bodyCalls := calls, argsCheckedBeforeBody := checked, result := .rejected r }
  | .pyExc e => { bodyCalls := calls, argsCheckedBeforeBody := checked, result := .pyExc e }
  | .unmodelled => { bodyCalls := calls, argsCheckedBeforeBody := checked, result := .unmodelled }

def failAdd (calls : Nat) (checked : Bool) : Outcome (List Entry) → CallTrace
  | .ok _ => { bodyCalls := calls, argsCheckedBeforeBody := checked, result := .unmodelled }
  | .reject r => { bodyCalls := calls, argsCheckedBeforeBody := checked, result := .rejected r }
  | .pyExc e => { bodyCalls := calls, argsCheckedBeforeBody := checked, result := .pyExc e }
  | .unmodelled => { bodyCalls := calls, argsCheckedBeforeBody := checked, result := .unmodelled }

"""

HINT_SKELETON = """/-- loop skeleton (fixed text): `for name in (n for n in signature.parameters if n in dltype_hints)` — the entries each
    iteration queues, in order -/
def hintLoop (hints : List (Name × HintAnns)) (args : List (Name × Value)) : List (Name × HintAnns) → Outcome (List Entry)
  | [] => .ok []
  | (name, _) :: rest =>
    match hintStep hints args name with
    | .ok es =>
      match hintLoop hints args rest with
      | .ok es' => .ok (es ++ es')
      | r => r
    | r => r

"""


class WrapComp:
    def end(self, result: str) -> str:
        return f"{{ bodyCalls := calls, argsCheckedBeforeBody := checked, result := {result} }}"

    def cond(self, e) -> str:
        if isinstance(e, ast.BoolOp):
            op = " && " if isinstance(e.op, ast.And) else " || "
            return "(" + op.join(self.cond(v) for v in e.values) + ")"
        if isinstance(e, ast.UnaryOp) and isinstance(e.op, ast.Not):
            return f"(!{self.cond(e.operand)})"
        t = LEAVES.get(_src(e))
        if t is None:
            raise TErr(f"wrapper: condition `{_src(e)}`")
        return t

    # ---- the loop over the hints: one iteration -> Outcome (List Entry) -------------------------------------------
    def hint_block(self, stmts, i, ind) -> str:
        if i == len(stmts):
            return ".ok []"
        s = stmts[i]
        if isinstance(s, ast.Continue):
            return ".ok []"
        if isinstance(s, ast.Assign) and isinstance(s.value, (ast.Constant, ast.JoinedStr)):
            return self.hint_block(stmts, i + 1, ind)
        if isinstance(s, ast.Expr) and isinstance(s.value, ast.Call) and _src(s.value.func).startswith("_logger."):
            return self.hint_block(stmts, i + 1, ind)
        if isinstance(s, ast.Raise):
            if _src(s.exc) in ("TypeError(msg)",):
                return ".pyExc .typeError"
            raise TErr(f"wrapper: raise `{_src(s.exc)}` in the loop over the hints")
        if isinstance(s, ast.If) and isinstance(s.test, ast.NamedExpr):
            # if maybe_annotation := dltype_hints.get(name):   (a tuple of annotations: true when it is not empty)
            if _src(s.test.value) != "dltype_hints.get(name)":
                raise TErr(f"wrapper: `{_src(s.test)}`")
            x = s.test.target.id
            b = self.hint_block(s.body, 0, ind + "    ", ann=x) if False else self.hint_body_with(s.body, x, ind + "    ")
            o = self.hint_block(list(s.orelse) + stmts[i + 1:], 0, ind + "  ")
            if not self.ends_add(s.body):
                raise TErr("wrapper: the annotated branch of the loop does more than queue the value")
            rest = self.hint_block(stmts[i + 1:], 0, ind + "  ")
            if rest != ".ok []":
                raise TErr("wrapper: statements after the annotated branch of the loop")
            return (f"match lookupHint hints name with\n{ind}| none =>\n{ind}  {P(o)}\n{ind}| some {x} =>\n{ind}  (if !{x}.anns.isEmpty then\n{ind}    {P(b)}\n{ind}  else\n{ind}    {P(o)})")
        if isinstance(s, ast.If):
            c = self.cond(s.test)
            b = self.hint_block(list(s.body) + ([] if self.ends(s.body) else stmts[i + 1:]), 0, ind + "  ")
            o = self.hint_block(list(s.orelse) + stmts[i + 1:], 0, ind + "  ")
            return f"if {c} then\n{ind}  {P(b)}\n{ind}else\n{ind}  {P(o)}"
        raise TErr(f"wrapper: statement `{_src(s)[:100]}` in the loop over the hints")

    @staticmethod
    def ends(stmts) -> bool:
        return bool(stmts) and isinstance(stmts[-1], (ast.Continue, ast.Raise, ast.Return))

    @staticmethod
    def ends_add(stmts) -> bool:
        return bool(stmts) and isinstance(stmts[-1], ast.Expr) and _src(stmts[-1].value.func) == "ctx.add"

    def hint_body_with(self, stmts, x, ind) -> str:
        """tensor = actual_args[name]; ctx.add(name, _resolve_value(tensor, x), _resolve_types(x))"""
        if not (len(stmts) == 2 and _src(stmts[0]) == "tensor = actual_args[name]"
                and _src(stmts[1]) == f"ctx.add(name, _resolve_value(tensor, {x}), _resolve_types({x}))"):
            raise TErr("wrapper: the annotated branch is not `tensor = actual_args[name]; ctx.add(name, _resolve_value(tensor, h), _resolve_types(h))`: "
                       + "; ".join(_src(s) for s in stmts)[:160])
        return f"match lookupArg args name with\n{ind}| none => .unmodelled\n{ind}| some tensor => addHinted name tensor {x}"

    # ---- the statements after the loop: -> CallTrace ---------------------------------------------------------------
    def main_block(self, stmts, i, ind, retvar=None) -> str:
        if i == len(stmts):
            raise TErr("wrapper: the function falls off its end")
        s = stmts[i]

        def rest(rv=retvar):
            return self.main_block(stmts, i + 1, ind, rv)

        if isinstance(s, ast.Expr) and _src(s.value) == "ctx.assert_context()":
            return (f"match runEntries acc {{ σ := σ, registered := registered }} queue with\n{ind}| .ok st =>\n{ind}  (let σ := st.σ\n{ind}  let registered := st.registered\n"
                    f"{ind}  let queue : List Entry := []\n{ind}  let checked := calls == 0 || checked\n{ind}  " + self.main_block(stmts, i + 1, ind + "  ", retvar) + f")\n{ind}| r => failEnd calls checked r")
        if isinstance(s, ast.Assign) and len(s.targets) == 1 and isinstance(s.targets[0], ast.Name) and isinstance(s.value, ast.Call) and _src(s.value.func) == "func":
            if _src(s.value) != "func(*args, **kwargs)":
                raise TErr(f"wrapper: the wrapped function is called as `{_src(s.value)}`, not with exactly the caller's `*args, **kwargs`")
            x = s.targets[0].id
            return (f"let calls := calls + 1\n{ind}match body with\n{ind}| .raises => {self.end('.bodyRaised')}\n{ind}| .returns {x} =>\n{ind}  " + P(self.main_block(stmts, i + 1, ind + "  ", x)))
        if isinstance(s, ast.If) and isinstance(s.test, ast.NamedExpr):
            if _src(s.test.value) != "_resolve_types(dltype_hints.get(return_key))" or retvar is None:
                raise TErr(f"wrapper: `{_src(s.test)}`")
            x = s.test.target.id
            b = list(s.body)
            want = f"ctx.add(return_key, _resolve_value({retvar}, dltype_hints[return_key]), {x})"
            if not (b and _src(b[0]) == want):
                raise TErr(f"wrapper: the return branch does not start with `{want}`")
            # the else branch may only warn
            for o in s.orelse:
                if not (isinstance(o, ast.If) and not o.orelse and all(isinstance(z, ast.Expr) and _src(z.value.func) == "warnings.warn" for z in o.body)):
                    raise TErr(f"wrapper: the branch without a return hint does more than warn: `{_src(o)[:80]}`")
            after = self.main_block(stmts, i + 1, ind + "    ", retvar)
            inner = self.main_block(b[1:] + stmts[i + 1:], 0, ind + "    ", retvar)
            return (f"match (lookupHint hints kwReturn).bind (fun h => (resolveTypes h.anns).map (fun as => (h.isTuple, as))) with\n{ind}| none =>\n{ind}  {P(after)}\n"
                    f"{ind}| some (isTuple, as) =>\n{ind}  (match addReturn isTuple as {retvar} with\n{ind}  | .ok es =>\n{ind}    (let queue := queue ++ es\n{ind}    {inner})\n{ind}  | r => failAdd calls checked r)")
        if isinstance(s, ast.Return):
            if retvar is None or _src(s.value) != retvar:
                raise TErr(f"wrapper: `{_src(s)}` does not hand back the value the wrapped function returned")
            return self.end(f".returned {retvar}")
        raise TErr(f"wrapper: statement `{_src(s)[:100]}`")


def gen_wrapper(lib_dir: str, header: str) -> str:
    with open(os.path.join(lib_dir, "_core.py")) as fh:
        mod = ast.parse(fh.read(), filename="_core.py")
    w = None
    for n in ast.walk(mod):
        if isinstance(n, ast.FunctionDef) and n.name == "dltyped":
            for m in ast.walk(n):
                if isinstance(m, ast.FunctionDef) and m.name == "wrapper":
                    w = m
    if w is None:
        raise TErr("dltyped: inner function `wrapper` not found")
    if _src(w.args) != "*args: P.args, **kwargs: P.kwargs":
        raise TErr(f"wrapper: parameters `{_src(w.args)}`")
    decs = [_src(x) for x in w.decorator_list]
    if decs != ["wraps(func)", "_dependency_utilities.torch_jit_unused"]:
        raise TErr(f"wrapper: decorators {decs} (expected functools.wraps(func) outermost: name, doc, signature and __wrapped__ of the original)")
    body = [s for s in _strip(w.body) if not isinstance(s, ast.Nonlocal) and not (isinstance(s, ast.Assign) and _src(s.targets[0]) == "__tracebackhide__")]
    # prologue: hint / signature resolution, the fallback that hands the call through, argument binding
    expect = [
        "dltype_hints = _maybe_get_type_hints(dltype_hints, func)",
        "if signature is None:\n    signature = _maybe_get_signature(None, func)",
    ]
    for k, e in enumerate(expect):
        if _src(body[k]) != e:
            raise TErr(f"wrapper: statement {k}: `{_src(body[k])[:100]}`")
    fb = body[2]
    if not (isinstance(fb, ast.If) and _src(fb.test) == "signature is None or dltype_hints is None" and not fb.orelse and isinstance(fb.body[-1], ast.Return)
            and _src(fb.body[-1].value) == "func(*args, **kwargs)" and all(isinstance(z, ast.Expr) and _src(z.value.func) == "warnings.warn" for z in fb.body[:-1])):
        raise TErr("wrapper: the fallback for unresolvable hints is not `warn; return func(*args, **kwargs)`")
    expect2 = ["bound_args = signature.bind(*args, **kwargs)", "bound_args.apply_defaults()", "actual_args = bound_args.arguments", "ctx = _dltype_context.DLTypeContext()"]
    for k, e in enumerate(expect2):
        if _src(body[3 + k]) != e:
            raise TErr(f"wrapper: statement {3 + k}: `{_src(body[3 + k])[:100]}` (expected `{e}`)")
    rest = body[7:]
    if not (len(rest) == 4 and isinstance(rest[0], ast.If) and isinstance(rest[1], ast.For) and isinstance(rest[2], ast.Try) and isinstance(rest[3], ast.Return)):
        raise TErr("wrapper: expected provider chain, loop over the hints, try block, return")
    wc = WrapComp()
    # provider chain -> a Lean `if` chain that sets σ or ends the call
    chain = []
    node = rest[0]
    while True:
        c = wc.cond(node.test)
        b = [s for s in node.body if not (isinstance(s, ast.Expr) and isinstance(s.value, ast.Call) and _src(s.value.func).startswith("_logger."))]
        if len(b) == 1 and isinstance(b[0], ast.Assign) and _src(b[0].targets[0]) == "ctx.tensor_shape_map" and _src(b[0].value) in SCOPES:
            chain.append((c, "scope", SCOPES[_src(b[0].value)]))
        elif len(b) == 1 and isinstance(b[0], ast.Raise) and _src(b[0].exc) == "_errors.DLTypeScopeProviderError(bad_scope_provider=scope_provider)":
            chain.append((c, "raise", None))
        else:
            raise TErr("wrapper: provider branch `" + "; ".join(_src(s) for s in b)[:120] + "`")
        if len(node.orelse) == 1 and isinstance(node.orelse[0], ast.If):
            node = node.orelse[0]
        elif not node.orelse:
            break
        else:
            raise TErr("wrapper: the provider chain has a final else")
    loop = rest[1]
    # the parameters that carry a hint, in SIGNATURE order (`dltype_hints` itself follows `__annotations__`, where CPython lists
    # positional-only parameters after the others): read onto the declared parameters of the model's `FuncDecl`, in order
    if not (_src(loop.target) == "name" and _src(loop.iter) == "(n for n in signature.parameters if n in dltype_hints)" and not loop.orelse):
        raise TErr(f"wrapper: the loop is `for {_src(loop.target)} in {_src(loop.iter)}`, not `for name in (n for n in signature.parameters if n in dltype_hints)`")
    hint_step = wc.hint_block(loop.body, 0, "  ")
    tr = rest[2]
    if not (len(tr.handlers) == 1 and _src(tr.handlers[0].type) == "_errors.DLTypeError" and not tr.orelse and not tr.finalbody
            and isinstance(tr.handlers[0].body[-1], ast.Raise) and tr.handlers[0].body[-1].exc is None
            and all(isinstance(z, ast.Expr) and _src(z.value.func).endswith(".set_context") for z in tr.handlers[0].body[:-1])):
        raise TErr("wrapper: the try block is not `except DLTypeError as e: e.set_context(...); raise`")
    main = wc.main_block(list(tr.body) + [rest[3]], 0, "      ")

    out = header
    out += "import DltypeModel.Entry\nset_option linter.unusedVariables false\nnamespace Dltype.Gen\nopen Dltype\n\n"
    out += WRAP_HEADER
    out += "/-- one iteration of the loop over the hinted parameters in the wrapper: the entries it queues -/\n"
    out += "def hintStep (hints : List (Name × HintAnns)) (args : List (Name × Value)) (name : Name) : Outcome (List Entry) :=\n  " + hint_step + "\n\n"
    out += HINT_SKELETON
    out += "/-- everything after the provider chain: the loop over the hints, the `try` block, `return retval` -/\n"
    out += "def wrapperMain (acc : Acc) (d : FuncDecl) (args : List (Name × Value)) (body : BodyResult) (σ : Scope) : CallTrace :=\n"
    out += "  let hints := allHints d\n  let registered : List Name := []\n  let calls : Nat := 0\n  let checked : Bool := false\n"
    out += "  match hintLoop hints args d.params with\n  | .ok queue =>\n    (" + main.replace("\n      ", "\n    ") + ")\n  | r => failAdd calls checked r\n\n"
    out += "/-- one call through the wrapper of `dltyped` (after hints and signature were resolved and the arguments bound) -/\n"
    out += "def wrapperCall (acc : Acc) (d : FuncDecl) (prov : Provider) (args : List (Name × Value)) (body : BodyResult) : CallTrace :=\n"
    out += "  let calls : Nat := 0\n  let checked : Bool := false\n"
    for c, kind, t in chain:
        if kind == "scope":
            out += f"  if {c} then wrapperMain acc d args body {t} else\n"
        else:
            out += f"  if {c} then {wc.end('.rejected .scopeProvider')} else\n"
    out += "  wrapperMain acc d args body []\n\n"
    out += "end Dltype.Gen\n"
    return out


# =====================================================================================================================
# the class entry points  ->  Generated/Classes.lean
#   dltyped_namedtuple.validated_new, dltyped_dataclass.new_init, TensorTypeBase.__get_pydantic_core_schema__.validate_tensor
# =====================================================================================================================

CLASSES_HEADER = """/-- loop skeleton (fixed text): the fields in declaration order; each iteration queues entries -/
def fieldLoop (step : Name → Outcome (List Entry)) : List (Name × HintAnns) → Outcome (List Entry)
  | [] => .ok []
  | (name, _) :: rest =>
    match step name with
    | .ok es =>
      match fieldLoop step rest with
      | .ok es' => .ok (es ++ es')
      | r => r
    | r => r

/-- `dict.get(name)` on the resolved field hints -/
def lookupField : List (Name × HintAnns) → Name → Option HintAnns
  | [], _ => none
  | (k, h) :: rest, n => if k = n then some h else lookupField rest n

"""


def _inner_function(mod, outer: str, inner: str) -> ast.FunctionDef:
    for n in ast.walk(mod):
        if isinstance(n, ast.FunctionDef) and n.name == outer:
            for m in ast.walk(n):
                if isinstance(m, ast.FunctionDef) and m.name == inner:
                    return m
    raise TErr(f"{outer}: inner function `{inner}` not found")


def _try_assert(s) -> bool:
    """try: ctx.assert_context()  except DLTypeError as e: e.set_context(...); raise"""
    return (isinstance(s, ast.Try) and len(s.body) == 1 and _src(s.body[0]) == "ctx.assert_context()" and len(s.handlers) == 1 and not s.orelse and not s.finalbody
            and _src(s.handlers[0].type) == "_errors.DLTypeError" and isinstance(s.handlers[0].body[-1], ast.Raise) and s.handlers[0].body[-1].exc is None
            and all(isinstance(z, ast.Expr) and _src(z.value.func).endswith(".set_context") for z in s.handlers[0].body[:-1]))


def gen_classes(lib_dir: str, header: str) -> str:
    def parse(f):
        with open(os.path.join(lib_dir, f)) as fh:
            return ast.parse(fh.read(), filename=f)

    core, ttb = parse("_core.py"), parse("_tensor_type_base.py")
    ADD = "ctx.add(field_name, _resolve_value(value, annotation), _resolve_types(annotation))"

    # ---- NamedTuple ------------------------------------------------------------------------------------------
    f = _inner_function(core, "dltyped_namedtuple", "validated_new")
    b = _strip(f.body)
    # (the receiver is positional-only: a field called like it may be passed by keyword)
    if _src(f.args) != "cls_inner: type[NT], /, *args: Any, **kwargs: Any":
        raise TErr(f"validated_new: parameters `{_src(f.args)}`")
    if not (len(b) == 5 and _src(b[0]) == "instance = original_new(cls_inner, *args, **kwargs)" and _src(b[1]) == "ctx = _dltype_context.DLTypeContext()"
            and isinstance(b[2], ast.For) and _try_assert(b[3]) and _src(b[4]) == "return instance"):
        raise TErr("validated_new: expected `instance = original_new(cls_inner, *args, **kwargs)`, a fresh context, the loop over the fields, "
                   "`try: ctx.assert_context()`, `return instance`; got: " + " ; ".join(_src(s)[:60] for s in b))
    loop = b[2]
    if not (_src(loop.target) == "(field_name, annotation)" and _src(loop.iter) == "dltype_fields.items()" and not loop.orelse):
        raise TErr("validated_new: the loop is not `for field_name, annotation in dltype_fields.items()`")
    lb = [_src(s) for s in loop.body]
    if lb != ["field_index = cls._fields.index(field_name)", "value = instance[field_index]", ADD]:
        raise TErr("validated_new: loop body: " + " ; ".join(lb)[:200])
    nt_step = "match lookupArg vals field_name with\n  | none => .pyExc .typeError\n  | some value => addHinted field_name value annotation"

    # ---- dataclass -------------------------------------------------------------------------------------------
    f = _inner_function(core, "dltyped_dataclass", "new_init")
    b = _strip(f.body)
    if _src(f.args) != "self: DataclassT, /, *args: Any, **kwargs: Any":
        raise TErr(f"new_init: parameters `{_src(f.args)}`")
    if not (len(b) == 4 and _src(b[0]) == "original_init(self, *args, **kwargs)" and _src(b[1]) == "ctx = _dltype_context.DLTypeContext()" and isinstance(b[2], ast.For) and _try_assert(b[3])):
        raise TErr("new_init: expected `original_init(self, *args, **kwargs)`, a fresh context, the loop over the fields, `try: ctx.assert_context()`; got: "
                   + " ; ".join(_src(s)[:60] for s in b))
    loop = b[2]
    if not (_src(loop.target) == "field_name" and _src(loop.iter) == "field_hints" and not loop.orelse):
        raise TErr("new_init: the loop is not `for field_name in field_hints`")
    lb = loop.body
    if not (len(lb) == 2 and _src(lb[0]) == "annotation = dltype_hints.get(field_name)" and isinstance(lb[1], ast.If) and _src(lb[1].test) == "annotation is not None" and not lb[1].orelse
            and [_src(s) for s in lb[1].body] == ["value = getattr(self, field_name, None)", ADD]):
        raise TErr("new_init: loop body: " + " ; ".join(_src(s) for s in lb)[:200])
    dc_step = ("match lookupField fields field_name with\n  | none => .ok []\n  | some annotation =>\n    (match lookupArg vals field_name with\n"
               "    | none => .pyExc .typeError\n    | some value => addHinted field_name value annotation)")

    # ---- pydantic --------------------------------------------------------------------------------------------
    f = _inner_function(ttb, "__get_pydantic_core_schema__", "validate_tensor")
    b = [s for s in _strip(f.body) if not (isinstance(s, ast.Assign) and _src(s.targets[0]) == "__tracebackhide__")]
    want = [
        "self.check(tensor, info.field_name or 'anonymous')",
        "if _constants.PYDANTIC_INFO_KEY not in info.data:\n    info.data[_constants.PYDANTIC_INFO_KEY] = _dltype_context.DLTypeContext()",
        "dl_context = typing.cast('_dltype_context.DLTypeContext', info.data[_constants.PYDANTIC_INFO_KEY])",
        "dl_context.add(info.field_name or '_unknown_', (tensor,), (self,))",
        "dl_context.assert_context()",
        "return tensor",
    ]
    got = [_src(s) for s in b]
    if got != want:
        k = next((i for i, (x, y) in enumerate(zip(got, want)) if x != y), min(len(got), len(want)))
        raise TErr(f"validate_tensor: statement {k}: `{(got[k] if k < len(got) else '<missing>')[:120]}` (expected `{want[k] if k < len(want) else '<nothing>'}`)")

    out = header
    out += "import DltypeModel.Entry\nset_option linter.unusedVariables false\nnamespace Dltype.Gen\nopen Dltype\n\n"
    out += CLASSES_HEADER
    out += "/-- one iteration of the field loop of `validated_new` (NamedTuple) -/\n"
    out += "def ntFieldStep (vals : List (Name × Value)) (fields : List (Name × HintAnns)) (field_name : Name) (annotation : HintAnns) : Outcome (List Entry) :=\n  " + nt_step + "\n\n"
    out += "/-- one iteration of the field loop of `new_init` (dataclass) -/\n"
    out += "def dcFieldStep (vals : List (Name × Value)) (fields : List (Name × HintAnns)) (field_name : Name) : Outcome (List Entry) :=\n  " + dc_step + "\n\n"
    out += """/-- loop skeleton (fixed text): `for field_name, annotation in dltype_fields.items()` -/
def ntLoop (vals : List (Name × Value)) (fields : List (Name × HintAnns)) : List (Name × HintAnns) → Outcome (List Entry)
  | [] => .ok []
  | (name, annotation) :: rest =>
    match ntFieldStep vals fields name annotation with
    | .ok es =>
      match ntLoop vals fields rest with
      | .ok es' => .ok (es ++ es')
      | r => r
    | r => r

/-- `validated_new`: the instance is built by the original `__new__` with the caller's arguments, every hinted field is queued
    on a fresh context, ONE `assert_context`, the instance is returned -/
def ntConstruct (acc : Acc) (fields : List (Name × HintAnns)) (vals : List (Name × Value)) : Outcome CState :=
  match ntLoop vals fields fields with
  | .ok queue => runEntries acc {} queue
  | .reject r => .reject r
  | .pyExc e => .pyExc e
  | .unmodelled => .unmodelled

/-- `new_init`: the original `__init__` with the caller's arguments, every hinted field queued on a fresh context, ONE
    `assert_context` -/
def dcConstruct (acc : Acc) (fields : List (Name × HintAnns)) (vals : List (Name × Value)) : Outcome CState :=
  match fieldLoop (dcFieldStep vals fields) fields with
  | .ok queue => runEntries acc {} queue
  | .reject r => .reject r
  | .pyExc e => .pyExc e
  | .unmodelled => .unmodelled

/-- `validate_tensor` (pydantic, one call per annotated field): the standalone check, then the context kept in the validation's
    data (created when absent), `add`, `assert_context`; the tensor itself is returned -/
def pydField (acc : Acc) (data : Option CState) (name : Name) (ann : Ann) (t : Tensor) : Outcome CState :=
  match check acc ann t name with
  | .error r => .reject r
  | .ok () =>
    let st : CState := match data with | some st => st | none => {}
    match addGo name 0 [some ann] [.tensor t] with
    | .ok es => runEntries acc st es
    | .reject r => .reject r
    | .pyExc e => .pyExc e
    | .unmodelled => .unmodelled

"""
    out += "end Dltype.Gen\n"
    return out


# =====================================================================================================================
# _tokenize_string_expr and _assert_token_list_valid  ->  Generated/TokLoop.lean
# =====================================================================================================================
#
# `_span_to_tok` and `_span_to_str_or_int` are compiled too (over the regenerated value tables of the three enums). Leaves: a token is an `int` / `str` / operator / group token /
# specifier exactly when the model token is `.int` / `.str` / `.bin`,`.fn` / `.lp`,`.rp`,`.comma` / `.eq`.

TOK_HEADER = """/-- enum member name of an operator token (fixed text) -/
def tokOpName : Tok → Option String
  | .bin .add => some "ADD" | .bin .sub => some "SUB" | .bin .mul => some "MUL" | .bin .exp => some "EXP" | .bin .div => some "DIV"
  | .fn .min => some "MIN" | .fn .max => some "MAX" | .fn .isqrt => some "ISQRT"
  | _ => none

def tokIn (set : List String) (t : Tok) : Bool :=
  match tokOpName t with
  | some n => set.contains n
  | none => false

def _root_.Dltype.Tok.isStrOrInt : Tok → Bool | .str _ => true | .int _ => true | _ => false
def _root_.Dltype.Tok.isStr : Tok → Bool | .str _ => true | _ => false
def _root_.Dltype.Tok.isGroup : Tok → Bool | .lp => true | .rp => true | .comma => true | _ => false

"""


SPAN_ENUMS = {"_DLTypeOperator": "operatorValues", "_DLTypeSpecifier": "specifierValues", "_DLTypeGroupToken": "groupValues"}


def _enum_table(mod, cls: str) -> str:
    """`NAME = "value"` members of an enum class, in source order, values as character lists"""
    node = next((n for n in mod.body if isinstance(n, ast.ClassDef) and n.name == cls), None)
    if node is None:
        raise TErr(f"enum {cls} not found")
    items = []
    for st in node.body:
        if isinstance(st, ast.Assign) and len(st.targets) == 1 and isinstance(st.targets[0], ast.Name) and isinstance(st.value, ast.Constant) and isinstance(st.value.value, str):
            v = st.value.value
            if not all(32 < ord(ch) < 127 and ch not in "'\\" for ch in v):
                raise TErr(f"enum {cls}.{st.targets[0].id}: value {v!r}")
            items.append(f"({_lstr(st.targets[0].id)}, [" + ", ".join(f"'{ch}'" for ch in v) + "])")
        elif isinstance(st, ast.Assign):
            raise TErr(f"enum {cls}: member `{_src(st)[:60]}`")
    return "[" + ", ".join(items) + "]"


def _gen_span_helpers(fn, mod) -> str:
    """`_span_to_tok` (the three value maps and the order of its `or` chain) and `_span_to_str_or_int`"""
    f = fn("_span_to_tok")
    if [a.arg for a in f.args.args] != ["character"]:
        raise TErr("_span_to_tok: parameters")
    b = _strip(f.body)
    loc = {}
    for s in b[:-1]:
        v = s.value if isinstance(s, ast.Assign) and len(s.targets) == 1 and isinstance(s.targets[0], ast.Name) else None
        if isinstance(v, ast.Call) and _src(v.func) == "typing.cast" and len(v.args) == 2:
            v = v.args[1]
        ok = isinstance(v, ast.Call) and isinstance(v.func, ast.Attribute) and v.func.attr == "get" and [_src(a) for a in v.args] == ["character"] and not v.keywords \
            and isinstance(v.func.value, ast.Attribute) and v.func.value.attr == "_value2member_map_" and _src(v.func.value.value) in SPAN_ENUMS
        if not ok:
            raise TErr(f"_span_to_tok: statement `{_src(s)[:100]}`")
        loc[s.targets[0].id] = f"((memberOf {SPAN_ENUMS[_src(v.func.value.value)]} character).bind tokOfMember)"
    r = b[-1]
    if not (isinstance(r, ast.Return) and isinstance(r.value, ast.BoolOp) and isinstance(r.value.op, ast.Or) and all(isinstance(x, ast.Name) and x.id in loc for x in r.value.values)):
        raise TErr(f"_span_to_tok: `{_src(r)[:100]}`")
    chain = " <|> ".join(loc[x.id] for x in r.value.values)
    g = fn("_span_to_str_or_int")
    gb = _strip(g.body)
    if [a.arg for a in g.args.args] != ["span"] or [_src(x) for x in gb] != ["if span.isnumeric():\n    return int(span)", "return span"]:
        raise TErr("_span_to_str_or_int: " + " ; ".join(_src(x)[:60] for x in gb))
    tables = "".join(f"/-- members of `{c}` with their values -/\ndef {t} : List (String × List Char) := {_enum_table(mod, c)}\n" for c, t in SPAN_ENUMS.items())
    return tables + f"""
/-- `Enum._value2member_map_.get(s)`: the name of the member whose value is `s` -/
def memberOf (enum : List (String × List Char)) (s : List Char) : Option String :=
  (enum.find? (fun p => p.2 == s)).map (·.1)

/-- the model's token for an enum member (fixed text: the naming of `Tok`) -/
def tokOfMember : String → Option Tok
  | "ADD" => some (.bin .add) | "SUB" => some (.bin .sub) | "MUL" => some (.bin .mul) | "EXP" => some (.bin .exp) | "DIV" => some (.bin .div)
  | "MIN" => some (.fn .min) | "MAX" => some (.fn .max) | "ISQRT" => some (.fn .isqrt)
  | "EQUALS" => some .eq | "LPAREN" => some .lp | "RPAREN" => some .rp | "COMMA" => some .comma
  | _ => none

/-- `_span_to_tok(character)`: enum members are truthy, so `a or b or c` is the first that is not None -/
def spanToTok (character : List Char) : Option Tok :=
  {chain}

/-- `_span_to_str_or_int(span)` (`str.isnumeric` on printable ASCII: non-empty and all digits) -/
def spanToStrOrInt (span : List Char) : Tok :=
  if !span.isEmpty && span.all isDigit then .int (digitsToNat span) else .str span

/-- `_span_to_tok(current_span) or _span_to_str_or_int(current_span)` -/
def spanFlush (current_span : List Char) : Tok :=
  match spanToTok current_span with
  | some t => t
  | none => spanToStrOrInt current_span

"""


def gen_tokloop(lib_dir: str, header: str) -> str:
    with open(os.path.join(lib_dir, "_parser.py")) as fh:
        mod = ast.parse(fh.read(), filename="_parser.py")

    def fn(name):
        f = next((n for n in mod.body if isinstance(n, ast.FunctionDef) and n.name == name), None)
        if f is None:
            raise TErr(f"{name} not found")
        return f

    # ---- _assert_token_list_valid ----------------------------------------------------------------------------
    f = fn("_assert_token_list_valid")
    body = _strip(f.body)
    conds = {
        "len(tokenized) == 0": "ts.isEmpty",
        "len(tokenized) == 1 and isinstance(tokenized[0], str | int)": "(match ts with | [t] => t.isStrOrInt | _ => false)",
        "len(tokenized) == 2 and tokenized[0] == _DLTypeOperator.MUL and isinstance(tokenized[1], str)": "(match ts with | [a, b] => a == Tok.bin .mul && b.isStr | _ => false)",
    }
    pro = []
    i = 0
    while i < len(body) and isinstance(body[i], ast.If):
        s = body[i]
        c = conds.get(_src(s.test))
        if c is None or s.orelse:
            raise TErr(f"_assert_token_list_valid: condition `{_src(s.test)}`")
        inner = [x for x in s.body if not (isinstance(x, ast.Assign) and isinstance(x.value, (ast.Constant, ast.JoinedStr)))]
        if len(inner) == 1 and isinstance(inner[0], ast.Raise) and _src(inner[0].exc).startswith("SyntaxError"):
            pro.append((c, "false"))
        elif len(inner) == 1 and isinstance(inner[0], ast.Return) and inner[0].value is None:
            pro.append((c, "true"))
        else:
            raise TErr(f"_assert_token_list_valid: branch `{_src(s)[:80]}`")
        i += 1
    rest = body[i:]
    if not (len(rest) == 4 and isinstance(rest[0], ast.Assign) and isinstance(rest[1], ast.Assign) and isinstance(rest[2], ast.For) and isinstance(rest[3], ast.If)):
        raise TErr("_assert_token_list_valid: expected two counters, the loop, the final comparison")
    ctr = {}
    for a in rest[:2]:
        if not (isinstance(a.targets[0], ast.Name) and isinstance(a.value, ast.Constant) and isinstance(a.value.value, int)):
            raise TErr(f"_assert_token_list_valid: `{_src(a)}`")
        ctr[a.targets[0].id] = a.value.value
    names = list(ctr)
    loop = rest[2]
    if not (_src(loop.iter) in ("reversed(tokenized)", "tokenized") and isinstance(loop.target, ast.Name) and not loop.orelse):
        raise TErr("_assert_token_list_valid: the loop is not over the tokens")
    tok = loop.target.id
    tconds = {
        f"{tok} in _unary_functions": "tokIn unaryFunctions tok",
        f"{tok} in _binary_functions | _infix_operators": "(tokIn binaryFunctions tok || tokIn infixOperators tok)",
        f"{tok} in _infix_operators | _binary_functions": "(tokIn infixOperators tok || tokIn binaryFunctions tok)",
        f"isinstance({tok}, str | int)": "tok.isStrOrInt",
        f"isinstance({tok}, _DLTypeGroupToken)": "tok.isGroup",
    }

    def step(stmts) -> str:
        """statements of one branch: counter updates / continue / raise"""
        upd = {n: 0 for n in names}
        for s in stmts:
            if isinstance(s, ast.AugAssign) and isinstance(s.target, ast.Name) and s.target.id in upd and isinstance(s.op, ast.Add) and isinstance(s.value, ast.Constant):
                upd[s.target.id] += s.value.value
            elif isinstance(s, ast.Continue):
                break
            elif isinstance(s, ast.Raise) and _src(s.exc).startswith("SyntaxError"):
                return ".error .syntax"
            else:
                raise TErr(f"_assert_token_list_valid: statement `{_src(s)}` in the loop")
        return f".ok ({names[0]} + {upd[names[0]]}, {names[1]} + {upd[names[1]]})"

    node = loop.body
    branches = []
    while True:
        node = [x for x in node if not (isinstance(x, ast.Expr) and isinstance(x.value, ast.Constant))]
        if len(node) == 1 and isinstance(node[0], ast.If):
            c = tconds.get(_src(node[0].test))
            if c is None:
                raise TErr(f"_assert_token_list_valid: condition `{_src(node[0].test)}`")
            branches.append((c, step(node[0].body)))
            node = node[0].orelse
        else:
            branches.append((None, step(node)))
            break
    fin = rest[3]
    if not (isinstance(fin.test, ast.Compare) and len(fin.test.ops) == 1 and isinstance(fin.test.ops[0], (ast.NotEq, ast.Eq)) and {_src(fin.test.left), _src(fin.test.comparators[0])} == set(names)
            and not fin.orelse and len(fin.body) == 1 and isinstance(fin.body[0], ast.Raise) and _src(fin.body[0].exc).startswith("SyntaxError")):
        raise TErr("_assert_token_list_valid: the final comparison")
    fin_ok = f"{names[0]} == {names[1]}" if isinstance(fin.test.ops[0], ast.NotEq) else f"{names[0]} != {names[1]}"

    # ---- _tokenize_string_expr --------------------------------------------------------------------------------
    g = fn("_tokenize_string_expr")
    gb = _strip(g.body)
    FLUSH = "return_list.append(_span_to_tok(current_span) or _span_to_str_or_int(current_span))"
    want_tail = [f"if current_span:\n    {FLUSH}", "_assert_token_list_valid(return_list)", "return return_list"]
    if not (len(gb) == 6 and _src(gb[0]).replace(": list[str | int | TokenT]", "") == "return_list = []" and _src(gb[1]) == "current_span = ''" and isinstance(gb[2], ast.For)
            and [_src(x) for x in gb[3:]] == want_tail):
        raise TErr("_tokenize_string_expr: expected `return_list = []; current_span = ''; for character in expression: ...; flush; validate; return`: "
                   + " ; ".join(_src(x)[:50] for x in gb))
    loop = gb[2]
    if not (_src(loop.target) == "character" and _src(loop.iter) == "expression" and not loop.orelse):
        raise TErr("_tokenize_string_expr: the loop is not `for character in expression`")
    lb = [x for x in loop.body]
    sp = lb[0]
    if not (len(lb) == 2 and isinstance(sp, ast.If) and _src(sp.test) == "character == ' '" and not sp.orelse
            and isinstance([x for x in sp.body if not isinstance(x, ast.Assign)][0], ast.Raise)):
        raise TErr("_tokenize_string_expr: the space test")
    tk = lb[1]
    if not (isinstance(tk, ast.If) and _src(tk.test) == "(token := _span_to_tok(character))"
            and [_src(x) for x in tk.body] == [f"if current_span:\n    {FLUSH}", "current_span = ''", "return_list.append(token)"]
            and [_src(x) for x in tk.orelse] == ["current_span += character"]):
        raise TErr("_tokenize_string_expr: the token / span branches: " + " ; ".join(_src(x)[:60] for x in [*tk.body, *tk.orelse]))

    out = header
    out += "import DltypeModel.Tokenizer\nimport DltypeModel.Generated.ParserTables\nset_option linter.unusedVariables false\nnamespace Dltype.Gen\nopen Dltype\n\n"
    out += TOK_HEADER
    out += f"/-- one iteration of the counting loop of `_assert_token_list_valid` -/\ndef countStep (tok : Tok) ({names[0]} {names[1]} : Nat) : Except ParseErr (Nat × Nat) :=\n"
    for c, r in branches:
        out += (f"  if {c} then {r} else\n" if c is not None else f"  {r}\n")
    out += f"""
/-- loop skeleton (fixed text): the tokens in any order (the loop only adds to two counters or stops) -/
def countLoop : List Tok → Nat → Nat → Except ParseErr (Nat × Nat)
  | [], a, b => .ok (a, b)
  | tok :: rest, a, b =>
    match countStep tok a b with
    | .ok (a', b') => countLoop rest a' b'
    | .error e => .error e

/-- after the loop: `if n_expected_args != n_actual_args: raise SyntaxError` (or the negation, as the source has it) -/
def countResult : Except ParseErr (Nat × Nat) → Bool
  | .error _ => false
  | .ok (NAME0, NAME1) => FINOK

/-- `_assert_token_list_valid` (true = returns normally, false = SyntaxError) -/
def tokensValid (ts : List Tok) : Bool :=
""".replace("NAME0", names[0]).replace("NAME1", names[1]).replace("FINOK", fin_ok)
    for c, r in pro:
        out += f"  if {c} then {r} else\n"
    out += f"  countResult (countLoop ts {ctr[names[0]]} {ctr[names[1]]})\n\n"
    out += _gen_span_helpers(fn, mod)
    out += """/-- one iteration of the character loop of `_tokenize_string_expr`: the token list so far and the current span -/
def tokStep (character : Char) (return_list : List Tok) (current_span : List Char) : Except ParseErr (List Tok × List Char) :=
  if character = ' ' then .error .syntax else
  match spanToTok [character] with
  | some token =>
    let return_list := if !current_span.isEmpty then return_list ++ [spanFlush current_span] else return_list
    let current_span : List Char := []
    .ok (return_list ++ [token], current_span)
  | none => .ok (return_list, current_span ++ [character])

/-- loop skeleton (fixed text): `for character in expression` -/
def tokLoop : List Char → List Tok → List Char → Except ParseErr (List Tok × List Char)
  | [], l, span => .ok (l, span)
  | c :: cs, l, span =>
    match tokStep c l span with
    | .ok (l', span') => tokLoop cs l' span'
    | .error e => .error e

/-- `_tokenize_string_expr` -/
def tokenize (expression : List Char) : Except ParseErr (List Tok) :=
  match tokLoop expression [] [] with
  | .error e => .error e
  | .ok (return_list, current_span) =>
    let return_list := if !current_span.isEmpty then return_list ++ [spanFlush current_span] else return_list
    if tokensValid return_list then .ok return_list else .error .syntax

end Dltype.Gen
"""
    return out


# =====================================================================================================================
# DLTypeDimensionExpression.__init__ (the derived flags and the self-reference test)  ->  Generated/DimFlags.lean
# =====================================================================================================================

FLAG_LEAVES = {
    "is_multiaxis_literal": "d.isMultiaxisLiteral",
    "is_named_multiaxis": "d.isNamedMultiaxis",
    "is_anonymous": "d.isAnonymous",
    "all((isinstance(token, int) for token in postfix_expression))": "d.post.all PItem.isInt",
    "postfix_expression == [identifier]": "(d.post == [PItem.str d.identifier])",
    "len(postfix_expression) > 1": "decide (d.post.length > 1)",
    "self.identifier not in postfix_expression": "(!d.post.contains (PItem.str d.identifier))",
    "self.identifier in postfix_expression": "d.post.contains (PItem.str d.identifier)",
    "self.identifier in self.parsed_expression": "d.post.contains (PItem.str d.identifier)",
    "self.identifier not in self.parsed_expression": "(!d.post.contains (PItem.str d.identifier))",
    "self.is_identifier": "isIdentifier d",
    "self.is_literal": "isLiteral d",
    "self.is_expression": "isExpression d",
}


def _flag_expr(e) -> str:
    if isinstance(e, ast.BoolOp):
        return "(" + (" && " if isinstance(e.op, ast.And) else " || ").join(_flag_expr(v) for v in e.values) + ")"
    if isinstance(e, ast.UnaryOp) and isinstance(e.op, ast.Not):
        return f"(!{_flag_expr(e.operand)})"
    t = FLAG_LEAVES.get(_src(e))
    if t is None:
        raise TErr(f"DLTypeDimensionExpression.__init__: expression `{_src(e)}`")
    return t


def gen_dimflags(lib_dir: str, header: str) -> str:
    with open(os.path.join(lib_dir, "_parser.py")) as fh:
        mod = ast.parse(fh.read(), filename="_parser.py")
    f = _find_method(mod, "DLTypeDimensionExpression", "__init__")
    if _src(f.args) != "self, identifier: str, postfix_expression: list[str | int | _DLTypeOperator], *, is_multiaxis_literal: bool=False, is_anonymous: bool=False, is_named_multiaxis: bool=False":
        raise TErr(f"DLTypeDimensionExpression.__init__: parameters `{_src(f.args)}`")
    body = [s for s in _strip(f.body) if not (isinstance(s, ast.Expr) and isinstance(s.value, ast.Call) and _src(s.value.func).startswith("_logger."))]
    plain = {"self.identifier": "identifier", "self.parsed_expression": "postfix_expression", "self.is_multiaxis_literal": "is_multiaxis_literal",
             "self.is_anonymous": "is_anonymous", "self.is_named_multiaxis": "is_named_multiaxis"}
    flags = {}
    selfref = None
    order = []
    for s in body:
        if isinstance(s, ast.Assign) and len(s.targets) == 1:
            t = _src(s.targets[0])
            if t in plain:
                if _src(s.value) != plain[t]:
                    raise TErr(f"DLTypeDimensionExpression.__init__: `{_src(s)}`")
                order.append(t)
                continue
            if t in ("self.is_literal", "self.is_identifier", "self.is_expression"):
                flags[t] = _flag_expr(s.value)
                order.append(t)
                continue
        if isinstance(s, ast.If) and not s.orelse:
            inner = [x for x in s.body if not (isinstance(x, ast.Assign) and isinstance(x.value, (ast.Constant, ast.JoinedStr)))]
            if len(inner) == 1 and isinstance(inner[0], ast.Raise) and _src(inner[0].exc).startswith("SyntaxError") and selfref is None:
                selfref = _flag_expr(s.test)
                order.append("raise")
                continue
        raise TErr(f"DLTypeDimensionExpression.__init__: statement `{_src(s)[:100]}`")
    if set(flags) != {"self.is_literal", "self.is_identifier", "self.is_expression"} or selfref is None:
        raise TErr("DLTypeDimensionExpression.__init__: the three flags and the self-reference test were not all found")
    # a flag must be assigned before it is read
    if not (order.index("self.is_literal") < order.index("self.is_expression") and order.index("self.is_identifier") < order.index("self.is_expression")
            and order.index("self.is_expression") < order.index("raise") and set(plain) <= set(order)):
        raise TErr("DLTypeDimensionExpression.__init__: order of the assignments")
    out = header
    out += "import DltypeModel.Parser\nset_option linter.unusedVariables false\nnamespace Dltype.Gen\nopen Dltype\n\n"
    out += "/-- `self.is_literal` -/\ndef isLiteral (d : DimExpr) : Bool := " + flags["self.is_literal"] + "\n\n"
    out += "/-- `self.is_identifier` -/\ndef isIdentifier (d : DimExpr) : Bool := " + flags["self.is_identifier"] + "\n\n"
    out += "/-- `self.is_expression` -/\ndef isExpression (d : DimExpr) : Bool := " + flags["self.is_expression"] + "\n\n"
    out += "/-- the condition under which the constructor raises SyntaxError -/\ndef selfRef (d : DimExpr) : Bool := " + selfref + "\n\n"
    out += "end Dltype.Gen\n"
    return out


# =====================================================================================================================
# TensorTypeBase.__init__ / _parse_shape_string  ->  Generated/ShapeLoop.lean
# =====================================================================================================================

SHAPE_HEADER = """/-- what the loop of `_parse_shape_string` keeps on `self` and in its local set -/
structure ShapeState where
  parsed : List Nat := []            -- `_multiaxis_parsed` (a set of indices; every index is added at most once)
  multiName : Option Name := none
  multiIdx : Option Nat := none
  anon : Bool := false
  deriving Repr

"""


def gen_shapeloop(lib_dir: str, header: str) -> str:
    with open(os.path.join(lib_dir, "_tensor_type_base.py")) as fh:
        mod = ast.parse(fh.read(), filename="_tensor_type_base.py")
    # ---- __init__ -------------------------------------------------------------------------------------------------
    f = _find_method(mod, "TensorTypeBase", "__init__")
    if _src(f.args) != "self, shape: str | None, *, optional: bool=False":
        raise TErr(f"TensorTypeBase.__init__: parameters `{_src(f.args)}`")
    b = [_src(s) for s in _strip(f.body)]
    want = ["self.multiaxis_index: int | None = None", "self.anonymous_multiaxis: bool = False", "self.multiaxis_name: str | None = None", "self.optional = optional",
            "self.expected_shape = self._parse_shape_string(shape)"]
    if b[:5] != want or len(b) != 6:
        raise TErr("TensorTypeBase.__init__: statements: " + " ; ".join(x[:50] for x in b))
    lit = _strip(f.body)[5]
    if not (isinstance(lit, ast.Assign) and _src(lit.targets[0]) == "self._literal_dims" and isinstance(lit.value, ast.Call) and _src(lit.value.func) == "tuple"
            and isinstance(lit.value.args[0], ast.GeneratorExp)):
        raise TErr("TensorTypeBase.__init__: `_literal_dims` is not a tuple(generator)")
    ge = lit.value.args[0]
    if not (_src(ge.elt) == "(idx, dim.evaluate({}))" and len(ge.generators) == 1 and _src(ge.generators[0].target) == "(idx, dim)"
            and _src(ge.generators[0].iter) == "enumerate(self.expected_shape)" and len(ge.generators[0].ifs) == 1):
        raise TErr(f"TensorTypeBase.__init__: `{_src(lit)[:160]}`")
    cond_leaves = {"dim.is_literal": "d.isLiteral", "idx != self.multiaxis_index": "decide (mi ≠ some i)", "idx == self.multiaxis_index": "decide (mi = some i)",
                   "dim.is_identifier": "d.isIdentifier", "dim.is_anonymous": "d.isAnonymous"}

    def cexpr(e):
        if isinstance(e, ast.BoolOp):
            return "(" + (" && " if isinstance(e.op, ast.And) else " || ").join(cexpr(v) for v in e.values) + ")"
        if isinstance(e, ast.UnaryOp) and isinstance(e.op, ast.Not):
            return f"(!{cexpr(e.operand)})"
        t = cond_leaves.get(_src(e))
        if t is None:
            raise TErr(f"TensorTypeBase.__init__: condition `{_src(e)}`")
        return t

    lit_cond = cexpr(ge.generators[0].ifs[0])

    # ---- _parse_shape_string ---------------------------------------------------------------------------------------
    g = _find_method(mod, "TensorTypeBase", "_parse_shape_string")
    gb = _strip(g.body)
    heads = [_src(s) for s in gb[:5]]
    want = ["if shape_string is None:\n    return ()", "split_shape = shape_string.split()", None, "processed_shapes: list[_parser.DLTypeDimensionExpression] = []", "_multiaxis_parsed: set[int] = set()"]
    for k, w in enumerate(want):
        if w is not None and heads[k] != w:
            raise TErr(f"_parse_shape_string: statement {k}: `{heads[k][:100]}`")
    emp = gb[2]
    if not (isinstance(emp, ast.If) and _src(emp.test) == "not split_shape" and not emp.orelse and isinstance([x for x in emp.body if not isinstance(x, ast.Assign)][0], ast.Raise)):
        raise TErr("_parse_shape_string: the empty-shape test")
    if not (len(gb) == 8 and isinstance(gb[5], ast.For) and isinstance(gb[6], ast.If) and _src(gb[7]) == "return tuple(processed_shapes)"):
        raise TErr("_parse_shape_string: expected the loop, the marker-count test, `return tuple(processed_shapes)`")
    loop = gb[5]
    if not (_src(loop.target) == "(i, dim_str)" and _src(loop.iter) == "enumerate(split_shape)" and not loop.orelse):
        raise TErr("_parse_shape_string: the loop is not `for i, dim_str in enumerate(split_shape)`")
    lb = loop.body
    if not (len(lb) == 4 and _src(lb[0]) == "expression = _parser.expression_from_string(dim_str)" and isinstance(lb[1], ast.If) and not lb[1].orelse
            and isinstance(lb[2], ast.AugAssign) and _src(lb[3]) == "processed_shapes.append(expression)"):
        raise TErr("_parse_shape_string: loop body: " + " ; ".join(_src(x)[:50] for x in lb))
    eleaves = {"expression.is_named_multiaxis": "d.isNamedMultiaxis", "expression.is_anonymous": "d.isAnonymous"}

    def eexpr(e):
        if isinstance(e, ast.BoolOp):
            return "(" + (" && " if isinstance(e.op, ast.And) else " || ").join(eexpr(v) for v in e.values) + ")"
        if isinstance(e, ast.UnaryOp) and isinstance(e.op, ast.Not):
            return f"(!{eexpr(e.operand)})"
        t = eleaves.get(_src(e))
        if t is None:
            raise TErr(f"_parse_shape_string: condition `{_src(e)}`")
        return t

    mcond = eexpr(lb[1].test)
    upd = {"parsed": "st.parsed", "multiName": "st.multiName", "multiIdx": "st.multiIdx"}
    for s in lb[1].body:
        t = _src(s)
        if t == "_multiaxis_parsed.add(i)":
            upd["parsed"] = "(if st.parsed.contains i then st.parsed else st.parsed ++ [i])"
        elif isinstance(s, ast.Assign) and _src(s.targets[0]) == "self.multiaxis_name" and isinstance(s.value, ast.IfExp) and _src(s.value.body) == "expression.identifier" \
                and isinstance(s.value.orelse, ast.Constant) and s.value.orelse.value is None:
            upd["multiName"] = f"(if {eexpr(s.value.test)} then some d.identifier else none)"
        elif t == "self.multiaxis_index = i":
            upd["multiIdx"] = "some i"
        else:
            raise TErr(f"_parse_shape_string: statement `{t}` in the marker branch")
    au = lb[2]
    if not (_src(au.target) == "self.anonymous_multiaxis" and isinstance(au.op, ast.BitOr)):
        raise TErr(f"_parse_shape_string: `{_src(au)}`")
    anon_upd = f"(st.anon || {eexpr(au.value)})"
    cnt = gb[6]
    if not (isinstance(cnt.test, ast.Compare) and _src(cnt.test.left) == "len(_multiaxis_parsed)" and len(cnt.test.ops) == 1 and isinstance(cnt.test.comparators[0], ast.Constant)
            and not cnt.orelse and isinstance([x for x in cnt.body if not isinstance(x, ast.Assign)][0], ast.Raise)):
        raise TErr("_parse_shape_string: the marker-count test")
    sym = {ast.Gt: ">", ast.GtE: "≥", ast.NotEq: "≠", ast.Eq: "=", ast.Lt: "<", ast.LtE: "≤"}.get(type(cnt.test.ops[0]))
    if sym is None:
        raise TErr("_parse_shape_string: the marker-count comparison")

    out = header
    out += "import DltypeModel.Shape\nset_option linter.unusedVariables false\nnamespace Dltype.Gen\nopen Dltype\n\n"
    out += SHAPE_HEADER
    out += "/-- the body of the loop of `_parse_shape_string` after `expression_from_string(dim_str)` returned `d` -/\n"
    out += "def shapeStep (i : Nat) (d : DimExpr) (st : ShapeState) : ShapeState :=\n"
    out += f"  let st : ShapeState := if {mcond} then {{ st with parsed := {upd['parsed']}, multiName := {upd['multiName']}, multiIdx := {upd['multiIdx']} }} else st\n"
    out += f"  {{ st with anon := {anon_upd} }}\n\n"
    out += f"""/-- loop skeleton (fixed text): `for i, dim_str in enumerate(split_shape)`; the first dimension that does not parse ends everything -/
def shapeLoop : List (List Char) → Nat → ShapeState → List DimExpr → Except ParseErr (ShapeState × List DimExpr)
  | [], _, st, acc => .ok (st, acc)
  | s :: rest, i, st, acc =>
    match parseDim s with
    | .error e => .error e
    | .ok d => shapeLoop rest (i + 1) (shapeStep i d st) (acc ++ [d])

/-- the filter of the `_literal_dims` comprehension -/
def literalKept (mi : Option Nat) (i : Nat) (d : DimExpr) : Bool := {lit_cond}

/-- comprehension skeleton (fixed text): `(idx, dim.evaluate({{}})) for idx, dim in enumerate(expected_shape) if ...`;
    an evaluation that raises ends the constructor with that exception -/
def literalDims : List DimExpr → Nat → Option Nat → Except PyExc (List (Nat × Int))
  | [], _, _ => .ok []
  | d :: ds, i, mi =>
    if literalKept mi i d then
      match d.evaluate [] with
      | .val v => (literalDims ds (i + 1) mi).map (fun r => (i, v) :: r)
      | .pyExc e => .error e
      | _ => .error .typeError
    else literalDims ds (i + 1) mi

/-- `TensorTypeBase(shape, optional=...)` -/
def construct (shape : Option (List Char)) (cls : Nat) (optional : Bool) : Except ShapeErr Ann :=
  match shape with
  | none => .ok {{ dims := [], cls, optional }}
  | some s =>
    let split_shape := splitWs s []
    if split_shape.isEmpty then .error (.parse .syntax) else
    match shapeLoop split_shape 0 {{}} [] with
    | .error e => .error (.parse e)
    | .ok (st, dims) =>
      if decide (st.parsed.length {sym} {cnt.test.comparators[0].value}) then .error (.parse .syntax) else
      match literalDims dims 0 st.multiIdx with
      | .error e => .error (.py e)
      | .ok lits => .ok {{ dims, multiIdx := st.multiIdx, multiName := st.multiName, anonMulti := st.anon, literalDims := lits, cls, optional }}

end Dltype.Gen
"""
    return out


# =====================================================================================================================
# _flush_op_by_precedence and _get_group_indices  ->  Generated/ParseHelpers.lean
# =====================================================================================================================

PH_HEADER = """/-- enum member name of what can be `current_op` / lie on the operator stack (fixed text) -/
def opNameP : Op → String
  | .bin .add => "ADD" | .bin .sub => "SUB" | .bin .mul => "MUL" | .bin .exp => "EXP" | .bin .div => "DIV"
  | .fn .min => "MIN" | .fn .max => "MAX" | .fn .isqrt => "ISQRT"

/-- `_op_precedence.get(x, 0)` -/
def precOf (name : String) : Nat := ((opPrecedence.lookup name).getD 0)

/-- state of the scan of `_get_group_indices` -/
structure GroupState where
  lparen_idx : Option Nat := none
  comma_idx : List Nat := []
  rparen_idx : Option Nat := none
  nesting_depth : Int := 0
  deriving Repr

"""


def gen_parsehelpers(lib_dir: str, header: str) -> str:
    with open(os.path.join(lib_dir, "_parser.py")) as fh:
        mod = ast.parse(fh.read(), filename="_parser.py")

    def fn(name):
        f = next((n for n in mod.body if isinstance(n, ast.FunctionDef) and n.name == name), None)
        if f is None:
            raise TErr(f"{name} not found")
        return f

    # ---- _flush_op_by_precedence ---------------------------------------------------------------------------------
    f = fn("_flush_op_by_precedence")
    if [a.arg for a in f.args.args] != ["stack", "postfix", "current_op"]:
        raise TErr("_flush_op_by_precedence: parameters")
    b = _strip(f.body)
    if not (len(b) == 1 and isinstance(b[0], ast.While) and not b[0].orelse and [_src(x) for x in b[0].body] == ["postfix.append(stack.pop())"]):
        raise TErr("_flush_op_by_precedence: expected one `while ...: postfix.append(stack.pop())`")
    t = b[0].test
    if not (isinstance(t, ast.BoolOp) and isinstance(t.op, ast.And) and len(t.values) == 3 and _src(t.values[0]) == "stack"
            and _src(t.values[1]) == "isinstance(stack[-1], _DLTypeOperator | _DLTypeGroupToken)" and isinstance(t.values[2], ast.Compare) and len(t.values[2].ops) == 1
            and _src(t.values[2].left) == "_op_precedence.get(stack[-1], 0)" and _src(t.values[2].comparators[0]) == "_op_precedence.get(current_op, 0)"):
        raise TErr(f"_flush_op_by_precedence: loop condition `{_src(t)}`")
    fsym = {ast.GtE: "≥", ast.Gt: ">", ast.LtE: "≤", ast.Lt: "<", ast.Eq: "=", ast.NotEq: "≠"}.get(type(t.values[2].ops[0]))
    if fsym is None:
        raise TErr("_flush_op_by_precedence: comparison")

    # ---- _get_group_indices ---------------------------------------------------------------------------------------
    g = fn("_get_group_indices")
    if [a.arg for a in g.args.args] != ["expr", "offset"]:
        raise TErr("_get_group_indices: parameters")
    gb = _strip(g.body)
    inits = {"lparen_idx: int | None = None": 1, "comma_idx: list[int] = []": 1, "rparen_idx: int | None = None": 1, "nesting_depth = 0": 1}
    k = 0
    while k < len(gb) and _src(gb[k]) in inits:
        k += 1
    if k != 4:
        raise TErr("_get_group_indices: initialisations")
    loop = gb[4]
    if not (isinstance(loop, ast.For) and _src(loop.target) == "(idx, tok)" and _src(loop.iter) == "enumerate(expr)" and not loop.orelse and len(loop.body) == 2):
        raise TErr("_get_group_indices: the loop is not `for idx, tok in enumerate(expr)` with an if-chain and the break test")
    tokc = {"tok == _DLTypeGroupToken.LPAREN": "tok == Tok.lp", "tok == _DLTypeGroupToken.COMMA": "tok == Tok.comma", "tok == _DLTypeGroupToken.RPAREN": "tok == Tok.rp",
            "nesting_depth == 1": "decide (st.nesting_depth = 1)"}

    def gcond(e):
        if isinstance(e, ast.BoolOp):
            return "(" + (" && " if isinstance(e.op, ast.And) else " || ").join(gcond(v) for v in e.values) + ")"
        c = tokc.get(_src(e))
        if c is None:
            raise TErr(f"_get_group_indices: condition `{_src(e)}`")
        return c

    def gstmts(stmts):
        """sequential updates of the scan state (each statement sees the effect of the previous ones)"""
        out = []
        for s in stmts:
            if isinstance(s, ast.AugAssign) and _src(s.target) == "nesting_depth" and isinstance(s.value, ast.Constant) and isinstance(s.op, (ast.Add, ast.Sub)):
                out.append(f"let st := {{ st with nesting_depth := st.nesting_depth {'+' if isinstance(s.op, ast.Add) else '-'} {s.value.value} }}")
            elif isinstance(s, ast.Assign) and _src(s.targets[0]) in ("lparen_idx", "rparen_idx") and isinstance(s.value, ast.IfExp) and _src(s.value.body) == "idx + offset" \
                    and _src(s.value.orelse) == _src(s.targets[0]):
                v = _src(s.targets[0])
                out.append(f"let st := {{ st with {v} := if {gcond(s.value.test)} then some (idx + offset) else st.{v} }}")
            elif _src(s) == "comma_idx.append(idx + offset)":
                out.append("let st := { st with comma_idx := st.comma_idx ++ [idx + offset] }")
            else:
                raise TErr(f"_get_group_indices: statement `{_src(s)}`")
        return out

    node = loop.body[0]
    arms = []
    while isinstance(node, ast.If):
        arms.append((gcond(node.test), gstmts(node.body)))
        if len(node.orelse) == 1 and isinstance(node.orelse[0], ast.If):
            node = node.orelse[0]
        elif not node.orelse:
            break
        else:
            raise TErr("_get_group_indices: final else in the if-chain")
    brk = loop.body[1]
    if not (isinstance(brk, ast.If) and _src(brk.test) == "rparen_idx" and len(brk.body) == 1 and isinstance(brk.body[0], ast.Break) and not brk.orelse):
        raise TErr("_get_group_indices: the break test is not `if rparen_idx: break`")
    tail = gb[5:]
    want = ["lparen_idx is None", "rparen_idx is None"]
    if not (len(tail) == 4 and all(isinstance(x, ast.If) and not x.orelse for x in tail[:3]) and [_src(x.test) for x in tail[:2]] == want
            and _src(tail[2].test) == "lparen_idx > rparen_idx or any((c_idx < lparen_idx or c_idx > rparen_idx for c_idx in comma_idx))"
            and _src(tail[3]) == "return (lparen_idx, comma_idx, rparen_idx)"):
        raise TErr("_get_group_indices: statements after the loop: " + " ; ".join(_src(x)[:70] for x in tail))
    for x in tail[:3]:
        inner = [y for y in x.body if not (isinstance(y, ast.Assign) and isinstance(y.value, (ast.Constant, ast.JoinedStr)))]
        if not (len(inner) == 1 and isinstance(inner[0], ast.Raise) and _src(inner[0].exc).startswith("SyntaxError")):
            raise TErr("_get_group_indices: a test after the loop does not raise SyntaxError")

    out = header
    out += "import DltypeModel.Parser\nimport DltypeModel.Generated.ParserTables\nset_option linter.unusedVariables false\nnamespace Dltype.Gen\nopen Dltype\n\n"
    out += PH_HEADER
    out += f"""/-- `_flush_op_by_precedence(stack, postfix, current_op)`: the operator stack has its top at the head; `pname` is the enum member
    name of `current_op`.  (`isinstance(stack[-1], _DLTypeOperator | _DLTypeGroupToken)` is true of everything the parser pushes.) -/
def flushLoop (pname : String) : List Op → List PItem → List Op × List PItem
  | [], out => ([], out)
  | top :: stack, out =>
    if decide (precOf (opNameP top) {fsym} precOf pname) then flushLoop pname stack (out ++ [.op top]) else (top :: stack, out)

/-- one iteration of the scan of `_get_group_indices`, before the break test -/
def groupStep (tok : Tok) (idx offset : Nat) (st : GroupState) : GroupState :=
"""
    for i, (c, ss) in enumerate(arms):
        out += f"  {'if' if i == 0 else 'else if'} {c} then\n"
        for l in ss:
            out += f"    {l}\n"
        out += "    st\n"
    out += "  else st\n\n"
    out += """/-- loop skeleton (fixed text): `for idx, tok in enumerate(expr)` with `if rparen_idx: break` (a positive index is truthy) -/
def groupLoop (offset : Nat) : List Tok → Nat → GroupState → GroupState
  | [], _, st => st
  | tok :: rest, idx, st =>
    let st := groupStep tok idx offset st
    if (match st.rparen_idx with | some r => decide (r ≠ 0) | none => false) then st else groupLoop offset rest (idx + 1) st

/-- `_get_group_indices(expr, offset)`; `none` = SyntaxError -/
def groupIndices (expr : List Tok) (offset : Nat) : Option (Nat × List Nat × Nat) :=
  let st := groupLoop offset expr 0 {}
  match st.lparen_idx, st.rparen_idx with
  | some l, some r => if decide (l > r) || st.comma_idx.any (fun c => decide (c < l) || decide (c > r)) then none else some (l, st.comma_idx, r)
  | _, _ => none

end Dltype.Gen
"""
    return out


# =====================================================================================================================
# _postfix_from_infix, _maybe_multiaxis, expression_from_string  ->  Generated/ParseLoop.lean
# =====================================================================================================================
#
# The `while current_index < len(expression)` loop is rendered with its cursor (index style, as written).  Python has no
# recursion bound; the generated functions take the model's fuel (iterations + nesting depth) so that they are total —
# `Proofs/Fuel.lean` shows that `tokens + 1` is never exhausted.

PL_HEADER = """/-- `expression[a:b]` -/
def slice (l : List Tok) (a b : Nat) : List Tok := (l.drop a).take (b - a)

/-- the token is an operator of the given set / the opening parenthesis (fixed text over the regenerated sets) -/
def tokInSet (set : List String) : Tok → Bool
  | .bin o => set.contains (opNameP (.bin o))
  | .fn f => set.contains (opNameP (.fn f))
  | _ => false

/-- the operator a token stands for (`current_op = token`), `none` for `(` -/
def tokOp : Tok → Option Op
  | .bin o => some (.bin o)
  | .fn f => some (.fn f)
  | _ => none

def tokPName : Tok → String
  | .bin o => opNameP (.bin o)
  | .fn f => opNameP (.fn f)
  | .lp => "LPAREN"
  | _ => ""

"""


def gen_parseloop(lib_dir: str, header: str) -> str:
    with open(os.path.join(lib_dir, "_parser.py")) as fh:
        mod = ast.parse(fh.read(), filename="_parser.py")

    def fn(name):
        f = next((n for n in mod.body if isinstance(n, ast.FunctionDef) and n.name == name), None)
        if f is None:
            raise TErr(f"{name} not found")
        return f

    def only_raise_syntax(stmts) -> bool:
        inner = [x for x in stmts if not (isinstance(x, ast.Assign) and isinstance(x.value, (ast.Constant, ast.JoinedStr)))]
        return len(inner) == 1 and isinstance(inner[0], ast.Raise) and _src(inner[0].exc).startswith("SyntaxError")

    # ---- _maybe_multiaxis -----------------------------------------------------------------------------------------
    f = fn("_maybe_multiaxis")
    b = _strip(f.body)
    if not (len(b) == 3 and isinstance(b[0], ast.If) and isinstance(b[1], ast.If) and _src(b[2]) == "return None"
            and _src(b[0].test) == "len(expression) == 1 and expression[0] == _DLTypeModifier.ANONYMOUS_MULTIAXIS.value"
            and [_src(x) for x in b[0].body] == ["return DLTypeDimensionExpression(identifier, [], is_anonymous=True)"] and not b[0].orelse
            and _src(b[1].test) == "len(expression) == 2 and expression[0] == _DLTypeOperator.MUL and isinstance(expression[1], str)" and not b[1].orelse
            and len(b[1].body) == 2 and isinstance(b[1].body[0], ast.If) and _src(b[1].body[0].test) == "not _VALID_IDENTIFIER_RX.match(expression[1])"
            and only_raise_syntax(b[1].body[0].body) and not b[1].body[0].orelse
            and _src(b[1].body[1]) == "return DLTypeDimensionExpression(expression[1], [expression[1]], is_named_multiaxis=True)"):
        raise TErr("_maybe_multiaxis: statements: " + " ; ".join(_src(x)[:80] for x in b))

    # ---- _postfix_from_infix --------------------------------------------------------------------------------------
    g = fn("_postfix_from_infix")
    gb = [s for s in _strip(g.body) if not (isinstance(s, ast.Expr) and isinstance(s.value, ast.Call) and _src(s.value.func).startswith("_logger."))]
    if not (isinstance(gb[0], ast.If) and _src(gb[0].test) == "not expression" and only_raise_syntax(gb[0].body) and not gb[0].orelse):
        raise TErr("_postfix_from_infix: the empty-expression test")
    if _src(gb[1]) != "if (maybe_multiaxis := _maybe_multiaxis(identifier, expression)):\n    return maybe_multiaxis":
        raise TErr(f"_postfix_from_infix: `{_src(gb[1])[:100]}`")
    inits = [_src(s) for s in gb[2:6]]
    if inits != ["scope_vars: set[str] = set()", "stack: list[str | _DLTypeOperator] = []", "postfix: list[str | int | _DLTypeOperator] = []", "current_index = 0"]:
        raise TErr("_postfix_from_infix: initialisations: " + " ; ".join(inits))
    w = gb[6]
    if not (isinstance(w, ast.While) and _src(w.test) == "current_index < len(expression)" and not w.orelse and _src(w.body[0]) == "token = expression[current_index]" and len(w.body) == 2):
        raise TErr("_postfix_from_infix: the main loop")
    if [_src(s) for s in gb[7:]] != ["while stack:\n    postfix.append(stack.pop())", "return DLTypeDimensionExpression(identifier, postfix)"]:
        raise TErr("_postfix_from_infix: statements after the main loop: " + " ; ".join(_src(s)[:60] for s in gb[7:]))
    tests = {
        "isinstance(token, int)": "INT",
        "token in _infix_operators": "INFIX",
        "token in _functional_operators or token == _DLTypeGroupToken.LPAREN": "GROUP",
        "isinstance(token, str) and _VALID_IDENTIFIER_RX.match(token)": "IDENT",
    }
    node = w.body[1]
    branches = []
    while isinstance(node, ast.If):
        k = tests.get(_src(node.test))
        if k is None:
            raise TErr(f"_postfix_from_infix: branch test `{_src(node.test)}`")
        branches.append((k, node.body))
        if len(node.orelse) == 1 and isinstance(node.orelse[0], ast.If):
            node = node.orelse[0]
        else:
            if not only_raise_syntax(node.orelse):
                raise TErr("_postfix_from_infix: the final else does not raise SyntaxError")
            break
    if [k for k, _ in branches] != ["INT", "INFIX", "GROUP", "IDENT"]:
        raise TErr("_postfix_from_infix: order of the branches: " + ", ".join(k for k, _ in branches))

    # ---- expression_from_string ----------------------------------------------------------------------------------
    e = fn("expression_from_string")
    eb = _strip(e.body)
    want_e = ["identifier = expression",
              "if _DLTypeSpecifier.EQUALS.value in expression:\n    identifier, expression = expression.split(_DLTypeSpecifier.EQUALS.value, maxsplit=1)",
              "tokenized = _tokenize_string_expr(expression)", "return _postfix_from_infix(identifier, tokenized)"]
    if not (len(eb) == 5 and isinstance(eb[0], ast.If) and _src(eb[0].test) == "not expression" and only_raise_syntax(eb[0].body) and not eb[0].orelse
            and [_src(x) for x in eb[1:]] == want_e):
        raise TErr("expression_from_string: statements: " + " ; ".join(_src(x)[:80] for x in eb))

    REC = "pfiLoop fuel identifier expression current_index stack out"

    def simple(stmts, tokpat) -> str:
        """statements of the INT / INFIX / IDENT branches"""
        lines = []
        for s in stmts:
            t = _src(s)
            if t == "postfix.append(token)":
                lines.append(f"let out := out ++ [{tokpat}]")
            elif t == "current_index += 1":
                lines.append("let current_index := current_index + 1")
            elif t == "current_op = token":
                pass
            elif t == "_flush_op_by_precedence(stack, postfix, current_op)":
                lines.append("let (stack, out) := flushLoop (tokPName token) stack out")
            elif t == "stack.append(current_op)":
                lines.append("let stack := op :: stack")
            elif t == "scope_vars.add(token)":
                pass
            else:
                raise TErr(f"_postfix_from_infix: statement `{t}`")
        return "\n        ".join(lines + [REC])

    int_b = simple(branches[0][1], ".int n")
    infix_b = simple(branches[1][1], "")
    ident_b = simple(branches[3][1], ".str s")

    # the GROUP branch
    gs = [s for s in branches[2][1] if not isinstance(s, ast.Assert)]
    exp = ["current_op = token", "_flush_op_by_precedence(stack, postfix, current_op)",
           "lparen, comma_indices, rparen = _get_group_indices(expression[current_index:], current_index)"]
    if [_src(s) for s in gs[:3]] != exp:
        raise TErr("_postfix_from_infix: start of the group branch: " + " ; ".join(_src(s)[:70] for s in gs[:3]))
    arity = {
        "token in _binary_functions and len(comma_indices) != 1": "(tokInSet binaryFunctions token && decide (comma_indices.length ≠ 1))",
        "token in _unary_functions and len(comma_indices) != 0": "(tokInSet unaryFunctions token && decide (comma_indices.length ≠ 0))",
        "token == _DLTypeGroupToken.LPAREN and len(comma_indices) != 0": "(token == Tok.lp && decide (comma_indices.length ≠ 0))",
    }
    k = 3
    ar = []
    while k < len(gs) and isinstance(gs[k], ast.If) and _src(gs[k].test) in arity:
        if not only_raise_syntax(gs[k].body) or gs[k].orelse:
            raise TErr("_postfix_from_infix: an arity test does not raise SyntaxError")
        ar.append(arity[_src(gs[k].test)])
        k += 1
    if len(ar) != 3:
        raise TErr("_postfix_from_infix: the three arity tests")
    tail = gs[k:]
    if not (len(tail) == 4 and _src(tail[0]) == "lhs = lparen" and isinstance(tail[1], ast.For) and _src(tail[1].target) == "arg_idx" and _src(tail[1].iter) == "[*comma_indices, rparen]"
            and _src(tail[2]) == "if current_op in _functional_operators:\n    stack.append(current_op)" and _src(tail[3]) == "current_index = rparen + 1"):
        raise TErr("_postfix_from_infix: end of the group branch: " + " ; ".join(_src(s)[:70] for s in tail))
    lb = [_src(s) for s in tail[1].body]
    if lb != ["inner_expr = _postfix_from_infix(f'{identifier}[{arg_idx}]', expression[lhs + 1:arg_idx])", "postfix.extend(inner_expr.parsed_expression)",
              "scope_vars.update((exp for exp in inner_expr.parsed_expression if isinstance(exp, str)))", "lhs = arg_idx"]:
        raise TErr("_postfix_from_infix: the loop over the arguments: " + " ; ".join(x[:80] for x in lb))

    out = header
    out += ("import DltypeModel.Parser\nimport DltypeModel.Context\nimport DltypeModel.Generated.ParserTables\nimport DltypeModel.Generated.ParseHelpers\nimport DltypeModel.Generated.DimFlags\nimport DltypeModel.Generated.TokLoop\n"
            "set_option linter.unusedVariables false\nnamespace Dltype.Gen\nopen Dltype\n\n")
    out += PL_HEADER
    out += """/-- `DLTypeDimensionExpression(identifier, postfix)`: raises SyntaxError exactly when the regenerated self-reference test fires -/
def mkDimGen (identifier : Name) (post : List PItem) : Except ParseErr DimExpr :=
  let d : DimExpr := { identifier, post }
  if selfRef d then .error .syntax else .ok d

/-- `_maybe_multiaxis(identifier, expression)`: `.ok none` = returns None -/
def maybeMultiaxis (identifier : Name) (expression : List Tok) : Except ParseErr (Option DimExpr) :=
  match expression with
  | [.str s] => if s = kwEllipsis then .ok (some { identifier, post := [], isAnonymous := true }) else .ok none
  | [.bin .mul, .str n] => if !isIdent n then .error .syntax else .ok (some { identifier := n, post := [.str n], isNamedMultiaxis := true })
  | _ => .ok none

/-- `_postfix_from_infix(identifier, expression)` given its own main loop (so that the recursion on the arguments is the loop's) -/
def pfiWith (loopF : Name → List Tok → Except ParseErr (List PItem)) (identifier : Name) (expression : List Tok) : Except ParseErr DimExpr :=
  if expression.isEmpty then .error .syntax else
  match maybeMultiaxis identifier expression with
  | .error e => .error e
  | .ok (some d) => .ok d
  | .ok none =>
    match loopF identifier expression with
    | .error e => .error e
    | .ok post => mkDimGen identifier post

/-- loop skeleton (fixed text): `for arg_idx in [*comma_indices, rparen]` with the running `lhs` -/
def argLoop (inner : Name → List Tok → Except ParseErr DimExpr) (identifier : Name) (expression : List Tok) :
    Nat → List Nat → List PItem → Except ParseErr (List PItem)
  | _, [], out => .ok out
  | lhs, arg_idx :: more, out =>
    match inner (identifier ++ ['['] ++ natStr arg_idx ++ [']']) (slice expression (lhs + 1) arg_idx) with
    | .error e => .error e
    | .ok inner_expr => argLoop inner identifier expression arg_idx more (out ++ inner_expr.post)

"""
    def ind(text, n):
        return text.replace("\n        ", "\n" + " " * n)

    out += f"""/-- the `while current_index < len(expression)` loop of `_postfix_from_infix` and the final `while stack: postfix.append(stack.pop())` -/
def pfiLoop : Nat → Name → List Tok → Nat → List Op → List PItem → Except ParseErr (List PItem)
  | 0, _, _, _, _, _ => .error .fuel
  | fuel + 1, identifier, expression, current_index, stack, out =>
    if decide (current_index < expression.length) then
      (match expression[current_index]? with
       | none => .error .syntax
       | some token =>
         (match token with
          | .int n =>
            ({ind(int_b, 13)})
          | _ =>
            if tokInSet infixOperators token then
              (match tokOp token with
               | none => .error .syntax
               | some op =>
                 ({ind(infix_b, 18)}))
            else if (tokInSet functionalOperators token || token == Tok.lp) then
              (let (stack, out) := flushLoop (tokPName token) stack out
               match groupIndices (expression.drop current_index) current_index with
               | none => .error .syntax
               | some (lparen, comma_indices, rparen) =>
                 if {ar[0]} then .error .syntax else
                 if {ar[1]} then .error .syntax else
                 if {ar[2]} then .error .syntax else
                 (match argLoop (pfiWith (fun id s => pfiLoop fuel id s 0 [] [])) identifier expression lparen (comma_indices ++ [rparen]) out with
                  | .error e => .error e
                  | .ok out =>
                    (let stack := if tokInSet functionalOperators token then (match tokOp token with | some op => op :: stack | none => stack) else stack
                     let current_index := rparen + 1
                     {REC})))
            else
              (match token with
               | .str s =>
                 if isIdent s then
                   ({ind(ident_b, 20)})
                 else .error .syntax
               | _ => .error .syntax)))
    else .ok (out ++ stack.map PItem.op)

/-- `_postfix_from_infix(identifier, expression)` at top level (fuel = the model's bound) -/
def pfiTop (identifier : Name) (expression : List Tok) : Except ParseErr DimExpr :=
  pfiWith (fun id s => pfiLoop (s.length + 1) id s 0 [] []) identifier expression

/-- `s.split("=", maxsplit=1)` for a string that contains `=` -/
def splitFirstEq (s : List Char) : Name × List Char := (s.takeWhile (· ≠ '='), (s.dropWhile (· ≠ '=')).drop 1)

/-- `expression_from_string(expression)` -/
def parseDimGen (expression : List Char) : Except ParseErr DimExpr :=
  if expression.isEmpty then .error .syntax else
  let identifier := expression
  let (identifier, expression) := if expression.contains '=' then splitFirstEq expression else (identifier, expression)
  match tokenize expression with
  | .error e => .error e
  | .ok tokenized => pfiTop identifier tokenized

end Dltype.Gen
"""
    return out


# =====================================================================================================================
# DLTypeAnnotation.from_hint  ->  Generated/HintLoop.lean
# =====================================================================================================================
#
# The hint is the model's `Hint` (what `get_origin` / `get_args` / `isinstance` / `.mro()` say about it): `hint is None` ↦ `.none`,
# `origin is Union` ↦ `.union args`, `origin is tuple` ↦ `.tuple args`, `origin is not Annotated` ↦ `.plain`,
# `Annotated[base, meta]` ↦ `.annotated baseOk ann` (ann = the metadata when it is a TensorTypeBase, baseOk = a supported array
# type is in the base's mro).  The branches are read in source order; what each returns / raises, the comparison of the union
# branch, the `optional=` of the recursive calls and the `_TupleHint` wrapper are taken from the statements.

def gen_hints(lib_dir: str, header: str) -> str:
    with open(os.path.join(lib_dir, "_core.py")) as fh:
        mod = ast.parse(fh.read(), filename="_core.py")
    f = _find_method(mod, "DLTypeAnnotation", "from_hint")
    if _src(f.args) != "cls, hint: type | None, name: str, *, optional: bool=False":
        raise TErr(f"from_hint: parameters `{_src(f.args)}`")
    b = [s for s in _strip(f.body) if not (isinstance(s, ast.Expr) and isinstance(s.value, ast.Call) and _src(s.value.func).startswith("_logger."))]

    def ret_none_tuple(stmts) -> bool:
        inner = [x for x in stmts if not (isinstance(x, ast.Expr) and isinstance(x.value, ast.Call) and _src(x.value.func) in ("warnings.warn",) or
                                          (isinstance(x, ast.Expr) and isinstance(x.value, ast.Call) and _src(x.value.func).startswith("_logger.")))]
        return len(inner) == 1 and _src(inner[0]) == "return (None,)"

    def raises_type_error(stmts) -> bool:
        inner = [x for x in stmts if not (isinstance(x, ast.Assign) and isinstance(x.value, (ast.Constant, ast.JoinedStr)))]
        return len(inner) == 1 and isinstance(inner[0], ast.Raise) and _src(inner[0].exc) == "TypeError(msg)"

    want_order = ["hint is None", "ASSIGN n_expected_args = len(cls._fields)", "ASSIGN origin = get_origin(hint)", "ASSIGN args = get_args(hint)", "origin is Union", "origin is tuple",
                  "origin is not Annotated", "len(args) < n_expected_args or not isinstance(args[1], _tensor_type_base.TensorTypeBase)",
                  "ASSIGN tensor_type, dltype_hint = (_tensor_type_base.unwrap_type_alias(args[0]), args[1])",
                  "not any((T in tensor_type.mro() for T in _dtypes.SUPPORTED_TENSOR_TYPES))", "dltype_hint.optional != optional", "RETURN"]
    got = []
    for s in b:
        if isinstance(s, ast.If):
            got.append(_src(s.test))
        elif isinstance(s, ast.Assign):
            got.append("ASSIGN " + _src(s))
        elif isinstance(s, ast.Return):
            got.append("RETURN")
        else:
            got.append(_src(s)[:60])
    if got != want_order:
        k = next((i for i, (x, y) in enumerate(zip(got, want_order)) if x != y), min(len(got), len(want_order)))
        raise TErr(f"from_hint: statement {k}: `{got[k] if k < len(got) else '<missing>'}` (expected `{want_order[k] if k < len(want_order) else '<nothing>'}`)")
    ifs = [s for s in b if isinstance(s, ast.If)]
    none_b, union_b, tuple_b, notann_b, meta_b, base_b, opt_b = ifs
    if any(x.orelse for x in ifs):
        raise TErr("from_hint: an `else` branch")
    if not (ret_none_tuple(none_b.body) and ret_none_tuple(notann_b.body) and ret_none_tuple(meta_b.body) and raises_type_error(base_b.body)):
        raise TErr("from_hint: the None / not-Annotated / metadata branches must return `(None,)`, the base-type branch must raise TypeError")
    # union
    ub = union_b.body
    if not (len(ub) == 3 and _src(ub[0]) == "non_none_types = [t for t in args if t not in {type(None), None}]" and isinstance(ub[1], ast.If) and not ub[1].orelse
            and isinstance(ub[1].test, ast.Compare) and _src(ub[1].test.left) == "len(non_none_types)" and len(ub[1].test.ops) == 1
            and isinstance(ub[1].test.comparators[0], ast.Constant) and raises_type_error(ub[1].body)
            and isinstance(ub[2], ast.Return) and isinstance(ub[2].value, ast.Call) and _src(ub[2].value.func) == "cls.from_hint"
            and [_src(a) for a in ub[2].value.args] == ["non_none_types[0]", "name"]):
        raise TErr("from_hint: the Union branch: " + " ; ".join(_src(x)[:80] for x in ub))
    usym = {ast.NotEq: "≠", ast.Eq: "=", ast.Gt: ">", ast.Lt: "<", ast.GtE: "≥", ast.LtE: "≤"}.get(type(ub[1].test.ops[0]))
    uconst = ub[1].test.comparators[0].value
    kw = {k.arg: k.value for k in ub[2].value.keywords}
    if set(kw) - {"optional"} or usym is None:
        raise TErr("from_hint: the recursive call of the Union branch")
    rec_opt = _src(kw["optional"]) if "optional" in kw else "False"
    if rec_opt not in ("True", "False", "optional"):
        raise TErr(f"from_hint: optional={rec_opt} in the Union branch")
    rec_opt_l = {"True": "true", "False": "false", "optional": "optional"}[rec_opt]
    # tuple
    tb = tuple_b.body
    if not (len(tb) == 1 and isinstance(tb[0], ast.Return)):
        raise TErr("from_hint: the tuple branch")
    tv = tb[0].value
    wrapped = isinstance(tv, ast.Call) and _src(tv.func) == "_TupleHint" and len(tv.args) == 1
    inner = tv.args[0] if wrapped else tv
    if isinstance(inner, ast.Call) and _src(inner.func) == "tuple" and len(inner.args) == 1:
        inner = inner.args[0]
    if not (isinstance(inner, ast.Call) and _src(inner.func) == "itertools.chain" and len(inner.args) == 1 and isinstance(inner.args[0], ast.Starred)
            and isinstance(inner.args[0].value, ast.ListComp) and len(inner.args[0].value.generators) == 1 and _src(inner.args[0].value.generators[0].iter) == "args"
            and not inner.args[0].value.generators[0].ifs and isinstance(inner.args[0].value.elt, ast.Call) and _src(inner.args[0].value.elt.func) == "cls.from_hint"):
        raise TErr(f"from_hint: the tuple branch returns `{_src(tv)[:120]}`")
    ecall = inner.args[0].value.elt
    if [_src(a) for a in ecall.args] != [_src(inner.args[0].value.generators[0].target), "name"]:
        raise TErr("from_hint: the element call of the tuple branch")
    ekw = {k.arg: _src(k.value) for k in ecall.keywords}
    if set(ekw) - {"optional"} or ekw.get("optional", "False") not in ("True", "False", "optional"):
        raise TErr("from_hint: optional= in the tuple branch")
    elem_opt = {"True": "true", "False": "false", "optional": "optional"}[ekw.get("optional", "False")]
    # optional flag
    if [_src(x) for x in opt_b.body] != ["dltype_hint = copy.copy(dltype_hint)", "dltype_hint.optional = optional"]:
        raise TErr("from_hint: the optional flag is not set on a copy: " + " ; ".join(_src(x) for x in opt_b.body))
    if _src(b[-1]) != "return (cls(tensor_type_hint=tensor_type, dltype_annotation=dltype_hint),)":
        raise TErr(f"from_hint: `{_src(b[-1])}`")

    out = header
    out += "import DltypeModel.Hints\nset_option linter.unusedVariables false\nnamespace Dltype.Gen\nopen Dltype\n\n"
    out += f"""mutual
/-- `DLTypeAnnotation.from_hint(hint, name, optional=...)` -/
def fromHint : Hint → Bool → Except DecorErr HintAnns
  | .none, optional => .ok ⟨false, [none]⟩
  | .plain, optional => .ok ⟨false, [none]⟩
  | .union alts, optional => unionGo alts 0 none optional
  | .tuple elems, optional => (fromHints elems optional).map (fun l => ⟨{'true' if wrapped else 'false'}, l⟩)
  | .annotated _ none, optional => .ok ⟨false, [none]⟩
  | .annotated baseOk (some a), optional =>
    if !baseOk then .error .typeError else .ok ⟨false, [some {{ a with optional := optional }}]⟩
/-- the Union branch: `non_none_types`, the test on their number, the recursive call on the first of them (written as one
    traversal so that the recursion is structural: count the non-None alternatives, remember the result for the first) -/
def unionGo : List Hint → Nat → Option (Except DecorErr HintAnns) → Bool → Except DecorErr HintAnns
  | [], n, acc, _ => if decide (n {usym} {uconst}) then .error .typeError else (match acc with | some r => r | none => .error .typeError)
  | h :: rest, n, acc, optional =>
    if h.isNone then unionGo rest n acc optional
    else unionGo rest (n + 1) (match acc with | some r => some r | none => some (fromHint h {rec_opt_l})) optional
/-- the tuple branch: `itertools.chain(*[cls.from_hint(inner_hint, name) for inner_hint in args])` -/
def fromHints : List Hint → Bool → Except DecorErr (List (Option Ann))
  | [], _ => .ok []
  | h :: hs, optional =>
    match fromHint h {elem_opt} with
    | .error e => .error e
    | .ok xs =>
      match fromHints hs optional with
      | .error e => .error e
      | .ok ys => .ok (xs.anns ++ ys)
end

end Dltype.Gen
"""
    return out


# =====================================================================================================================
# _symbolic_expressions.py (class table, operand check, constructors, every __str__, operator overloads) and
# TensorTypeBase.__class_getitem__  ->  Generated/SymClasses.lean
# =====================================================================================================================

SYM_HEADER = """/-- transitive subclass test over the class statements of the module (fuel = number of classes) -/
def isSub : Nat → String → String → Bool
  | 0, c, d => c == d
  | n + 1, c, d => c == d || ((symBases.lookup c).getD []).any (fun b => isSub n b d)

def sub (c d : String) : Bool := isSub symBases.length c d

/-- the classes of the Python objects a node of the model's tree stands for (fixed text: the reading of `Sym`) -/
def classesOf : Sym → List String
  | .lit _ => ["int", "LiteralAxis"]
  | .var _ => ["VariableAxis"]
  | .bad => ["ConstantAxis", "AnonymousAxis"]
  | .grp _ => ["Group"]
  | .isqrt _ => ["ISqrt", "ComputedAxis"]
  | .fn2 .min _ _ => ["Min", "ComputedAxis"]
  | .fn2 .max _ _ => ["Max", "ComputedAxis"]
  | .fn2 .isqrt _ _ => []
  | .bin .add _ _ => ["ComputedAxis", "Add"]
  | .bin .sub _ _ => ["ComputedAxis", "Subtract"]
  | .bin .mul _ _ => ["ComputedAxis", "Multiply"]
  | .bin .div _ _ => ["ComputedAxis", "Divide"]
  | .bin .exp _ _ => ["ComputedAxis", "Exp"]

/-- `x.value` (only `LiteralAxis` has the property) -/
def valueOf : Sym → Except PrintErr Int
  | .lit n => .ok n
  | _ => .error .unmodelled

/-- `f"{<int expression>}"` -/
def fmtR : Py.R → Except PrintErr (List Char)
  | .val v => .ok (intStr v)
  | .pyExc .zeroDivision => .error .zeroDivision
  | .pyExc .valueError => .error .valueError
  | _ => .error .unmodelled

/-- `isinstance(<stored operand>, cls)` where the constructor stored `stored c` for an operand of class `c` -/
def storedIs (stored : String → String) (s : Sym) (cls : String) : Bool :=
  (classesOf s).all (fun c => sub (stored c) cls)

/-- `sep.join(parts)` -/
def joinStr (sep : List Char) : List (List Char) → List Char
  | [] => []
  | [x] => x
  | x :: xs => x ++ sep ++ joinStr sep xs

"""

SYM_NODES = [  # (source class, Lean pattern with the constructor's parameter names, wrapped in ComputedAxis by the operators)
    ("ISqrt", ".isqrt {0}", False), ("Group", ".grp {0}", False),
    ("Min", ".fn2 .min {0} {1}", False), ("Max", ".fn2 .max {0} {1}", False),
    ("Add", ".bin .add {0} {1}", True), ("Subtract", ".bin .sub {0} {1}", True), ("Multiply", ".bin .mul {0} {1}", True),
    ("Divide", ".bin .div {0} {1}", True), ("Exp", ".bin .exp {0} {1}", True),
]
SYM_DUNDER_NODE = {"Add": "Sym.bin .add", "Subtract": "Sym.bin .sub", "Multiply": "Sym.bin .mul", "Divide": "Sym.bin .div", "Exp": "Sym.bin .exp",
                   "Min": "Sym.fn2 .min", "Max": "Sym.fn2 .max"}


def _lstr(s: str) -> str:
    return '"' + s.replace("\\", "\\\\").replace('"', '\\"') + '"'


class SymStr:
    """compiles the body of one `__str__` (or a str-valued expression) over the fields of `self`"""

    def __init__(self, where, fields):
        self.where = where
        self.fields = fields  # field -> ("axis", var, storedfn) | ("int", var) | ("name", var) | ("printed", var) | ("strflag", var, isstr)
        self.n = 0

    def fresh(self, p):
        self.n += 1
        return f"{p}{self.n - 1}"

    def field(self, e):
        if isinstance(e, ast.Attribute) and isinstance(e.value, ast.Name) and e.value.id == "self" and e.attr in self.fields:
            return self.fields[e.attr]
        return None

    def cond(self, e) -> str:
        if isinstance(e, ast.BoolOp):
            return "(" + (" && " if isinstance(e.op, ast.And) else " || ").join(self.cond(v) for v in e.values) + ")"
        if isinstance(e, ast.UnaryOp) and isinstance(e.op, ast.Not):
            return f"(!{self.cond(e.operand)})"
        if isinstance(e, ast.Call) and _src(e.func) == "isinstance" and len(e.args) == 2 and not e.keywords:
            f = self.field(e.args[0])
            classes = _union_names(e.args[1])
            if f is not None and classes is not None:
                if f[0] == "axis":
                    return "(" + " || ".join(f"storedIs {f[2]} {f[1]} {_lstr(c)}" for c in classes) + ")"
                if f[0] == "strflag":
                    return "(" + " || ".join(("true" if c == ("str" if f[2] else "EllipsisType") else "false") for c in classes) + ")"
        raise TErr(f"{self.where}: condition `{_src(e)}`")

    def intexpr(self, e, binds) -> tuple[str, str]:
        """-> (kind, term) with kind Int | R"""
        f = self.field(e)
        if f is not None and f[0] == "int":
            return "Int", f[1]
        if isinstance(e, ast.Attribute) and e.attr == "value":
            g = self.field(e.value)
            if g is not None and g[0] == "axis":
                v = self.fresh("v")
                binds.append(f"let {v} ← valueOf {g[1]}")
                return "Int", v
        if isinstance(e, ast.BinOp):
            prim = {ast.Add: "Py.add", ast.Sub: "Py.sub", ast.Mult: "Py.mul", ast.FloorDiv: "Py.floordiv", ast.Pow: "Py.pow"}.get(type(e.op))
            if prim is not None:
                (k1, a), (k2, b) = self.intexpr(e.left, binds), self.intexpr(e.right, binds)
                if k1 == k2 == "Int":
                    return "R", f"({prim} {a} {b})"
        if isinstance(e, ast.Call) and not e.keywords and _src(e.func) in ("min", "max", "math.isqrt"):
            prim = {"min": "Py.min", "max": "Py.max", "math.isqrt": "Py.isqrt"}[_src(e.func)]
            args = [self.intexpr(a, binds) for a in e.args]
            if all(k == "Int" for k, _ in args) and len(args) == (1 if prim == "Py.isqrt" else 2):
                return "R", "(" + " ".join([prim] + [t for _, t in args]) + ")"
        raise TErr(f"{self.where}: integer expression `{_src(e)}`")

    def strexpr(self, e, binds) -> str:
        """-> Lean term : List Char; `binds` collects the monadic steps in evaluation order"""
        if isinstance(e, ast.Constant) and isinstance(e.value, str):
            return f"{_lstr(e.value)}.toList"
        if isinstance(e, ast.JoinedStr):
            parts = []
            for p in e.values:
                if isinstance(p, ast.Constant):
                    parts.append(f"{_lstr(p.value)}.toList")
                elif isinstance(p, ast.FormattedValue) and p.conversion == -1 and p.format_spec is None:
                    parts.append(self.fmt(p.value, binds))
                else:
                    raise TErr(f"{self.where}: f-string part `{_src(p)}`")
            return "(" + " ++ ".join(parts) + ")" if parts else "([] : List Char)"
        if isinstance(e, ast.Call) and _src(e.func) == "str" and len(e.args) == 1 and not e.keywords:
            return self.fmt(e.args[0], binds)
        if isinstance(e, ast.BinOp) and isinstance(e.op, ast.Add):
            return f"({self.strexpr(e.left, binds)} ++ {self.strexpr(e.right, binds)})"
        if isinstance(e, ast.IfExp):
            c = self.cond(e.test)
            b1, b2 = [], []
            t1, t2 = self.strexpr(e.body, b1), self.strexpr(e.orelse, b2)
            if b1 or b2:
                raise TErr(f"{self.where}: conditional expression with effects `{_src(e)}`")
            return f"(if {c} then {t1} else {t2})"
        raise TErr(f"{self.where}: string expression `{_src(e)}`")

    def fmt(self, e, binds) -> str:
        """`str(e)` / `f"{e}"`"""
        f = self.field(e)
        if f is not None:
            if f[0] == "axis":
                s = self.fresh("s")
                binds.append(f"let {s} ← symStr {f[1]}")
                return s
            if f[0] == "printed":
                s = self.fresh("s")
                binds.append(f"let {s} ← {f[1]}")
                return s
            if f[0] in ("name", "strflag"):
                return f[1]
            if f[0] == "int":
                return f"intStr {f[1]}"
        kind, term = self.intexpr(e, binds)
        if kind == "Int":
            return f"intStr {term}"
        s = self.fresh("s")
        binds.append(f"let {s} ← fmtR {term}")
        return s

    def ret(self, e) -> str:
        binds = []
        t = self.strexpr(e, binds)
        return "(do " + "; ".join(binds + [f"pure ({t})"]) + ")" if binds else f"(.ok ({t}))"

    def body(self, stmts) -> str:
        stmts = _strip(stmts)
        if not stmts:
            raise TErr(f"{self.where}: falls off the end")
        s = stmts[0]
        if isinstance(s, ast.Return) and s.value is not None and len(stmts) == 1:
            return self.ret(s.value)
        if isinstance(s, ast.If) and not s.orelse and len(s.body) == 1 and isinstance(s.body[0], ast.Return) and s.body[0].value is not None:
            return f"(if {self.cond(s.test)} then {self.ret(s.body[0].value)} else {self.body(stmts[1:])})"
        raise TErr(f"{self.where}: statement `{_src(s)[:100]}`")


def _union_names(e):
    """`A | B | C` or a single name -> list of class names (`None` is NoneType)"""
    if isinstance(e, ast.BinOp) and isinstance(e.op, ast.BitOr):
        a, b = _union_names(e.left), _union_names(e.right)
        return None if a is None or b is None else a + b
    if isinstance(e, ast.Name):
        return [e.id]
    if isinstance(e, ast.Constant) and e.value is None:
        return ["NoneType"]
    return None


def gen_symbolic(lib_dir: str, header: str) -> str:
    with open(os.path.join(lib_dir, "_symbolic_expressions.py")) as fh:
        mod = ast.parse(fh.read(), filename="_symbolic_expressions.py")
    classes = {n.name: n for n in mod.body if isinstance(n, ast.ClassDef)}
    for n in classes.values():
        if n.keywords or n.decorator_list:
            raise TErr(f"class {n.name}: keywords / decorators")

    def method(cls, name):
        for m in classes[cls].body:
            if isinstance(m, ast.FunctionDef) and m.name == name:
                return m
        return None

    def owner(cls, name, seen=()):
        """the class whose definition of `name` an instance of `cls` uses (the hierarchy is a tree apart from ABC)"""
        if cls not in classes or cls in seen:
            return None
        if method(cls, name) is not None:
            return cls
        for b in classes[cls].bases:
            o = owner(_src(b), name, seen + (cls,))
            if o is not None:
                return o
        return None

    out = header
    out += "import DltypeModel.Symbolic\nimport DltypeModel.PyPrims\nimport DltypeModel.Generated.ShapeLoop\nset_option linter.unusedVariables false\nnamespace Dltype.Gen\nopen Dltype\n\n"
    out += "/-- `class X(A, B):` of _symbolic_expressions.py, in source order -/\ndef symBases : List (String × List String) := [" + ", ".join(
        f"({_lstr(c)}, [" + ", ".join(_lstr(_src(b)) for b in n.bases) + "])" for c, n in classes.items()) + "]\n\n"
    out += SYM_HEADER

    # ---- _assert_operand ------------------------------------------------------------------------------------------
    fn = next((n for n in mod.body if isinstance(n, ast.FunctionDef) and n.name == "_assert_operand"), None)
    if fn is None or [a.arg for a in fn.args.args] != ["operand"]:
        raise TErr("_assert_operand(operand) not found")
    b = _strip(fn.body)
    if not (len(b) == 1 and isinstance(b[0], ast.If) and not b[0].orelse and isinstance(b[0].body[-1], ast.Raise)
            and all(isinstance(x, ast.Assign) and isinstance(x.value, (ast.JoinedStr, ast.Constant)) for x in b[0].body[:-1])):
        raise TErr("_assert_operand: not `if <test>: raise ...`")
    exc = b[0].body[-1].exc
    if not (isinstance(exc, ast.Call) and _src(exc.func) == "TypeError"):
        raise TErr(f"_assert_operand raises `{_src(exc)[:60]}`")

    def class_test(e, var):
        if isinstance(e, ast.BoolOp):
            return "(" + (" && " if isinstance(e.op, ast.And) else " || ").join(class_test(v, var) for v in e.values) + ")"
        if isinstance(e, ast.UnaryOp) and isinstance(e.op, ast.Not):
            return f"(!{class_test(e.operand, var)})"
        if isinstance(e, ast.Call) and _src(e.func) == "isinstance" and len(e.args) == 2 and _src(e.args[0]) == var:
            names = _union_names(e.args[1])
            if names is not None:
                return "(" + " || ".join(f"sub c {_lstr(n)}" for n in names) + ")"
        raise TErr(f"class test `{_src(e)}`")

    out += "/-- `_assert_operand(operand)` passes for an operand of class `c` -/\n"
    out += f"def okClass (c : String) : Bool := !{class_test(b[0].test, 'operand')}\n\n"
    out += ("/-- `_assert_operand` on what a node stands for (a node that stands for objects of several classes must get one verdict) -/\n"
            "def assertOperand (s : Sym) : Except PrintErr Unit :=\n  if (classesOf s).all okClass then .ok ()\n"
            "  else if (classesOf s).all (fun c => !okClass c) then .error .typeError else .error .unmodelled\n\n")

    # ---- constructors ---------------------------------------------------------------------------------------------
    inits = {}
    for cls in ("UnaryAxisOperationBase", "Group", "BinaryAxisOperationBase"):
        f = method(cls, "__init__")
        if f is None:
            raise TErr(f"{cls}.__init__ not found")
        params = [a.arg for a in f.args.args][1:]
        if f.args.kwonlyargs or f.args.vararg or f.args.kwarg or f.args.defaults:
            raise TErr(f"{cls}.__init__: parameters `{_src(f.args)}`")
        asserts, fields = [], {}
        for s in _strip(f.body):
            if isinstance(s, ast.Expr) and isinstance(s.value, ast.Call) and _src(s.value.func) == "_assert_operand" and len(s.value.args) == 1 \
                    and _src(s.value.args[0]) in params:
                asserts.append(_src(s.value.args[0]))
                continue
            if isinstance(s, ast.Assign) and len(s.targets) == 1 and isinstance(s.targets[0], ast.Attribute) and _src(s.targets[0].value) == "self":
                fld = s.targets[0].attr
                v = s.value
                if isinstance(v, ast.Name) and v.id in params:
                    fields[fld] = (v.id, None)
                    continue
                if isinstance(v, ast.IfExp) and isinstance(v.body, ast.Name) and v.body.id in params and isinstance(v.orelse, ast.Call) \
                        and _src(v.orelse.func) == "LiteralAxis" and [_src(a) for a in v.orelse.args] == [v.body.id]:
                    fields[fld] = (v.body.id, class_test(v.test, v.body.id))
                    continue
            raise TErr(f"{cls}.__init__: statement `{_src(s)[:100]}`")
        inits[cls] = (params, asserts, fields)
        short = cls.replace("AxisOperationBase", "")
        out += f"/-- `{cls}.__init__`: the operand checks, in order -/\n"
        out += f"def build{short} ({' '.join(params)} : Sym) : Except PrintErr Unit := do\n" + "".join(f"  assertOperand {p}\n" for p in asserts) + "  pure ()\n\n"
        for fld, (p, cond) in fields.items():
            nm = f"stored{short}{fld}"
            out += f"/-- what `{cls}.__init__` stores in `self.{fld}` for an operand of class `c` -/\n"
            out += f"def {nm} (c : String) : String := " + (f"if {cond} then c else \"LiteralAxis\"" if cond else "c") + "\n\n"

    # LiteralAxis / VariableAxis : value holders
    for cls, param, fld in (("LiteralAxis", "value", "_value"), ("VariableAxis", "identifier", "_identifier")):
        f = method(cls, "__init__")
        if f is None or [a.arg for a in f.args.args] != ["self", param] or [_src(s) for s in _strip(f.body)] != [f"self.{fld} = {param}"]:
            raise TErr(f"{cls}.__init__ is not `self.{fld} = {param}`")
    f = method("LiteralAxis", "value")
    if f is None or [_src(d) for d in f.decorator_list] != ["property"] or [_src(s) for s in _strip(f.body)] != ["return self._value"]:
        raise TErr("LiteralAxis.value is not the property returning self._value")
    f = method("ComputedAxis", "__init__")
    if f is None or [a.arg for a in f.args.args] != ["self", "computation"] or [_src(s) for s in _strip(f.body)] != ["self._computation = computation"]:
        raise TErr("ComputedAxis.__init__ is not `self._computation = computation`")

    # ---- __str__ --------------------------------------------------------------------------------------------------
    def str_of(cls):
        o = owner(cls, "__str__")
        if o is None:
            raise TErr(f"{cls}.__str__ not found")
        f = method(o, "__str__")
        if [a.arg for a in f.args.args] != ["self"] or any(_src(d) not in ("override", "abstractmethod") for d in f.decorator_list):
            raise TErr(f"{o}.__str__: signature / decorators")
        if any(_src(d) == "abstractmethod" for d in f.decorator_list):
            raise TErr(f"{cls} uses the abstract __str__ of {o}")
        return f

    f = str_of("ComputedAxis")
    out += "/-- `ComputedAxis.__str__` over the printed computation -/\n"
    out += "def computedStr (computation : Except PrintErr (List Char)) : Except PrintErr (List Char) :=\n  "
    out += SymStr("ComputedAxis.__str__", {"_computation": ("printed", "computation")}).body(f.body) + "\n\n"

    arms = []
    f = str_of("LiteralAxis")
    arms.append(("| .lit value", SymStr("LiteralAxis.__str__", {"_value": ("int", "value")}).body(f.body), False))
    f = str_of("VariableAxis")
    arms.append(("| .var identifier", SymStr("VariableAxis.__str__", {"_identifier": ("name", "identifier")}).body(f.body), False))
    arms.append(("| .bad", "(.error .typeError)", False))
    for cls, pat, wrapped in SYM_NODES:
        if cls not in classes:
            raise TErr(f"class {cls} not found")
        io = owner(cls, "__init__")
        if io not in inits:
            raise TErr(f"{cls} is constructed by {io}.__init__")
        params, _, fields = inits[io]
        short = io.replace("AxisOperationBase", "")
        if len(params) != pat.count("{"):
            raise TErr(f"{cls}: {io}.__init__ takes {params}")
        fmap = {fld: ("axis", p, f"stored{short}{fld}") for fld, (p, _) in fields.items()}
        arms.append(("| " + pat.format(*params), SymStr(f"{cls}.__str__", fmap).body(str_of(cls).body), wrapped))
    arms.append(("| .fn2 .isqrt _ _", "(.error .unmodelled)", False))
    out += "/-- `str()` of the object a node stands for: the `__str__` of its class over the fields its constructor stored -/\n"
    out += "def symStr : Sym → Except PrintErr (List Char)\n"
    for pat, body, wrapped in arms:
        out += f"  {pat} => " + (f"computedStr {body}" if wrapped else body) + "\n"
    out += "\n"
    out += "/-- constructing the objects of an expression: operands first (left to right), then the node's own constructor -/\n"
    out += "def symBuild : Sym → Except PrintErr Unit\n  | .lit _ => .ok ()\n  | .var _ => .ok ()\n  | .bad => .ok ()\n"
    for cls, pat, _ in SYM_NODES:
        io = owner(cls, "__init__")
        params = inits[io][0]
        short = io.replace("AxisOperationBase", "")
        out += f"  | {pat.format(*params)} => do " + "; ".join([f"symBuild {p}" for p in params] + [f"build{short} {' '.join(params)}"]) + "\n"
    out += "  | .fn2 .isqrt _ _ => .error .unmodelled\n\n"
    out += "/-- evaluating the operator expression, then `str()` of the result -/\ndef symPrint (s : Sym) : Except PrintErr (List Char) := do symBuild s; symStr s\n\n"

    # ---- operator overloads ---------------------------------------------------------------------------------------
    res = method("OperableAxis", "__resolve_expr_sides")
    if res is None or _src(res.args) != "self, other: OperableAxisT, *, reverse: bool=False":
        raise TErr("OperableAxis.__resolve_expr_sides: parameters")
    lines = []
    loc = {"self": "self", "other": "other"}
    rb = _strip(res.body)

    def side(e):
        if isinstance(e, ast.Name) and e.id in loc:
            return loc[e.id]
        if isinstance(e, ast.IfExp) and _src(e.test) == "reverse":
            return f"(if reverse then {side(e.body)} else {side(e.orelse)})"
        if isinstance(e, ast.IfExp) and _src(e.test) == "not reverse":
            return f"(if !reverse then {side(e.body)} else {side(e.orelse)})"
        raise TErr(f"__resolve_expr_sides: `{_src(e)}`")

    for s in rb[:-1]:
        if not (isinstance(s, ast.Assign) and len(s.targets) == 1 and isinstance(s.targets[0], ast.Name)):
            raise TErr(f"__resolve_expr_sides: statement `{_src(s)}`")
        lines.append(f"  let {s.targets[0].id}_ := {side(s.value)}\n")
        loc[s.targets[0].id] = s.targets[0].id + "_"
    if not (isinstance(rb[-1], ast.Return) and isinstance(rb[-1].value, ast.Tuple) and len(rb[-1].value.elts) == 2):
        raise TErr("__resolve_expr_sides: does not return a pair")
    out += "/-- `OperableAxis.__resolve_expr_sides(self, other, *, reverse=False)` -/\n"
    out += "def resolveSides (self other : Sym) (reverse : Bool) : Sym × Sym :=\n" + "".join(lines) + f"  ({side(rb[-1].value.elts[0])}, {side(rb[-1].value.elts[1])})\n\n"
    dunders = []
    for m in classes["OperableAxis"].body:
        if isinstance(m, ast.FunctionDef) and m.name.startswith("__") and m.name.endswith("__") and m.name not in ("__str__", "__repr__"):
            b = _strip(m.body)
            ok = [a.arg for a in m.args.args] == ["self", "other"] and len(b) == 1 and isinstance(b[0], ast.Return)
            c = b[0].value if ok else None
            ok = ok and isinstance(c, ast.Call) and _src(c.func) == "ComputedAxis" and len(c.args) == 1 and isinstance(c.args[0], ast.Call)
            inner = c.args[0] if ok else None
            ok = ok and isinstance(inner.func, ast.Name) and len(inner.args) == 1 and isinstance(inner.args[0], ast.Starred) and not inner.keywords
            call = inner.args[0].value if ok else None
            # (name mangling: inside the class body `self.__resolve_expr_sides` is `self._OperableAxis__resolve_expr_sides`)
            ok = ok and isinstance(call, ast.Call) and _src(call.func) == "self.__resolve_expr_sides" and [_src(a) for a in call.args] == ["other"]
            if ok:
                kw = {k.arg: _src(k.value) for k in call.keywords}
                ok = set(kw) <= {"reverse"} and kw.get("reverse", "False") in ("True", "False")
            if not ok:
                raise TErr(f"OperableAxis.{m.name}: `{_src(m.body[-1])[:120]}`")
            if inner.func.id not in SYM_DUNDER_NODE:
                raise TErr(f"OperableAxis.{m.name} builds {inner.func.id}")
            dunders.append((m.name, inner.func.id, kw.get("reverse", "False") == "True"))
    out += "/-- the operator methods of `OperableAxis`: (method, operation class, reverse=) -/\n"
    out += "def dunders : List (String × String × Bool) := [" + ", ".join(f"({_lstr(a)}, {_lstr(b)}, {'true' if c else 'false'})" for a, b, c in dunders) + "]\n\n"
    out += "def nodeOfClass : String → Option (Sym → Sym → Sym)\n" + "".join(f"  | {_lstr(k)} => some ({v})\n" for k, v in SYM_DUNDER_NODE.items()) + "  | _ => none\n\n"
    out += ("/-- the object `self.<method>(other)` returns -/\ndef applyDunder (method : String) (self other : Sym) : Option Sym :=\n"
            "  match dunders.lookup method with\n  | none => none\n  | some (cls, rev) =>\n    match nodeOfClass cls with\n    | none => none\n"
            "    | some mk => let p := resolveSides self other rev; some (mk p.1 p.2)\n\n")

    # ---- entries of Shape[...] ------------------------------------------------------------------------------------
    f = method("ConstantAxis", "__init__")
    if f is None or [a.arg for a in f.args.args] != ["self", "identifier", "value"] or [_src(s) for s in _strip(f.body)] != ["self._identifier = str(identifier)", "self._value = value"]:
        raise TErr("ConstantAxis.__init__")
    f = method("AnonymousAxis", "__init__")
    if f is None or [a.arg for a in f.args.args] != ["self", "maybe_name"] or [_src(s) for s in _strip(f.body)] != ["self._identifier = maybe_name"]:
        raise TErr("AnonymousAxis.__init__")
    out += "/-- `str()` of one entry of `Shape[...]` -/\ndef axisStr : Axis → Except PrintErr (List Char)\n  | .expr s => symStr s\n"
    out += "  | .ellipsis => " + SymStr("AnonymousAxis.__str__", {"_identifier": ("strflag", "([] : List Char)", False)}).body(str_of("AnonymousAxis").body) + "\n"
    out += "  | .anon maybe_name => " + SymStr("AnonymousAxis.__str__", {"_identifier": ("strflag", "maybe_name", True)}).body(str_of("AnonymousAxis").body) + "\n"
    out += "  | .const identifier value => " + SymStr("ConstantAxis.__str__", {"_identifier": ("name", "identifier"), "_value": ("int", "value")}).body(str_of("ConstantAxis").body) + "\n\n"
    f = method("Shape", "__init__")
    want = ["_symbols = symbols if isinstance(symbols, tuple) else (symbols,)",
            "self._raveled_expressions = [AnonymousAxis(...) if isinstance(symbol, EllipsisType) else symbol for symbol in _symbols]"]
    if f is None or [a.arg for a in f.args.args] != ["self", "symbols"] or [_src(s) for s in _strip(f.body)] != want:
        raise TErr("Shape.__init__: " + " ; ".join(_src(s)[:90] for s in _strip(f.body)) if f else "Shape.__init__ not found")
    f = method("Shape", "__class_getitem__")
    if f is None or [a.arg for a in f.args.args] != ["cls", "args"] or [_src(s) for s in _strip(f.body)] != ["return cls(args)"]:
        raise TErr("Shape.__class_getitem__ is not `return cls(args)`")
    f = str_of("Shape")
    b = _strip(f.body)
    ok = len(b) == 1 and isinstance(b[0], ast.Return) and isinstance(b[0].value, ast.Call) and isinstance(b[0].value.func, ast.Attribute) \
        and b[0].value.func.attr == "join" and isinstance(b[0].value.func.value, ast.Constant) and isinstance(b[0].value.func.value.value, str) \
        and [_src(a) for a in b[0].value.args] == ["map(str, self._raveled_expressions)"]
    if not ok:
        raise TErr(f"Shape.__str__: `{_src(b[0])[:100]}`")
    sep = b[0].value.func.value.value
    out += "/-- `str(Shape[...])`: every entry of the subscript is constructed before `Shape` prints any of them -/\n"
    out += "def buildAxis : Axis → Except PrintErr Unit\n  | .expr s => symBuild s\n  | _ => .ok ()\n\n"
    out += "def shapeStr (axes : List Axis) : Except PrintErr (List Char) := do\n"
    out += "  let _ ← axes.mapM buildAxis\n"
    out += f"  let parts ← axes.mapM axisStr\n  pure (joinStr {_lstr(sep)}.toList parts)\n\n"

    # ---- TensorTypeBase.__class_getitem__ -------------------------------------------------------------------------
    with open(os.path.join(lib_dir, "_tensor_type_base.py")) as fh:
        tmod = ast.parse(fh.read(), filename="_tensor_type_base.py")
    f = _find_method(tmod, "TensorTypeBase", "__class_getitem__")
    b = _strip(f.body)
    if [a.arg for a in f.args.args] != ["cls", "shape_string"] or [_src(d) for d in f.decorator_list] != ["classmethod"] or len(b) != 1 or not isinstance(b[0], ast.Return):
        raise TErr("TensorTypeBase.__class_getitem__: signature")
    c = b[0].value
    if not (isinstance(c, ast.Call) and _src(c.func) == "cls" and len(c.args) == 1 and not c.keywords):
        raise TErr(f"TensorTypeBase.__class_getitem__: `{_src(c)[:100]}`")

    def arg_for(kind):
        """the argument of `cls(...)` for a subscript of class `kind` -> (monadic?, Lean term : Option (List Char))"""
        def go(e):
            if isinstance(e, ast.Name) and e.id == "shape_string":
                return {"str": (False, "(some s)"), "NoneType": (False, "none"), "Shape": None}[kind]
            if isinstance(e, ast.Call) and _src(e.func) == "str" and [_src(a) for a in e.args] == ["shape_string"]:
                return {"str": (False, "(some s)"), "NoneType": (False, "(some \"None\".toList)"), "Shape": (True, "shapeStr axes")}[kind]
            if isinstance(e, ast.IfExp) and isinstance(e.test, ast.Call) and _src(e.test.func) == "isinstance" and _src(e.test.args[0]) == "shape_string":
                names = _union_names(e.test.args[1])
                if names is None:
                    return None
                return go(e.body) if kind in names else go(e.orelse)
            return None
        r = go(c.args[0])
        if r is None:
            raise TErr(f"TensorTypeBase.__class_getitem__: argument `{_src(c.args[0])[:100]}` for a subscript of class {kind}")
        return r

    out += "/-- the subscript of `TensorType[...]` -/\ninductive GetItemArg\n  | str (s : List Char)\n  | none\n  | shape (axes : List Axis)\n\n"
    out += "/-- `TensorTypeBase.__class_getitem__`: a symbolic shape is printed and handed to the string parser -/\n"
    out += "def classGetItem (cls : Nat) : GetItemArg → Except PrintErr (Except ShapeErr Ann)\n"
    for kind, pat in (("str", ".str s"), ("NoneType", ".none"), ("Shape", ".shape axes")):
        monadic, term = arg_for(kind)
        if monadic:
            out += f"  | {pat} => do let printed ← {term}; pure (construct (some printed) cls false)\n"
        else:
            out += f"  | {pat} => .ok (construct {term} cls false)\n"
    out += "\nend Dltype.Gen\n"
    return out


# =====================================================================================================================
# the decoration-time part of `dltyped` (`_inner_dltyped` up to the definition of the wrapper)  ->  Generated/Decorate.lean
# =====================================================================================================================

DECOR_ATOMS = {
    "_dependency_utilities.is_torch_scripting()": "scripting",
    "enabled": "enabled",
    "scope_provider == 'self'": "selfProvider",
    "is_method": "isMethod",
    # hints that cannot be resolved at decoration time (NameError -> None) are the `fwd` call style of the harness: outside this definition
    "dltype_hints is not None": "true",
    "all((all((vv is None for vv in v)) for v in dltype_hints.values()))": "(hints.all (fun h => h.anns.all Option.isNone))",
}
IS_METHOD_SRC = "is_method = bool('self' in signature.parameters or 'cls' in signature.parameters) if signature else True"
GET_HINTS_SRC = [
    "if existing_hints is not None:\n    return existing_hints",
    "try:\n    return {name: DLTypeAnnotation.from_hint(hint, name) for name, hint in get_type_hints(func, include_extras=True).items()}\nexcept NameError:\n    return None",
]


def gen_decorate(lib_dir: str, header: str) -> str:
    with open(os.path.join(lib_dir, "_core.py")) as fh:
        mod = ast.parse(fh.read(), filename="_core.py")
    inner = _inner_function(mod, "dltyped", "_inner_dltyped")
    helper = next((n for n in mod.body if isinstance(n, ast.FunctionDef) and n.name == "_maybe_get_type_hints"), None)
    if helper is None or [_src(s) for s in _strip(helper.body)] != GET_HINTS_SRC:
        raise TErr("_maybe_get_type_hints: " + (" ; ".join(_src(s)[:80] for s in _strip(helper.body)) if helper else "not found"))

    def cond(e) -> str:
        if isinstance(e, ast.BoolOp):
            return "(" + (" && " if isinstance(e.op, ast.And) else " || ").join(cond(v) for v in e.values) + ")"
        if isinstance(e, ast.UnaryOp) and isinstance(e.op, ast.Not):
            return f"(!{cond(e.operand)})"
        t = DECOR_ATOMS.get(_src(e))
        if t is None:
            raise TErr(f"_inner_dltyped: condition `{_src(e)[:100]}`")
        return t

    lines = []
    have_hints = False
    done = False
    for s in _strip(inner.body):
        src = _src(s)
        if done:
            raise TErr(f"_inner_dltyped: statement after `return wrapper`: `{src[:80]}`")
        if isinstance(s, ast.If) and not s.orelse:
            body = [x for x in s.body if not (isinstance(x, ast.Expr) and isinstance(x.value, ast.Call) and _src(x.value.func) in ("_logger.warning", "_logger.debug", "warnings.warn"))]
            body = [x for x in body if not (isinstance(x, ast.Assign) and isinstance(x.value, (ast.Constant, ast.JoinedStr)))]
            if len(body) == 1 and isinstance(body[0], ast.Return) and _src(body[0].value) == "func":
                c = cond(s.test)
                if "hints" in c and not have_hints:
                    raise TErr("_inner_dltyped: the hints are tested before they are looked up")
                lines.append(f"if {c} then .identity else")
                continue
            if len(body) == 1 and isinstance(body[0], ast.Raise) and _src(body[0].exc).startswith("TypeError"):
                lines.append(f"if {cond(s.test)} then .error .typeError else")
                continue
            raise TErr(f"_inner_dltyped: branch `{src[:120]}`")
        if src == "signature = _maybe_get_signature(None, func)" or src == "return_key = 'return'":
            continue
        if src == IS_METHOD_SRC:
            continue
        if src.startswith("is_method ="):
            raise TErr(f"_inner_dltyped: `{src[:160]}`")
        if src == "dltype_hints = _maybe_get_type_hints(None, func)":
            lines.append("match hintsOf params with\n  | .error e => .error e\n  | .ok ps =>\n  match (match ret with | none => Except.ok none | some h => (fromHint h false).map some) with\n  | .error e => .error e\n  | .ok r =>\n"
                         "  let hints : List HintAnns := ps.map Prod.snd ++ (match r with | some x => [x] | none => [])")
            have_hints = True
            continue
        if isinstance(s, ast.FunctionDef) and s.name == "wrapper":
            if sorted(_src(d) for d in s.decorator_list) != ["_dependency_utilities.torch_jit_unused", "wraps(func)"]:
                raise TErr("wrapper: decorators " + ", ".join(_src(d) for d in s.decorator_list))
            continue
        if src == "return wrapper":
            if not have_hints:
                raise TErr("_inner_dltyped: the wrapper is returned without the hints having been looked up")
            lines.append(".wrapped { params := ps, ret := r }")
            done = True
            continue
        raise TErr(f"_inner_dltyped: statement `{src[:120]}`")
    if not done:
        raise TErr("_inner_dltyped: no `return wrapper`")
    out = header
    out += "import DltypeModel.Entry\nset_option linter.unusedVariables false\nnamespace Dltype.Gen\nopen Dltype\n\n"
    out += ("/-- `dltyped(scope_provider, enabled=…)(func)`: everything `_inner_dltyped` does before it defines the wrapper, in order.\n"
            "    `scripting` = `torch.jit.is_scripting()`, `selfProvider` = the string \"self\" was given, `isMethod` = the signature has a parameter\n"
            "    called `self` or `cls` (or is unknown); the hints are `_maybe_get_type_hints` = `from_hint` of every annotation (its TypeError propagates) -/\n")
    out += "def decorate (scripting enabled selfProvider isMethod : Bool) (params : List (Name × Hint)) (ret : Option Hint) : Decorated :=\n"
    out += "".join("  " + l + "\n" for l in lines)
    out += "\nend Dltype.Gen\n"
    return out


# =====================================================================================================================
# TensorTypeBase.__get_pydantic_core_schema__ (everything after the validator is defined)  ->  Generated/PydHook.lean
# =====================================================================================================================

PYDHOOK_ATOMS = {
    "_deps.is_numpy_available()": "(some numpyAvailable)",
    # `np` is only bound when numpy could be imported: evaluating this test without numpy is a NameError
    "typing.get_origin(source_type) is np.ndarray": "(if numpyAvailable then some isNdarray else none)",
    "self.DTYPES": "(some hasDtypes)",
    "any((dtype not in self.DTYPES for dtype in dtypes))": "(some (declared.any (fun d => !member d)))",
}
PYDHOOK_HEADER = """/-- what the hook does with one annotated field at class-definition time -/
inductive SchemaOutcome
  | rejectDtype                      -- DLTypeDtypeError naming the field
  | schema (ndarrayInstance : Bool)  -- a schema is returned (an `isinstance(np.ndarray)` schema for numpy array types)
  | nameError                        -- `np` evaluated although numpy could not be imported
  deriving DecidableEq, Repr

/-- short-circuit `and` / `or` / `not` over tests that may fail to evaluate (`none`) -/
def andS (a : Option Bool) (b : Option Bool) : Option Bool :=
  match a with | some false => some false | some true => b | none => none
def orS (a : Option Bool) (b : Option Bool) : Option Bool :=
  match a with | some true => some true | some false => b | none => none
def notS (a : Option Bool) : Option Bool := a.map (!·)

"""


def gen_pydhook(lib_dir: str, header: str) -> str:
    with open(os.path.join(lib_dir, "_tensor_type_base.py")) as fh:
        mod = ast.parse(fh.read(), filename="_tensor_type_base.py")
    f = _find_method(mod, "TensorTypeBase", "__get_pydantic_core_schema__")
    if [a.arg for a in f.args.args] != ["self", "source_type", "handler"]:
        raise TErr("__get_pydantic_core_schema__: parameters")
    b = _strip(f.body)
    if not (b and isinstance(b[0], ast.FunctionDef) and b[0].name == "validate_tensor"):
        raise TErr("__get_pydantic_core_schema__: does not start with the definition of validate_tensor")
    rest = b[1:]

    def cond(e) -> str:
        if isinstance(e, ast.BoolOp):
            fn = "andS" if isinstance(e.op, ast.And) else "orS"
            t = cond(e.values[-1])
            for v in reversed(e.values[:-1]):
                t = f"({fn} {cond(v)} {t})"
            return t
        if isinstance(e, ast.UnaryOp) and isinstance(e.op, ast.Not):
            return f"(notS {cond(e.operand)})"
        t = PYDHOOK_ATOMS.get(_src(e))
        if t is None:
            raise TErr(f"__get_pydantic_core_schema__: condition `{_src(e)[:100]}`")
        return t

    RET = "return core_schema.with_info_after_validator_function(validate_tensor, schema=core_schema.is_instance_schema(source_type), field_name=handler.field_name)"
    RAISE = "raise _errors.DLTypeDtypeError(tensor_name=handler.field_name, expected=self.DTYPES, received=dtypes)"

    def block(stmts, nd: str, have_dtypes: bool) -> str:
        """`nd` = Lean Bool: source_type has been replaced by np.ndarray"""
        if not stmts:
            raise TErr("__get_pydantic_core_schema__: falls off the end")
        s = stmts[0]
        src = _src(s)
        if src == "source_type = unwrap_type_alias(source_type)":
            return block(stmts[1:], nd, have_dtypes)
        if src == "dtypes = _resolve_numpy_dtype(source_type)":
            return block(stmts[1:], nd, True)
        if src == "source_type = np.ndarray":
            return block(stmts[1:], "true", have_dtypes)
        if src == RET:
            return f".schema {nd}"
        if src == RAISE:
            if not have_dtypes:
                raise TErr("__get_pydantic_core_schema__: `dtypes` used before it is computed")
            return ".rejectDtype"
        if isinstance(s, ast.If) and not s.orelse:
            c = cond(s.test)
            if "declared" in c and not have_dtypes:
                raise TErr("__get_pydantic_core_schema__: `dtypes` tested before it is computed")
            inner = list(s.body)
            # does the branch leave (raise / return) or fall through to the statements after the `if`?
            leaves = isinstance(inner[-1], (ast.Raise, ast.Return))
            then = block(inner + ([] if leaves else stmts[1:]), nd, have_dtypes)
            els = block(stmts[1:], nd, have_dtypes)
            return f"(match {c} with\n    | none => .nameError\n    | some true => {then}\n    | some false => {els})"
        raise TErr(f"__get_pydantic_core_schema__: statement `{src[:120]}`")

    body = block(rest, "false", False)
    out = header
    out += "import DltypeModel.Check\nset_option linter.unusedVariables false\nnamespace Dltype.Gen\nopen Dltype\n\n" + PYDHOOK_HEADER
    out += ("/-- `TensorTypeBase.__get_pydantic_core_schema__` after the validator is defined. `isNdarray` = the (unwrapped) base type is a numpy array\n"
            "    type, `declared` = the scalar types it declares (`_resolve_numpy_dtype`), `hasDtypes` / `member` = the class's `DTYPES` -/\n")
    out += "def schemaHook (numpyAvailable isNdarray hasDtypes : Bool) (member : DT → Bool) (declared : List DT) : SchemaOutcome :=\n  " + body + "\n\n"
    out += _gen_numpy_dtype(mod)
    out += _gen_unwrap_alias(mod)
    out += "end Dltype.Gen\n"
    return out


NPDTYPE_HEADER = """/-- a `typing` object as `_resolve_numpy_dtype` sees it: a scalar type (no arguments) or a subscripted generic / a union (its
    `typing.get_args`) -/
inductive TObj
  | leaf (d : DT)
  | node (args : List TObj)

/-- `typing.get_args(x)` -/
def TObj.getArgs : TObj → List TObj
  | .leaf _ => []
  | .node as => as

/-- `a or b` over sequences: the first when it is non-empty -/
def orSeq {α} (a b : List α) : List α := if a.isEmpty then b else a

"""


def _gen_numpy_dtype(mod) -> str:
    """`_resolve_numpy_dtype`: the index taken from the array type's arguments, the arguments of that, and the flattening comprehension"""
    f = next((n for n in mod.body if isinstance(n, ast.FunctionDef) and n.name == "_resolve_numpy_dtype"), None)
    if f is None or [a.arg for a in f.args.args] != ["np_array_t"]:
        raise TErr("_resolve_numpy_dtype: not found / parameters")
    body = _strip(f.body)
    known = {"np_array_t": "np_array_t"}

    def obj(e) -> str:
        """an expression denoting one typing object or a sequence of them"""
        if isinstance(e, ast.Name) and e.id in known:
            return e.id
        if isinstance(e, ast.Call) and _src(e.func) == "typing.get_args" and len(e.args) == 1 and not e.keywords:
            return f"{obj(e.args[0])}.getArgs"
        if isinstance(e, ast.Call) and _src(e.func) == "typing.cast" and len(e.args) == 2:
            return obj(e.args[1])
        if isinstance(e, ast.BoolOp) and isinstance(e.op, ast.Or) and len(e.values) == 2:
            return f"(orSeq {obj(e.values[0])} {obj(e.values[1])})"
        if isinstance(e, ast.List):
            return "[" + ", ".join(obj(x) for x in e.elts) + "]"
        raise TErr(f"_resolve_numpy_dtype: expression `{_src(e)[:120]}`")

    lines = []
    for s in body[:-1]:
        if not (isinstance(s, ast.Assign) and len(s.targets) == 1 and isinstance(s.targets[0], ast.Name)):
            raise TErr(f"_resolve_numpy_dtype: statement `{_src(s)[:120]}`")
        name = s.targets[0].id
        v = s.value
        if isinstance(v, ast.Subscript) and isinstance(v.slice, ast.Constant) and isinstance(v.slice.value, int) and v.slice.value >= 0:
            lines.append(f"match {obj(v.value)}[{v.slice.value}]? with\n  | none => none   -- IndexError\n  | some {name} =>")
        else:
            lines.append(f"let {name} := {obj(v)}")
        known[name] = name
    r = body[-1]
    if not (isinstance(r, ast.Return) and isinstance(r.value, ast.ListComp)):
        raise TErr("_resolve_numpy_dtype: the last statement is not `return [ … ]`")
    comp = r.value
    if any(g.ifs or g.is_async or not isinstance(g.target, ast.Name) for g in comp.generators) or not 1 <= len(comp.generators) <= 2:
        raise TErr(f"_resolve_numpy_dtype: comprehension `{_src(comp)[:160]}`")
    g0 = comp.generators[0]
    it0 = obj(g0.iter)
    known[g0.target.id] = g0.target.id
    if len(comp.generators) == 2:
        g1 = comp.generators[1]
        it1 = obj(g1.iter)
        known[g1.target.id] = g1.target.id
        lines.append(f"some ({it0}.flatMap (fun {g0.target.id} => ({it1}).map (fun {g1.target.id} => {obj(comp.elt)})))")
    else:
        lines.append(f"some ({it0}.map (fun {g0.target.id} => {obj(comp.elt)}))")
    out = NPDTYPE_HEADER
    out += ("/-- `_resolve_numpy_dtype(np_array_t)`: the scalar types a numpy array type declares, unions flattened (`none` = IndexError: the type\n"
            "    has fewer arguments than the index read) -/\n")
    out += "def resolveNumpyDtype (np_array_t : TObj) : Option (List TObj) :=\n" + "".join("  " + l + "\n" for l in lines) + "\n"
    return out


UNWRAP_HEADER = """/-- a `typing` object as `unwrap_type_alias` sees it -/
inductive AObj
  | cls (id : Nat)                              -- a class, a type variable, a special form: no origin, no `__value__`
  | alias (id : Nat) (value : AObj)             -- `type X[…] = value` (an alias object): `typing.get_origin` is None, `__value__` is the value
  | sub (origin : AObj) (args : List AObj)      -- `origin[args]`: `typing.get_origin` / `typing.get_args`; other attributes are the origin's
  | inst (generic : AObj) (args : List AObj)    -- what `generic[args]` evaluates to for the *value* of an alias (typing substitutes the parameters)

/-- `typing.get_origin(x)` -/
def AObj.getOrigin : AObj → Option AObj
  | .sub o _ => some o
  | .inst g _ => (match g with | .sub o _ => some o | _ => none)   -- substitution keeps the head; never inspected by one call
  | _ => none
/-- `typing.get_args(x)` -/
def AObj.getArgs : AObj → List AObj
  | .sub _ as => as
  | .inst _ as => as
  | _ => []
/-- `x.__value__` (`none` = AttributeError); a subscripted generic hands attribute access on to its origin -/
def AObj.value? : AObj → Option AObj
  | .alias _ v => some v
  | .sub o _ => o.value?
  | .inst g _ => (match g with | .sub o _ => o.value? | _ => none)
  | _ => none

/-- a Python value in `unwrap_type_alias`: a typing object or `None` -/
abbrev PV := Option AObj
def pvOrigin (e : PV) : PV := e.bind AObj.getOrigin
def pvArgs (e : PV) : List AObj := match e with | some x => x.getArgs | none => []
def pvValue (e : PV) : PV := e.bind AObj.value?

"""


def _gen_unwrap_alias(mod) -> str:
    """`unwrap_type_alias`: statements read one by one; every local is a Python value (`PV`), the result `Option PV` (`none` = an exception)"""
    f = next((n for n in mod.body if isinstance(n, ast.FunctionDef) and n.name == "unwrap_type_alias"), None)
    if f is None or [a.arg for a in f.args.args] != ["tp"] or f.args.kwonlyargs or f.args.vararg or f.args.kwarg or f.decorator_list:
        raise TErr("unwrap_type_alias: not found / parameters / decorated")
    known = {"tp"}

    def is_value_attr(e) -> bool:
        return isinstance(e, ast.Constant) and e.value == "__value__"

    def pv(e) -> str:
        """an expression denoting a Python value that cannot raise"""
        if isinstance(e, ast.Name) and e.id in known:
            return e.id
        if isinstance(e, ast.Constant) and e.value is None:
            return "(none : PV)"
        if isinstance(e, ast.Call) and _src(e.func) == "typing.get_origin" and len(e.args) == 1 and not e.keywords:
            return f"(pvOrigin {pv(e.args[0])})"
        if isinstance(e, ast.Call) and _src(e.func) == "getattr" and len(e.args) == 3 and not e.keywords and is_value_attr(e.args[1]):
            return f"(match pvValue {pv(e.args[0])} with | some v => some v | none => {pv(e.args[2])})"
        raise TErr(f"unwrap_type_alias: expression `{_src(e)[:120]}`")

    def args(e) -> str:
        if isinstance(e, ast.Call) and _src(e.func) == "typing.get_args" and len(e.args) == 1 and not e.keywords:
            return f"(pvArgs {pv(e.args[0])})"
        raise TErr(f"unwrap_type_alias: subscript `{_src(e)[:120]}`")

    def result(e) -> str:
        """an expression in return position: `Option PV`"""
        if isinstance(e, ast.Subscript) and isinstance(e.value, ast.Attribute) and e.value.attr == "__value__":
            return f"(match pvValue {pv(e.value.value)} with | none => none | some v => some (some (AObj.inst v {args(e.slice)})))"
        if isinstance(e, ast.Attribute) and e.attr == "__value__":
            return f"(match pvValue {pv(e.value)} with | none => none | some v => some (some v))"
        return f"(some {pv(e)})"

    def cond(e) -> str:
        if isinstance(e, ast.BoolOp):
            return "(" + (" && " if isinstance(e.op, ast.And) else " || ").join(cond(v) for v in e.values) + ")"
        if isinstance(e, ast.UnaryOp) and isinstance(e.op, ast.Not):
            return f"(!{cond(e.operand)})"
        if isinstance(e, ast.Compare) and len(e.ops) == 1 and isinstance(e.comparators[0], ast.Constant) and e.comparators[0].value is None:
            if isinstance(e.ops[0], ast.IsNot):
                return f"{pv(e.left)}.isSome"
            if isinstance(e.ops[0], ast.Is):
                return f"{pv(e.left)}.isNone"
        if isinstance(e, ast.Call) and _src(e.func) == "hasattr" and len(e.args) == 2 and is_value_attr(e.args[1]):
            return f"(pvValue {pv(e.args[0])}).isSome"
        raise TErr(f"unwrap_type_alias: condition `{_src(e)[:120]}`")

    def block(stmts) -> str:
        if not stmts:
            return "(some (none : PV))"   # falls off the end: returns None
        s = stmts[0]
        if isinstance(s, ast.Assign) and len(s.targets) == 1 and isinstance(s.targets[0], ast.Name):
            t = pv(s.value)
            known.add(s.targets[0].id)
            return f"let {s.targets[0].id} : PV := {t}\n  " + block(stmts[1:])
        if isinstance(s, ast.Return):
            return result(s.value) if s.value is not None else "(some (none : PV))"
        if isinstance(s, ast.If):
            c = cond(s.test)
            then_leaves = bool(s.body) and isinstance(s.body[-1], ast.Return)
            else_leaves = bool(s.orelse) and isinstance(s.orelse[-1], ast.Return)
            saved = set(known)
            then = block(list(s.body) + ([] if then_leaves else stmts[1:]))
            known.clear(); known.update(saved)
            els = block(list(s.orelse) + ([] if else_leaves else stmts[1:]))
            known.clear(); known.update(saved)
            return f"if {c} then {then} else\n  {els}"
        raise TErr(f"unwrap_type_alias: statement `{_src(s)[:120]}`")

    body = block(_strip(f.body))
    out = UNWRAP_HEADER
    out += ("/-- `unwrap_type_alias(tp)`: `some (some x)` = returns the typing object `x`, `some none` = returns None, `none` = raises -/\n")
    out += "def unwrapTypeAlias (tp : AObj) : Option PV :=\n  let tp : PV := some tp\n  " + body + "\n\n"
    return out


# =====================================================================================================================
# decoration-time parts of dltyped_namedtuple / dltyped_dataclass  ->  Generated/ClassDecor.lean
# =====================================================================================================================

NT_ATOMS = {"enabled": "enabled", "isinstance(cls, type) and hasattr(cls, '_fields') and issubclass(cls, tuple)": "isNamedTuple", "dltype_fields": "(!fields'.isEmpty)"}
NT_PINNED = ["field_hints = get_type_hints(cls, include_extras=True)", "dltype_fields: dict[str, tuple[DLTypeAnnotation | None, ...]] = {}", "original_new = cls.__new__",
             "namespace = {'__new__': validated_new, '__module__': cls.__module__, '__qualname__': cls.__qualname__}"]
NT_LOOP = "for field_name in cls._fields:\n    if field_name in field_hints:\n        hint = field_hints[field_name]\n        dltype_fields[field_name] = DLTypeAnnotation.from_hint(hint, field_name)"
NT_RETURN = "return cast('type[NT]', type(cls.__name__, (cls,), namespace))"
DC_ATOMS = {"enabled": "enabled", "_dependency_utilities.is_torch_scripting()": "scripting", "hasattr(cls, '__dataclass_fields__')": "isDataclass"}
DC_PINNED = ["original_init = cls.__init__", "field_hints = get_type_hints(cls, include_extras=True)", "cls.__init__ = new_init"]
DC_HINTS = "dltype_hints = {name: DLTypeAnnotation.from_hint(hint, name) for name, hint in field_hints.items()}"


def gen_classdecor(lib_dir: str, header: str) -> str:
    with open(os.path.join(lib_dir, "_core.py")) as fh:
        mod = ast.parse(fh.read(), filename="_core.py")

    def compile_one(outer, inner, atoms, pinned, hints_src, inner_def, final_src, final_term):
        f = _inner_function(mod, outer, inner)

        def cond(e) -> str:
            t = atoms.get(_src(e))
            if t is not None:
                return t
            if isinstance(e, ast.BoolOp):
                return "(" + (" && " if isinstance(e.op, ast.And) else " || ").join(cond(v) for v in e.values) + ")"
            if isinstance(e, ast.UnaryOp) and isinstance(e.op, ast.Not):
                return f"(!{cond(e.operand)})"
            raise TErr(f"{inner}: condition `{_src(e)[:100]}`")

        lines, have_hints, done = [], False, False
        for s in _strip(f.body):
            src = _src(s)
            if done:
                raise TErr(f"{inner}: statement after the final return: `{src[:80]}`")
            if isinstance(s, ast.If) and not s.orelse:
                body = [x for x in s.body if not (isinstance(x, ast.Assign) and isinstance(x.value, (ast.Constant, ast.JoinedStr)))]
                c = cond(s.test)
                if "fields'" in c and not have_hints:
                    raise TErr(f"{inner}: the field table is tested before it is built")
                if len(body) == 1 and isinstance(body[0], ast.Return) and _src(body[0].value) == "cls":
                    lines.append(f"if {c} then .identity else")
                    continue
                if len(body) == 1 and isinstance(body[0], ast.Raise) and _src(body[0].exc).startswith("TypeError"):
                    lines.append(f"if {c} then .error .typeError else")
                    continue
                raise TErr(f"{inner}: branch `{src[:120]}`")
            if src in pinned:
                continue
            if src == hints_src:
                lines.append("match hintsOf fields with\n  | .error e => .error e\n  | .ok fields' =>")
                have_hints = True
                continue
            if isinstance(s, ast.FunctionDef) and s.name == inner_def:
                continue
            if src == final_src:
                if not have_hints:
                    raise TErr(f"{inner}: returns before the hints are translated")
                lines.append(final_term)
                done = True
                continue
            raise TErr(f"{inner}: statement `{src[:140]}`")
        if not done:
            raise TErr(f"{inner}: no final return")
        return "".join("  " + l + "\n" for l in lines)

    nt = compile_one("dltyped_namedtuple", "_inner_dltyped_namedtuple", NT_ATOMS, NT_PINNED, NT_LOOP, "validated_new", NT_RETURN, ".wrapped fields'")
    dc = compile_one("dltyped_dataclass", "_inner_dltyped_dataclass", DC_ATOMS, DC_PINNED, DC_HINTS, "new_init", "return cls", ".wrapped fields'")
    out = header
    out += "import DltypeModel.Entry\nset_option linter.unusedVariables false\nnamespace Dltype.Gen\nopen Dltype\n\n"
    out += ("/-- what a class decorator hands back: the class itself untouched, a validating class over the translated field hints, or an error -/\n"
            "inductive ClassDecorated\n  | identity\n  | wrapped (fields : List (Name × HintAnns))\n  | error (e : DecorErr)\n  deriving Repr\n\n")
    out += ("/-- `_inner_dltyped_namedtuple` up to the definition of the validating `__new__`: `fields` = the NamedTuple's fields that have a\n"
            "    hint, in `cls._fields` order, each translated by `from_hint(hint, field_name)` (no `optional=` argument) -/\n")
    out += "def ntDecorate (enabled isNamedTuple : Bool) (fields : List (Name × Hint)) : ClassDecorated :=\n" + nt + "\n"
    out += ("/-- `_inner_dltyped_dataclass` up to the definition of the validating `__init__`: `fields` = every hinted name of the class (base\n"
            "    classes first: `typing.get_type_hints`) -/\n")
    out += "def dcDecorate (scripting enabled isDataclass : Bool) (fields : List (Name × Hint)) : ClassDecorated :=\n" + dc + "\nend Dltype.Gen\n"
    return out


# =====================================================================================================================
# _resolve_types / _resolve_value (+ the head of DLTypeContext.add and its zip over a Python value)  ->  Generated/Resolve.lean
# =====================================================================================================================
#
# A small expression compiler for the comprehension-style one-liners of the two helpers:
#   x is None / x is not None            -> x.isNone / x.isSome            (x an Option-typed variable)
#   all(E for v in L) / any(...)         -> L.all (fun v => E) / L.any …
#   tuple(E for v in L), [E for v in L]  -> L.map (fun v => E)
#   A if v is not None else B            -> match v with | some v => A | none => B   (v is bound to the payload in A)
#   v.dltype_annotation                  -> v.dltypeAnnotation  (the model keeps only that field of a DLTypeAnnotation)
#   None (as a produced element)         -> none ;  a produced non-None element -> some …
#   isinstance(type_hint, _TupleHint)    -> isTupleHint ;  cast("…", value) -> value ;  (value,) -> .tup [value]
# `if <param> is None or C: return R1` followed by `return R2` becomes a match on the parameter, so that C and R2 see the payload.

RESOLVE_HEADER = """/-- the `dltype_annotation` field of a `DLTypeAnnotation` (the model keeps only that field of the pair) -/
abbrev _root_.Dltype.Ann.dltypeAnnotation (a : Ann) : Ann := a

"""

RESOLVE_SKELETON = """/-- `DLTypeContext.add(name, values, annotations)` whole (fixed text around the regenerated loop `Gen.addGo`): the head
    `if dltype_annotation_tup is None: return`, then `zip(annotations, values, strict=True)` over a Python value — a tuple is walked,
    an array would yield sub-arrays (not modelled), anything else is not iterable (TypeError) -/
def ctxAdd (name : Name) (values : Value) (annotations : Option (List (Option Ann))) : Outcome (List Entry) :=
  match annotations with
  | none => .ok []
  | some as =>
    match values with
    | .tup vs => addGo name 0 as vs
    | .tensor _ => .unmodelled
    | _ => .pyExc .typeError

/-- `ctx.add(name, _resolve_value(value, hint), _resolve_types(hint))`: the statement of the wrapper and of the two class entry points -/
def addResolved (name : Name) (value : Value) (hint : HintAnns) : Outcome (List Entry) :=
  ctxAdd name (resolveValue value hint.isTuple) (resolveTypes (some hint.anns))

"""


class ResolveComp:
    def __init__(self, fn: str):
        self.fn = fn

    def err(self, e, what="expression"):
        raise TErr(f"{self.fn}: {what} `{_src(e)[:120]}`")

    def is_none_test(self, e):
        """(variable, positive?) for `v is None` / `v is not None`"""
        if (isinstance(e, ast.Compare) and len(e.ops) == 1 and isinstance(e.left, ast.Name) and isinstance(e.comparators[0], ast.Constant)
                and e.comparators[0].value is None and isinstance(e.ops[0], (ast.Is, ast.IsNot))):
            return e.left.id, isinstance(e.ops[0], ast.Is)
        return None

    def gen_of(self, e):
        """the single generator of a comprehension: (element expression, loop variable, iterated variable)"""
        if isinstance(e, (ast.GeneratorExp, ast.ListComp)) and len(e.generators) == 1:
            g = e.generators[0]
            if not g.ifs and not g.is_async and isinstance(g.target, ast.Name) and isinstance(g.iter, ast.Name):
                return e.elt, g.target.id, g.iter.id
        self.err(e, "comprehension")

    def boolean(self, e, opts: set) -> str:
        t = self.is_none_test(e)
        if t is not None:
            v, pos = t
            if v not in opts:
                self.err(e, "None test of a variable that cannot be None here")
            return f"{v}.isNone" if pos else f"{v}.isSome"
        if isinstance(e, ast.Call) and isinstance(e.func, ast.Name) and e.func.id in ("all", "any") and len(e.args) == 1 and not e.keywords:
            elt, v, it = self.gen_of(e.args[0])
            return f"{it}.{e.func.id} (fun {v} => {self.boolean(elt, opts | {v})})"
        if isinstance(e, ast.UnaryOp) and isinstance(e.op, ast.Not):
            return f"(!{self.boolean(e.operand, opts)})"
        if isinstance(e, ast.BoolOp):
            return "(" + (" && " if isinstance(e.op, ast.And) else " || ").join(self.boolean(v, opts) for v in e.values) + ")"
        self.err(e, "condition")

    def element(self, e, opts: set, bound: set) -> str:
        """an element of the produced tuple: an `Option Ann`"""
        if isinstance(e, ast.Constant) and e.value is None:
            return "none"
        if isinstance(e, ast.IfExp):
            t = self.is_none_test(e.test)
            if t is None or t[0] not in opts:
                self.err(e.test, "condition of a conditional expression")
            v, pos = t
            some_b, none_b = (e.orelse, e.body) if pos else (e.body, e.orelse)
            return (f"(match {v} with | some {v} => {self.element(some_b, opts - {v}, bound | {v})} | none => {self.element(none_b, opts - {v}, bound)})")
        if isinstance(e, ast.Attribute) and isinstance(e.value, ast.Name) and e.attr == "dltype_annotation":
            if e.value.id not in bound:
                self.err(e, "attribute of a value that may be None")
            return f"some {e.value.id}.dltypeAnnotation"
        if isinstance(e, ast.Name) and e.id in opts:
            return e.id
        self.err(e, "tuple element")

    def produced(self, e, opts: set) -> str:
        """what `_resolve_types` returns: `Option (List (Option Ann))`"""
        if isinstance(e, ast.Constant) and e.value is None:
            return "none"
        if isinstance(e, ast.Call) and isinstance(e.func, ast.Name) and e.func.id == "tuple" and len(e.args) == 1 and not e.keywords:
            elt, v, it = self.gen_of(e.args[0])
            if it in opts:
                self.err(e, "iteration over a value that may be None")
            return f"some ({it}.map (fun {v} => {self.element(elt, {v}, set())}))"
        if isinstance(e, ast.Name) and e.id not in opts:
            return f"some {e.id}"
        self.err(e, "returned value")


def gen_resolve(lib_dir: str, header: str) -> str:
    with open(os.path.join(lib_dir, "_core.py")) as fh:
        mod = ast.parse(fh.read(), filename="_core.py")
    fns = {n.name: n for n in mod.body if isinstance(n, ast.FunctionDef)}

    # _resolve_types ----------------------------------------------------------------------------------------
    f = fns.get("_resolve_types")
    if f is None or [a.arg for a in f.args.args] != ["annotations"]:
        raise TErr("_resolve_types: not found / parameters")
    if sorted(_src(d) for d in f.decorator_list) not in (["lru_cache()"], []):
        raise TErr("_resolve_types: decorators " + ", ".join(_src(d) for d in f.decorator_list))
    rc = ResolveComp("_resolve_types")
    body = _strip(f.body)
    p = "annotations"
    if not (len(body) == 2 and isinstance(body[0], ast.If) and not body[0].orelse and len(body[0].body) == 1 and isinstance(body[0].body[0], ast.Return)
            and isinstance(body[1], ast.Return)):
        raise TErr("_resolve_types: expected `if …: return …` followed by `return …`: " + " ; ".join(_src(s)[:80] for s in body))
    test = body[0].test
    first = test.values[0] if isinstance(test, ast.BoolOp) and isinstance(test.op, ast.Or) else test
    if rc.is_none_test(first) != (p, True):
        raise TErr(f"_resolve_types: the first test is not `{p} is None`: `{_src(test)[:120]}`")
    rest = test.values[1:] if isinstance(test, ast.BoolOp) and isinstance(test.op, ast.Or) else []
    r1_none = rc.produced(body[0].body[0].value, {p})
    r1 = rc.produced(body[0].body[0].value, set())
    r2 = rc.produced(body[1].value, set())
    if rest:
        c = " || ".join(rc.boolean(v, set()) for v in rest)
        some_branch = f"if {c} then {r1} else {r2}"
    else:
        some_branch = r2
    resolve_types = f"  match {p} with\n  | none => {r1_none}\n  | some {p} => {some_branch}\n"

    # _resolve_value ----------------------------------------------------------------------------------------
    f = fns.get("_resolve_value")
    if f is None or [a.arg for a in f.args.args] != ["value", "type_hint"] or f.decorator_list:
        raise TErr("_resolve_value: not found / parameters / decorated")
    body = _strip(f.body)
    if not (len(body) == 1 and isinstance(body[0], ast.Return)):
        raise TErr("_resolve_value: expected one `return`: " + " ; ".join(_src(s)[:80] for s in body))

    def val(e) -> str:
        if isinstance(e, ast.Name) and e.id == "value":
            return "value"
        if isinstance(e, ast.Call) and _src(e.func) in ("cast", "typing.cast") and len(e.args) == 2:
            return val(e.args[1])
        if isinstance(e, ast.Tuple):
            return ".tup [" + ", ".join(val(x) for x in e.elts) + "]"
        if isinstance(e, ast.IfExp):
            return f"(if {cnd(e.test)} then {val(e.body)} else {val(e.orelse)})"
        raise TErr(f"_resolve_value: expression `{_src(e)[:120]}`")

    def cnd(e) -> str:
        if _src(e) == "isinstance(type_hint, _TupleHint)":
            return "isTupleHint"
        if isinstance(e, ast.UnaryOp) and isinstance(e.op, ast.Not):
            return f"(!{cnd(e.operand)})"
        raise TErr(f"_resolve_value: condition `{_src(e)[:120]}`")

    resolve_value = "  " + val(body[0].value) + "\n"

    out = header
    out += "import DltypeModel.Entry\nimport DltypeModel.Generated.Core\nset_option linter.unusedVariables false\nnamespace Dltype.Gen\nopen Dltype\n\n"
    out += RESOLVE_HEADER
    out += "/-- `_resolve_types(annotations)`: `None` when there is nothing to check, else the annotation objects (with `None` kept in place) -/\n"
    out += "def resolveTypes (annotations : Option (List (Option Ann))) : Option (List (Option Ann)) :=\n" + resolve_types + "\n"
    out += ("/-- `_resolve_value(value, type_hint)`: the value itself exactly when the hint was a tuple hint (`isTupleHint` = `isinstance(type_hint, _TupleHint)`),\n"
            "    a one-element tuple otherwise -/\n")
    out += "def resolveValue (value : Value) (isTupleHint : Bool) : Value :=\n" + resolve_value + "\n"
    out += RESOLVE_SKELETON
    out += "end Dltype.Gen\n"
    return out


# =====================================================================================================================
# the messages of the error classes (_errors.py: `__init__` + `__str__`)  ->  Generated/Errors.lean
# =====================================================================================================================
#
# For every error class whose message is built from the facts of a report: the `__init__` assignments (`self._f = p`, `self._f = p or
# "default"`) are substituted into the f-string `__str__` returns; `", ".join(self._context.keys())` is the only helper statement read.
# Fields are typed by the table below (a name = text, a size / index = int).  DLTypeDtypeError / DLTypeUnsupportedTensorTypeError /
# DLTypeScopeProviderError print library objects (dtypes, classes, a provider): their text is outside the model.

ERR_PARAM_TYPES = {"index": "Int", "expected_shape": "Int", "actual": "Int", "expected": "Int", "tensor_name": "List Char", "missing_ref": "List Char",
                   "current_context": "List (List Char)"}
ERR_CLASSES = {"DLTypeShapeError": "shapeMessage", "DLTypeNDimsError": "ndimsMessage", "DLTypeDuplicateError": "duplicateMessage", "DLTypeInvalidReferenceError": "invalidRefMessage"}

ERR_HEADER = """/-- `a or b` on text: the first when it is non-empty (None and "" are both falsy) -/
def orText (a b : List Char) : List Char := if a.isEmpty then b else a

/-- `str(i)` of an int -/
def fmtI (i : Int) : List Char := (toString i).toList

/-- `sep.join(parts)` -/
def joinText (sep : List Char) : List (List Char) → List Char
  | [] => []
  | [x] => x
  | x :: rest => x ++ sep ++ joinText sep rest

"""


def gen_errors(lib_dir: str, header: str) -> str:
    with open(os.path.join(lib_dir, "_errors.py")) as fh:
        mod = ast.parse(fh.read(), filename="_errors.py")
    out = header + "set_option linter.unusedVariables false\nnamespace Dltype.Gen\n\n" + ERR_HEADER
    for cname, fname in ERR_CLASSES.items():
        cls = next((n for n in mod.body if isinstance(n, ast.ClassDef) and n.name == cname), None)
        if cls is None:
            raise TErr(f"_errors.py: class {cname} not found")
        init = next((m for m in cls.body if isinstance(m, ast.FunctionDef) and m.name == "__init__"), None)
        strm = next((m for m in cls.body if isinstance(m, ast.FunctionDef) and m.name == "__str__"), None)
        if init is None or strm is None:
            raise TErr(f"{cname}: __init__ / __str__ not found")
        params = [a.arg for a in init.args.args[1:]]
        if init.args.kwonlyargs or init.args.vararg or init.args.kwarg:
            raise TErr(f"{cname}.__init__: parameters")
        fields: dict = {}

        def text(e, env) -> tuple[str, str]:
            """(Lean term, type) of an expression over the parameters / fields / locals"""
            if isinstance(e, ast.Name) and e.id in env:
                return env[e.id]
            if isinstance(e, ast.Constant) and isinstance(e.value, str):
                return _lstr(e.value) + ".toList", "List Char"
            if isinstance(e, ast.Dict) and not e.keys:
                return "([] : List (List Char))", "List (List Char)"
            if isinstance(e, ast.BoolOp) and isinstance(e.op, ast.Or) and len(e.values) == 2:
                (a, ta), (b, tb) = text(e.values[0], env), text(e.values[1], env)
                if ta == tb == "List Char":
                    return f"(orText {a} {b})", "List Char"
                if ta == tb == "List (List Char)":
                    return f"(if {a}.isEmpty then {b} else {a})", ta
                raise TErr(f"{cname}: `or` between {ta} and {tb}")
            if isinstance(e, ast.Attribute) and isinstance(e.value, ast.Name) and e.value.id == "self" and e.attr in fields:
                return fields[e.attr]
            if (isinstance(e, ast.Call) and isinstance(e.func, ast.Attribute) and e.func.attr == "join" and isinstance(e.func.value, ast.Constant) and len(e.args) == 1
                    and isinstance(e.args[0], ast.Call) and isinstance(e.args[0].func, ast.Attribute) and e.args[0].func.attr == "keys" and not e.args[0].args):
                inner, t = text(e.args[0].func.value, env)
                if t != "List (List Char)":
                    raise TErr(f"{cname}: join over {t}")
                return f"(joinText {_lstr(e.func.value.value)}.toList {inner})", "List Char"
            if isinstance(e, ast.JoinedStr):
                parts = []
                for v in e.values:
                    if isinstance(v, ast.Constant):
                        parts.append(_lstr(v.value) + ".toList")
                    elif isinstance(v, ast.FormattedValue) and v.conversion == -1 and v.format_spec is None:
                        tm, ty = text(v.value, env)
                        parts.append(tm if ty == "List Char" else f"fmtI {tm}" if ty == "Int" else None)
                        if parts[-1] is None:
                            raise TErr(f"{cname}: a {ty} inside an f-string")
                    else:
                        raise TErr(f"{cname}: f-string part `{_src(v)[:60]}`")
                return "(" + " ++ ".join(parts) + ")", "List Char"
            raise TErr(f"{cname}: expression `{_src(e)[:100]}`")

        env = {}
        for p in params:
            if p == "error_ctx":
                continue
            if p not in ERR_PARAM_TYPES:
                raise TErr(f"{cname}.__init__: parameter `{p}`")
            env[p] = (p, ERR_PARAM_TYPES[p])
        for s in _strip(init.body):
            src = _src(s)
            if src.startswith("super().__init__("):
                continue
            if not (isinstance(s, ast.Assign) and len(s.targets) == 1 and isinstance(s.targets[0], ast.Attribute) and _src(s.targets[0].value) == "self"):
                raise TErr(f"{cname}.__init__: statement `{src[:100]}`")
            fields[s.targets[0].attr] = text(s.value, env)
        body = _strip(strm.body)
        loc = dict(env)
        for s in body[:-1]:
            if not (isinstance(s, ast.Assign) and len(s.targets) == 1 and isinstance(s.targets[0], ast.Name)):
                raise TErr(f"{cname}.__str__: statement `{_src(s)[:100]}`")
            loc[s.targets[0].id] = text(s.value, loc)
        if not isinstance(body[-1], ast.Return):
            raise TErr(f"{cname}.__str__: no return")
        tm, ty = text(body[-1].value, loc)
        if ty != "List Char":
            raise TErr(f"{cname}.__str__: returns {ty}")
        sig = " ".join(f"({p} : {ERR_PARAM_TYPES[p]})" for p in params if p != "error_ctx")
        out += f"/-- `str({cname}({', '.join(p + '=…' for p in params if p != 'error_ctx')}))` -/\ndef {fname} {sig} : List Char :=\n  {tm}\n\n"
    out += "end Dltype.Gen\n"
    return out
